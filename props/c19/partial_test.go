package c19

// TestPartialResponses: the response to a request is a multi-chunk message of
// which only the first k chunks arrive before the call times out (the rest
// arrives late or never). Whatever the channel keeps for such an abandoned
// request, it must stay "able to deliver all later responses": after several
// abandoned partial responses a request whose (multi-chunk) response arrives
// completely must still succeed. (The operations of TestTimeouts only ever
// hold back single-chunk responses.)

import (
	"context"
	"encoding/binary"
	"encoding/json"
	"fmt"
	"strings"
	"sync"
	"testing"
	"time"

	"github.com/gopcua/opcua/ua"
	"github.com/gopcua/opcua/uacp"
	"github.com/gopcua/opcua/uasc"
	"pgregory.net/rapid"

	"verif/pkg/ev"
	"verif/pkg/netx"
	"verif/pkg/script"
)

type partialT struct {
	MaxChunks uint32 `json:"client_max_chunk_count"` // the client's own limit for a message it receives
	TMs       int    `json:"t_ms"`                   // timeout of the abandoned requests
	Abandoned []int  `json:"abandoned_first_chunks"` // per abandoned request: how many chunks of its response arrive (the rest is cut off)
	Late      bool   `json:"rest_arrives_late"`      // the cut-off rest is delivered after the timeout instead of never
	FinalSize int    `json:"final_response_chunks"`  // chunks of the response to the final request (arrives completely)
}

const partialBuf = 8192

// partialTap forwards the first `keep` chunks of the next multi-chunk response
// and holds the rest back (released later or dropped).
type partialTap struct {
	mu     sync.Mutex
	tap    *netx.Tap
	armed  bool
	keep   int
	reqID  uint32
	seen   int
	held   [][]byte
	doneCh chan struct{} // closed when the final chunk of the cut response was seen
}

func (p *partialTap) arm(keep int) chan struct{} {
	p.mu.Lock()
	defer p.mu.Unlock()
	p.armed, p.keep, p.reqID, p.seen, p.held = true, keep, 0, 0, nil
	p.doneCh = make(chan struct{})
	return p.doneCh
}

func (p *partialTap) hook(dir netx.Dir, conn int, f []byte) [][]byte {
	p.mu.Lock()
	defer p.mu.Unlock()
	if dir != netx.S2C || !p.armed || len(f) < 24 || string(f[:3]) != "MSG" {
		return [][]byte{f}
	}
	id := binary.LittleEndian.Uint32(f[20:])
	if p.reqID == 0 {
		if f[3] != 'C' {
			return [][]byte{f} // a single-chunk response: not the one we wait for
		}
		p.reqID = id
	}
	if id != p.reqID {
		return [][]byte{f}
	}
	p.seen++
	final := f[3] != 'C'
	if final {
		p.armed = false
		close(p.doneCh)
	}
	if p.seen <= p.keep {
		return [][]byte{f}
	}
	p.held = append(p.held, append([]byte(nil), f...))
	return nil
}

func (p *partialTap) release() {
	p.mu.Lock()
	held := p.held
	p.held = nil
	p.mu.Unlock()
	for _, f := range held {
		_ = p.tap.Inject(netx.S2C, f)
	}
}

// bigHandle answers "c19big:<chunks>:<tag>" with a response of about <chunks> chunks.
func bigHandle(conn *script.Conn, req ua.Request, reqID uint32) bool {
	m := marker(req)
	if !strings.HasPrefix(m, "c19big:") {
		return false
	}
	var chunks int
	var tag string
	fmt.Sscanf(strings.TrimPrefix(m, "c19big:"), "%d:%s", &chunks, &tag)
	payload := make([]byte, (chunks-1)*(partialBuf-64)+100)
	for i := range payload {
		payload[i] = byte(i * 31)
	}
	resp := &ua.ReadResponse{ResponseHeader: script.Header(req, ua.StatusOK), Results: []*ua.DataValue{{EncodingMask: ua.DataValueValue, Value: ua.MustVariant(payload)}}, DiagnosticInfos: []*ua.DiagnosticInfo{}}
	resp.ResponseHeader.StringTable = []string{"c19", m}
	_ = conn.Respond(reqID, resp)
	return true
}

func runPartial(c partialT) (msg string, infra error) {
	srv, err := script.Start(script.Options{Handle: bigHandle})
	if err != nil {
		return "", err
	}
	defer srv.Close()
	tap, err := netx.NewTap(srv.Addr())
	if err != nil {
		return "", err
	}
	defer tap.Close()
	pt := &partialTap{tap: tap}
	tap.SetHook(pt.hook)
	url := "opc.tcp://" + tap.Addr()
	ctx, cancel := context.WithTimeout(context.Background(), 120*time.Second)
	defer cancel()
	d := &uacp.Dialer{ClientACK: &uacp.Acknowledge{ReceiveBufSize: partialBuf, SendBufSize: partialBuf, MaxChunkCount: c.MaxChunks, MaxMessageSize: 4 << 20}}
	conn, err := d.Dial(ctx, url)
	if err != nil {
		return "", err
	}
	defer conn.Close()
	errs := make(chan error, 64)
	go func() {
		for range errs {
		}
	}()
	sc, err := uasc.NewSecureChannel(url, conn, &uasc.Config{SecurityPolicyURI: ua.SecurityPolicyURINone, SecurityMode: ua.MessageSecurityModeNone, Lifetime: 3600_000, RequestTimeout: 20 * time.Second}, errs)
	if err != nil {
		return "", err
	}
	defer func() { go sc.Close() }()
	if err := sc.Open(ctx); err != nil {
		return "", err
	}
	send := func(tag string, chunks int, timeout time.Duration) (int, error) {
		got := -1
		req := readReq(fmt.Sprintf("c19big:%d:%s", chunks, tag))
		err := sc.SendRequestWithTimeout(ctx, req, nil, timeout, func(v ua.Response) error {
			r, ok := v.(*ua.ReadResponse)
			if !ok || len(r.Results) != 1 || r.Results[0].Value == nil {
				return fmt.Errorf("c19: got %T", v)
			}
			if b, ok := r.Results[0].Value.Value().([]byte); ok {
				got = len(b)
			}
			return nil
		})
		return got, err
	}
	// warm-up: a complete multi-chunk response works
	if _, err := send("warmup", 2, 10*time.Second); err != nil {
		return "", fmt.Errorf("warm-up request failed: %v", err)
	}
	T := time.Duration(c.TMs) * time.Millisecond
	for i, keep := range c.Abandoned {
		done := pt.arm(keep)
		_, err := send(fmt.Sprintf("a%d", i), keep+2, T)
		if err == nil {
			return "", fmt.Errorf("abandoned request %d was answered although its response was cut off", i)
		}
		select {
		case <-done:
		case <-time.After(10 * time.Second):
			return "", fmt.Errorf("the server never sent the rest of response %d", i)
		}
		if c.Late {
			pt.release()
			time.Sleep(20 * time.Millisecond)
		}
	}
	// the final request: its response arrives completely
	want := (c.FinalSize-1)*(partialBuf-64) + 100
	got, err := send("final", c.FinalSize, 10*time.Second)
	if err != nil {
		total := 0
		for _, k := range c.Abandoned {
			total += k
		}
		return fmt.Sprintf("after %d requests that timed out while their multi-chunk responses were cut off after %v chunks (%d chunks in total, rest %s; client MaxChunkCount %d), a request whose %d-chunk response arrived completely failed: %v (buffered chunks now: %s)",
			len(c.Abandoned), c.Abandoned, total, map[bool]string{true: "delivered late", false: "never delivered"}[c.Late], c.MaxChunks, c.FinalSize, err, buffered(sc)), nil
	}
	if got != want {
		return fmt.Sprintf("the final response carried %d payload bytes, the server sent %d", got, want), nil
	}
	return "", nil
}

func buffered(sc *uasc.SecureChannel) string {
	ids, chunks, bytes := sc.VerifBufferedChunks()
	return fmt.Sprintf("%d chunks of %d request ids, %d bytes", chunks, ids, bytes)
}

func TestPartialResponses(t *testing.T) {
	rapid.Check(t, func(t *rapid.T) {
		c := partialT{
			MaxChunks: rapid.SampledFrom([]uint32{6, 8, 12}).Draw(t, "maxChunks"),
			TMs:       rapid.SampledFrom([]int{100, 150, 250}).Draw(t, "T"),
			Late:      rapid.Bool().Draw(t, "late"),
		}
		n := rapid.IntRange(1, 6).Draw(t, "abandoned")
		total := 0
		for i := 0; i < n; i++ {
			k := rapid.IntRange(1, int(c.MaxChunks)-3).Draw(t, "keep")
			c.Abandoned = append(c.Abandoned, k)
			total += k
		}
		c.FinalSize = rapid.IntRange(2, int(c.MaxChunks)-1).Draw(t, "finalChunks")
		msg, infra := runPartial(c)
		b, _ := json.Marshal(c)
		if infra != nil {
			rec.Inconclusive()
			rec.Case(false, ev.Hash("partial", b), "partial-responses:no-verdict")
			t.Logf("no verdict: %v", infra)
			return
		}
		over := total+c.FinalSize > int(c.MaxChunks)
		rec.Case(over, ev.Hash("partial", b), "partial-responses", fmt.Sprintf("partial-responses:rest-late=%v", c.Late), fmt.Sprintf("partial-responses:abandoned-chunks+final-exceed-MaxChunkCount=%v", over))
		if over && rec.WantSample() {
			rec.Sample(map[string]any{"kind": "partial-responses", "case": c})
		}
		if msg != "" {
			rec.Fail(t, "TestPartialResponses", c, "%s", msg)
		}
	})
}
