// Package c19 decides property C19: request timeouts are bounded and never
// wedge the channel.
//
// A raw gopcua client channel (uasc.NewSecureChannel, policy None) talks to
// the scripted server (pkg/script) through a frame-aware tap (pkg/netx). The
// server answers everything at once; the tap holds the response of the
// operation under test back until a drawn time d after it saw the request
// (d around the request timeout T and around T + 250 ms leniency, 3T, never).
// Operations: an ordinary request (SendRequestWithTimeout with timeout T and a
// context that is cancelled / expires at a drawn time, or is already cancelled)
// and a token renewal (SecureChannel.Renew, OPN response held back). The verif
// scheduling points of /repo/uasc (dispatcher.afterPopHandler,
// dispatcher.beforeRcvLock, request.timeoutBranch) stall the dispatcher or the
// timed-out caller for drawn times so that the hand-off races are hit by
// construction; a stall is just a slow goroutine, so every realised schedule is
// a legal execution and no oracle depends on the stall having happened.
//
// Oracle per operation: the call returns within T + 250 ms + 1 s (an ordinary
// request also within 1 s after its context ended); the number of pending
// handlers is back at its previous value when the call has returned; an
// ordinary request sent right afterwards and another one sent after the late
// response went through, both answered at once by the server, complete.
package c19

import (
	"context"
	"encoding/json"
	"errors"
	"fmt"
	"runtime"
	"sort"
	"strings"
	"sync"
	"sync/atomic"
	"testing"
	"time"

	"github.com/gopcua/opcua/ua"
	"github.com/gopcua/opcua/uacp"
	"github.com/gopcua/opcua/uasc"
	"pgregory.net/rapid"

	"verif/pkg/ev"
	"verif/pkg/netx"
	"verif/pkg/script"
	"verif/pkg/starve"
)

func TestMain(m *testing.M) {
	uasc.VerifSetPointFunc(point)
	ev.Main(m)
}

var rec = ev.For("C19", "rapid-drawn cases: 1-3 operations in sequence on one client channel; operation = ordinary request (timeout T in 100..500 ms, or 3 s with a context that ends within 600 ms; context none / cancelled at a drawn time / deadline / already cancelled) or token renewal (Renew, channel RequestTimeout T); the tap releases the response d after it saw the request, d in {T-50, T, T+250-eps, T+250+eps, sweep T+250-60..+20, 3T, never}; optionally the next operation starts while the response is still held; drawn stalls (0-60 ms) at the scheduling points dispatcher.afterPopHandler / dispatcher.beforeRcvLock / request.timeoutBranch; non-trivial = a response reached the client within +-250 ms of the deadline (call start + T + 250 ms) of its operation; distinct by hash of the case")

const leniency = 250 * time.Millisecond // documented: timer = timeout + timeoutLeniency
const slack = time.Second
const followTimeout = 3 * time.Second // a follow-up answered at once needs milliseconds

// ---------------------------------------------------------------------------
// case

type Op struct {
	Kind         string `json:"kind"` // request | renew
	TMs          int    `json:"t_ms"` // request: its timeout; renew: ignored (the channel's timeout applies)
	Delay        string `json:"delay"`
	DMs          int    `json:"d_ms"` // -1 = never
	Ctx          string `json:"ctx"`  // none | cancel | deadline | precancelled
	CtxMs        int    `json:"ctx_ms,omitempty"`
	StallPop     int    `json:"stall_pop_ms,omitempty"`
	StallLock    int    `json:"stall_lock_ms,omitempty"`
	StallTimeout int    `json:"stall_timeout_ms,omitempty"`
	Overlap      bool   `json:"overlap,omitempty"` // the next operation starts while the response is still held
	// During (renew only): while the renewal is in flight an ordinary request
	// with its own timeout / context is issued; the server answers it at once.
	During *During `json:"request_during_renewal,omitempty"`
}

// During is an ordinary request issued AfterMs after a renewal has started.
type During struct {
	AfterMs int    `json:"after_ms"`
	TMs     int    `json:"t_ms"`
	Ctx     string `json:"ctx"` // none | deadline
	CtxMs   int    `json:"ctx_ms,omitempty"`
}

type Case struct {
	ChanTMs int  `json:"chan_t_ms"` // RequestTimeout of the channel (applies to OPN requests)
	Ops     []Op `json:"ops"`
}

func (c Case) opT(o Op) time.Duration {
	if o.Kind == "renew" {
		return time.Duration(c.ChanTMs) * time.Millisecond
	}
	return time.Duration(o.TMs) * time.Millisecond
}

var tValues = []int{100, 150, 200, 250, 300, 400, 500}
var stallValues = []int{0, 0, 0, 5, 15, 30, 60}

func genCase(t *rapid.T) Case {
	var c Case
	c.ChanTMs = rapid.SampledFrom(tValues).Draw(t, "chanT")
	n := rapid.IntRange(1, 3).Draw(t, "nops")
	for i := 0; i < n; i++ {
		var o Op
		o.Kind = rapid.SampledFrom([]string{"request", "request", "renew"}).Draw(t, "kind")
		o.TMs = rapid.SampledFrom(tValues).Draw(t, "T")
		T := o.TMs
		if o.Kind == "renew" {
			T = c.ChanTMs
			o.TMs = 0
		}
		o.Delay = rapid.SampledFrom([]string{"T-50", "T", "T+len-eps", "T+len+eps", "sweep", "sweep", "sweep", "3T", "never"}).Draw(t, "delay")
		switch o.Delay {
		case "T-50":
			o.DMs = T - 50
		case "T":
			o.DMs = T
		case "T+len-eps":
			o.DMs = T + 250 - rapid.IntRange(1, 20).Draw(t, "eps")
		case "T+len+eps":
			o.DMs = T + 250 + rapid.IntRange(1, 20).Draw(t, "eps")
		case "sweep":
			o.DMs = T + 250 + rapid.IntRange(-60, 20).Draw(t, "off")
		case "3T":
			o.DMs = 3 * T
		case "never":
			o.DMs = -1
		}
		switch rapid.IntRange(0, 9).Draw(t, "ctx") {
		case 0, 1, 2, 3, 4:
			o.Ctx = "none"
		case 5, 6:
			o.Ctx = "cancel"
		case 7, 8:
			o.Ctx = "deadline"
		default:
			o.Ctx = "precancelled"
		}
		if o.Ctx == "cancel" || o.Ctx == "deadline" {
			if o.DMs >= 0 && rapid.Bool().Draw(t, "ctxNearResponse") {
				o.CtxMs = o.DMs + rapid.IntRange(-5, 5).Draw(t, "ctxOff")
				if o.CtxMs < 0 {
					o.CtxMs = 0
				}
			} else {
				o.CtxMs = rapid.IntRange(0, T+300).Draw(t, "ctxMs")
			}
		}
		if o.Kind == "request" && (o.Ctx == "cancel" || o.Ctx == "deadline") && rapid.IntRange(0, 2).Draw(t, "longTimeout") == 0 {
			// a long timeout and no response: only the end of the context can end the call
			o.TMs, o.Delay, o.DMs = 3000, "never", -1
			o.CtxMs = rapid.IntRange(0, 600).Draw(t, "ctxMsLong")
		}
		o.Overlap = rapid.IntRange(0, 3).Draw(t, "overlap") == 0
		o.StallPop = rapid.SampledFrom(stallValues).Draw(t, "stallPop")
		if o.Kind == "renew" {
			o.StallLock = rapid.SampledFrom(stallValues).Draw(t, "stallLock")
			if rapid.Bool().Draw(t, "during") {
				d := &During{AfterMs: rapid.SampledFrom([]int{5, 20, 50}).Draw(t, "duringAfter"), TMs: rapid.SampledFrom([]int{100, 150, 200}).Draw(t, "duringT"), Ctx: "none"}
				if rapid.Bool().Draw(t, "duringCtx") {
					d.Ctx, d.CtxMs = "deadline", rapid.IntRange(20, 150).Draw(t, "duringCtxMs")
				}
				o.During = d
				// a long channel timeout: only then does waiting for the renewal
				// exceed the 1 s slack of the request's own bound
				if rapid.Bool().Draw(t, "longChanT") {
					c.ChanTMs = rapid.SampledFrom([]int{2000, 3000}).Draw(t, "chanTLong")
					if o.DMs >= 0 {
						o.DMs = rapid.SampledFrom([]int{1500, c.ChanTMs + 250 - 10, -1}).Draw(t, "dLong")
					}
				}
			}
		}
		o.StallTimeout = rapid.SampledFrom(stallValues).Draw(t, "stallTimeout")
		c.Ops = append(c.Ops, o)
	}
	return c
}

// ---------------------------------------------------------------------------
// scheduling points (global in uasc; one case runs at a time in this process)

type sched struct {
	stallPop, stallLock, stallTimeout time.Duration
	dispArmed                         atomic.Bool // the held response is about to reach the dispatcher
	toArmed                           atomic.Bool // the operation under test is running

	mu      sync.Mutex
	popAt   time.Time // dispatcher.afterPopHandler for the released response
	lockAt  time.Time // the dispatcher is about to take rcvLocker (after the stall)
	toAt    time.Time // the caller entered the timeout branch
	opnSeen bool
}

var cur atomic.Pointer[sched]

func point(name string) {
	s := cur.Load()
	if s == nil {
		return
	}
	switch name {
	case "dispatcher.afterPopHandler":
		if s.dispArmed.Load() {
			s.mu.Lock()
			first := s.popAt.IsZero()
			if first {
				s.popAt = time.Now()
			}
			s.mu.Unlock()
			if first && s.stallPop > 0 {
				time.Sleep(s.stallPop)
			}
			if s.stallLock < 0 { // ordinary request: no beforeRcvLock follows
				s.dispArmed.Store(false)
			}
		}
	case "dispatcher.beforeRcvLock":
		if s.dispArmed.CompareAndSwap(true, false) {
			if s.stallLock > 0 {
				time.Sleep(s.stallLock)
			}
			s.mu.Lock()
			s.lockAt = time.Now()
			s.opnSeen = true
			s.mu.Unlock()
		}
	case "request.timeoutBranch":
		if s.toArmed.CompareAndSwap(true, false) {
			s.mu.Lock()
			s.toAt = time.Now()
			s.mu.Unlock()
			if s.stallTimeout > 0 {
				time.Sleep(s.stallTimeout)
			}
		}
	}
}

// ---------------------------------------------------------------------------
// tap gate: holds the response of the operation under test

// hold is the state of one operation at the tap.
type hold struct {
	typ   string // frame type of the operation: MSG | OPN
	d     time.Duration
	never bool
	sch   *sched

	// guarded by gate.mu
	sawReq   bool
	tReq     time.Time
	held     bool
	relAt    time.Time
	released chan struct{} // closed when the held response was forwarded (or dropped: never)
}

type gate struct {
	tap *netx.Tap
	mu  sync.Mutex
	cur *hold // operation whose request / response is still to pass the tap
}

func (g *gate) arm(typ string, d time.Duration, never bool, s *sched) *hold {
	h := &hold{typ: typ, d: d, never: never, sch: s, released: make(chan struct{})}
	g.mu.Lock()
	g.cur = h
	g.mu.Unlock()
	return h
}

// disarmIfUnsent is called when the operation returned: if its request never
// reached the tap there is no response to hold.
func (g *gate) disarmIfUnsent(h *hold) (sent bool) {
	g.mu.Lock()
	defer g.mu.Unlock()
	if !h.sawReq && g.cur == h {
		g.cur = nil
	}
	return h.sawReq
}

func (g *gate) releasedAt(h *hold) time.Time {
	g.mu.Lock()
	defer g.mu.Unlock()
	return h.relAt
}

func (g *gate) hook(dir netx.Dir, conn int, frame []byte) [][]byte {
	pass := [][]byte{frame}
	g.mu.Lock()
	defer g.mu.Unlock()
	h := g.cur
	if h == nil || len(frame) < 4 || string(frame[:3]) != h.typ {
		return pass
	}
	if dir == netx.C2S {
		if !h.sawReq {
			h.sawReq = true
			h.tReq = time.Now()
		}
		return pass
	}
	if !h.sawReq {
		return pass
	}
	// the first frame of that type from the server after the request is its
	// response (the server answers in order, nothing else is in flight)
	h.held = true
	g.cur = nil
	if h.never {
		close(h.released)
		return nil
	}
	f := append([]byte(nil), frame...)
	wait := time.Until(h.tReq.Add(h.d))
	if wait < 0 {
		wait = 0
	}
	time.AfterFunc(wait, func() {
		h.sch.dispArmed.Store(true)
		g.mu.Lock()
		h.relAt = time.Now()
		g.mu.Unlock()
		_ = g.tap.Inject(netx.S2C, f)
		close(h.released)
	})
	return nil
}

// ---------------------------------------------------------------------------
// fixture

type fixture struct {
	srv  *script.Server
	tap  *netx.Tap
	g    *gate
	conn *uacp.Conn
	sc   *uasc.SecureChannel
	errs chan error
}

func (f *fixture) close() {
	cur.Store(nil)
	if f.conn != nil {
		f.conn.Close()
	}
	if f.sc != nil {
		sc := f.sc
		go func() {
			defer func() { _ = recover() }()
			_ = sc.Close() // releases the renewal / expiry timers of the channel
		}()
	}
	if f.tap != nil {
		f.tap.Close()
	}
	if f.srv != nil {
		f.srv.Close()
	}
}

func marker(req ua.Request) string {
	if r, ok := req.(*ua.ReadRequest); ok && len(r.NodesToRead) == 1 && r.NodesToRead[0] != nil && r.NodesToRead[0].NodeID != nil &&
		r.NodesToRead[0].NodeID.Type() == ua.NodeIDTypeString {
		return r.NodesToRead[0].NodeID.StringID()
	}
	return ""
}

func handle(conn *script.Conn, req ua.Request, reqID uint32) bool {
	m := marker(req)
	if !strings.HasPrefix(m, "c19:") {
		return false
	}
	resp := conn.Srv.Canonical(conn, req)
	resp.Header().StringTable = []string{"c19", m}
	_ = conn.Respond(reqID, resp)
	return true
}

func newFixture(c Case) (*fixture, error) {
	f := &fixture{}
	var err error
	if f.srv, err = script.Start(script.Options{Handle: handle}); err != nil {
		return nil, err
	}
	if f.tap, err = netx.NewTap(f.srv.Addr()); err != nil {
		f.close()
		return nil, err
	}
	f.g = &gate{tap: f.tap}
	f.tap.SetHook(f.g.hook)
	url := "opc.tcp://" + f.tap.Addr()
	var last error
	for try := 0; try < 6; try++ {
		ctx, cancel := context.WithTimeout(context.Background(), 20*time.Second)
		conn, err := uacp.Dial(ctx, url)
		if err != nil {
			cancel()
			last = err
			continue
		}
		errs := make(chan error, 64)
		go func() {
			for range errs {
			}
		}()
		cfg := &uasc.Config{SecurityPolicyURI: ua.SecurityPolicyURINone, SecurityMode: ua.MessageSecurityModeNone, Lifetime: 3600_000,
			RequestTimeout: time.Duration(c.ChanTMs) * time.Millisecond}
		sc, err := uasc.NewSecureChannel(url, conn, cfg, errs)
		if err != nil {
			cancel()
			conn.Close()
			f.close()
			return nil, err
		}
		err = sc.Open(ctx)
		cancel()
		if err != nil {
			// the short channel timeout also applies to the first OPN; on a busy
			// machine it may expire: try again on a new connection
			conn.Close()
			last = err
			continue
		}
		f.conn, f.sc, f.errs = conn, sc, errs
		return f, nil
	}
	f.close()
	return nil, fmt.Errorf("open: %w", last)
}

func readReq(tag string) *ua.ReadRequest {
	return &ua.ReadRequest{TimestampsToReturn: ua.TimestampsToReturnNeither,
		NodesToRead: []*ua.ReadValueID{{NodeID: ua.NewStringNodeID(1, tag), AttributeID: ua.AttributeIDValue, DataEncoding: &ua.QualifiedName{}}}}
}

// send issues a Read carrying tag and returns the tag echoed by the response.
func (f *fixture) send(ctx context.Context, tag string, timeout time.Duration) (string, error) {
	var got string
	err := f.sc.SendRequestWithTimeout(ctx, readReq(tag), nil, timeout, func(v ua.Response) error {
		r, ok := v.(*ua.ReadResponse)
		if !ok {
			return fmt.Errorf("c19: got %T", v)
		}
		if st := r.ResponseHeader.StringTable; len(st) == 2 && st[0] == "c19" {
			got = st[1]
		}
		return nil
	})
	return got, err
}

func gopcuaStacks() string {
	buf := make([]byte, 4<<20)
	n := runtime.Stack(buf, true)
	var keep []string
	for _, g := range strings.Split(string(buf[:n]), "\n\n") {
		if strings.Contains(g, "gopcua/opcua/uasc.") {
			lines := strings.Split(g, "\n")
			if len(lines) > 13 {
				lines = lines[:13]
			}
			keep = append(keep, strings.Join(lines, "\n"))
		}
	}
	s := strings.Join(keep, "\n\n")
	if len(s) > 6000 {
		s = s[:6000] + "\n...(truncated)"
	}
	return s
}

// followUp sends an ordinary request that the server answers at once.
func (f *fixture) followUp(tag string) string {
	t0 := time.Now()
	got, err := f.send(context.Background(), tag, followTimeout)
	if err != nil {
		return fmt.Sprintf("the follow-up request %q, answered at once by the server, failed after %v: %v\ngoroutines inside uasc:\n%s", tag, time.Since(t0).Round(time.Millisecond), err, gopcuaStacks())
	}
	if got != tag {
		return fmt.Sprintf("the follow-up request %q got the response for %q", tag, got)
	}
	return ""
}

// ---------------------------------------------------------------------------
// one execution

type outcome struct {
	Infra      string
	Fail       string
	Nontrivial bool
	Classes    []string
	Starved    bool // a verdict was dropped because this process did not get the CPU
}

type opRun struct {
	op    Op
	T     time.Duration
	s     *sched
	h     *hold
	t0    time.Time
	dur   time.Duration
	err   error
	sent  bool
	label string
}

func execute(c Case) (o outcome) {
	f, err := newFixture(c)
	if err != nil {
		o.Infra = err.Error()
		return
	}
	defer f.close()
	cls := map[string]bool{}
	var runs []*opRun
	defer func() {
		for _, r := range runs {
			classify(f, r, cls, &o)
		}
		for k := range cls {
			o.Classes = append(o.Classes, k)
		}
		sort.Strings(o.Classes)
	}()
	if msg := f.followUp("c19:warmup"); msg != "" {
		o.Infra = "warm-up request failed: " + msg
		return
	}
	base := f.sc.VerifPendingHandlers()

	// follow sends a follow-up request; its failure is a "channel wedged"
	// verdict unless this process did not get the CPU meanwhile
	follow := func(tag, context string) bool {
		hb := starve.Begin()
		msg := f.followUp(tag)
		if msg == "" {
			return true
		}
		if w := hb.Settle(); 10*w > followTimeout {
			o.Starved = true
			return false
		}
		o.Fail = context + msg
		return false
	}

	for i, op := range c.Ops {
		T := c.opT(op)
		s := &sched{stallPop: time.Duration(op.StallPop) * time.Millisecond, stallLock: time.Duration(op.StallLock) * time.Millisecond,
			stallTimeout: time.Duration(op.StallTimeout) * time.Millisecond}
		typ := "OPN"
		if op.Kind == "request" {
			typ = "MSG"
			s.stallLock = -1
		}
		s.toArmed.Store(true)
		cur.Store(s)
		h := f.g.arm(typ, time.Duration(op.DMs)*time.Millisecond, op.DMs < 0, s)
		r := &opRun{op: op, T: T, s: s, h: h}

		ctx, cancel := context.Background(), context.CancelFunc(func() {})
		ctxEnd := time.Duration(-1)
		switch op.Ctx {
		case "cancel":
			ctx, cancel = context.WithCancel(context.Background())
			ctxEnd = time.Duration(op.CtxMs) * time.Millisecond
			time.AfterFunc(ctxEnd, cancel)
		case "deadline":
			ctxEnd = time.Duration(op.CtxMs) * time.Millisecond
			ctx, cancel = context.WithTimeout(context.Background(), ctxEnd)
		case "precancelled":
			ctx, cancel = context.WithCancel(context.Background())
			cancel()
			ctxEnd = 0
		}
		before := f.sc.VerifPendingHandlers()
		hb := starve.Begin()
		tag := fmt.Sprintf("c19:op%d", i)
		// control: a plain runtime timer of the harness for the same duration as
		// the one the call depends on, started at the same moment; its lateness
		// is the lateness this process imposes on any timer right now
		expect := T + leniency
		if op.Kind == "request" && ctxEnd >= 0 && ctxEnd < expect {
			expect = ctxEnd
		}
		ctrl := make(chan time.Duration, 1)
		r.t0 = time.Now()
		go func(t0 time.Time) {
			time.Sleep(expect)
			ctrl <- time.Since(t0) - expect
		}(r.t0)
		var got string
		done := make(chan struct{})
		go func() {
			defer close(done)
			if op.Kind == "renew" {
				r.err = f.sc.Renew(ctx)
			} else {
				got, r.err = f.send(ctx, tag, T)
			}
		}()
		// a request issued while the renewal is in flight
		type duringRes struct {
			dur   time.Duration
			err   error
			worst time.Duration
		}
		var dres chan duringRes
		if op.Kind == "renew" && op.During != nil {
			dres = make(chan duringRes, 1)
			d := *op.During
			go func() {
				time.Sleep(time.Duration(d.AfterMs) * time.Millisecond)
				dctx, dcancel := context.Background(), context.CancelFunc(func() {})
				if d.Ctx == "deadline" {
					dctx, dcancel = context.WithTimeout(context.Background(), time.Duration(d.CtxMs)*time.Millisecond)
				}
				defer dcancel()
				dhb := starve.Begin()
				t0 := time.Now()
				_, err := f.send(dctx, fmt.Sprintf("c19:op%d-during", i), time.Duration(d.TMs)*time.Millisecond)
				dres <- duringRes{time.Since(t0), err, dhb.Settle()}
			}()
		}
		hung := false
		select {
		case <-done:
		case <-time.After(T + leniency + 25*time.Second):
			hung = true
		}
		r.dur = time.Since(r.t0)
		after := f.sc.VerifPendingHandlers()
		cancel()
		s.toArmed.Store(false)
		r.sent = f.g.disarmIfUnsent(h)

		r.label = fmt.Sprintf("op %d (%s, T=%v, response held for %d ms, ctx %s/%d ms, stalls pop=%d lock=%d timeout=%d)", i, op.Kind, T, op.DMs, op.Ctx, op.CtxMs, op.StallPop, op.StallLock, op.StallTimeout)
		name := r.label
		if hung {
			o.Fail = fmt.Sprintf("%s: the call did not return within T + 250 ms + 25 s\ngoroutines inside uasc:\n%s", name, gopcuaStacks())
			return
		}
		runs = append(runs, r)
		if r.err == nil && op.Kind == "request" && got != tag {
			o.Fail = fmt.Sprintf("%s: the call returned the response for %q", name, got)
			return
		}

		// ---- bound on the duration of the call. The slack is 1 s, or more if the
		// heartbeat goroutines of the harness were woken up late during the call
		// (then this process did not get the CPU and a late return says nothing
		// about the code under test)
		worst := hb.Settle()
		sl := slack
		if 10*worst > sl {
			sl = 10 * worst
			cls["note:slack-widened-process-starved"] = true
		}
		if r.dur > expect {
			select {
			case late := <-ctrl:
				if slack+2*late > sl {
					sl = slack + 2*late
					if late > 50*time.Millisecond {
						cls["note:slack-widened-control-timer-late"] = true
					}
				}
			case <-time.After(10 * time.Second):
				sl += 10 * time.Second
				cls["note:slack-widened-control-timer-late"] = true
			}
		}
		bound := T + leniency + sl
		if op.Kind == "request" && ctxEnd >= 0 && ctxEnd+sl < bound {
			bound = ctxEnd + sl
			cls["bound:context-end-is-the-tighter-bound"] = true
		}
		if op.Kind == "renew" && ctxEnd >= 0 && ctxEnd+slack < T+leniency && r.dur > ctxEnd+slack {
			cls["note:renew-ignores-its-context"] = true
		}
		if r.dur > bound {
			o.Fail = fmt.Sprintf("%s: the call returned after %v (err=%v), bound %v (worst wake-up overshoot of the harness during the call: %v)", name, r.dur.Round(time.Millisecond), r.err, bound, worst.Round(time.Millisecond))
			return
		}
		// ---- a request issued during the renewal is bound by its OWN timeout and context
		if dres != nil {
			var dr duringRes
			select {
			case dr = <-dres:
			case <-time.After(30 * time.Second):
				o.Fail = fmt.Sprintf("%s: a request issued %d ms after the renewal started (timeout %d ms, ctx %s/%d ms) did not return within 30 s\ngoroutines inside uasc:\n%s", name, op.During.AfterMs, op.During.TMs, op.During.Ctx, op.During.CtxMs, gopcuaStacks())
				return
			}
			cls["during-renewal:request-issued"] = true
			dsl := slack
			if 10*dr.worst > dsl {
				dsl = 10 * dr.worst
			}
			dbound := time.Duration(op.During.TMs)*time.Millisecond + leniency + dsl
			if op.During.Ctx == "deadline" && time.Duration(op.During.CtxMs)*time.Millisecond+dsl < dbound {
				dbound = time.Duration(op.During.CtxMs)*time.Millisecond + dsl
			}
			if dr.dur > dbound {
				o.Fail = fmt.Sprintf("%s: a request issued %d ms after the renewal started, with timeout %d ms and ctx %s/%d ms, returned only after %v (err=%v), bound %v: it waited for the renewal (whose response was held for %d ms, channel timeout %v) instead of its own timeout / context", name, op.During.AfterMs, op.During.TMs, op.During.Ctx, op.During.CtxMs, dr.dur.Round(time.Millisecond), dr.err, dbound, op.DMs, T)
				return
			}
			after = f.sc.VerifPendingHandlers()
		}
		// ---- pending slot released
		if after != before {
			o.Fail = fmt.Sprintf("%s: pending handlers before the call %d, after it returned (err=%v) %d", name, before, r.err, after)
			return
		}

		// ---- the channel still works: right now ...
		what := fmt.Sprintf("%s returned %v after %v; ", name, r.err, r.dur.Round(time.Millisecond))
		if !follow(fmt.Sprintf("c19:f%da", i), what) {
			if o.Fail != "" {
				o.Fail += schedNote(s, r.t0, r.dur)
			}
			return
		}
		if op.Overlap && i < len(c.Ops)-1 {
			// the next operation starts while the response is still held
			cls["overlap:next-operation-starts-while-response-is-held"] = true
			continue
		}
		// ... and after the held response went through
		if r.sent {
			select {
			case <-h.released:
			case <-time.After(time.Duration(max(op.DMs, 0))*time.Millisecond + 20*time.Second):
				o.Infra = "the tap never saw the response of " + name
				return
			}
			time.Sleep(s.stallPop + max(s.stallLock, 0) + 20*time.Millisecond)
		}
		if !follow(fmt.Sprintf("c19:f%db", i), what+"after its late response went through: ") {
			if o.Fail != "" {
				o.Fail += schedNote(s, r.t0, r.dur)
			}
			return
		}
		if n := f.sc.VerifPendingHandlers(); n != base {
			o.Fail = fmt.Sprintf("%s: %d pending handlers when the channel is idle again, %d before", name, n, base)
			return
		}
	}

	// every held response has gone through: the channel is idle and still works
	for _, r := range runs {
		if r.sent {
			select {
			case <-r.h.released:
			case <-time.After(time.Duration(max(r.op.DMs, 0))*time.Millisecond + 20*time.Second):
				o.Infra = "the tap never saw the response of " + r.label
				return
			}
		}
	}
	time.Sleep(150 * time.Millisecond)
	if !follow("c19:final", "after all operations and all late responses: ") {
		return
	}
	if n := f.sc.VerifPendingHandlers(); n != base {
		o.Fail = fmt.Sprintf("%d pending handlers when the channel is idle at the end, %d at the start", n, base)
	}
	return
}

// classify adds the classes of the realised schedule of one operation.
func classify(f *fixture, r *opRun, cls map[string]bool, o *outcome) {
	op, T, s := r.op, r.T, r.s
	cls["op:"+op.Kind] = true
	cls["delay:"+op.Delay] = true
	cls["ctx:"+op.Ctx] = true
	if op.Kind == "request" && op.TMs >= 3000 {
		cls["ctx:only-the-context-can-end-the-call-within-3s"] = true
	}
	if op.StallPop+op.StallLock+op.StallTimeout > 0 {
		cls["stalled-at-scheduling-point"] = true
	}
	switch {
	case r.err == nil:
		cls["result:"+op.Kind+":completed"] = true
	case errors.Is(r.err, ua.StatusBadTimeout):
		cls["result:"+op.Kind+":timeout"] = true
	case errors.Is(r.err, context.Canceled) || errors.Is(r.err, context.DeadlineExceeded):
		cls["result:"+op.Kind+":context-ended"] = true
	default:
		cls["result:"+op.Kind+":other-error"] = true
	}
	relAt := f.g.releasedAt(r.h)
	if !relAt.IsZero() {
		delta := relAt.Sub(r.t0.Add(T + leniency))
		switch {
		case delta < -leniency:
			cls["arrival:"+op.Kind+":early"] = true
		case delta <= 0:
			cls["arrival:"+op.Kind+":within-leniency-before-deadline"] = true
			o.Nontrivial = true
		case delta <= leniency:
			cls["arrival:"+op.Kind+":within-leniency-after-deadline"] = true
			o.Nontrivial = true
		default:
			cls["arrival:"+op.Kind+":late"] = true
		}
		if delta > -20*time.Millisecond && delta < 20*time.Millisecond {
			cls["arrival:"+op.Kind+":within-20ms-of-deadline"] = true
		}
	} else {
		cls["arrival:"+op.Kind+":none"] = true
	}
	s.mu.Lock()
	popAt, lockAt, toAt := s.popAt, s.lockAt, s.toAt
	s.mu.Unlock()
	ret := r.t0.Add(r.dur)
	if !popAt.IsZero() && !toAt.IsZero() {
		switch {
		case popAt.Before(toAt):
			cls["race:"+op.Kind+":dispatcher-took-handler-before-timeout-branch"] = true
		case popAt.Before(ret):
			cls["race:"+op.Kind+":dispatcher-looked-up-handler-inside-timeout-branch"] = true
		default:
			cls["race:"+op.Kind+":response-after-timed-out-call-returned"] = true
		}
	}
	if op.Kind == "renew" && !lockAt.IsZero() && r.err != nil && lockAt.After(ret) {
		cls["race:renew:dispatcher-locked-receive-gate-after-open-returned"] = true
	}
}

func schedNote(s *sched, t0 time.Time, dur time.Duration) string {
	s.mu.Lock()
	defer s.mu.Unlock()
	f := func(t time.Time) string {
		if t.IsZero() {
			return "-"
		}
		return t.Sub(t0).Round(100 * time.Microsecond).String()
	}
	return fmt.Sprintf("\nrealised schedule (relative to the start of the call): dispatcher took the handler at %s, dispatcher about to lock the receive gate at %s, caller entered the timeout branch at %s, call returned at %s",
		f(s.popAt), f(s.lockAt), f(s.toAt), dur.Round(100*time.Microsecond))
}

// judge executes a case; every C19 verdict depends on timing, so a failure
// counts only if three executions out of three fail (DESIGN 3.4).
func judge(c Case) (string, outcome) {
	o := execute(c)
	if o.Starved {
		rec.Class("note:verdict-dropped-process-starved")
	}
	if o.Infra != "" || o.Fail == "" {
		return "", o
	}
	for i := 0; i < 2; i++ {
		time.Sleep(100 * time.Millisecond)
		o2 := execute(c)
		if o2.Infra != "" || o2.Fail == "" {
			rec.Inconclusive()
			rec.Class("failure-not-reproduced")
			fmt.Printf("C19 failure not reproduced (execution %d held): %s\n", i+2, o.Fail)
			return "", o
		}
	}
	return "3/3 executions: " + o.Fail, o
}

func TestTimeouts(t *testing.T) {
	rec.Assume("client = raw uasc client channel, policy None (a timed-out renewal under a secured policy leaves client and gopcua's server side with different keys, which is not the client's timeout handling); server = pkg/script answering at once; pkg/netx tap holds the response back")
	rec.Assume("all verdicts are confirmed by 3 executions out of 3; later-than bounds carry 1 s slack; 'channel wedged' = a request answered at once does not complete within 3 s (+250 ms), goroutine dump in the message")
	rec.Assume("stalls at the verif scheduling points are ordinary slow goroutines; no oracle depends on a stall having happened")
	rapid.Check(t, func(t *rapid.T) {
		c := genCase(t)
		rec.Journal("TestTimeouts", c)
		msg, o := judge(c)
		rec.JournalDone("TestTimeouts")
		if o.Infra != "" {
			rec.Class("infra")
			fmt.Printf("C19 infrastructure: %s\n", o.Infra)
			t.Skip(o.Infra)
		}
		b, _ := json.Marshal(c)
		rec.Case(o.Nontrivial, ev.Hash(b), o.Classes...)
		if o.Nontrivial && rec.WantSample() {
			rec.Sample(c)
		}
		if msg != "" {
			rec.Fail(t, "TestTimeouts", c, "%s", msg)
		}
	})
}

// TestReplay re-runs a saved case without rapid.
func TestReplay(t *testing.T) {
	rp, err := ev.LoadReplay()
	if err != nil {
		t.Fatal(err)
	}
	if rp == nil {
		t.Skip("no VERIF_REPLAY")
	}
	if rp.Test == "TestPartialResponses" {
		var pc partialT
		if err := json.Unmarshal(rp.Case, &pc); err != nil {
			t.Fatal(err)
		}
		fmt.Println("REPLAYED structured")
		msg, infra := runPartial(pc)
		if infra != nil {
			t.Skipf("infrastructure: %v", infra)
		}
		if msg != "" {
			t.Fatalf("property C19 violated: %s", msg)
		}
		return
	}
	var c Case
	if err := json.Unmarshal(rp.Case, &c); err != nil {
		t.Fatal(err)
	}
	fmt.Println("REPLAYED structured")
	msg, o := judge(c)
	if o.Infra != "" {
		t.Skipf("infrastructure: %s", o.Infra)
	}
	if msg != "" {
		t.Fatalf("property C19 violated: %s", msg)
	}
}
