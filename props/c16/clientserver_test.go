package c16

// TestClientAgainstServer: the whole stack - opcua.Client against
// server.Server - across several automatic token renewals. The other tests of
// this package pair raw channels; here the server's connection broker and the
// client's session layer sit on top. Requests issued by 2-4 goroutines all the
// time must all be answered while the token is renewed 3 or more times.

import (
	"context"
	"encoding/json"
	"fmt"
	"sync"
	"sync/atomic"
	"testing"
	"time"

	"github.com/gopcua/opcua"
	"github.com/gopcua/opcua/ua"
	"pgregory.net/rapid"

	"verif/pkg/ev"
	"verif/pkg/keys"
	"verif/pkg/stack"
	"verif/pkg/starve"
)

type stackCaseT struct {
	Sec        int `json:"sec"` // index into stack.AllSec
	LifetimeMS int `json:"lifetime_ms"`
	Workers    int `json:"workers"`
	PauseMS    int `json:"pause_ms"` // pause of every worker between two requests
	Renewals   int `json:"renewals"` // how many lifetimes at 75 % the run lasts
	// IdleSub: the client also holds an idle subscription (no monitored items,
	// keep-alive after 10.5 s), so that a Publish request is outstanding for
	// seconds whenever a renewal is due
	IdleSub bool `json:"idle_subscription,omitempty"`
}

func runStackCase(c stackCaseT) (msg string, infra error) {
	sec := stack.AllSec[c.Sec%len(stack.AllSec)]
	srv, err := stack.StartServer(stack.ServerOpts{Sec: []stack.Sec{sec}})
	if err != nil {
		return "", err
	}
	defer srv.Close()
	srv.AddVariable("c16_v", int32(7))
	opts := []opcua.Option{opcua.SecurityMode(sec.Mode), opcua.Lifetime(time.Duration(c.LifetimeMS) * time.Millisecond), opcua.RequestTimeout(30 * time.Second), opcua.AutoReconnect(false)}
	if sec.Mode != ua.MessageSecurityModeNone {
		ck, sk := keys.Get("a", 2048), keys.Get("b", 2048)
		opts = append(opts, opcua.SecurityPolicy(sec.Policy), opcua.PrivateKey(ck.Key), opcua.Certificate(ck.Cert), opcua.RemoteCertificate(sk.Cert))
	}
	cl, err := stack.Connect(srv.URL, opts...)
	if err != nil {
		return "", err
	}
	defer func() {
		ctx, cancel := context.WithTimeout(context.Background(), 5*time.Second)
		_ = cl.Close(ctx)
		cancel()
	}()
	if c.IdleSub {
		nch := make(chan *opcua.PublishNotificationData, 64)
		go func() {
			for range nch {
			}
		}()
		sctx, scancel := context.WithTimeout(context.Background(), 20*time.Second)
		_, err := cl.Subscribe(sctx, &opcua.SubscriptionParameters{Interval: 500 * time.Millisecond, MaxKeepAliveCount: 20, LifetimeCount: 10000}, nch)
		scancel()
		if err != nil {
			return "", fmt.Errorf("subscribe: %v", err)
		}
	}
	dur := time.Duration(float64(c.Renewals)*0.75*float64(c.LifetimeMS)+float64(c.LifetimeMS)/2) * time.Millisecond
	ctx, cancel := context.WithTimeout(context.Background(), dur+60*time.Second)
	defer cancel()
	deadline := time.Now().Add(dur)
	hb := starve.Begin()
	var ok, failed int64
	var first atomic.Value
	var wg sync.WaitGroup
	for w := 0; w < c.Workers; w++ {
		wg.Add(1)
		go func() {
			defer wg.Done()
			for time.Now().Before(deadline) {
				t0 := time.Now()
				dv, err := stack.ReadValue(ctx, cl, srv.NodeID("c16_v"))
				switch {
				case err != nil:
					atomic.AddInt64(&failed, 1)
					first.CompareAndSwap(nil, fmt.Sprintf("%v after %v (%.1f lifetimes into the run)", err, time.Since(t0).Round(time.Millisecond), float64(time.Until(deadline)-dur)/-float64(time.Duration(c.LifetimeMS)*time.Millisecond)))
				case dv == nil || dv.Status != ua.StatusOK:
					atomic.AddInt64(&failed, 1)
					first.CompareAndSwap(nil, fmt.Sprintf("read answered %v", dv))
				case time.Since(t0) > 4*time.Second:
					// the server answers a Read at once: seconds of delay mean that the
					// request waited for something else (e.g. for the renewal to get through)
					atomic.AddInt64(&failed, 1)
					first.CompareAndSwap(nil, fmt.Sprintf("a read was answered only after %v", time.Since(t0).Round(time.Millisecond)))
				default:
					atomic.AddInt64(&ok, 1)
				}
				time.Sleep(time.Duration(c.PauseMS) * time.Millisecond)
			}
		}()
	}
	wg.Wait()
	if w := hb.Settle(); failed > 0 && w > 300*time.Millisecond {
		// this process itself was not scheduled for that long: says nothing about the channel
		return "", fmt.Errorf("harness starved (heartbeat %v late) while %d reads failed", w.Round(time.Millisecond), failed)
	}
	if failed > 0 {
		return fmt.Sprintf("opcua.Client against server.Server (%s/%v, token lifetime %d ms, %d workers): %d of %d reads failed or took more than 4 s while the token was renewed about %d times; first: %v", sec.Policy, sec.Mode, c.LifetimeMS, c.Workers, failed, ok+failed, c.Renewals, first.Load()), nil
	}
	if ok == 0 {
		return "", fmt.Errorf("no read completed")
	}
	return "", nil
}

func TestClientAgainstServer(t *testing.T) {
	rapid.Check(t, func(t *rapid.T) {
		c := stackCaseT{
			Sec:        rapid.IntRange(0, len(stack.AllSec)-1).Draw(t, "sec"),
			LifetimeMS: rapid.SampledFrom([]int{3000, 4000, 5000}).Draw(t, "lifetime"),
			Workers:    rapid.IntRange(2, 4).Draw(t, "workers"),
			PauseMS:    rapid.SampledFrom([]int{0, 1, 5, 20}).Draw(t, "pause"),
			Renewals:   rapid.IntRange(3, 4).Draw(t, "renewals"),
			IdleSub:    rapid.IntRange(0, 2).Draw(t, "idleSub") > 0,
		}
		msg, infra := runStackCase(c)
		b, _ := json.Marshal(c)
		if infra != nil {
			rec.Inconclusive()
			rec.Case(false, ev.Hash("stack", b), "client-vs-server:no-verdict")
			t.Logf("no verdict: %v", infra)
			return
		}
		rec.Case(true, ev.Hash("stack", b), "client-vs-server", "client-vs-server:"+stack.AllSec[c.Sec].Policy, fmt.Sprintf("client-vs-server:idle-subscription=%v", c.IdleSub))
		if rec.WantSample() {
			rec.Sample(map[string]any{"kind": "client-vs-server", "case": c})
		}
		if msg != "" {
			// a timing verdict: the lifetimes are seconds, but the machine may stall; re-run twice
			for i := 0; i < 2; i++ {
				m2, e2 := runStackCase(c)
				if e2 != nil || m2 == "" {
					rec.Inconclusive()
					t.Logf("failure not reproduced: %s", msg)
					return
				}
			}
			rec.Fail(t, "TestClientAgainstServer", c, "%s (reproduced 3/3)", msg)
		}
	})
}
