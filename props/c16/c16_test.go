// Package c16 decides property C16: security token renewal keeps the channel
// usable. (a) renewal schedule: once per token, no earlier than half of the
// token's lifetime and before it expires, observed on the wire for generated
// lifetimes; (b) requests issued around renewals, on either side, complete
// normally: continuous senders / concurrent responders across automatic
// renewals, and manual renewals with holds at the verif scheduling points.
package c16

import (
	"context"
	"encoding/json"
	"fmt"
	"strings"
	"sync"
	"sync/atomic"
	"testing"
	"time"

	"github.com/gopcua/opcua/ua"
	"github.com/gopcua/opcua/uacp"
	"github.com/gopcua/opcua/uasc"
	"pgregory.net/rapid"

	"verif/pkg/chanpair"
	"verif/pkg/ev"
	"verif/pkg/keys"
	"verif/pkg/netx"
	"verif/pkg/sched"
	"verif/pkg/starve"
)

func TestMain(m *testing.M) { ev.Main(m) }

var rec = ev.For("C16", "(a) gopcua client channels opened with rapid-drawn token lifetimes (400 ms - 4 s, biased to non-integer seconds) against a gopcua server channel, renewal requests time-stamped on a recording proxy over 3 token generations; (b) 2-4 continuous request senders and 1-3 concurrent responders across 3 automatic renewals (lifetime 3-5 s), and manual renewals with holds drawn at the verif scheduling points; non-trivial = (a) lifetime not a whole number of seconds or below 2 s, (b) a request was in flight while an OPN exchange was in progress; distinct by hash of the case")

// ---------------------------------------------------------------------------
// (a) renewal schedule

type schedCase struct {
	Policy     string `json:"policy"`
	LifetimeMS []int  `json:"lifetimes_ms"`
}

type tokenObs struct {
	Issued  time.Duration // OPN response seen at the proxy (since start)
	Renewed []time.Duration
}

func serverLoop(ctx context.Context, p *chanpair.Pair, handle func(m *uasc.MessageBody)) {
	for {
		m := p.Server.Receive(ctx)
		if m.Err != nil {
			return
		}
		if m.Request() == nil {
			continue
		}
		if handle != nil {
			handle(m)
		}
	}
}

// observe runs one channel with lifetime L and returns a verdict.
func observe(policy string, lifetime time.Duration) (msg string, soft bool, renewals int) {
	ks := chanpair.KeySizes(policy)
	p, err := chanpair.New(chanpair.Options{Policy: policy, Mode: chanpair.ModeFor(policy, true), ClientKey: keys.Get("a", ks[0]), ServerKey: keys.Get("b", ks[0]),
		Tap: true, Lifetime: uint32(lifetime / time.Millisecond), RequestTimeout: 3 * time.Second})
	if err != nil {
		return "", false, -1
	}
	defer p.Close()
	ctx, cancel := context.WithCancel(context.Background())
	defer cancel()
	go serverLoop(ctx, p, nil)
	// three renewals are due at 0.75, 1.5, 2.25 L
	time.Sleep(time.Duration(float64(lifetime)*2.45) + 400*time.Millisecond)
	frames := p.Tap.Frames()
	cancel()
	p.Close()

	var issued []time.Time
	var reqs []time.Time
	for _, f := range frames {
		if f.Type() != "OPN" {
			continue
		}
		if f.Dir == netx.S2C {
			issued = append(issued, f.At)
		} else {
			reqs = append(reqs, f.At)
		}
	}
	if len(issued) == 0 || len(reqs) == 0 {
		return "", false, -1
	}
	end := frames[len(frames)-1].At
	// token i is issued at issued[i]; requests after it and before the next issue are its renewals
	for i, t := range issued {
		var next time.Time
		if i+1 < len(issued) {
			next = issued[i+1]
		}
		var mine []time.Time
		for _, r := range reqs {
			if r.After(t) && (next.IsZero() || !r.After(next)) {
				mine = append(mine, r)
			}
		}
		if len(mine) > 1 {
			return fmt.Sprintf("token #%d (lifetime %v) was renewed %d times before a new token was issued (at +%v and +%v)", i, lifetime, len(mine), mine[0].Sub(t), mine[1].Sub(t)), false, len(issued) - 1
		}
		if len(mine) == 1 {
			d := mine[0].Sub(t)
			if d < lifetime/2 {
				// exact: a timer cannot fire early, and the proxy sees the response
				// before the client does and the request after the client sent it
				return fmt.Sprintf("token #%d with lifetime %v was renewed %v after it was issued, earlier than half of its lifetime", i, lifetime, d), false, len(issued) - 1
			}
			if d >= lifetime+200*time.Millisecond {
				return fmt.Sprintf("token #%d with lifetime %v was renewed only %v after it was issued (after its expiry)", i, lifetime, d), true, len(issued) - 1
			}
		} else if time.Since(t) > 0 && end.Sub(t) > lifetime+500*time.Millisecond {
			return fmt.Sprintf("token #%d with lifetime %v was not renewed within %v", i, lifetime, end.Sub(t)), true, len(issued) - 1
		}
	}
	if len(issued)-1 < 3 {
		return fmt.Sprintf("only %d renewals within 2.45 lifetimes (lifetime %v), 3 are due", len(issued)-1, lifetime), true, len(issued) - 1
	}
	return "", false, len(issued) - 1
}

func genLifetime(t *rapid.T) int {
	switch rapid.IntRange(0, 5).Draw(t, "lk") {
	case 0:
		return rapid.SampledFrom([]int{1300, 2000, 2500, 2700, 1000, 999, 1340, 3999}).Draw(t, "lfix")
	case 1:
		return rapid.IntRange(400, 1000).Draw(t, "lshort")
	}
	return rapid.IntRange(400, 4000).Draw(t, "l")
}

func TestRenewalSchedule(t *testing.T) {
	rapid.Check(t, func(t *rapid.T) {
		var c schedCase
		c.Policy = rapid.SampledFrom([]string{ua.SecurityPolicyURINone, ua.SecurityPolicyURIBasic256Sha256, ua.SecurityPolicyURIAes128Sha256RsaOaep}).Draw(t, "policy")
		n := ev.Pick(12, 24)
		for i := 0; i < n; i++ {
			c.LifetimeMS = append(c.LifetimeMS, genLifetime(t))
		}
		type res struct {
			msg  string
			soft bool
			ren  int
		}
		out := make([]res, n)
		win := starve.Begin()
		var wg sync.WaitGroup
		for i, l := range c.LifetimeMS {
			wg.Add(1)
			go func(i, l int) {
				defer wg.Done()
				m, s, r := observe(c.Policy, time.Duration(l)*time.Millisecond)
				out[i] = res{m, s, r}
			}(i, l)
		}
		wg.Wait()
		// a later-than verdict taken while this process did not get the CPU
		// says nothing about gopcua's timer (DESIGN 3.4)
		starved := win.Settle() > 40*time.Millisecond
		if starved {
			rec.Class("a:batch-starved(late verdicts dropped)")
		}
		for i, l := range c.LifetimeMS {
			nt := l%1000 != 0 || l < 2000
			cls := []string{"a:lifetime<1s"}
			switch {
			case l >= 2000:
				cls[0] = "a:lifetime>=2s"
			case l >= 1000:
				cls[0] = "a:lifetime1-2s"
			}
			if out[i].ren < 0 {
				rec.Inconclusive()
				cls = append(cls, "a:infra")
			}
			rec.Case(nt, ev.Hash("a", c.Policy, l), append(cls, fmt.Sprintf("a:renewals-seen:%d", out[i].ren))...)
			if nt && rec.WantSample() {
				rec.Sample(map[string]any{"kind": "renewal-schedule", "policy": c.Policy, "lifetime_ms": l, "renewals_seen": out[i].ren})
			}
			if out[i].msg == "" {
				continue
			}
			one := schedCase{Policy: c.Policy, LifetimeMS: []int{l}}
			if out[i].soft {
				if starved {
					rec.Inconclusive()
					continue
				}
				// a late timer can be the machine's doing: only 3/3 counts, and
				// only executions during which the heartbeats were on time
				again := 0
				for k := 0; k < 2; k++ {
					w2 := starve.Begin()
					m, _, _ := observe(c.Policy, time.Duration(l)*time.Millisecond)
					if m != "" && w2.Settle() <= 40*time.Millisecond {
						again++
					}
				}
				if again < 2 {
					rec.Inconclusive()
					continue
				}
			}
			rec.Fail(t, "TestRenewalSchedule", one, "%s", out[i].msg)
		}
	})
}

// ---------------------------------------------------------------------------
// (b) requests around renewals

type loadCase struct {
	Policy     string       `json:"policy"`
	Encrypt    bool         `json:"encrypt"`
	LifetimeMS int          `json:"lifetime_ms"` // 0 = manual renewals only
	Senders    int          `json:"senders"`
	Responders int          `json:"responders"`
	RespDelay  []int        `json:"response_delay_ms"` // cycled; models publish responses sent later
	ReqSize    []int        `json:"request_sizes"`
	Requests   int          `json:"requests_per_sender"` // manual mode
	RenewAt    []int        `json:"renew_after_requests"`
	Rules      []sched.Rule `json:"rules"`
}

var ruleMenu = []sched.Rule{
	{Point: "send.afterGetActive", Until: "open.afterSeqCopy", MaxWait: 150 * time.Millisecond},
	{Point: "send.afterGetActive", Until: "renew.afterPendingWait", MaxWait: 150 * time.Millisecond},
	{Point: "send.beforeInstanceLock", Until: "renew.afterReqLock", MaxWait: 100 * time.Millisecond},
	{Point: "renew.afterReqLock", Until: "send.afterGetActive", MaxWait: 60 * time.Millisecond},
	{Point: "response.beforeInstanceLock", Until: "serverOPN.afterAsymAlgo", MaxWait: 100 * time.Millisecond},
	{Point: "serverOPN.afterAsymAlgo", Until: "response.beforeInstanceLock", MaxWait: 60 * time.Millisecond},
	{Point: "open.afterSeqCopy", Until: "send.beforeInstanceLock", MaxWait: 60 * time.Millisecond},
	{Point: "dispatcher.beforeRcvLock", Until: "send.afterGetActive", MaxWait: 30 * time.Millisecond},
}

var pointMu sync.Mutex

type loadResult struct {
	msg        string
	nontrivial bool
	classes    []string
	infra      bool
}

func runLoad(c loadCase) (res loadResult) {
	hooks := len(c.Rules) > 0
	if hooks {
		pointMu.Lock()
		defer pointMu.Unlock()
	}
	ks := chanpair.KeySizes(c.Policy)
	ack := func() *uacp.Acknowledge {
		return &uacp.Acknowledge{ReceiveBufSize: 8192, SendBufSize: 8192, MaxChunkCount: 512, MaxMessageSize: 2 << 20}
	}
	lifetime := uint32(c.LifetimeMS)
	if lifetime == 0 {
		lifetime = 3600_000
	}
	p, err := chanpair.New(chanpair.Options{Policy: c.Policy, Mode: chanpair.ModeFor(c.Policy, c.Encrypt), ClientKey: keys.Get("a", ks[0]), ServerKey: keys.Get("b", ks[0]),
		ClientACK: ack(), ServerACK: ack(), Tap: true, Lifetime: lifetime, RequestTimeout: 30 * time.Second})
	if err != nil {
		return loadResult{infra: true}
	}
	defer p.Close()
	var ctrl *sched.Controller
	if hooks {
		ctrl = sched.New(c.Rules)
		uasc.VerifSetPointFunc(ctrl.Point)
		defer uasc.VerifSetPointFunc(nil)
		defer ctrl.Stop()
	}
	ctx, cancel := context.WithTimeout(context.Background(), 100*time.Second)
	defer cancel()

	type job struct {
		m *uasc.MessageBody
		n int
	}
	jobs := make(chan job, 512)
	var srvErr atomic.Value
	go func() {
		n := 0
		for {
			m := p.Server.Receive(ctx)
			if m.Err != nil {
				if ctx.Err() == nil {
					srvErr.CompareAndSwap(nil, m.Err.Error())
				}
				close(jobs)
				return
			}
			if _, ok := m.Request().(*ua.ReadRequest); !ok {
				continue
			}
			jobs <- job{m, n}
			n++
		}
	}()
	var respErr atomic.Value
	for i := 0; i < c.Responders; i++ {
		go func() {
			for j := range jobs {
				if d := c.RespDelay[j.n%len(c.RespDelay)]; d > 0 {
					time.Sleep(time.Duration(d) * time.Millisecond)
				}
				rr := j.m.Request().(*ua.ReadRequest)
				resp := &ua.ReadResponse{ResponseHeader: &ua.ResponseHeader{RequestHandle: rr.RequestHeader.RequestHandle, Timestamp: time.Now(), ServiceDiagnostics: &ua.DiagnosticInfo{}, AdditionalHeader: ua.NewExtensionObject(nil), StringTable: []string{}},
					Results: []*ua.DataValue{{EncodingMask: ua.DataValueValue, Value: ua.MustVariant(int32(j.n))}}, DiagnosticInfos: []*ua.DiagnosticInfo{}}
				if err := p.Server.SendResponseWithContext(ctx, j.m.RequestID, resp); err != nil && ctx.Err() == nil {
					respErr.CompareAndSwap(nil, err.Error())
				}
			}
		}()
	}

	var issued, failed int32
	var firstErr atomic.Value
	var wg sync.WaitGroup
	stop := make(chan struct{})
	for i := 0; i < c.Senders; i++ {
		wg.Add(1)
		go func(i int) {
			defer wg.Done()
			for k := 0; ; k++ {
				if c.LifetimeMS == 0 && k >= c.Requests {
					return
				}
				select {
				case <-stop:
					return
				default:
				}
				n := atomic.AddInt32(&issued, 1)
				sz := c.ReqSize[int(n)%len(c.ReqSize)]
				req := &ua.ReadRequest{NodesToRead: []*ua.ReadValueID{{NodeID: ua.NewStringNodeID(1, strings.Repeat("x", sz)), DataEncoding: &ua.QualifiedName{}}}}
				if err := p.Client.SendRequest(ctx, req, nil, func(ua.Response) error { return nil }); err != nil {
					atomic.AddInt32(&failed, 1)
					firstErr.CompareAndSwap(nil, fmt.Sprintf("request #%d: %v", n, err))
				}
				if c.LifetimeMS != 0 {
					time.Sleep(2 * time.Millisecond)
				}
			}
		}(i)
	}
	var renewFailed int32
	if c.LifetimeMS == 0 {
		for _, at := range c.RenewAt {
			wg.Add(1)
			go func(at int) {
				defer wg.Done()
				for atomic.LoadInt32(&issued) < int32(at) && ctx.Err() == nil {
					time.Sleep(200 * time.Microsecond)
				}
				if err := p.Client.Renew(ctx); err != nil {
					atomic.AddInt32(&renewFailed, 1)
					firstErr.CompareAndSwap(nil, fmt.Sprintf("renew: %v", err))
				}
			}(at)
		}
	} else {
		// three automatic renewals
		go func() {
			select {
			case <-time.After(time.Duration(float64(c.LifetimeMS)*2.6) * time.Millisecond):
			case <-ctx.Done():
			}
			close(stop)
		}()
	}
	done := make(chan struct{})
	go func() { wg.Wait(); close(done) }()
	select {
	case <-done:
	case <-time.After(110 * time.Second):
		firstErr.CompareAndSwap(nil, "senders did not finish within 110 s")
		atomic.AddInt32(&failed, 1)
	}
	if ctrl != nil {
		ctrl.Stop()
	}
	frames := p.Tap.Frames()
	cancel()
	p.Close()

	opn := 0
	for _, f := range frames {
		if f.Type() == "OPN" && f.Dir == netx.C2S {
			opn++
		}
	}
	res.classes = append(res.classes, fmt.Sprintf("b:renewals-on-wire:%d", opn-1), "b:policy:"+c.Policy[strings.LastIndex(c.Policy, "#")+1:], fmt.Sprintf("b:encrypt:%v", c.Encrypt))
	if hooks {
		res.classes = append(res.classes, fmt.Sprintf("b:rules-satisfied:%v", ctrl.Satisfied() > 0))
	} else {
		res.classes = append(res.classes, "b:automatic-renewal")
	}
	// in flight during an OPN exchange: a client MSG chunk captured between an OPN request and its response
	inOPN, overlap := false, false
	for _, f := range frames {
		switch {
		case f.Type() == "OPN" && f.Dir == netx.C2S:
			inOPN = true
		case f.Type() == "OPN" && f.Dir == netx.S2C:
			inOPN = false
		case f.Type() == "MSG" && inOPN:
			overlap = true
		}
	}
	res.nontrivial = opn >= 2 && (overlap || (ctrl != nil && ctrl.Satisfied() > 0))
	if failed > 0 || renewFailed > 0 {
		res.msg = fmt.Sprintf("%d of %d requests and %d renewals failed around %d renewals; first: %v; server receive error: %v; server send error: %v", failed, issued, renewFailed, opn-1, firstErr.Load(), srvErr.Load(), respErr.Load())
	} else if e := srvErr.Load(); e != nil {
		res.msg = fmt.Sprintf("the server channel's Receive failed around a renewal: %v", e)
	}
	return res
}

func genLoad(t *rapid.T, manual bool) loadCase {
	var c loadCase
	c.Policy = rapid.SampledFrom(chanpair.Policies).Draw(t, "policy")
	c.Encrypt = rapid.Bool().Draw(t, "encrypt")
	c.Senders = rapid.IntRange(2, 4).Draw(t, "senders")
	c.Responders = rapid.IntRange(1, 3).Draw(t, "responders")
	for i, n := 0, rapid.IntRange(1, 4).Draw(t, "ndelay"); i < n; i++ {
		c.RespDelay = append(c.RespDelay, rapid.SampledFrom([]int{0, 0, 1, 5, 20}).Draw(t, "delay"))
	}
	for i, n := 0, rapid.IntRange(1, 4).Draw(t, "nsize"); i < n; i++ {
		c.ReqSize = append(c.ReqSize, rapid.SampledFrom([]int{10, 100, 9000, 20000}).Draw(t, "size"))
	}
	if manual {
		c.Requests = rapid.IntRange(3, 8).Draw(t, "requests")
		total := c.Requests * c.Senders
		for i, n := 0, rapid.IntRange(1, 3).Draw(t, "renewals"); i < n; i++ {
			c.RenewAt = append(c.RenewAt, rapid.IntRange(0, total-1).Draw(t, "renewAt"))
		}
		for i, n := 0, rapid.IntRange(1, 4).Draw(t, "nrules"); i < n; i++ {
			r := rapid.SampledFrom(ruleMenu).Draw(t, "rule")
			r.Skip = rapid.IntRange(0, 6).Draw(t, "skip")
			r.Times = rapid.IntRange(1, 4).Draw(t, "times")
			c.Rules = append(c.Rules, r)
		}
	} else {
		c.LifetimeMS = rapid.IntRange(3000, 5000).Draw(t, "lifetime")
	}
	return c
}

func judgeLoad(t *rapid.T, test string, c loadCase) {
	b, _ := json.Marshal(c)
	rec.Journal(test, c)
	res := runLoad(c)
	rec.JournalDone(test)
	if res.infra {
		rec.Inconclusive()
	}
	rec.Case(res.nontrivial, ev.Hash("b", b), res.classes...)
	if res.nontrivial && rec.WantSample() {
		rec.Sample(c)
	}
	if res.msg != "" {
		// timing and schedule dependent: count how often it reproduces
		again := 0
		for i := 0; i < 2; i++ {
			if r2 := runLoad(c); r2.msg != "" {
				again++
			}
		}
		// the automatic-renewal runs depend on real time (a stalled machine can
		// let a token expire): only a failure that reproduces every time counts
		if again == 0 || (c.LifetimeMS != 0 && again < 2) {
			rec.Inconclusive()
			return
		}
		rec.Fail(t, test, c, "%s (reproduced %d/2 on re-run)", res.msg, again)
	}
}

// TestRenewalWindows: manual renewals with holds at the scheduling points.
func TestRenewalWindows(t *testing.T) {
	rapid.Check(t, func(t *rapid.T) { judgeLoad(t, "TestRenewalWindows", genLoad(t, true)) })
}

// TestRequestsAcrossAutomaticRenewals: continuous traffic across timer-driven renewals.
func TestRequestsAcrossAutomaticRenewals(t *testing.T) {
	rapid.Check(t, func(t *rapid.T) { judgeLoad(t, "TestRequestsAcrossAutomaticRenewals", genLoad(t, false)) })
}

func TestReplay(t *testing.T) {
	rp, err := ev.LoadReplay()
	if err != nil {
		t.Fatal(err)
	}
	if rp == nil {
		t.Skip("no VERIF_REPLAY")
	}
	fmt.Println("REPLAYED structured")
	if rp.Test == "TestClientAgainstServer" {
		var c stackCaseT
		if err := json.Unmarshal(rp.Case, &c); err != nil {
			t.Fatal(err)
		}
		for i := 0; i < 3; i++ {
			msg, infra := runStackCase(c)
			if infra != nil {
				t.Skipf("no verdict: %v", infra)
			}
			if msg == "" {
				return
			}
			if i == 2 {
				t.Fatalf("property C16 violated: %s (3/3)", msg)
			}
		}
		return
	}
	if rp.Test == "TestRenewalSchedule" {
		var c schedCase
		if err := json.Unmarshal(rp.Case, &c); err != nil {
			t.Fatal(err)
		}
		for _, l := range c.LifetimeMS {
			bad, good := 0, 0
			var last string
			for i := 0; i < 8 && bad < 3 && good == 0; i++ {
				w := starve.Begin()
				m, soft, _ := observe(c.Policy, time.Duration(l)*time.Millisecond)
				switch {
				case m == "":
					good++
				case soft && w.Settle() > 40*time.Millisecond:
					// starved execution: says nothing
				default:
					bad++
					last = m
				}
			}
			if bad == 3 {
				t.Fatalf("property C16 violated: %s", last)
			}
		}
		return
	}
	var c loadCase
	if err := json.Unmarshal(rp.Case, &c); err != nil {
		t.Fatal(err)
	}
	for i := 0; i < 4; i++ {
		if res := runLoad(c); res.msg != "" {
			t.Fatalf("property C16 violated: %s", res.msg)
		}
	}
}
