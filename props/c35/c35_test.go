// Package c35 decides property C35: services other than discovery and session
// setup require an activated session.
//
// Domain: every registered request type (pkg/gen Universe, kind "service", name
// ending in "Request", implementing ua.Request) outside the exempt set
// {FindServers*, GetEndpoints, RegisterServer*, OpenSecureChannel,
// CloseSecureChannel, CreateSession, ActivateSession}, sent on a raw gopcua
// client secure channel (uacp.Dial + uasc.NewSecureChannel + Open, policy None)
// with an authentication token in
//
//	null            no token (null NodeId)
//	unknown         a NodeId the server never issued (numeric / string / guid / opaque)
//	closed          session created, activated and closed over this very channel
//	not-activated   session created over this very channel, never activated
//	foreign         session created and activated on a second server instance
//
// Request bodies come from pkg/gen (all pointer fields set), drawn from a value
// seed (rapid Example(seed)), half of them aimed at real objects of the fixture
// (writable variables, a live subscription with a monitored item owned by a
// legitimate session) so that a performed action is observable.
//
// Oracle (Part 4, 5.6 / 7.38 common service results):
//   - the answer is a ServiceFault or a response whose service result is one of
//     BadSessionIdInvalid, BadSessionClosed, BadSessionNotActivated,
//     BadSecurityChecksFailed; for services this server does not implement (every
//     service outside `implemented`) any Bad service result is accepted;
//   - no effect: the fixture variables keep their values and the subscription /
//     monitored item tables of the server (SubscriptionService.Subs,
//     MonitoredItemService.Items incl. Mode / Nodes / Subs) equal the baseline.
//
// Not asserted: CloseSession with the token of a created-but-not-activated
// session (Part 4 5.6.4 allows closing a session before activation over the
// channel that created it). A token of a session activated on this server over
// another channel is a control (Read / Browse only), never a negative case.
package c35

import (
	"context"
	"encoding/json"
	"fmt"
	"io"
	"reflect"
	"sort"
	"strings"
	"sync"
	"testing"
	"time"

	"github.com/gopcua/opcua"
	"github.com/gopcua/opcua/id"
	"github.com/gopcua/opcua/server"
	"github.com/gopcua/opcua/ua"
	"github.com/gopcua/opcua/uacp"
	"github.com/gopcua/opcua/uapolicy"
	"github.com/gopcua/opcua/uasc"
	"pgregory.net/rapid"

	"verif/pkg/ev"
	"verif/pkg/gen"
	"verif/pkg/keys"
	"verif/pkg/stack"
)

func TestMain(m *testing.M) { ev.Main(m) }

var rec = ev.For("C35", "request type x token kind {null, unknown, closed, not-activated, foreign, activation-refused (session on a Basic256Sha256/Sign channel whose only ActivateSession carried a client signature that does not verify), near-miss of the live session's token (same number in another namespace / as string / as opaque, number +-1, one bit flipped)} x value seed x aimed/unaimed; non-trivial = the service is one this server implements (with a valid session it would act); distinct by hash of (type, token, seed, aimed)")

// ---------------------------------------------------------------------------
// domain

var exempt = map[string]bool{
	"FindServersRequest": true, "FindServersOnNetworkRequest": true, "GetEndpointsRequest": true,
	"RegisterServerRequest": true, "RegisterServer2Request": true,
	"OpenSecureChannelRequest": true, "CloseSecureChannelRequest": true,
	"CreateSessionRequest": true, "ActivateSessionRequest": true,
}

// implemented lists the services for which this server does more than answer
// BadServiceUnsupported (read off server/*_service.go). For every other service
// any Bad service result is accepted.
var implemented = map[string]bool{
	"CloseSessionRequest": true, "BrowseRequest": true, "ReadRequest": true, "WriteRequest": true,
	"CreateSubscriptionRequest": true, "PublishRequest": true, "DeleteSubscriptionsRequest": true,
	"CreateMonitoredItemsRequest": true, "SetMonitoringModeRequest": true, "DeleteMonitoredItemsRequest": true,
}

var family = map[string]string{
	"CloseSessionRequest": "session", "CancelRequest": "session",
	"AddNodesRequest": "nodemanagement", "AddReferencesRequest": "nodemanagement", "DeleteNodesRequest": "nodemanagement", "DeleteReferencesRequest": "nodemanagement",
	"BrowseRequest": "view", "BrowseNextRequest": "view", "TranslateBrowsePathsToNodeIDsRequest": "view", "RegisterNodesRequest": "view", "UnregisterNodesRequest": "view",
	"QueryFirstRequest": "query", "QueryNextRequest": "query",
	"ReadRequest": "attribute", "HistoryReadRequest": "attribute", "WriteRequest": "attribute", "HistoryUpdateRequest": "attribute",
	"CallRequest":                 "method",
	"CreateMonitoredItemsRequest": "monitoreditem", "ModifyMonitoredItemsRequest": "monitoreditem", "SetMonitoringModeRequest": "monitoreditem", "SetTriggeringRequest": "monitoreditem", "DeleteMonitoredItemsRequest": "monitoreditem",
	"CreateSubscriptionRequest": "subscription", "ModifySubscriptionRequest": "subscription", "SetPublishingModeRequest": "subscription", "PublishRequest": "subscription",
	"RepublishRequest": "subscription", "TransferSubscriptionsRequest": "subscription", "DeleteSubscriptionsRequest": "subscription",
}

var sessionErrors = map[ua.StatusCode]bool{
	ua.StatusBadSessionIDInvalid:     true,
	ua.StatusBadSessionClosed:        true,
	ua.StatusBadSessionNotActivated:  true,
	ua.StatusBadSecurityChecksFailed: true,
}

var tokenKinds = []string{"null", "unknown", "closed", "not-activated", "foreign", "near-miss", "activation-refused"}

type caseT struct {
	Type  string `json:"type"`
	Token string `json:"token"`
	Seed  int    `json:"value_seed"`
	Aim   bool   `json:"aimed"`
}

var (
	typesOnce sync.Once
	reqTypes  []gen.TypeInfo
	skipped   []string
)

var tRequest = reflect.TypeOf((*ua.Request)(nil)).Elem()

func requestTypes() []gen.TypeInfo {
	typesOnce.Do(func() {
		for _, ti := range gen.Universe() {
			if ti.Kind != "service" || !strings.HasSuffix(ti.Name, "Request") || exempt[ti.Name] {
				continue
			}
			if !ti.Type.Implements(tRequest) {
				skipped = append(skipped, ti.Name) // registered as a service but not a request (no header)
				continue
			}
			reqTypes = append(reqTypes, ti)
		}
	})
	return reqTypes
}

func typeByName(name string) (gen.TypeInfo, bool) {
	for _, ti := range requestTypes() {
		if ti.Name == name {
			return ti, true
		}
	}
	return gen.TypeInfo{}, false
}

// ---------------------------------------------------------------------------
// raw channel

type rawChan struct {
	url   string
	conn  *uacp.Conn
	sc    *uasc.SecureChannel
	errCh chan error
	cert  []byte // client certificate of a secured channel (sent in CreateSession)
}

// openRawSigned opens a Basic256Sha256 / Sign channel: only on a secured channel
// can the server refuse an ActivateSession (the client signature is checked).
func openRawSigned(url string) (*rawChan, error) {
	ctx, cancel := context.WithTimeout(context.Background(), 15*time.Second)
	defer cancel()
	conn, err := uacp.Dial(ctx, url)
	if err != nil {
		return nil, err
	}
	errCh := make(chan error, 64)
	go func() {
		for range errCh {
		}
	}()
	ck, sk := keys.Get("a", 2048), keys.Get("b", 2048)
	cfg := &uasc.Config{SecurityPolicyURI: ua.SecurityPolicyURIBasic256Sha256, SecurityMode: ua.MessageSecurityModeSign, Lifetime: 3600_000, RequestTimeout: reqTimeout,
		Certificate: ck.Cert, LocalKey: ck.Key, RemoteCertificate: sk.Cert, Thumbprint: uapolicy.Thumbprint(sk.Cert)}
	sc, err := uasc.NewSecureChannel(url, conn, cfg, errCh)
	if err != nil {
		conn.Close()
		return nil, err
	}
	if err := sc.Open(ctx); err != nil {
		conn.Close()
		return nil, err
	}
	return &rawChan{url: url, conn: conn, sc: sc, errCh: errCh, cert: ck.Cert}, nil
}

// refusedActivation creates a session on the signed channel and sends an
// ActivateSession whose client signature does not verify. It returns the
// session's token and whether the server refused the activation.
func (r *rawChan) refusedActivation(policyID string, seed int) (*ua.NodeID, bool, error) {
	cs, err := r.createSession()
	if err != nil {
		return nil, false, err
	}
	sig, alg, err := r.sc.NewSessionSignature(cs.ServerCertificate, cs.ServerNonce)
	if err != nil {
		return nil, false, err
	}
	switch seed % 4 {
	case 0:
		sig[seed%len(sig)] ^= 1 << uint(seed%8)
	case 1: // signed over another nonce
		other := append([]byte{}, cs.ServerNonce...)
		other[0] ^= 0xff
		if sig, alg, err = r.sc.NewSessionSignature(cs.ServerCertificate, other); err != nil {
			return nil, false, err
		}
	case 2:
		sig = []byte{}
	default:
		for i := range sig {
			sig[i] = byte(seed + i*7)
		}
	}
	a := r.send(&ua.ActivateSessionRequest{ClientSignature: &ua.SignatureData{Algorithm: alg, Signature: sig},
		UserIdentityToken: ua.NewExtensionObject(&ua.AnonymousIdentityToken{PolicyID: policyID}), UserTokenSignature: &ua.SignatureData{}}, cs.AuthenticationToken)
	if a.timeout {
		return nil, false, fmt.Errorf("ActivateSession: no answer")
	}
	_, accepted := a.resp.(*ua.ActivateSessionResponse)
	return cs.AuthenticationToken, !(accepted && a.err == nil), nil
}

const reqTimeout = 5 * time.Second

func openRaw(url string) (*rawChan, error) {
	ctx, cancel := context.WithTimeout(context.Background(), 15*time.Second)
	defer cancel()
	conn, err := uacp.Dial(ctx, url)
	if err != nil {
		return nil, err
	}
	errCh := make(chan error, 64)
	go func() {
		for range errCh {
		}
	}()
	cfg := &uasc.Config{SecurityPolicyURI: ua.SecurityPolicyURINone, SecurityMode: ua.MessageSecurityModeNone, Lifetime: 3600_000, RequestTimeout: reqTimeout}
	sc, err := uasc.NewSecureChannel(url, conn, cfg, errCh)
	if err != nil {
		conn.Close()
		return nil, err
	}
	if err := sc.Open(ctx); err != nil {
		conn.Close()
		return nil, err
	}
	return &rawChan{url: url, conn: conn, sc: sc, errCh: errCh}, nil
}

func (r *rawChan) close() {
	if r == nil {
		return
	}
	_ = r.sc.Close()
	_ = r.conn.Close()
}

type answer struct {
	resp    ua.Response
	err     error
	timeout bool
}

func (r *rawChan) send(req ua.Request, token *ua.NodeID) answer {
	var a answer
	ctx, cancel := context.WithTimeout(context.Background(), reqTimeout+5*time.Second)
	defer cancel()
	a.err = r.sc.SendRequest(ctx, req, token, func(v ua.Response) error {
		a.resp = v
		return nil
	})
	if a.resp == nil && (a.err == ua.StatusBadTimeout || a.err == context.DeadlineExceeded) {
		a.timeout = true
	}
	return a
}

var sessionNo int

// createSession creates a session over the channel and returns the response.
func (r *rawChan) createSession() (*ua.CreateSessionResponse, error) {
	sessionNo++
	nonce := make([]byte, 32)
	copy(nonce, fmt.Sprintf("c35-nonce-%020d", sessionNo))
	req := &ua.CreateSessionRequest{
		ClientDescription: &ua.ApplicationDescription{ApplicationURI: "urn:verif:c35", ProductURI: "urn:verif", ApplicationName: &ua.LocalizedText{EncodingMask: ua.LocalizedTextText, Text: "c35"},
			ApplicationType: ua.ApplicationTypeClient},
		EndpointURL: r.url, SessionName: fmt.Sprintf("c35-%d", sessionNo), ClientNonce: nonce, RequestedSessionTimeout: 600_000,
		ClientCertificate: r.cert,
	}
	a := r.send(req, nil)
	res, ok := a.resp.(*ua.CreateSessionResponse)
	if !ok || a.err != nil {
		return nil, fmt.Errorf("CreateSession: %T %v", a.resp, a.err)
	}
	return res, nil
}

func (r *rawChan) activate(cs *ua.CreateSessionResponse, policyID string) error {
	sig, alg, err := r.sc.NewSessionSignature(cs.ServerCertificate, cs.ServerNonce)
	if err != nil {
		return err
	}
	req := &ua.ActivateSessionRequest{
		ClientSignature:    &ua.SignatureData{Algorithm: alg, Signature: sig},
		UserIdentityToken:  ua.NewExtensionObject(&ua.AnonymousIdentityToken{PolicyID: policyID}),
		UserTokenSignature: &ua.SignatureData{},
	}
	a := r.send(req, cs.AuthenticationToken)
	if _, ok := a.resp.(*ua.ActivateSessionResponse); !ok || a.err != nil {
		return fmt.Errorf("ActivateSession: %T %v", a.resp, a.err)
	}
	return nil
}

func (r *rawChan) closeSession(token *ua.NodeID) error {
	a := r.send(&ua.CloseSessionRequest{DeleteSubscriptions: true}, token)
	if _, ok := a.resp.(*ua.CloseSessionResponse); !ok || a.err != nil {
		return fmt.Errorf("CloseSession: %T %v", a.resp, a.err)
	}
	return nil
}

func anonymousPolicy(url string) (string, error) {
	ctx, cancel := context.WithTimeout(context.Background(), 15*time.Second)
	defer cancel()
	eps, err := opcua.GetEndpoints(ctx, url)
	if err != nil {
		return "", err
	}
	for _, ep := range eps {
		for _, p := range ep.UserIdentityTokens {
			if p.TokenType == ua.UserTokenTypeAnonymous {
				return p.PolicyID, nil
			}
		}
	}
	return "", fmt.Errorf("no anonymous user token policy")
}

// ---------------------------------------------------------------------------
// fixture: server A (under test), server B (issues foreign tokens)

type fixtureT struct {
	a, b      *stack.Server
	policyA   string
	raw       *rawChan // channel the negative requests travel on
	signed    *rawChan // Basic256Sha256/Sign channel (token kind activation-refused), opened on demand
	legitCh   *rawChan // another channel: owns the legitimate session
	legit     *ua.NodeID
	foreign   *ua.NodeID
	vars      []*ua.NodeID
	subID     uint32
	itemID    uint32
	baseline  string
	issued    map[string]bool // tokens server A issued to this test
	writeNo   int32
	transport int // requests that ended without any response object (EOF, ERR)
	cases     int
}

var (
	fixOnce sync.Once
	fix     *fixtureT
	fixErr  error
)

func getFixture() (*fixtureT, error) {
	fixOnce.Do(func() { fix, fixErr = newFixture() })
	return fix, fixErr
}

func newFixture() (*fixtureT, error) {
	f := &fixtureT{issued: map[string]bool{}}
	var err error
	if f.a, err = stack.StartServer(stack.ServerOpts{Sec: []stack.Sec{{Policy: "None", Mode: ua.MessageSecurityModeNone}, {Policy: "Basic256Sha256", Mode: ua.MessageSecurityModeSign}}}); err != nil {
		return nil, err
	}
	if f.b, err = stack.StartServer(stack.ServerOpts{}); err != nil {
		return nil, err
	}
	for i := 0; i < 3; i++ {
		name := fmt.Sprintf("c35_v%d", i)
		f.a.AddVariable(name, int32(100+i))
		f.vars = append(f.vars, f.a.NodeID(name))
	}
	if f.policyA, err = anonymousPolicy(f.a.URL); err != nil {
		return nil, err
	}
	policyB, err := anonymousPolicy(f.b.URL)
	if err != nil {
		return nil, err
	}
	// the legitimate session of server A, on its own channel, with a subscription and a monitored item
	if f.legitCh, err = openRaw(f.a.URL); err != nil {
		return nil, err
	}
	cs, err := f.legitCh.createSession()
	if err != nil {
		return nil, err
	}
	if err := f.legitCh.activate(cs, f.policyA); err != nil {
		return nil, err
	}
	f.legit = cs.AuthenticationToken
	f.issued[f.legit.String()] = true
	if err := f.subscribe(); err != nil {
		return nil, err
	}
	// foreign token: a session created and activated on server B
	chB, err := openRaw(f.b.URL)
	if err != nil {
		return nil, err
	}
	csB, err := chB.createSession()
	if err != nil {
		return nil, err
	}
	if err := chB.activate(csB, policyB); err != nil {
		return nil, err
	}
	f.foreign = csB.AuthenticationToken
	if f.foreign.String() == f.legit.String() {
		return nil, fmt.Errorf("foreign token collides with the legitimate token")
	}
	if f.raw, err = openRaw(f.a.URL); err != nil {
		return nil, err
	}
	f.baseline = f.snapshot()
	return f, nil
}

func monitoredItemCreate(n *ua.NodeID, handle uint32) *ua.MonitoredItemCreateRequest {
	return &ua.MonitoredItemCreateRequest{
		ItemToMonitor:       &ua.ReadValueID{NodeID: n, AttributeID: ua.AttributeIDValue, DataEncoding: &ua.QualifiedName{}},
		MonitoringMode:      ua.MonitoringModeReporting,
		RequestedParameters: &ua.MonitoringParameters{ClientHandle: handle, SamplingInterval: 1000, Filter: ua.NewExtensionObject(nil), QueueSize: 1, DiscardOldest: true},
	}
}

// snapshot renders the observable server-side state.
func (f *fixtureT) snapshot() string {
	var sb strings.Builder
	for _, v := range f.vars {
		n := f.a.S.Node(v)
		var val any
		if n != nil {
			if dv := n.Value(); dv != nil && dv.Value != nil {
				val = dv.Value.Value()
			}
		}
		fmt.Fprintf(&sb, "%s=%T(%v);", v, val, val)
	}
	ss := f.a.S.SubscriptionService
	ss.Mu.Lock()
	subs := make([]int, 0, len(ss.Subs))
	for k := range ss.Subs {
		subs = append(subs, int(k))
	}
	ss.Mu.Unlock()
	sort.Ints(subs)
	fmt.Fprintf(&sb, "subs=%v;", subs)
	ms := f.a.S.MonitoredItemService
	ms.Mu.Lock()
	items := make([]string, 0, len(ms.Items))
	for k, it := range ms.Items {
		mode := "nil"
		if it != nil {
			mode = fmt.Sprint(int(it.Mode))
		}
		items = append(items, fmt.Sprintf("%d/mode%s", k, mode))
	}
	nodes := make([]string, 0, len(ms.Nodes))
	for k, l := range ms.Nodes {
		nodes = append(nodes, fmt.Sprintf("%s:%d", k, len(l)))
	}
	bysub := make([]string, 0, len(ms.Subs))
	for k, l := range ms.Subs {
		bysub = append(bysub, fmt.Sprintf("%d:%d", k, len(l)))
	}
	ms.Mu.Unlock()
	sort.Strings(items)
	sort.Strings(nodes)
	sort.Strings(bysub)
	fmt.Fprintf(&sb, "items=%v;nodes=%v;itemsBySub=%v", items, nodes, bysub)
	return sb.String()
}

// ---------------------------------------------------------------------------
// request construction

func (f *fixtureT) genRequest(ti gen.TypeInfo, seed int) (req ua.Request, err error) {
	for try := 0; try < 5; try++ {
		func() {
			defer func() {
				if r := recover(); r != nil {
					err = fmt.Errorf("generator: %v", r)
					req = nil
				}
			}()
			g := rapid.Custom(func(t *rapid.T) ua.Request { return gen.Default.Value(t, ti.Type).(ua.Request) })
			req = g.Example(seed + try*1_000_003)
			err = nil
		}()
		if req != nil {
			return req, nil
		}
	}
	return nil, err
}

// benign keeps generated parameters that are not the subject of this property harmless.
func benign(req ua.Request) {
	if r, ok := req.(*ua.CreateSubscriptionRequest); ok {
		r.RequestedPublishingInterval = 500 + float64(uint32(r.RequestedLifetimeCount)%4500)
		r.RequestedLifetimeCount = 10_000
		r.RequestedMaxKeepAliveCount = 10 + r.RequestedMaxKeepAliveCount%90
	}
}

// aim points the request at real objects of the fixture so that a performed action shows.
func (f *fixtureT) aim(req ua.Request, seed int) {
	v := f.vars[seed%len(f.vars)]
	switch r := req.(type) {
	case *ua.WriteRequest:
		f.writeNo++
		r.NodesToWrite = []*ua.WriteValue{{NodeID: v, AttributeID: ua.AttributeIDValue,
			Value: &ua.DataValue{EncodingMask: ua.DataValueValue, Value: ua.MustVariant(int32(5000) + f.writeNo)}}}
	case *ua.ReadRequest:
		r.MaxAge, r.TimestampsToReturn = 0, ua.TimestampsToReturnBoth
		r.NodesToRead = []*ua.ReadValueID{{NodeID: v, AttributeID: ua.AttributeIDValue, DataEncoding: &ua.QualifiedName{}}}
	case *ua.BrowseRequest:
		r.View = &ua.ViewDescription{ViewID: ua.NewTwoByteNodeID(0)}
		r.RequestedMaxReferencesPerNode = 0
		r.NodesToBrowse = []*ua.BrowseDescription{{NodeID: ua.NewNumericNodeID(0, id.ObjectsFolder), BrowseDirection: ua.BrowseDirectionForward,
			ReferenceTypeID: ua.NewNumericNodeID(0, id.HierarchicalReferences), IncludeSubtypes: true, ResultMask: uint32(ua.BrowseResultMaskAll)}}
	case *ua.CreateSubscriptionRequest:
		r.RequestedPublishingInterval, r.RequestedLifetimeCount, r.RequestedMaxKeepAliveCount = 1000, 10_000, 100
		r.PublishingEnabled = true
	case *ua.DeleteSubscriptionsRequest:
		r.SubscriptionIDs = []uint32{f.subID}
	case *ua.ModifySubscriptionRequest:
		r.SubscriptionID = f.subID
	case *ua.SetPublishingModeRequest:
		r.SubscriptionIDs = []uint32{f.subID}
	case *ua.TransferSubscriptionsRequest:
		r.SubscriptionIDs = []uint32{f.subID}
	case *ua.RepublishRequest:
		r.SubscriptionID = f.subID
	case *ua.PublishRequest:
		r.SubscriptionAcknowledgements = []*ua.SubscriptionAcknowledgement{}
	case *ua.CreateMonitoredItemsRequest:
		r.SubscriptionID = f.subID
		r.TimestampsToReturn = ua.TimestampsToReturnBoth
		r.ItemsToCreate = []*ua.MonitoredItemCreateRequest{monitoredItemCreate(v, 99)}
	case *ua.ModifyMonitoredItemsRequest:
		r.SubscriptionID = f.subID
	case *ua.SetMonitoringModeRequest:
		r.SubscriptionID = f.subID
		r.MonitoringMode = ua.MonitoringModeDisabled
		r.MonitoredItemIDs = []uint32{f.itemID}
	case *ua.SetTriggeringRequest:
		r.SubscriptionID = f.subID
		r.TriggeringItemID = f.itemID
	case *ua.DeleteMonitoredItemsRequest:
		r.SubscriptionID = f.subID
		r.MonitoredItemIDs = []uint32{f.itemID}
	case *ua.CloseSessionRequest:
		r.DeleteSubscriptions = true
	}
}

func (f *fixtureT) unknownToken(seed int) *ua.NodeID {
	for i := 0; ; i++ {
		var n *ua.NodeID
		switch (seed + i) % 5 {
		case 0:
			n = ua.NewNumericNodeID(0, uint32(0x7000_0000)+uint32((seed+i)*2654435761)%0x0fff_ffff)
		case 1:
			n = ua.NewStringNodeID(0, fmt.Sprintf("never-issued-%d", seed))
		case 2:
			n = ua.NewGUIDNodeID(0, fmt.Sprintf("%08X-1111-4222-8333-%012X", uint32(seed), seed))
		case 3:
			n = ua.NewByteStringNodeID(1, []byte(fmt.Sprintf("opaque-%d", seed)))
		default:
			n = ua.NewNumericNodeID(1, uint32(seed)+1)
		}
		if !f.issued[n.String()] && n.String() != f.foreign.String() {
			return n
		}
	}
}

// nearMiss returns a token that was never issued but resembles the token of
// the live, activated session of this connection: the same identifier in
// another namespace, another identifier type built from the same number, the
// neighbouring numbers, one flipped bit (added after seeded change C35-A).
func (f *fixtureT) nearMiss(seed int) *ua.NodeID {
	l := f.legit
	if l == nil {
		return nil
	}
	for i := 0; i < 16; i++ {
		var n *ua.NodeID
		id := l.IntID()
		switch (seed + i) % 8 {
		case 0:
			n = ua.NewNumericNodeID(1, id)
		case 1:
			n = ua.NewNumericNodeID(uint16(2+seed%60000), id)
		case 2:
			n = ua.NewStringNodeID(l.Namespace(), fmt.Sprint(id))
		case 3:
			n = ua.NewNumericNodeID(l.Namespace(), id+1)
		case 4:
			n = ua.NewNumericNodeID(l.Namespace(), id-1)
		case 5:
			n = ua.NewNumericNodeID(l.Namespace(), id^(1<<uint(seed%32)))
		case 6:
			n = ua.NewByteStringNodeID(l.Namespace(), []byte{byte(id), byte(id >> 8), byte(id >> 16), byte(id >> 24)})
		default:
			n = ua.NewStringNodeID(l.Namespace(), l.String())
		}
		if n.String() != l.String() && !f.issued[n.String()] && n.String() != f.foreign.String() {
			return n
		}
	}
	return nil
}

// ---------------------------------------------------------------------------
// one case

type verdict struct {
	msg     string
	infra   string
	sig     string // known-finding signature of msg
	classes []string
}

func (f *fixtureT) reopen() error {
	f.raw.close()
	var err error
	f.raw, err = openRaw(f.a.URL)
	return err
}

func run(c caseT, test string) (v verdict) {
	f, err := getFixture()
	if err != nil {
		v.infra = "fixture: " + err.Error()
		return
	}
	ti, ok := typeByName(c.Type)
	if !ok {
		v.infra = "malformed case: type " + c.Type
		return
	}
	cls := func(s string) { v.classes = append(v.classes, s) }
	f.cases++
	if got := f.snapshot(); got != f.baseline {
		v.msg = fmt.Sprintf("server state differs from the baseline before the case (late effect of an earlier request?): %s, baseline %s", got, f.baseline)
		v.sig = "late-effect"
		f.restore()
		return
	}
	// token
	var token *ua.NodeID
	var cleanup *ua.NodeID
	sendCh, cleanupCh := f.raw, f.raw // the channel the request travels on
	switch c.Token {
	case "null":
		token = nil
	case "unknown":
		token = f.unknownToken(c.Seed)
	case "foreign":
		token = f.foreign
	case "near-miss":
		token = f.nearMiss(c.Seed)
		if token == nil {
			v.infra = "no near-miss token available"
			return
		}
	case "activation-refused":
		if f.signed == nil {
			if f.signed, err = openRawSigned(f.a.URL); err != nil {
				v.infra = "signed channel: " + err.Error()
				f.signed = nil
				return
			}
		}
		tok, refused, err := f.signed.refusedActivation(f.policyA, c.Seed)
		if err != nil {
			f.signed.close()
			f.signed = nil
			v.infra = "refused activation: " + err.Error()
			return
		}
		if !refused {
			// the server accepted a client signature that does not verify: the
			// session IS activated then; not what this token kind is about
			cls("activation-with-bad-signature-was-accepted(case-not-judged)")
			_ = f.signed.send(&ua.CloseSessionRequest{}, tok)
			return
		}
		token, sendCh = tok, f.signed
		f.issued[token.String()] = true
		cleanupCh, cleanup = f.signed, tok
	case "closed", "not-activated":
		cs, err := f.raw.createSession()
		if err != nil {
			if err2 := f.reopen(); err2 != nil {
				v.infra = err.Error() + "; reopen: " + err2.Error()
				return
			}
			if cs, err = f.raw.createSession(); err != nil {
				v.infra = err.Error()
				return
			}
		}
		token = cs.AuthenticationToken
		f.issued[token.String()] = true
		if token.String() == f.foreign.String() || token.String() == f.legit.String() {
			v.infra = "token collision"
			return
		}
		if c.Token == "closed" {
			if err := f.raw.activate(cs, f.policyA); err != nil {
				v.infra = err.Error()
				return
			}
			if err := f.raw.closeSession(token); err != nil {
				v.infra = err.Error()
				return
			}
		} else {
			cleanup = token
		}
	default:
		v.infra = "malformed case: token " + c.Token
		return
	}
	defer func() {
		if cleanupCh == f.raw || cleanupCh == nil {
			cleanupCh = f.raw // f.raw may have been reopened meanwhile
		}
		if cleanup != nil && cleanupCh != nil {
			_ = cleanupCh.send(&ua.CloseSessionRequest{}, cleanup) // keep the session table small; result irrelevant
		}
	}()
	req, err := f.genRequest(ti, c.Seed)
	if err != nil {
		v.infra = err.Error()
		return
	}
	benign(req)
	if c.Aim {
		f.aim(req, c.Seed)
		cls("aimed")
	}
	cls("type:" + c.Type)
	cls("token:" + c.Token)

	rec.Journal(test, c)
	var a answer
	for try := 0; try < 3; try++ {
		if sendCh != f.signed {
			sendCh = f.raw // may have been reopened
			// Half of the token-less / unknown-token requests travel on the channel
			// that OWNS the live activated session: the token decides, not the channel.
			if try == 0 && c.Seed%2 == 1 && f.legitCh != nil && (c.Token == "null" || c.Token == "unknown" || c.Token == "foreign" || c.Token == "near-miss") {
				sendCh = f.legitCh
				if len(v.classes) == 0 || v.classes[len(v.classes)-1] != "sent-on-the-channel-of-the-live-session" {
					cls("sent-on-the-channel-of-the-live-session")
				}
			}
		}
		a = sendCh.send(req, token)
		if !a.timeout {
			break
		}
		if sendCh == f.signed {
			// the refused session lives on this channel: no fresh channel to confirm on
			rec.JournalDone(test)
			f.signed.close()
			f.signed = nil
			v.infra = "no answer on the signed channel"
			return
		}
		// no answer: confirm on a fresh channel before calling it a violation (DESIGN 3.4)
		cls("no-answer-within-timeout")
		if err := f.reopen(); err != nil {
			rec.JournalDone(test)
			v.infra = "reopen: " + err.Error()
			return
		}
	}
	delayed := ""
	switch c.Type {
	case "DeleteSubscriptionsRequest", "DeleteMonitoredItemsRequest", "CloseSessionRequest", "CreateMonitoredItemsRequest":
		time.Sleep(30 * time.Millisecond) // these handlers finish their work in a goroutine
	}
	after := f.snapshot()
	rec.JournalDone(test)
	if after != f.baseline {
		delayed = after
	}
	strict := implemented[c.Type]
	notAsserted := c.Type == "CloseSessionRequest" && (c.Token == "not-activated" || c.Token == "activation-refused")
	fam := family[c.Type]
	if fam == "" {
		fam = "other"
	}
	if delayed != "" && !notAsserted {
		v.msg = fmt.Sprintf("%s with %s token changed the server state: %s, baseline %s", c.Type, c.Token, delayed, f.baseline)
		v.sig = "effect-without-session:" + fam
		f.restore()
		return
	}
	switch {
	case a.timeout:
		if notAsserted {
			cls("not-asserted:closesession-before-activation")
			return
		}
		v.msg = fmt.Sprintf("%s with %s token: no answer within %v (confirmed on a fresh channel where possible); a session error was required", c.Type, c.Token, reqTimeout)
		v.sig = "no-answer-without-session:" + fam
		return
	case a.resp == nil:
		// transport-level end (ERR message, EOF): nothing was answered and nothing was performed
		f.transport++
		rec.Inconclusive()
		cls(fmt.Sprintf("transport-error:%v", a.err))
		if a.err == io.EOF || a.err != nil {
			if err := f.reopen(); err != nil {
				v.infra = "reopen: " + err.Error()
			}
		}
		return
	}
	hdr := a.resp.Header()
	if hdr == nil {
		v.infra = fmt.Sprintf("response %T without header", a.resp)
		return
	}
	res := hdr.ServiceResult
	form := "response"
	if _, ok := a.resp.(*ua.ServiceFault); ok {
		form = "fault"
	}
	cls("result:" + statusName(res) + "/" + form)
	if notAsserted {
		cls("not-asserted:closesession-before-activation")
		return
	}
	switch {
	case sessionErrors[res]:
		cls("verdict:session-error")
	case !strict && res&0x80000000 != 0:
		cls("verdict:unimplemented-service-any-bad")
	default:
		v.msg = fmt.Sprintf("%s with %s token was answered with %T, service result %v; a session error was required", c.Type, c.Token, a.resp, res)
		v.sig = "served-without-session:" + fam
	}
	return
}

// restore repairs the fixture after a detected effect (so that shrinking and
// later cases stay meaningful): the variables get their initial values back,
// the legitimate subscription and its monitored item are re-created if they
// are gone, and the repaired state becomes the new baseline.
func (f *fixtureT) restore() {
	time.Sleep(30 * time.Millisecond) // let background deletions finish
	for i, v := range f.vars {
		if n := f.a.S.Node(v); n != nil {
			_ = n.SetAttribute(ua.AttributeIDValue, server.DataValueFromValue(int32(100+i)))
		}
	}
	ss := f.a.S.SubscriptionService
	ss.Mu.Lock()
	_, subOK := ss.Subs[f.subID]
	ss.Mu.Unlock()
	ms := f.a.S.MonitoredItemService
	ms.Mu.Lock()
	_, itemOK := ms.Items[f.itemID]
	ms.Mu.Unlock()
	if !subOK || !itemOK {
		if err := f.subscribe(); err != nil {
			// cannot repair in place: build a new fixture on next use
			fixOnce = sync.Once{}
			return
		}
	}
	f.baseline = f.snapshot()
}

// subscribe creates the legitimate subscription and its monitored item.
func (f *fixtureT) subscribe() error {
	a := f.legitCh.send(&ua.CreateSubscriptionRequest{RequestedPublishingInterval: 1000, RequestedLifetimeCount: 1_000_000, RequestedMaxKeepAliveCount: 100_000,
		MaxNotificationsPerPublish: 0, PublishingEnabled: true}, f.legit)
	sub, ok := a.resp.(*ua.CreateSubscriptionResponse)
	if !ok || a.err != nil {
		return fmt.Errorf("CreateSubscription: %T %v", a.resp, a.err)
	}
	f.subID = sub.SubscriptionID
	a = f.legitCh.send(&ua.CreateMonitoredItemsRequest{SubscriptionID: f.subID, TimestampsToReturn: ua.TimestampsToReturnBoth,
		ItemsToCreate: []*ua.MonitoredItemCreateRequest{monitoredItemCreate(f.vars[2], 7)}}, f.legit)
	mi, ok := a.resp.(*ua.CreateMonitoredItemsResponse)
	if !ok || a.err != nil || len(mi.Results) != 1 || mi.Results[0].StatusCode != ua.StatusOK {
		return fmt.Errorf("CreateMonitoredItems: %T %v", a.resp, a.err)
	}
	f.itemID = mi.Results[0].MonitoredItemID
	time.Sleep(50 * time.Millisecond) // initial change notification of the monitored item
	return nil
}

func statusName(s ua.StatusCode) string {
	str := s.Error()
	if i := strings.Index(str, "Status"); i >= 0 {
		str = str[i:]
		if j := strings.IndexAny(str, " ("); j > 0 {
			str = str[:j]
		}
	}
	return str
}

func finish(t interface {
	Fatalf(string, ...any)
	Helper()
}, test string, c caseT, v verdict) {
	if v.infra != "" {
		t.Fatalf("infrastructure (not a violation): %s", v.infra)
	}
	b, _ := json.Marshal(c)
	rec.Case(implemented[c.Type], ev.Hash(b), v.classes...)
	if implemented[c.Type] && rec.WantSample() {
		rec.Sample(map[string]any{"case": c, "outcome": v.classes})
	}
	if v.msg != "" {
		if rec.Known(v.sig) {
			return
		}
		rec.Fail(t, test, c, "%s", v.msg)
	}
}

// ---------------------------------------------------------------------------

// TestExhaustive enumerates request type x token kind; per cell ev.Pick(8, 200)
// value seeds, alternating aimed / unaimed.
func TestExhaustive(t *testing.T) {
	rec.Assume("implemented services (strict oracle): " + strings.Join(sortedKeys(implemented), " ") + "; every other service: any Bad service result accepted")
	rec.Assume("accepted session errors: BadSessionIdInvalid, BadSessionClosed, BadSessionNotActivated, BadSecurityChecksFailed; CloseSession with a not-activated token is not asserted")
	f, err := getFixture()
	if err != nil {
		t.Fatalf("infrastructure: %v", err)
	}
	types := requestTypes()
	if len(types) < 25 {
		t.Fatalf("infrastructure: only %d request types found", len(types))
	}
	for _, s := range skipped {
		rec.Class("skipped-not-a-request:" + s)
	}
	per := ev.Pick(8, 200)
	base := int(ev.Seed()) * 1_000_000
	for d := 0; d < per; d++ {
		for ti, typ := range types {
			for ki, kind := range tokenKinds {
				c := caseT{Type: typ.Name, Token: kind, Seed: base + d*1000 + ti*10 + ki, Aim: d%2 == 0}
				v := run(c, "TestExhaustive")
				finish(t, "TestExhaustive", c, v)
			}
		}
	}
	control(t)
	f, _ = getFixture()
	if f.transport > 10 && f.transport*20 > f.cases {
		t.Fatalf("infrastructure: %d of %d requests ended with a transport error instead of a response", f.transport, f.cases)
	}
	rec.Extra("request_types", float64(len(types)))
	rec.Exhaustive()
}

// control: the token of a session activated on this server over ANOTHER channel is
// not a negative case; Read and Browse with it are expected to be served (counted, not asserted).
func control(t *testing.T) {
	f, err := getFixture()
	if err != nil {
		return
	}
	for _, name := range []string{"ReadRequest", "BrowseRequest"} {
		ti, _ := typeByName(name)
		req, err := f.genRequest(ti, 1)
		if err != nil {
			continue
		}
		f.aim(req, 1)
		a := f.raw.send(req, f.legit)
		if a.resp != nil && a.resp.Header() != nil {
			rec.Class("control:activated-on-other-channel:" + name + ":" + statusName(a.resp.Header().ServiceResult))
		} else {
			rec.Class("control:activated-on-other-channel:" + name + ":no-response")
		}
	}
}

// TestSessionRequired draws (type, token, seed, aimed) with rapid.
func TestSessionRequired(t *testing.T) {
	if _, err := getFixture(); err != nil {
		t.Fatalf("infrastructure: %v", err)
	}
	types := requestTypes()
	names := make([]string, len(types))
	for i, ti := range types {
		names[i] = ti.Name
	}
	rapid.Check(t, func(t *rapid.T) {
		c := caseT{
			Type:  rapid.SampledFrom(names).Draw(t, "type"),
			Token: rapid.SampledFrom(tokenKinds).Draw(t, "token"),
			Seed:  rapid.IntRange(0, 1<<30).Draw(t, "seed"),
			Aim:   rapid.Bool().Draw(t, "aimed"),
		}
		if rapid.Bool().Draw(t, "prefer-implemented") {
			c.Type = rapid.SampledFrom(sortedKeys(implemented)).Draw(t, "impl")
		}
		v := run(c, "TestSessionRequired")
		finish(t, "TestSessionRequired", c, v)
	})
}

func sortedKeys(m map[string]bool) []string {
	out := make([]string, 0, len(m))
	for k := range m {
		out = append(out, k)
	}
	sort.Strings(out)
	return out
}

// TestReplay re-runs a saved case without rapid.
func TestReplay(t *testing.T) {
	rp, err := ev.LoadReplay()
	if err != nil {
		t.Fatal(err)
	}
	if rp == nil {
		t.Skip("no VERIF_REPLAY")
	}
	var c caseT
	if err := json.Unmarshal(rp.Case, &c); err != nil {
		t.Fatal(err)
	}
	fmt.Println("REPLAYED structured")
	v := run(c, "TestReplay")
	if v.infra != "" {
		t.Fatalf("infrastructure: %s", v.infra)
	}
	if v.msg != "" {
		t.Fatalf("property C35 violated: %s", v.msg)
	}
}
