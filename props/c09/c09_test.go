// Package c09 decides property C09: tampered, truncated or forged secured
// chunks are rejected.
//
// Fixture: a gopcua client channel and a gopcua server channel over loopback
// with a frame-aware man-in-the-middle (pkg/chanpair + pkg/netx.Tap). The
// sender's secured chunks are captured at the tap (held back), exactly one
// mutation is applied to one of them and the resulting byte stream is injected
// towards the receiver, then the sender side is closed so that every Receive
// ends definitively (message, error or EOF) - no verdict depends on a timeout.
//
// Receiving kinds:
//   - server: the harness calls (*uasc.SecureChannel).Receive itself (panic is
//     recovered and reported) and - like server/channel_broker.go, the only
//     caller in the repo - stops at the first error;
//   - client: the client's own dispatcher goroutine calls Receive. A panic there
//     kills the process, so the case is journalled first (pkg/ev) and the driver
//     reports the journalled case. Observed: handler invocations and the error
//     channel handed to uasc.NewSecureChannel.
//
// Oracle (independent of uasc): a chunk is genuine iff the bytes the tap
// forwarded for it start with the bytes the sender produced. A delivered
// message must be one the sender produced (tag + content recomputed from the
// tag), all of its chunks genuine, delivered at most once; on the server kind
// nothing that lies behind the first non-genuine frame may be delivered before
// Receive reported an error; on the client kind, if a sentinel message sent
// after everything else is delivered, the dispatcher has consumed every earlier
// frame, so the error channel must hold at least one error by then.
package c09

import (
	"bytes"
	"context"
	"encoding/json"
	"fmt"
	"os"
	"runtime"
	"strings"
	"sync"
	"testing"
	"time"

	"github.com/gopcua/opcua/id"
	"github.com/gopcua/opcua/ua"
	"github.com/gopcua/opcua/uapolicy"
	"github.com/gopcua/opcua/uasc"
	"pgregory.net/rapid"

	"verif/pkg/chanpair"
	"verif/pkg/ev"
	"verif/pkg/keys"
	"verif/pkg/mitm"
	"verif/pkg/netx"
	"verif/pkg/refcodec"
)

func TestMain(m *testing.M) { ev.Main(m) }

var rec = ev.For("C09", "gopcua client<->server channel pair per case (5 secured policies x Sign/SignAndEncrypt x receiving kind server/client), 1-3 sender messages (single/multi chunk) captured at a MITM tap, ONE mutation (bit flip by region, multi-byte overwrite, truncation to L in [8,len) with/without MessageSize fix-up, extension by 1-64 bytes with/without fix-up, ChunkType/SecureChannelID/TokenID/MessageType rewrite, frame replaced by the corresponding chunk of a second channel with other keys, frame replaced by an unsigned plain OpenSecureChannel chunk naming policy None or the channel's policy, or by a complete asymmetric chunk encrypted for the receiver but signed with a foreign key) applied to one frame; plus all truncation lengths of one ~200-byte chunk per policy/mode/kind; non-trivial = the first non-genuine frame, as the receiver frames the stream, is complete and passes the UACP size checks (reaches the secure channel); distinct by hash of the case")

// ---------------------------------------------------------------------------
// case

// Msg is one sender message; Pad sizes its tagged payload.
type Msg struct {
	Pad int `json:"pad"`
}

// Mut is the single mutation of a case. Selectors are reduced modulo the actual
// sizes at run time, so a case is plain data although chunk sizes depend on the
// policy.
type Mut struct {
	Kind   string `json:"kind"`   // flip overwrite trunc extend chunktype channelid tokenid msgtype forge
	Frame  int    `json:"frame"`  // selector of the frame (mod number of scripted frames)
	Region string `json:"region"` // flip/overwrite: type size chan token seq body tail any
	Off    int    `json:"off"`    // selector inside the region; rewrites: selector of the new value
	Bit    int    `json:"bit"`    // flip: bit 0-7
	Len    int    `json:"len"`    // overwrite: bytes; trunc: selector of L; extend: appended bytes (1-64)
	Small  bool   `json:"small"`  // trunc: L from [8,80) instead of [8,len)
	Abs    int    `json:"abs"`    // trunc: if >0 the exact L (clamped to [8,len))
	Fix    bool   `json:"fix"`    // trunc/extend: MessageSize field set to the new length
	Val    uint32 `json:"val"`    // seed of overwrite/extension bytes, raw value for id rewrites
}

// Case is one executed case.
type Case struct {
	Policy string `json:"policy"` // fragment of the policy URI
	Mode   string `json:"mode"`   // Sign | SignAndEncrypt
	Kind   string `json:"kind"`   // server | client (the receiving channel)
	Buf    int    `json:"buf"`    // negotiated buffer = chunk size
	Msgs   []Msg  `json:"msgs"`
	Mut    Mut    `json:"mut"`
}

// outcome of running a case.
type outcome struct {
	Infra      string   // harness problem: no verdict
	Violation  string   // property violated
	Nontrivial bool     //
	Classes    []string //
	Note       string   // for samples
}

const (
	stepTimeout = 20 * time.Second // harness-only waits; expiring is an infrastructure note, never a verdict
)

// ---------------------------------------------------------------------------
// capture hook

type capture struct {
	mu     sync.Mutex
	dir    netx.Dir
	on     bool
	frames [][]byte
	finals int
	sig    chan struct{}
}

func newCapture(dir netx.Dir) *capture { return &capture{dir: dir, sig: make(chan struct{}, 1)} }

func (c *capture) enable() { c.mu.Lock(); c.on = true; c.mu.Unlock() }

func (c *capture) hook(dir netx.Dir, conn int, f []byte) [][]byte {
	c.mu.Lock()
	defer c.mu.Unlock()
	if !c.on || dir != c.dir || !mitm.IsMSG(f) {
		return [][]byte{f}
	}
	c.frames = append(c.frames, mitm.Clone(f))
	if f[3] != 'C' {
		c.finals++
	}
	select {
	case c.sig <- struct{}{}:
	default:
	}
	return nil // held back
}

func (c *capture) wait(finals int, d time.Duration) ([][]byte, bool) {
	deadline := time.After(d)
	for {
		c.mu.Lock()
		ok := c.finals >= finals
		fr := append([][]byte(nil), c.frames...)
		c.mu.Unlock()
		if ok {
			return fr, true
		}
		select {
		case <-c.sig:
		case <-deadline:
			return nil, false
		}
	}
}

// ---------------------------------------------------------------------------
// scene: an opened pair with the sender's chunks captured

type delivery struct {
	Slot  int    // client kind: handler slot (= request index); server kind: -1
	Text  string // tagged text carried by the delivered message
	Shape bool   // message has the shape the sender builds
}

type scene struct {
	c      Case
	p      *chanpair.Pair
	frames [][]byte // captured sender chunks, in order
	msgOf  []int    // message index of every chunk
	total  int      // messages incl. sentinel (client kind)

	// client kind
	wg           sync.WaitGroup
	mu           sync.Mutex
	delivered    []delivery
	rets         map[int]error
	sentinelSeen bool
	sentinelErrs []string
	sentinelRet  chan struct{}
}

func (s *scene) close() { mitm.HardClose(s.p) }

// produce opens a pair and lets the sender produce its chunks, which the tap
// holds back. withSentinel adds one more message after the scripted ones.
func produce(c Case, withSentinel bool) (*scene, string) {
	pol := mitm.PolicyByShort(c.Policy)
	if pol == "" {
		return nil, "unknown policy " + c.Policy
	}
	if c.Buf < 8192 {
		c.Buf = 8192
	}
	ck, sk := mitm.Keys(pol)
	dir := netx.C2S
	if c.Kind == "client" {
		dir = netx.S2C
	}
	cp := newCapture(dir)
	p, err := chanpair.New(chanpair.Options{Policy: pol, Mode: mitm.Mode(c.Mode), ClientKey: ck, ServerKey: sk,
		ClientACK: mitm.ACK(uint32(c.Buf)), ServerACK: mitm.ACK(uint32(c.Buf)), Hook: cp.hook, RequestTimeout: 60 * time.Second})
	if err != nil {
		return nil, "chanpair: " + err.Error()
	}
	s := &scene{c: c, p: p, rets: map[int]error{}, sentinelRet: make(chan struct{})}
	n := len(c.Msgs)
	s.total = n
	if withSentinel {
		s.total = n + 1
	}
	pad := func(i int) int {
		if i < n {
			return c.Msgs[i].Pad
		}
		return 0
	}
	ctx := context.Background()

	if c.Kind == "server" {
		cp.enable()
		for i := 0; i < s.total; i++ {
			if err := p.Client.SendRequest(ctx, mitm.Request(i, pad(i)), nil, nil); err != nil {
				s.close()
				return nil, "client send: " + err.Error()
			}
		}
	} else {
		reqIDs := make([]uint32, s.total)
		handles := make([]uint32, s.total)
		for i := 0; i < s.total; i++ {
			i := i
			s.wg.Add(1)
			go func() {
				defer s.wg.Done()
				err := p.Client.SendRequest(ctx, mitm.Request(i, 0), nil, func(r ua.Response) error {
					text, ok := mitm.ResponseText(r)
					s.mu.Lock()
					s.delivered = append(s.delivered, delivery{Slot: i, Text: text, Shape: ok})
					if i == n {
						// the dispatcher reports an error before it reads the next
						// frame, so everything it reported is in the channel by now
						s.sentinelSeen = true
					drain:
						for {
							select {
							case e := <-p.ClientErr:
								s.sentinelErrs = append(s.sentinelErrs, mitm.ErrClass(e))
							default:
								break drain
							}
						}
					}
					s.mu.Unlock()
					return nil
				})
				s.mu.Lock()
				s.rets[i] = err
				s.mu.Unlock()
				if i == n {
					close(s.sentinelRet)
				}
			}()
			r := mitm.Receive(p.Server, stepTimeout)
			if r.TimedOut || r.Panic != "" || r.Msg == nil || r.Msg.Err != nil || r.Msg.Request() == nil {
				s.close()
				return nil, fmt.Sprintf("untampered request %d did not arrive: %+v", i, r)
			}
			text, ok := mitm.RequestText(r.Msg.Request())
			tag, _, intact := mitm.ParseText(text)
			if !ok || !intact || tag != i {
				s.close()
				return nil, fmt.Sprintf("untampered request %d arrived as %q", i, text)
			}
			reqIDs[i] = r.Msg.RequestID
			handles[i] = r.Msg.Request().Header().RequestHandle
		}
		cp.enable()
		for i := 0; i < s.total; i++ {
			if err := p.Server.SendResponseWithContext(ctx, reqIDs[i], mitm.Response(handles[i], i, pad(i))); err != nil {
				s.close()
				return nil, "server send: " + err.Error()
			}
		}
	}
	frames, ok := cp.wait(s.total, stepTimeout)
	if !ok {
		s.close()
		return nil, "tap did not see all sender chunks"
	}
	s.frames = frames
	m := 0
	for _, f := range frames {
		s.msgOf = append(s.msgOf, m)
		if f[3] != 'C' {
			m++
		}
	}
	return s, ""
}

// ---------------------------------------------------------------------------
// mutation

type mutInfo struct {
	K      int    // mutated frame
	Class  string // coarse class (kind + fix-up)
	Fine   string // fine class (region / length bucket / new value)
	Len    int    // length of the original frame
	NewLen int
}

func fillBytes(seed uint32, n int) []byte {
	b := make([]byte, n)
	x := seed | 1
	for i := range b {
		x = x*1664525 + 1013904223
		b[i] = byte(x >> 24)
	}
	return b
}

func region(name string, n, sig int) (lo, hi int) {
	switch name {
	case "type":
		lo, hi = 0, 4
	case "size":
		lo, hi = 4, 8
	case "chan":
		lo, hi = 8, 12
	case "token":
		lo, hi = 12, 16
	case "seq":
		lo, hi = 16, 24
	case "body":
		lo, hi = 24, n-sig
	case "tail":
		lo, hi = n-sig, n
	default:
		lo, hi = 0, n
	}
	if lo < 0 || hi > n || lo >= hi {
		return 0, n
	}
	return lo, hi
}

func mod(a, n int) int {
	if n <= 0 {
		return 0
	}
	a %= n
	if a < 0 {
		a += n
	}
	return a
}

// mutate returns the frames to forward (one entry per captured frame).
func mutate(c Case, frames [][]byte, msgOf []int, donor [][]byte) ([][]byte, mutInfo) {
	out := make([][]byte, len(frames))
	for i, f := range frames {
		out[i] = f
	}
	scripted := 0
	for i := range frames {
		if msgOf[i] < len(c.Msgs) {
			scripted++
		}
	}
	mu := c.Mut
	k := mod(mu.Frame, scripted)
	orig := frames[k]
	n := len(orig)
	sig := mitm.SigLen(mitm.PolicyByShort(c.Policy))
	f := mitm.Clone(orig)
	info := mutInfo{K: k, Len: n, Class: mu.Kind, Fine: mu.Kind}
	le32 := func(off int) uint32 {
		return uint32(f[off]) | uint32(f[off+1])<<8 | uint32(f[off+2])<<16 | uint32(f[off+3])<<24
	}
	put32 := func(off int, v uint32) {
		f[off], f[off+1], f[off+2], f[off+3] = byte(v), byte(v>>8), byte(v>>16), byte(v>>24)
	}
	idRewrite := func(off int) {
		old := le32(off)
		cands := []uint32{0, old + 1, old ^ 0x80000000, mu.Val}
		v := cands[mod(mu.Off, len(cands))]
		if v == old {
			v = old + 7
		}
		put32(off, v)
		info.Fine = fmt.Sprintf("%s:%s", mu.Kind, []string{"zero", "plus1", "hibit", "random"}[mod(mu.Off, 4)])
	}
	switch mu.Kind {
	case "flip":
		lo, hi := region(mu.Region, n, sig)
		off := lo + mod(mu.Off, hi-lo)
		f[off] ^= 1 << uint(mod(mu.Bit, 8))
		info.Fine = "flip:" + mu.Region
		if mu.Region == "size" || (off >= 4 && off < 8) {
			info.Class = "flip-size"
		}
	case "overwrite":
		lo, hi := region(mu.Region, n, sig)
		off := lo + mod(mu.Off, hi-lo)
		l := mu.Len
		if l < 2 {
			l = 2
		}
		if off+l > n {
			l = n - off
		}
		for i, x := range fillBytes(mu.Val, l) {
			f[off+i] ^= x | 1 // every overwritten byte changes
		}
		info.Fine = "overwrite:" + mu.Region
		if off < 8 && off+l > 4 {
			info.Class = "overwrite-size"
		}
	case "trunc":
		var L int
		switch {
		case mu.Abs > 0:
			L = mu.Abs
		case mu.Small:
			L = 8 + mod(mu.Len, 72)
		default:
			L = 8 + mod(mu.Len, n-8)
		}
		if L > n-1 {
			L = n - 1
		}
		if L < 8 {
			L = 8
		}
		f = f[:L]
		if mu.Fix {
			mitm.SetSize(f, uint32(L))
			info.Class = "trunc-fix"
		} else {
			info.Class = "trunc-nofix"
		}
		switch {
		case L < 12:
			info.Fine = info.Class + ":L<12"
		case L < 16:
			info.Fine = info.Class + ":L<16"
		case L < 24:
			info.Fine = info.Class + ":L<24"
		case L < sig:
			info.Fine = info.Class + ":L<sig"
		case L < 16+sig:
			info.Fine = info.Class + ":L<16+sig"
		case L < 24+sig:
			info.Fine = info.Class + ":L<24+sig"
		case (L-16)%16 == 0:
			info.Fine = info.Class + ":block-aligned"
		default:
			info.Fine = info.Class + ":long"
		}
	case "extend":
		l := 1 + mod(mu.Len-1, 64)
		f = append(f, fillBytes(mu.Val, l)...)
		if mu.Fix {
			mitm.SetSize(f, uint32(len(f)))
			info.Class = "extend-fix"
		} else {
			info.Class = "extend-nofix"
		}
		info.Fine = info.Class
		if l%16 == 0 {
			info.Fine += ":block-multiple"
		}
	case "chunktype":
		cands := []byte{}
		for _, b := range []byte{'C', 'F', 'A', 'X'} {
			if b != f[3] {
				cands = append(cands, b)
			}
		}
		old := f[3]
		f[3] = cands[mod(mu.Off, len(cands))]
		info.Fine = fmt.Sprintf("chunktype:%c->%c", old, f[3])
	case "channelid":
		idRewrite(8)
	case "tokenid":
		idRewrite(12)
	case "msgtype":
		t := []string{"CLO", "OPN", "ERR", "HEL", "ACK", "XXX"}[mod(mu.Off, 6)]
		copy(f, t)
		info.Fine = "msgtype:" + t
	case "forge":
		if k < len(donor) {
			f = mitm.Clone(donor[k])
		} else if len(donor) > 0 {
			f = mitm.Clone(donor[len(donor)-1])
		}
		info.Fine = "forge:other-channel-keys"
		if len(f) == n {
			info.Fine += ":same-length"
		}
	case "forgeopn":
		// an OpenSecureChannel chunk made without any key of the channel
		// (unsigned, unencrypted) for this channel id
		if g, fine := forgeOPN(c, le32(8), mu); g != nil {
			f = g
			info.Fine = fine
		}
	}
	info.NewLen = len(f)
	out[k] = f
	return out, info
}

// forgeOPN builds a plain OpenSecureChannel chunk (request towards a server
// channel, response towards a client channel). mu.Off selects the security
// header: policy None; the channel's policy without certificate; the channel's
// policy with the genuine sender's (public) certificate and receiver thumbprint.
// mu.Bit selects Issue/Renew, mu.Val the sequence number / request id.
func forgeOPN(c Case, channelID uint32, mu Mut) ([]byte, string) {
	pol := mitm.PolicyByShort(c.Policy)
	ck, sk := mitm.Keys(pol)
	sender, receiver := ck, sk
	if c.Kind == "client" {
		sender, receiver = sk, ck
	}
	if mod(mu.Off, 6) >= 4 {
		// A complete asymmetric chunk: encrypted correctly for the receiver, the
		// genuine sender's public certificate in the header - but signed with a
		// key the sender does not own (the only thing the adversary lacks).
		rp := refcodec.PolicyByURI(pol)
		if rp == nil || !rp.Secure() {
			return nil, ""
		}
		wrong := keys.Get("a", 2048)
		if wrong.Key.N.Cmp(sender.Key.N) == 0 {
			wrong = keys.Get("b", 2048)
		}
		if wrong.Key.N.BitLen() != sender.Key.N.BitLen() {
			wrong = keys.Get(map[bool]string{true: "b", false: "a"}[sender.Who == "a"], sender.Bits)
		}
		seq := []uint32{1, 2, 3, 4, 5000, mu.Val}[mod(int(mu.Val), 6)]
		var body []byte
		var err error
		if c.Kind == "server" {
			body, err = refcodec.EncodeService(&ua.OpenSecureChannelRequest{
				RequestHeader: &ua.RequestHeader{AuthenticationToken: ua.NewTwoByteNodeID(0), Timestamp: time.Unix(1700000000, 0), AdditionalHeader: ua.NewExtensionObject(nil)},
				RequestType:   ua.SecurityTokenRequestTypeRenew, SecurityMode: mitm.Mode(c.Mode), ClientNonce: fillBytes(mu.Val, rp.NonceLen), RequestedLifetime: 3600000})
		} else {
			body, err = refcodec.EncodeService(&ua.OpenSecureChannelResponse{
				ResponseHeader: &ua.ResponseHeader{Timestamp: time.Unix(1700000000, 0), RequestHandle: seq, ServiceDiagnostics: &ua.DiagnosticInfo{}, StringTable: []string{}, AdditionalHeader: ua.NewExtensionObject(nil)},
				SecurityToken:  &ua.ChannelSecurityToken{ChannelID: channelID, TokenID: 1 + mu.Val%7, CreatedAt: time.Unix(1700000000, 0), RevisedLifetime: 3600000},
				ServerNonce:    fillBytes(mu.Val, rp.NonceLen)})
		}
		if err != nil {
			return nil, ""
		}
		f, err := refcodec.BuildAsymChunk(rp, refcodec.AsymHeader{ChunkType: 'F', SecureChannelID: channelID, SequenceNumber: seq, RequestID: seq,
			SenderCert: sender.Cert, SenderKey: wrong.Key, ReceiverCert: receiver.Cert}, body, refcodec.AsymOptions{})
		if err != nil {
			return nil, ""
		}
		return f, "forgeopn:encrypted-for-the-receiver,signed-with-a-foreign-key"
	}
	var hdr *uasc.AsymmetricSecurityHeader
	var fine string
	switch mod(mu.Off, 4) {
	case 0, 1:
		hdr = uasc.NewAsymmetricSecurityHeader(ua.SecurityPolicyURINone, nil, nil)
		fine = "forgeopn:policy-None"
	case 2:
		hdr = uasc.NewAsymmetricSecurityHeader(pol, nil, nil)
		fine = "forgeopn:channel-policy,no-certificate"
	default:
		hdr = uasc.NewAsymmetricSecurityHeader(pol, sender.Cert, uapolicy.Thumbprint(receiver.Cert))
		fine = "forgeopn:channel-policy,genuine-public-certificate"
	}
	seq := []uint32{1, 2, 3, 4, 5000, mu.Val}[mod(int(mu.Val), 6)]
	rt := ua.SecurityTokenRequestTypeRenew
	if mu.Bit%2 == 1 {
		rt = ua.SecurityTokenRequestTypeIssue
		fine += ",issue"
	} else {
		fine += ",renew"
	}
	var typeID *ua.ExpandedNodeID
	var svc interface{}
	if c.Kind == "server" {
		typeID = ua.NewFourByteExpandedNodeID(0, id.OpenSecureChannelRequest_Encoding_DefaultBinary)
		svc = &ua.OpenSecureChannelRequest{
			RequestHeader:     &ua.RequestHeader{AuthenticationToken: ua.NewTwoByteNodeID(0), Timestamp: time.Unix(1700000000, 0), AdditionalHeader: ua.NewExtensionObject(nil)},
			RequestType:       rt,
			SecurityMode:      mitm.Mode(c.Mode),
			ClientNonce:       fillBytes(mu.Val, 32*(mu.Bit/2%2)),
			RequestedLifetime: 3600000,
		}
	} else {
		typeID = ua.NewFourByteExpandedNodeID(0, id.OpenSecureChannelResponse_Encoding_DefaultBinary)
		svc = &ua.OpenSecureChannelResponse{
			ResponseHeader: &ua.ResponseHeader{Timestamp: time.Unix(1700000000, 0), RequestHandle: seq, ServiceDiagnostics: &ua.DiagnosticInfo{}, StringTable: []string{}, AdditionalHeader: ua.NewExtensionObject(nil)},
			SecurityToken:  &ua.ChannelSecurityToken{ChannelID: channelID, TokenID: 1 + mu.Val%7, CreatedAt: time.Unix(1700000000, 0), RevisedLifetime: 3600000},
			ServerNonce:    fillBytes(mu.Val, 32*(mu.Bit/2%2)),
		}
	}
	m := &uasc.Message{
		MessageHeader: &uasc.MessageHeader{
			Header:                   uasc.NewHeader(uasc.MessageTypeOpenSecureChannel, uasc.ChunkTypeFinal, channelID),
			AsymmetricSecurityHeader: hdr,
			SequenceHeader:           uasc.NewSequenceHeader(seq, seq),
		},
		TypeID:  typeID,
		Service: svc,
	}
	chunks, err := m.EncodeChunks(1 << 20)
	if err != nil || len(chunks) != 1 {
		return nil, ""
	}
	return chunks[0], fine
}

func hasPrefix(out, orig []byte) bool {
	return len(out) >= len(orig) && bytes.Equal(out[:len(orig)], orig)
}

// ---------------------------------------------------------------------------
// running a case

func run(c Case) (o outcome) {
	if c.Kind != "server" && c.Kind != "client" {
		return outcome{Infra: "unknown kind"}
	}
	if len(c.Msgs) == 0 {
		return outcome{Infra: "no messages"}
	}
	s, infra := produce(c, c.Kind == "client")
	if infra != "" {
		return outcome{Infra: infra}
	}
	defer s.close()
	var donor [][]byte
	if c.Mut.Kind == "forge" {
		d, infra := produce(c, c.Kind == "client")
		if infra != "" {
			return outcome{Infra: "donor: " + infra}
		}
		donor = d.frames
		d.close()
	}
	out, info := mutate(c, s.frames, s.msgOf, donor)
	pol := c.Policy + "|" + c.Mode + "|" + c.Kind
	o.Classes = append(o.Classes, pol+"|"+info.Class, "mut="+info.Fine, "kind="+c.Kind)
	multi := false
	for i := range s.frames {
		if s.frames[i][3] == 'C' {
			multi = true
		}
	}
	if multi {
		o.Classes = append(o.Classes, "stream=has-multi-chunk-message")
	} else {
		o.Classes = append(o.Classes, "stream=single-chunk-only")
	}
	switch {
	case s.frames[info.K][3] == 'C':
		o.Classes = append(o.Classes, "target=intermediate-chunk")
	case info.K > 0 && s.msgOf[info.K-1] == s.msgOf[info.K]:
		o.Classes = append(o.Classes, "target=final-chunk-of-multi")
	default:
		o.Classes = append(o.Classes, "target=single-chunk-message")
	}

	// which chunks are genuine; where does the stream leave the genuine one
	genuine := make([]bool, len(out))
	firstBad := -1 // first frame that is not exactly the sender's chunk
	for i := range out {
		genuine[i] = hasPrefix(out[i], s.frames[i])
		if firstBad < 0 && !bytes.Equal(out[i], s.frames[i]) {
			firstBad = i
		}
	}
	if firstBad < 0 {
		o.Classes = append(o.Classes, "mutation-was-a-noop")
	}
	var stream []byte
	badPos := -1
	for i := range out {
		if i == firstBad {
			badPos = len(stream)
			if genuine[i] {
				badPos += len(s.frames[i])
			}
		}
		stream = append(stream, out[i]...)
	}
	// how the receiver frames the first non-genuine bytes (class + non-triviality only)
	reach := "none"
	if badPos >= 0 {
		rest := stream[badPos:]
		switch {
		case len(rest) < 8:
			reach = "incomplete-header"
		default:
			size := int(mitm.Size(rest))
			switch {
			case size < 8 || size > c.bufOr():
				reach = "uacp-size-check"
			case len(rest) < size:
				reach = "incomplete-frame"
			case string(rest[:3]) == "ERR":
				reach = "uacp-error-frame"
			default:
				reach = "secure-channel"
				o.Nontrivial = true
			}
		}
	}
	o.Classes = append(o.Classes, "reach="+reach)
	msgGenuine := func(m int) bool {
		for i := range out {
			if s.msgOf[i] == m && !genuine[i] {
				return false
			}
		}
		return true
	}
	// messages that lie completely before the first non-genuine bytes
	inPrefix := func(m int) bool {
		for i := range out {
			if s.msgOf[i] != m {
				continue
			}
			if firstBad >= 0 && (i > firstBad || (i == firstBad && !genuine[i])) {
				return false
			}
		}
		return true
	}
	padOf := func(tag int) int {
		if tag < len(c.Msgs) {
			return c.Msgs[tag].Pad
		}
		return 0
	}
	dir := netx.C2S
	if c.Kind == "client" {
		dir = netx.S2C
	}
	o.Note = fmt.Sprintf("frames=%d mutated=#%d len %d->%d %s reach=%s", len(out), info.K, info.Len, info.NewLen, info.Fine, reach)

	injected := make(chan error, 1)
	checkText := func(d delivery, seen map[int]int) string {
		if !d.Shape {
			return "a message was delivered that the sender never produced (unexpected shape)"
		}
		tag, pad, intact := mitm.ParseText(d.Text)
		if tag < 0 || tag >= s.total {
			return fmt.Sprintf("a message was delivered that the sender never produced (payload starts %q)", head(d.Text))
		}
		if !intact || pad != padOf(tag) {
			return fmt.Sprintf("message %d was delivered with modified content", tag)
		}
		if d.Slot >= 0 && d.Slot != tag {
			return fmt.Sprintf("response %d was delivered to the handler of request %d", tag, d.Slot)
		}
		if !msgGenuine(tag) {
			return fmt.Sprintf("message %d was delivered although its chunk #%d was not the chunk the sender produced (%s)", tag, info.K, info.Fine)
		}
		seen[tag]++
		if seen[tag] > 1 {
			return fmt.Sprintf("message %d was delivered %d times", tag, seen[tag])
		}
		return ""
	}

	if c.Kind == "server" {
		go func() {
			err := s.p.Tap.Inject(dir, stream)
			s.p.ClientConn.Close() // FIN follows the data: the receiver ends with EOF
			injected <- err
		}()
		seen := map[int]int{}
		ndeliv := 0
		for {
			r := mitm.Receive(s.p.Server, stepTimeout)
			if r.TimedOut {
				o.Infra = "Receive did not return although the sender side was closed"
				return
			}
			if r.Panic != "" {
				o.Violation = fmt.Sprintf("Receive panicked: %s (frame #%d, %s, new length %d)", r.Panic, info.K, info.Fine, info.NewLen)
				o.Classes = append(o.Classes, "result=panic")
				return
			}
			m := r.Msg
			if m.Err != nil {
				o.Classes = append(o.Classes, "first-error="+mitm.ErrClass(m.Err))
				break // like the server's channel broker: no Receive after an error
			}
			d := delivery{Slot: -1}
			if req := m.Request(); req != nil {
				d.Text, d.Shape = mitm.RequestText(req)
			}
			if msg := checkText(d, seen); msg != "" {
				o.Violation = msg
				return
			}
			tag, _, _ := mitm.ParseText(d.Text)
			if !inPrefix(tag) {
				o.Violation = fmt.Sprintf("message %d was delivered before any error although the non-genuine frame #%d (%s) precedes it: the Receive that consumed that frame returned no error", tag, info.K, info.Fine)
				return
			}
			ndeliv++
		}
		npre := 0
		for m := 0; m < s.total; m++ {
			if inPrefix(m) {
				npre++
			}
		}
		if ndeliv == npre {
			o.Classes = append(o.Classes, "genuine-prefix=all-delivered")
		} else {
			o.Classes = append(o.Classes, "genuine-prefix=not-all-delivered")
		}
		select {
		case <-injected:
		case <-time.After(stepTimeout):
		}
		return
	}

	// client kind
	go func() { injected <- s.p.Tap.Inject(dir, stream) }()
	select {
	case err := <-injected:
		if err != nil {
			o.Infra = "inject: " + err.Error()
			return
		}
	case <-time.After(stepTimeout):
		o.Infra = "inject blocked"
		return
	}
	// Let the dispatcher get to the sentinel before the stream ends (observation
	// only: closing early can hide a delivery, never create one).
	grace := 2 * time.Second
	if reach != "secure-channel" {
		grace = 150 * time.Millisecond
	}
	select {
	case <-s.sentinelRet:
	case <-time.After(grace):
		o.Classes = append(o.Classes, "sentinel=gave-up-waiting")
	}
	s.p.ServerConn.Close() // the client's dispatcher ends with EOF, pending requests return
	done := make(chan struct{})
	go func() { s.wg.Wait(); close(done) }()
	select {
	case <-done:
	case <-time.After(stepTimeout):
		o.Infra = "pending requests did not return after the connection was closed"
		return
	}
	s.mu.Lock()
	defer s.mu.Unlock()
	seen := map[int]int{}
	for _, d := range s.delivered {
		if msg := checkText(d, seen); msg != "" {
			o.Violation = msg
			return
		}
	}
	if s.sentinelSeen {
		o.Classes = append(o.Classes, "sentinel=delivered")
		if firstBad >= 0 && len(s.sentinelErrs) == 0 {
			o.Violation = fmt.Sprintf("the dispatcher consumed the non-genuine frame #%d (%s) and went on to deliver the following message, but no Receive reported an error (error channel empty)", info.K, info.Fine)
			return
		}
		for _, e := range s.sentinelErrs {
			o.Classes = append(o.Classes, "reported-error="+e)
		}
	} else {
		o.Classes = append(o.Classes, "sentinel=not-delivered")
	}
	return
}

func (c Case) bufOr() int {
	if c.Buf < 8192 {
		return 8192
	}
	return c.Buf
}

func head(s string) string {
	if len(s) > 24 {
		return s[:24]
	}
	return s
}

// ---------------------------------------------------------------------------
// generator

var shorts = func() []string {
	var s []string
	for _, p := range mitm.Secured {
		s = append(s, mitm.Short(p))
	}
	return s
}()

var mutKinds = []string{
	"flip", "flip", "flip", "flip", "flip",
	"overwrite", "overwrite", "overwrite",
	"trunc", "trunc", "trunc", "trunc", "trunc", "trunc",
	"extend", "extend", "extend",
	"chunktype", "channelid", "tokenid", "msgtype",
	"forge", "forge",
	"forgeopn", "forgeopn",
}

func genCase(t *rapid.T, kind string) Case {
	c := Case{Kind: kind}
	c.Policy = rapid.SampledFrom(shorts).Draw(t, "policy")
	c.Mode = rapid.SampledFrom([]string{"Sign", "SignAndEncrypt"}).Draw(t, "mode")
	c.Buf = 8192
	if ev.Thorough() {
		c.Buf = rapid.SampledFrom([]int{8192, 8192, 8192, 16384, 65535}).Draw(t, "buf")
	}
	n := rapid.IntRange(1, 3).Draw(t, "messages")
	for i := 0; i < n; i++ {
		var m Msg
		if rapid.IntRange(0, 9).Draw(t, "shape") < 6 {
			m.Pad = rapid.IntRange(0, 600).Draw(t, "pad")
		} else {
			m.Pad = rapid.IntRange(c.Buf, 2*c.Buf+c.Buf/2).Draw(t, "padMulti") // 2-3 chunks
		}
		c.Msgs = append(c.Msgs, m)
	}
	m := &c.Mut
	m.Kind = rapid.SampledFrom(mutKinds).Draw(t, "mutation")
	m.Frame = rapid.IntRange(0, 63).Draw(t, "frame")
	switch m.Kind {
	case "flip":
		m.Region = rapid.SampledFrom([]string{"type", "size", "chan", "token", "seq", "body", "body", "tail", "tail", "any"}).Draw(t, "region")
		m.Off = rapid.IntRange(0, 1<<16).Draw(t, "off")
		m.Bit = rapid.IntRange(0, 7).Draw(t, "bit")
	case "overwrite":
		m.Region = rapid.SampledFrom([]string{"type", "size", "chan", "token", "seq", "body", "body", "tail", "tail", "any"}).Draw(t, "region")
		m.Off = rapid.IntRange(0, 1<<16).Draw(t, "off")
		m.Len = rapid.IntRange(2, 48).Draw(t, "len")
		m.Val = rapid.Uint32().Draw(t, "seed")
	case "trunc":
		m.Small = rapid.IntRange(0, 9).Draw(t, "small") < 5
		m.Len = rapid.IntRange(0, 1<<16).Draw(t, "L")
		m.Fix = rapid.IntRange(0, 9).Draw(t, "fix") < 7
	case "extend":
		m.Len = rapid.IntRange(1, 64).Draw(t, "len")
		m.Fix = rapid.Bool().Draw(t, "fix")
		m.Val = rapid.Uint32().Draw(t, "seed")
	case "chunktype", "msgtype":
		m.Off = rapid.IntRange(0, 5).Draw(t, "new")
	case "channelid", "tokenid":
		m.Off = rapid.IntRange(0, 3).Draw(t, "new")
		m.Val = rapid.Uint32().Draw(t, "val")
	case "forgeopn":
		m.Off = rapid.IntRange(0, 5).Draw(t, "header")
		m.Bit = rapid.IntRange(0, 3).Draw(t, "issue/nonce")
		m.Val = rapid.Uint32().Draw(t, "val")
	}
	return c
}

// ---------------------------------------------------------------------------
// tests

func record(c Case, o outcome) {
	b, _ := json.Marshal(c)
	if o.Infra != "" {
		why := o.Infra
		if i := strings.IndexAny(why, ":("); i > 0 {
			why = why[:i]
		}
		rec.Case(false, 0, "harness=no-verdict", "harness=no-verdict: "+strings.TrimSpace(why))
		if os.Getenv("VERIF_DEBUG") != "" {
			fmt.Fprintln(os.Stderr, "no verdict:", o.Infra)
		}
		return
	}
	rec.Case(o.Nontrivial, ev.Hash(b), o.Classes...)
	if o.Nontrivial && rec.WantSample() {
		rec.Sample(map[string]any{"case": c, "observed": o.Note})
	}
}

func property(t *rapid.T, test, kind string) {
	c := genCase(t, kind)
	if kind == "client" {
		rec.Journal(test, c) // a panic in the client's dispatcher kills the process
	}
	o := run(c)
	if kind == "client" {
		rec.JournalDone(test)
	}
	record(c, o)
	if o.Infra != "" {
		t.Logf("no verdict: %s", o.Infra)
		return
	}
	if o.Violation != "" {
		rec.Fail(t, test, c, "%s", o.Violation)
	}
}

func assume() {
	rec.Assume("a chunk counts as genuine iff the forwarded bytes start with the bytes the sender wrote; payloads are a pure function of (tag, pad), so delivered content is recomputed, not read back from the code under test")
	rec.Assume("server kind: Receive is not called again after it returned an error (what server/channel_broker.go does); client kind: the dispatcher goroutine of uasc calls Receive, a panic there ends the process and the journalled case is reported")
	rec.Assume("client kind: 'Receive returned an error' is observed through the error channel given to uasc.NewSecureChannel, at the moment a sentinel response sent after everything else reaches its handler")
}

// TestTamperServer: the server channel receives tampered request chunks.
func TestTamperServer(t *testing.T) {
	assume()
	rapid.Check(t, func(t *rapid.T) { property(t, "TestTamperServer", "server") })
}

// TestTamperClient: the client channel receives tampered response chunks.
func TestTamperClient(t *testing.T) {
	assume()
	rapid.Check(t, func(t *rapid.T) { property(t, "TestTamperClient", "client") })
}

// exhaustivePad sizes the request / response so that the secured chunk is
// roughly 200 bytes.
const exhaustivePad = 70

// TestTruncationExhaustive truncates one ~200-byte chunk to every length in
// [8, len) with the MessageSize field fixed up (so the frame reaches the secure
// channel), for every policy, mode and receiving kind.
func TestTruncationExhaustive(t *testing.T) {
	assume()
	type job struct {
		c Case
	}
	lengthOf := func(pol, mode, kind string) int {
		s, infra := produce(Case{Policy: pol, Mode: mode, Kind: kind, Buf: 8192, Msgs: []Msg{{Pad: exhaustivePad}}}, false)
		if infra != "" {
			t.Logf("no verdict: %s", infra)
			return 0
		}
		defer s.close()
		return len(s.frames[0])
	}
	var failed sync.Once
	var failCase Case
	var failMsg string
	// the driver runs this test in several processes; each takes its share of
	// the policy x mode combinations (both kinds)
	shard, shards := ev.Shard()
	for _, kind := range []string{"server", "client"} {
		combo := -1
		for _, pol := range shorts {
			for _, mode := range []string{"Sign", "SignAndEncrypt"} {
				combo++
				if combo%shards != shard {
					continue
				}
				n := lengthOf(pol, mode, kind)
				if n == 0 {
					continue
				}
				rec.Extra("exhaustive_chunk_len_"+pol+"_"+mode+"_"+kind, float64(n))
				var jobs []job
				for L := 8; L < n; L++ {
					jobs = append(jobs, job{Case{Policy: pol, Mode: mode, Kind: kind, Buf: 8192, Msgs: []Msg{{Pad: exhaustivePad}},
						Mut: Mut{Kind: "trunc", Abs: L, Fix: true}}})
				}
				workers := 1 // client kind: sequential, so that the journal names the culprit
				if kind == "server" {
					workers = runtime.GOMAXPROCS(0)
				}
				ch := make(chan job)
				var wg sync.WaitGroup
				for w := 0; w < workers; w++ {
					wg.Add(1)
					go func() {
						defer wg.Done()
						for j := range ch {
							if kind == "client" {
								rec.Journal("TestTruncationExhaustive", j.c)
							}
							o := run(j.c)
							if kind == "client" {
								rec.JournalDone("TestTruncationExhaustive")
							}
							o.Classes = append(o.Classes, "exhaustive-truncation")
							record(j.c, o)
							if o.Violation != "" {
								failed.Do(func() { failCase, failMsg = j.c, o.Violation })
							}
						}
					}()
				}
				for _, j := range jobs {
					ch <- j
				}
				close(ch)
				wg.Wait()
				if failMsg != "" {
					rec.Fail(t, "TestTruncationExhaustive", failCase, "%s", failMsg)
				}
			}
		}
	}
}

// TestReplay re-runs a saved case without rapid.
func TestReplay(t *testing.T) {
	rp, err := ev.LoadReplay()
	if err != nil {
		t.Fatal(err)
	}
	if rp == nil {
		t.Skip("no VERIF_REPLAY")
	}
	var c Case
	if err := json.Unmarshal(rp.Case, &c); err != nil {
		t.Fatal(err)
	}
	fmt.Println("REPLAYED structured")
	o := run(c)
	if o.Infra != "" {
		fmt.Fprintln(os.Stderr, "no verdict:", o.Infra)
		t.Skip(o.Infra)
	}
	t.Logf("%s classes=%v", o.Note, o.Classes)
	if o.Violation != "" {
		t.Fatalf("property C09 violated: %s", o.Violation)
	}
}
