// Package c31 decides property C31: node access levels are enforced for value
// reads and writes.
//
// Domain: nodes of a NodeNameSpace whose AccessLevel and UserAccessLevel
// attributes are each absent / Byte 0..255 / of a wrong type (UInt32, Int32,
// String, ByteString) / a DataValue without Value / a null Variant; sequences
// of Read and Write requests for the Value attribute (1-4 nodes per request)
// sent by a real gopcua client, interleaved with server-side changes of the
// level attributes (the application API Node.SetAttribute) and server-side
// inspection of the node value.
//
// Oracle (only what the statement says):
//   - a level "lacks CurrentRead" iff the attribute is present AND (it is a Byte
//     with bit 0 clear, OR it has no value at all / a null Variant, OR it has a
//     value of another type whose number has bit 0 clear); CurrentWrite: bit 1.
//     An absent attribute cannot lack a bit, and a wrong-typed value whose
//     number has the bit set is not judged: nothing is asserted for them.
//   - read of a node where either level lacks CurrentRead: the result carries
//     no Variant value;
//   - write of a node where either level lacks CurrentWrite: the per-node
//     result is not Good, the server-side value (Server.Node(id).Value() and
//     NodeNameSpace.Node(id).Value()) is the value from before the request,
//     and every later read that returns a value returns that old value until
//     a write that is not refused happens.
//
// Permitted operations succeeding is a coverage class, not an assertion.
package c31

import (
	"context"
	"encoding/json"
	"fmt"
	"reflect"
	"sync"
	"sync/atomic"
	"testing"
	"time"

	"github.com/gopcua/opcua"
	"github.com/gopcua/opcua/id"
	"github.com/gopcua/opcua/server"
	"github.com/gopcua/opcua/server/attrs"
	"github.com/gopcua/opcua/ua"
	"pgregory.net/rapid"

	"verif/pkg/ev"
	"verif/pkg/stack"
)

func TestMain(m *testing.M) { ev.Main(m) }

var rec = ev.For("C31", "rapid-generated nodes (1-4 per case; AccessLevel x UserAccessLevel each in {absent, Byte, UInt32, Int32, String, ByteString, DataValue without Value, null Variant}; node ids string/numeric/guid/opaque) x sequences of 1-12 operations (client Read / Write of the Value attribute with 1-4 nodes per request, server-side change of a level attribute); non-trivial = at least one read or write for which the oracle asserted a refusal (a present level that does not hold the bit) was executed; distinct by hash of the case JSON")

// ---------------------------------------------------------------------------
// case data (plain JSON)

type level struct {
	Kind string `json:"kind"` // absent | byte | uint32 | int32 | string | bytestring | novalue | nullvariant
	Val  uint32 `json:"val,omitempty"`
}

type value struct {
	T string `json:"t"` // int32 | string | float64 | bool | int32s | byte
	I int64  `json:"i,omitempty"`
	S string `json:"s,omitempty"`
}

type nodeSpec struct {
	IDKind  string `json:"id_kind"` // s | i | g | b
	AL      level  `json:"access_level"`
	UAL     level  `json:"user_access_level"`
	Init    value  `json:"init"`
	NoValue bool   `json:"no_value,omitempty"` // node without a value function
}

type op struct {
	Kind   string  `json:"op"`               // read | write | setlevel
	Nodes  []int   `json:"nodes"`            // node indices (read: duplicates allowed; write: distinct)
	Values []value `json:"values,omitempty"` // write
	Attr   string  `json:"attr,omitempty"`   // setlevel: al | ual
	Level  *level  `json:"level,omitempty"`  // setlevel
}

type caseT struct {
	Nodes []nodeSpec `json:"nodes"`
	Ops   []op       `json:"ops"`
}

// ---------------------------------------------------------------------------
// generator

var presentKinds = []string{"byte", "byte", "byte", "byte", "uint32", "int32", "string", "bytestring", "novalue", "nullvariant"}

func genLevel(t *rapid.T, allowAbsent bool, label string) level {
	if allowAbsent && rapid.IntRange(0, 4).Draw(t, label+"-absent") == 0 {
		return level{Kind: "absent"}
	}
	k := rapid.SampledFrom(presentKinds).Draw(t, label+"-kind")
	l := level{Kind: k}
	switch k {
	case "byte":
		if rapid.Bool().Draw(t, label+"-small") {
			l.Val = uint32(rapid.SampledFrom([]int{0, 1, 2, 3, 3, 0xfc, 0xfd, 0xfe, 0xff}).Draw(t, label+"-b"))
		} else {
			l.Val = uint32(rapid.IntRange(0, 255).Draw(t, label+"-b"))
		}
	case "uint32", "int32", "string", "bytestring":
		l.Val = uint32(rapid.SampledFrom([]int{0, 1, 2, 3, 255, 256 + 3}).Draw(t, label+"-w"))
	}
	return l
}

var valueTypes = []string{"int32", "string", "float64", "bool", "int32s", "byte"}

func genCase(t *rapid.T) caseT {
	var c caseT
	nn := rapid.IntRange(1, 4).Draw(t, "nodes")
	for i := 0; i < nn; i++ {
		n := nodeSpec{
			IDKind: rapid.SampledFrom([]string{"s", "s", "i", "g", "b"}).Draw(t, "idkind"),
			AL:     genLevel(t, true, "al"),
			UAL:    genLevel(t, true, "ual"),
			Init:   value{T: rapid.SampledFrom(valueTypes).Draw(t, "initT"), I: int64(i + 1), S: fmt.Sprintf("init%d", i)},
		}
		n.NoValue = rapid.IntRange(0, 19).Draw(t, "novalue") == 0
		c.Nodes = append(c.Nodes, n)
	}
	no := rapid.IntRange(1, 12).Draw(t, "ops")
	for j := 0; j < no; j++ {
		var o op
		switch k := rapid.IntRange(0, 9).Draw(t, "opkind"); {
		case k < 4:
			o.Kind = "read"
			m := rapid.IntRange(1, 4).Draw(t, "nread")
			for x := 0; x < m; x++ {
				o.Nodes = append(o.Nodes, rapid.IntRange(0, nn-1).Draw(t, "rnode"))
			}
		case k < 8:
			o.Kind = "write"
			perm := rapid.Permutation(seq(nn)).Draw(t, "wperm")
			m := rapid.IntRange(1, nn).Draw(t, "nwrite")
			if m > 3 {
				m = 3
			}
			for x := 0; x < m; x++ {
				o.Nodes = append(o.Nodes, perm[x])
				// unique within the case, hence different from the current value
				o.Values = append(o.Values, value{T: rapid.SampledFrom(valueTypes).Draw(t, "wT"), I: int64(1000 + 10*j + x), S: fmt.Sprintf("w%d_%d", j, x)})
			}
		default:
			o.Kind = "setlevel"
			o.Nodes = []int{rapid.IntRange(0, nn-1).Draw(t, "lnode")}
			o.Attr = rapid.SampledFrom([]string{"al", "ual"}).Draw(t, "lattr")
			l := genLevel(t, false, "set")
			o.Level = &l
		}
		c.Ops = append(c.Ops, o)
	}
	return c
}

func seq(n int) []int {
	s := make([]int, n)
	for i := range s {
		s[i] = i
	}
	return s
}

// ---------------------------------------------------------------------------
// fixture: one server and one client per process

var (
	fixOnce sync.Once
	fixSrv  *stack.Server
	fixCli  *opcua.Client
	fixErr  error
	caseNo  atomic.Uint64
)

func fixture() (*stack.Server, *opcua.Client, error) {
	fixOnce.Do(func() {
		fixSrv, fixErr = stack.StartServer(stack.ServerOpts{})
		if fixErr != nil {
			return
		}
		fixCli, fixErr = stack.Connect(fixSrv.URL, opcua.SecurityMode(ua.MessageSecurityModeNone), opcua.RequestTimeout(120*time.Second))
	})
	return fixSrv, fixCli, fixErr
}

func (v value) goValue() any {
	switch v.T {
	case "int32":
		return int32(v.I)
	case "string":
		return v.S
	case "float64":
		return float64(v.I) + 0.5
	case "bool":
		return v.I%2 == 0
	case "int32s":
		return []int32{int32(v.I), int32(v.I + 1)}
	case "byte":
		return byte(v.I)
	}
	return int32(v.I)
}

func (l level) dataValue() *ua.DataValue {
	switch l.Kind {
	case "byte":
		return server.DataValueFromValue(byte(l.Val))
	case "uint32":
		return server.DataValueFromValue(uint32(l.Val))
	case "int32":
		return server.DataValueFromValue(int32(l.Val))
	case "string":
		return server.DataValueFromValue(fmt.Sprint(l.Val))
	case "bytestring":
		return server.DataValueFromValue([]byte{byte(l.Val)})
	case "novalue":
		return &ua.DataValue{}
	case "nullvariant":
		return &ua.DataValue{EncodingMask: ua.DataValueValue, Value: ua.MustVariant(nil)}
	}
	return nil
}

// lacks reports whether the level attribute is present and does not hold the
// bit: a Byte without the bit; a DataValue without a value or with a null
// Variant (it holds no bits at all - "an attribute without a value grants
// nothing", server/node.go); a value of another type whose number (or whose
// text / single byte read as a number) has the bit clear, so that even a
// lenient reading of the type finds no bit. A wrong-typed value whose number
// has the bit set is not judged. (Extended after seeded change C31-B.)
func (l level) lacks(bit uint32) bool {
	switch l.Kind {
	case "byte", "uint32", "int32", "string", "bytestring":
		return l.Val&bit == 0
	case "novalue", "nullvariant":
		return true
	}
	return false // absent
}

func (l level) String() string {
	switch l.Kind {
	case "absent", "novalue", "nullvariant":
		return l.Kind
	}
	return fmt.Sprintf("%s(%d)", l.Kind, l.Val)
}

const (
	bitRead  = uint32(ua.AccessLevelTypeCurrentRead)
	bitWrite = uint32(ua.AccessLevelTypeCurrentWrite)
)

func nodeID(ns uint16, kind string, cn uint64, i int) *ua.NodeID {
	switch kind {
	case "i":
		return ua.NewNumericNodeID(ns, uint32(1_000_000+cn*8+uint64(i)))
	case "g":
		return ua.NewGUIDNodeID(ns, fmt.Sprintf("%08X-0000-4000-8000-%012X", uint32(cn), i))
	case "b":
		return ua.NewByteStringNodeID(ns, []byte(fmt.Sprintf("c%d/%d", cn, i)))
	}
	return ua.NewStringNodeID(ns, fmt.Sprintf("c%d_n%d", cn, i))
}

type verdict struct {
	msg        string
	infra      string
	nontrivial bool
	classes    []string
}

func variantValue(dv *ua.DataValue) (any, bool) {
	if dv == nil || dv.Value == nil || dv.Value.Value() == nil {
		return nil, false
	}
	return dv.Value.Value(), true
}

func sameValue(a, b any) bool { return reflect.DeepEqual(a, b) }

// run executes a case against the process-wide server.
func run(c caseT) (v verdict) {
	srv, cli, err := fixture()
	if err != nil {
		v.infra = "fixture: " + err.Error()
		return
	}
	cn := caseNo.Add(1)
	cls := func(s string) { v.classes = append(v.classes, s) }
	nn := len(c.Nodes)
	if nn == 0 {
		return
	}
	ids := make([]*ua.NodeID, nn)
	al := make([]level, nn)
	ual := make([]level, nn)
	nodes := make([]*server.Node, nn)
	frozen := make([]any, nn) // value that a refused write must have preserved (nil = none pending)
	hasFrozen := make([]bool, nn)
	for i, n := range c.Nodes {
		ids[i] = nodeID(srv.NS.ID(), n.IDKind, cn, i)
		al[i], ual[i] = n.AL, n.UAL
		am := map[ua.AttributeID]*ua.DataValue{
			ua.AttributeIDBrowseName: server.DataValueFromValue(attrs.BrowseName(fmt.Sprintf("c%d_n%d", cn, i))),
			ua.AttributeIDNodeClass:  server.DataValueFromValue(uint32(ua.NodeClassVariable)),
		}
		if dv := n.AL.dataValue(); dv != nil {
			am[ua.AttributeIDAccessLevel] = dv
		}
		if dv := n.UAL.dataValue(); dv != nil {
			am[ua.AttributeIDUserAccessLevel] = dv
		}
		var vf server.ValueFunc
		if !n.NoValue {
			cur := server.DataValueFromValue(n.Init.goValue())
			vf = func() *ua.DataValue { return cur }
		} else {
			cls("node:without-value")
		}
		nodes[i] = server.NewNode(ids[i], am, nil, vf)
		srv.NS.AddNode(nodes[i])
		srv.NS.Objects().AddRef(nodes[i], id.HasComponent, true)
		cls("al:" + n.AL.Kind)
		cls("ual:" + n.UAL.Kind)
		cls("combo:" + n.AL.Kind + "/" + n.UAL.Kind)
		cls("idkind:" + n.IDKind)
	}
	inspect := func(i int) (any, any) {
		a, _ := variantValue(srv.S.Node(ids[i]).Value())
		b, _ := variantValue(srv.NS.Node(ids[i]).Value())
		return a, b
	}
	ctx, cancel := context.WithTimeout(context.Background(), 60*time.Second)
	defer cancel()

	for oi, o := range c.Ops {
		for _, k := range o.Nodes {
			if k < 0 || k >= nn {
				v.infra = "malformed case: node index"
				return
			}
		}
		switch o.Kind {
		case "setlevel":
			k := o.Nodes[0]
			if o.Level == nil || o.Level.dataValue() == nil {
				v.infra = "malformed case: setlevel"
				return
			}
			if o.Attr == "al" {
				_ = nodes[k].SetAttribute(ua.AttributeIDAccessLevel, o.Level.dataValue())
				al[k] = *o.Level
			} else {
				_ = nodes[k].SetAttribute(ua.AttributeIDUserAccessLevel, o.Level.dataValue())
				ual[k] = *o.Level
			}
			cls("op:setlevel")

		case "read":
			req := &ua.ReadRequest{MaxAge: 0, TimestampsToReturn: ua.TimestampsToReturnBoth}
			for _, k := range o.Nodes {
				req.NodesToRead = append(req.NodesToRead, &ua.ReadValueID{NodeID: ids[k], AttributeID: ua.AttributeIDValue, DataEncoding: &ua.QualifiedName{}})
			}
			if len(o.Nodes) > 1 {
				cls("op:read-multi")
			}
			resp, err := cli.Read(ctx, req)
			if err != nil {
				if sc, ok := err.(ua.StatusCode); ok && sc != ua.StatusBadTimeout {
					// the whole service was rejected: nothing was returned
					cls("read:service-fault")
					continue
				}
				v.infra = fmt.Sprintf("op %d read: %v", oi, err)
				return
			}
			if len(resp.Results) != len(o.Nodes) {
				// results cannot be attributed to nodes: nothing can be asserted (not C31's subject)
				cls("read:result-count-mismatch")
				continue
			}
			for x, k := range o.Nodes {
				got, has := variantValue(resp.Results[x])
				denied := al[k].lacks(bitRead) || ual[k].lacks(bitRead)
				if denied {
					v.nontrivial = true
					cls("read:denied-asserted")
					if has {
						v.msg = fmt.Sprintf("op %d: read of node %d (AccessLevel=%s UserAccessLevel=%s, CurrentRead missing) returned the value %v (status %v)", oi, k, al[k], ual[k], got, resp.Results[x].Status)
						return
					}
					if resp.Results[x].Status&0x80000000 != 0 {
						cls("read:denied:bad-status")
					} else {
						cls("read:denied:no-value-but-status-not-bad")
					}
				} else {
					what := "permitted"
					if al[k].Kind != "byte" && al[k].Kind != "absent" || ual[k].Kind != "byte" && ual[k].Kind != "absent" {
						what = "malformed-level"
					} else if al[k].Kind == "absent" && ual[k].Kind == "absent" {
						what = "no-levels"
					}
					if has {
						cls("read:not-asserted:" + what + ":value")
					} else {
						cls("read:not-asserted:" + what + ":no-value")
					}
				}
				if has && hasFrozen[k] {
					cls("read:after-refused-write")
					if !sameValue(got, frozen[k]) {
						v.msg = fmt.Sprintf("op %d: read of node %d after a refused write returned %v, the value before the refused write was %v", oi, k, got, frozen[k])
						return
					}
				}
			}

		case "write":
			if len(o.Values) != len(o.Nodes) {
				v.infra = "malformed case: write values"
				return
			}
			req := &ua.WriteRequest{}
			before := make([]any, len(o.Nodes))
			seen := map[int]bool{}
			for x, k := range o.Nodes {
				if seen[k] {
					v.infra = "malformed case: duplicate node in write"
					return
				}
				seen[k] = true
				before[x], _ = inspect(k)
				va, err := ua.NewVariant(o.Values[x].goValue())
				if err != nil {
					v.infra = "variant: " + err.Error()
					return
				}
				req.NodesToWrite = append(req.NodesToWrite, &ua.WriteValue{NodeID: ids[k], AttributeID: ua.AttributeIDValue,
					Value: &ua.DataValue{EncodingMask: ua.DataValueValue, Value: va}})
			}
			if len(o.Nodes) > 1 {
				cls("op:write-multi")
			}
			resp, err := cli.Write(ctx, req)
			fault := false
			if err != nil {
				if sc, ok := err.(ua.StatusCode); !ok || sc == ua.StatusBadTimeout {
					v.infra = fmt.Sprintf("op %d write: %v", oi, err)
					return
				}
				fault = true // the whole request was refused
				cls("write:service-fault")
			}
			for x, k := range o.Nodes {
				denied := al[k].lacks(bitWrite) || ual[k].lacks(bitWrite)
				a, b := inspect(k)
				if denied {
					v.nontrivial = true
					cls("write:denied-asserted")
					// refused = the answer for this node is not Good (severity bits 00);
					// a missing per-node result is not an acceptance either
					if !fault && x < len(resp.Results) {
						if st := resp.Results[x]; st&0xC0000000 == 0 {
							v.msg = fmt.Sprintf("op %d: write to node %d (AccessLevel=%s UserAccessLevel=%s, CurrentWrite missing) was answered with %v", oi, k, al[k], ual[k], st)
							return
						}
					}
					if !sameValue(a, before[x]) || !sameValue(b, before[x]) {
						v.msg = fmt.Sprintf("op %d: refused write to node %d (AccessLevel=%s UserAccessLevel=%s) changed the server-side value from %v to %v", oi, k, al[k], ual[k], before[x], a)
						return
					}
					if !hasFrozen[k] {
						hasFrozen[k] = true
						frozen[k] = before[x]
					}
					if c.Nodes[k].NoValue && before[x] == nil {
						hasFrozen[k] = false // nothing a read could show
					}
				} else {
					hasFrozen[k] = false
					applied := sameValue(a, o.Values[x].goValue())
					what := "permitted"
					if al[k].Kind != "byte" && al[k].Kind != "absent" || ual[k].Kind != "byte" && ual[k].Kind != "absent" {
						what = "malformed-level"
					} else if al[k].Kind == "absent" && ual[k].Kind == "absent" {
						what = "no-levels"
					}
					if sameValue(before[x], o.Values[x].goValue()) {
						cls("write:not-asserted:" + what + ":same-value-written")
					} else if applied {
						cls("write:not-asserted:" + what + ":applied")
					} else {
						cls("write:not-asserted:" + what + ":not-applied")
					}
				}
			}
		default:
			v.infra = "malformed case: op kind " + o.Kind
			return
		}
	}
	return
}

// ---------------------------------------------------------------------------

func TestAccess(t *testing.T) {
	rec.Assume("a level lacks a bit iff the attribute is present and holds no such bit: Byte without the bit, a DataValue without value / null Variant, or a value of another type whose number has the bit clear; absent level attributes and wrong-typed values whose number has the bit set are generated but nothing is asserted for them")
	rec.Assume("one in-process server and one anonymous session (policy None) per process, fresh nodes per case; server-side inspection through Server.Node(id).Value() and NodeNameSpace.Node(id).Value()")
	if _, _, err := fixture(); err != nil {
		t.Fatalf("infrastructure: %v", err)
	}
	rapid.Check(t, func(t *rapid.T) {
		c := genCase(t)
		b, _ := json.Marshal(c)
		rec.Journal("TestAccess", c)
		v := run(c)
		rec.JournalDone("TestAccess")
		if v.infra != "" {
			t.Fatalf("infrastructure (not a violation): %s", v.infra)
		}
		rec.Case(v.nontrivial, ev.Hash(b), v.classes...)
		if v.nontrivial && rec.WantSample() {
			rec.Sample(c)
		}
		if v.msg != "" {
			rec.Fail(t, "TestAccess", c, "%s", v.msg)
		}
	})
}

// TestReplay re-runs a saved case without rapid.
func TestReplay(t *testing.T) {
	rp, err := ev.LoadReplay()
	if err != nil {
		t.Fatal(err)
	}
	if rp == nil {
		t.Skip("no VERIF_REPLAY")
	}
	var c caseT
	if err := json.Unmarshal(rp.Case, &c); err != nil {
		t.Fatal(err)
	}
	fmt.Println("REPLAYED structured")
	v := run(c)
	if v.infra != "" {
		t.Fatalf("infrastructure: %s", v.infra)
	}
	if v.msg != "" {
		t.Fatalf("property C31 violated: %s", v.msg)
	}
}
