// Package c11 decides property C11: outgoing sequence numbers increase by one
// per chunk, even across renewals, and the chunks of one message are never
// interleaved with another's. Generator: concurrent request senders, concurrent
// server-side responders and token renewals on one gopcua client/server channel
// pair, with a rapid-drawn schedule imposed at the verif scheduling points;
// oracle: an invariant over the wire capture of each direction.
package c11

import (
	"context"
	"encoding/json"
	"fmt"
	"strings"
	"sync"
	"sync/atomic"
	"testing"
	"time"

	"github.com/gopcua/opcua/ua"
	"github.com/gopcua/opcua/uacp"
	"github.com/gopcua/opcua/uasc"
	"pgregory.net/rapid"

	"verif/pkg/chanpair"
	"verif/pkg/ev"
	"verif/pkg/keys"
	"verif/pkg/netx"
	"verif/pkg/sched"
)

func TestMain(m *testing.M) { ev.Main(m) }

var rec = ev.For("C11", "rapid-drawn workloads on one gopcua client<->server channel pair (policy None or a signed policy in Sign mode so sequence headers are readable; 2-6 request senders x 2-8 requests of single- and multi-chunk size; 1-4 concurrent server-side responders; 0-3 token renewals, in a third of the cases with renewals one renewal request is swallowed on the wire so that Renew times out after its chunk used a sequence number; starting sequence numbers incl. just below the wrap point) with holds drawn at the verif scheduling points (sender after fetching the active instance vs. renewal copying the counter, responder vs. server-side renewal, between chunks); non-trivial = >= 2 senders and (a renewal or a multi-chunk message overlapped another send according to the realised point log, or a renewal request was swallowed); distinct by hash of the case")

type caseT struct {
	Policy     string       `json:"policy"`
	Senders    int          `json:"senders"`
	Sizes      [][]int      `json:"request_sizes"`  // per sender, per request: node id string length
	RespSizes  []int        `json:"response_sizes"` // cycled
	Responders int          `json:"responders"`
	RenewAt    []int        `json:"renew_after_requests"`
	ClientSeq  uint32       `json:"client_start_seq"` // 0 = leave
	ServerSeq  uint32       `json:"server_start_seq"`
	Rules      []sched.Rule `json:"rules"`
	// DropRenew: the k-th renewal request (1 = first renewal) of the client is
	// swallowed on its way to the server, so that Renew fails with a timeout
	// after the OPN chunk has used a sequence number; the senders go on with
	// the old token. 0 = none. (Added after seeded change C11-B.)
	DropRenew int `json:"drop_renewal_request,omitempty"`
}

var ruleMenu = []sched.Rule{
	{Point: "send.afterGetActive", Until: "open.afterSeqCopy", MaxWait: 150 * time.Millisecond},
	{Point: "send.afterGetActive", Until: "renew.afterPendingWait", MaxWait: 150 * time.Millisecond},
	{Point: "send.beforeInstanceLock", Until: "renew.afterReqLock", MaxWait: 100 * time.Millisecond},
	{Point: "renew.afterReqLock", Until: "send.afterGetActive", MaxWait: 60 * time.Millisecond},
	{Point: "response.beforeInstanceLock", Until: "serverOPN.afterAsymAlgo", MaxWait: 100 * time.Millisecond},
	{Point: "serverOPN.afterAsymAlgo", Until: "response.beforeInstanceLock", MaxWait: 60 * time.Millisecond},
	{Point: "send.betweenChunks", Until: "send.beforeInstanceLock", MaxWait: 20 * time.Millisecond},
	{Point: "write.betweenChunks", Until: "response.beforeInstanceLock", MaxWait: 20 * time.Millisecond},
	{Point: "open.afterSeqCopy", Until: "send.beforeInstanceLock", MaxWait: 60 * time.Millisecond},
}

func genCase(t *rapid.T) caseT {
	var c caseT
	c.Policy = rapid.SampledFrom([]string{ua.SecurityPolicyURINone, ua.SecurityPolicyURINone, ua.SecurityPolicyURIBasic256Sha256, ua.SecurityPolicyURIBasic128Rsa15}).Draw(t, "policy")
	c.Senders = rapid.IntRange(2, 6).Draw(t, "senders")
	size := rapid.SampledFrom([]int{10, 10, 100, 7000, 9000, 20000})
	for i := 0; i < c.Senders; i++ {
		n := rapid.IntRange(2, 8).Draw(t, "nreq")
		var s []int
		for j := 0; j < n; j++ {
			s = append(s, size.Draw(t, "reqsize"))
		}
		c.Sizes = append(c.Sizes, s)
	}
	nr := rapid.IntRange(1, 4).Draw(t, "nresp")
	for i := 0; i < nr; i++ {
		c.RespSizes = append(c.RespSizes, size.Draw(t, "respsize"))
	}
	c.Responders = rapid.IntRange(1, 4).Draw(t, "responders")
	total := 0
	for _, s := range c.Sizes {
		total += len(s)
	}
	for i, n := 0, rapid.IntRange(0, 3).Draw(t, "renewals"); i < n; i++ {
		c.RenewAt = append(c.RenewAt, rapid.IntRange(0, total-1).Draw(t, "renewAt"))
	}
	switch rapid.IntRange(0, 3).Draw(t, "cseq") {
	case 0:
		c.ClientSeq = 4294966271 - uint32(rapid.IntRange(0, 12).Draw(t, "cseqk"))
	case 1:
		c.ClientSeq = rapid.Uint32Range(1, 4000000000).Draw(t, "cseqr")
	}
	switch rapid.IntRange(0, 3).Draw(t, "sseq") {
	case 0:
		c.ServerSeq = 4294966271 - uint32(rapid.IntRange(0, 12).Draw(t, "sseqk"))
	case 1:
		c.ServerSeq = rapid.Uint32Range(1, 4000000000).Draw(t, "sseqr")
	default:
		c.ServerSeq = 1
	}
	if len(c.RenewAt) > 0 && rapid.IntRange(0, 2).Draw(t, "failingRenewal") == 0 {
		c.DropRenew = rapid.IntRange(1, len(c.RenewAt)).Draw(t, "dropRenew")
	}
	for i, n := 0, rapid.IntRange(0, 4).Draw(t, "nrules"); i < n; i++ {
		r := rapid.SampledFrom(ruleMenu).Draw(t, "rule")
		r.Skip = rapid.IntRange(0, 6).Draw(t, "skip")
		r.Times = rapid.IntRange(1, 4).Draw(t, "times")
		c.Rules = append(c.Rules, r)
	}
	return c
}

var pointMu sync.Mutex // the point callback is process-global: one case at a time

type result struct {
	msg          string
	nontrivial   bool
	classes      []string
	inconclusive bool
}

func run(c caseT) (res result) {
	pointMu.Lock()
	defer pointMu.Unlock()
	mode := chanpair.ModeFor(c.Policy, false)
	ks := chanpair.KeySizes(c.Policy)
	small := func() *uacp.Acknowledge {
		return &uacp.Acknowledge{ReceiveBufSize: 8192, SendBufSize: 8192, MaxChunkCount: 512, MaxMessageSize: 2 << 20}
	}
	// the capture is taken in the hook: it also holds the frames that are not forwarded
	var capMu sync.Mutex
	var capture []netx.Frame
	opnReqs, dropped := 0, false
	hook := func(dir netx.Dir, conn int, f []byte) [][]byte {
		capMu.Lock()
		defer capMu.Unlock()
		capture = append(capture, netx.Frame{Dir: dir, Data: append([]byte(nil), f...), At: time.Now(), Conn: conn})
		if dir == netx.C2S && len(f) > 3 && string(f[:3]) == "OPN" {
			opnReqs++ // 1 = the initial OpenSecureChannel
			if c.DropRenew > 0 && opnReqs == c.DropRenew+1 {
				dropped = true
				return nil
			}
		}
		return [][]byte{f}
	}
	reqTimeout := 4 * time.Second
	if c.DropRenew > 0 {
		reqTimeout = 700 * time.Millisecond
	}
	p, err := chanpair.New(chanpair.Options{Policy: c.Policy, Mode: mode, ClientKey: keys.Get("a", ks[0]), ServerKey: keys.Get("b", ks[0]),
		ClientACK: small(), ServerACK: small(), Tap: true, Hook: hook, ServerSeq: c.ServerSeq, RequestTimeout: reqTimeout})
	if err != nil {
		return result{inconclusive: true, classes: []string{"infra:" + err.Error()}}
	}
	defer p.Close()
	if c.ClientSeq != 0 {
		// both ends of the channel are moved to the chosen point of the numbering
		// (a receiver may reject a number that is more than 2^31 ahead)
		p.Client.VerifSetSequenceNumber(c.ClientSeq)
		p.Server.VerifSetReceivedSequenceNumber(c.ClientSeq)
	}
	ctrl := sched.New(c.Rules)
	uasc.VerifSetPointFunc(ctrl.Point)
	defer uasc.VerifSetPointFunc(nil)
	defer ctrl.Stop()

	ctx, cancel := context.WithTimeout(context.Background(), 25*time.Second)
	defer cancel()

	// server: receive loop + responders
	type job struct {
		reqID uint32
		req   *ua.ReadRequest
		n     int
	}
	jobs := make(chan job, 256)
	var srvWG sync.WaitGroup
	go func() {
		n := 0
		for {
			m := p.Server.Receive(ctx)
			if m.Err != nil {
				close(jobs)
				return
			}
			rr, ok := m.Request().(*ua.ReadRequest)
			if !ok {
				continue // OPN renewal handled inside Receive
			}
			jobs <- job{m.RequestID, rr, n}
			n++
		}
	}()
	var respErrs int32
	for i := 0; i < c.Responders; i++ {
		srvWG.Add(1)
		go func() {
			defer srvWG.Done()
			for j := range jobs {
				sz := c.RespSizes[j.n%len(c.RespSizes)]
				resp := &ua.ReadResponse{ResponseHeader: &ua.ResponseHeader{RequestHandle: j.req.RequestHeader.RequestHandle, Timestamp: time.Now(), ServiceDiagnostics: &ua.DiagnosticInfo{}, AdditionalHeader: ua.NewExtensionObject(nil), StringTable: []string{}},
					Results: []*ua.DataValue{{EncodingMask: ua.DataValueValue, Value: ua.MustVariant(make([]byte, sz))}}, DiagnosticInfos: []*ua.DiagnosticInfo{}}
				if err := p.Server.SendResponseWithContext(ctx, j.reqID, resp); err != nil {
					atomic.AddInt32(&respErrs, 1)
				}
			}
		}()
	}

	// client: senders + renewer
	var issued int32
	var reqErrs int32
	var firstErr atomic.Value
	var wg sync.WaitGroup
	for i := 0; i < c.Senders; i++ {
		wg.Add(1)
		go func(i int) {
			defer wg.Done()
			for _, sz := range c.Sizes[i] {
				atomic.AddInt32(&issued, 1)
				req := &ua.ReadRequest{NodesToRead: []*ua.ReadValueID{{NodeID: ua.NewStringNodeID(1, strings.Repeat("x", sz)), DataEncoding: &ua.QualifiedName{}}}}
				err := p.Client.SendRequest(ctx, req, nil, func(ua.Response) error { return nil })
				if err != nil {
					atomic.AddInt32(&reqErrs, 1)
					firstErr.CompareAndSwap(nil, fmt.Sprintf("request: %v", err))
				}
			}
		}(i)
	}
	var renewErrs int32
	for _, at := range c.RenewAt {
		wg.Add(1)
		go func(at int) {
			defer wg.Done()
			for atomic.LoadInt32(&issued) < int32(at) && ctx.Err() == nil {
				time.Sleep(200 * time.Microsecond)
			}
			if err := p.Client.Renew(ctx); err != nil {
				atomic.AddInt32(&renewErrs, 1)
				firstErr.CompareAndSwap(nil, fmt.Sprintf("renew: %v", err))
			}
		}(at)
	}
	done := make(chan struct{})
	go func() { wg.Wait(); close(done) }()
	select {
	case <-done:
	case <-time.After(28 * time.Second):
		res.inconclusive = true
		res.classes = append(res.classes, "timeout-waiting-for-senders")
	}
	ctrl.Stop()
	time.Sleep(20 * time.Millisecond)
	capMu.Lock()
	frames := append([]netx.Frame(nil), capture...)
	wasDropped := dropped
	capMu.Unlock()
	cancel()
	p.Close()

	// ---- oracle over the capture
	res.msg = checkCapture(frames, c.ClientSeq != 0)
	if res.msg != "" {
		res.msg += fmt.Sprintf(" [failed requests %d, failed renewals %d, failed responses %d, first error: %v]", reqErrs, renewErrs, respErrs, firstErr.Load())
	}

	// non-triviality from the realised point log
	log := ctrl.Log()
	overlap := false
	inRenew := 0
	for _, e := range log {
		switch {
		case e.Point == "renew.afterReqLock":
			inRenew++
		case strings.HasPrefix(e.Point, "send.") && inRenew > 0 && e.Held > 0:
			overlap = true
		}
	}
	multi := false
	for _, f := range frames {
		if f.Type() == "MSG" && f.Chunk() == 'C' {
			multi = true
		}
	}
	res.nontrivial = c.Senders >= 2 && ((len(c.RenewAt) > 0 && (overlap || ctrl.Satisfied() > 0)) || multi || wasDropped)
	if wasDropped {
		res.classes = append(res.classes, "renewal-request-swallowed(Renew-fails,senders-continue)")
	}
	res.classes = append(res.classes, fmt.Sprintf("renewals:%d", len(c.RenewAt)), fmt.Sprintf("rules-satisfied:%v", ctrl.Satisfied() > 0), fmt.Sprintf("multi-chunk:%v", multi), "policy:"+c.Policy[strings.LastIndex(c.Policy, "#")+1:])
	if reqErrs > 0 {
		res.classes = append(res.classes, "some-request-failed")
	}
	if renewErrs > 0 {
		res.classes = append(res.classes, "some-renew-failed")
	}
	if c.ClientSeq >= 4294966000 || c.ServerSeq >= 4294966000 {
		res.classes = append(res.classes, "starts-near-wrap")
	}
	return res
}

// checkCapture is the invariant: in each direction, in capture order, the
// sequence number of every chunk is the previous one plus one (or the legal
// wrap to a value below 1024 from a value above MaxUint32-1025), and the
// chunks of a message (C...F with one request id) are contiguous.
//
// clientSeqSet: the harness itself moved the client's counter right after the
// channel was opened (VerifSetSequenceNumber), so the jump between the first
// OPN request and the next client chunk is the harness's doing, not gopcua's.
func checkCapture(frames []netx.Frame, clientSeqSet bool) string {
	for _, dir := range []netx.Dir{netx.C2S, netx.S2C} {
		var prev uint32
		have := false
		skipped := 0 // unreadable (encrypted OPN) chunks since prev
		openReq := uint32(0)
		inMsg := false
		idx := 0
		var hist []string
		for _, f := range frames {
			if f.Dir != dir {
				continue
			}
			ci, ok := netx.ParseChunk(f.Data, false)
			if !ok {
				continue // HEL/ACK/ERR
			}
			idx++
			hist = append(hist, fmt.Sprintf("%s%c/seq=%d/req=%d/tok=%d/readable=%v", ci.Type, ci.Chunk, ci.Seq, ci.ReqID, ci.TokenID, ci.SeqOK))
			if len(hist) > 8 {
				hist = hist[1:]
			}
			if !ci.SeqOK {
				skipped++
				continue
			}
			if have && !(dir == netx.C2S && clientSeqSet && idx == 2) {
				want := prev + 1 + uint32(skipped)
				wrapOK := prev >= 4294966271-1024 && ci.Seq < 1024
				if ci.Seq != want && !wrapOK {
					return fmt.Sprintf("%s chunk #%d (%s%c req %d): sequence number %d follows %d (%d unreadable OPN chunks between); last chunks: %v", dir, idx, ci.Type, ci.Chunk, ci.ReqID, ci.Seq, prev, skipped, hist)
				}
			}
			prev, have, skipped = ci.Seq, true, 0
			if ci.Type == "MSG" {
				if inMsg && ci.ReqID != openReq {
					return fmt.Sprintf("%s chunk #%d: chunk of request %d interleaved into the unfinished message of request %d", dir, idx, ci.ReqID, openReq)
				}
				switch ci.Chunk {
				case 'C':
					inMsg, openReq = true, ci.ReqID
				default:
					inMsg = false
				}
			} else if inMsg {
				return fmt.Sprintf("%s chunk #%d: %s chunk interleaved into the unfinished message of request %d", dir, idx, ci.Type, openReq)
			}
		}
	}
	return ""
}

func TestSequenceNumbers(t *testing.T) {
	rapid.Check(t, func(t *rapid.T) {
		c := genCase(t)
		b, _ := json.Marshal(c)
		// a panic in one of gopcua's own goroutines kills the process: the
		// journal lets the driver name this case
		rec.Journal("TestSequenceNumbers", c)
		res := run(c)
		rec.JournalDone("TestSequenceNumbers")
		if res.inconclusive {
			rec.Inconclusive()
		}
		rec.Case(res.nontrivial, ev.Hash(b), res.classes...)
		if res.nontrivial && rec.WantSample() {
			rec.Sample(c)
		}
		if res.msg != "" {
			// schedule-dependent: confirm by re-running the same case
			again := 0
			for i := 0; i < 2; i++ {
				if r2 := run(c); r2.msg != "" {
					again++
				}
			}
			rec.Fail(t, "TestSequenceNumbers", c, "%s (reproduced %d/2 on re-run)", res.msg, again)
		}
	})
}

func TestReplay(t *testing.T) {
	rp, err := ev.LoadReplay()
	if err != nil {
		t.Fatal(err)
	}
	if rp == nil {
		t.Skip("no VERIF_REPLAY")
	}
	var c caseT
	if err := json.Unmarshal(rp.Case, &c); err != nil {
		t.Fatal(err)
	}
	fmt.Println("REPLAYED structured")
	for i := 0; i < 5; i++ {
		if res := run(c); res.msg != "" {
			t.Fatalf("property C11 violated: %s", res.msg)
		}
	}
}
