// Package c22 decides property C22: a session is established only after the
// server proves its identity.
//
// Generator: opcua.Client.Connect against a pkg/script server on a secured
// endpoint (5 signed policies x {Sign, SignAndEncrypt}, plus None). The script
// answers CreateSession with the canonical, correctly signed response modified
// per case (server signature variant x ServerCertificate variant); everything
// else (ActivateSession, Read of the namespace array) is answered normally.
//
// Oracle: an independent reference verification written with the Go standard
// library (crypto/rsa, crypto/x509): the signature is valid iff it verifies,
// with the signature algorithm the policy prescribes, over
// clientCertificate || clientNonce under the first certificate of the returned
// ServerCertificate. Connect may return nil only if it is valid; otherwise
// Connect must return an error, State() must not be Connected, a following Read
// must fail and nothing may panic.
package c22

import (
	"context"
	"crypto"
	"crypto/ecdsa"
	"crypto/elliptic"
	"crypto/rand"
	"crypto/rsa"
	"crypto/sha1"
	"crypto/sha256"
	"crypto/x509"
	"crypto/x509/pkix"
	"encoding/hex"
	"encoding/json"
	"fmt"
	"math/big"
	"runtime/debug"
	"sync"
	"testing"
	"time"

	"github.com/gopcua/opcua"
	"github.com/gopcua/opcua/ua"
	"pgregory.net/rapid"

	"verif/pkg/chanpair"
	"verif/pkg/ev"
	"verif/pkg/keys"
	"verif/pkg/script"
)

func TestMain(m *testing.M) { ev.Main(m) }

var rec = ev.For("C22", "rapid-drawn (policy in 5 signed policies + None) x (Sign, SignAndEncrypt) x fixture key sizes the policy allows x server signature variant (valid / valid made by the reference / one bit flipped / truncated / empty / nil SignatureData fields / other key / other nonce / other certificate / nonce||cert order / another policy's algorithm) x ServerCertificate variant (real / another RSA certificate / ECDSA certificate / garbage bytes / empty) x ServiceResult of the CreateSessionResponse (0 in three quarters of the cases, else a Good-but-not-0, Uncertain or Bad code); non-trivial = a signed policy and a response that differs from the canonical one; distinct by hash of the case")

// ---------------------------------------------------------------------------
// case

type caseT struct {
	Policy     string `json:"policy"` // short name, "None" for no security
	Mode       int    `json:"mode"`   // ua.MessageSecurityMode
	ClientBits int    `json:"client_bits"`
	ServerBits int    `json:"server_bits"`
	Sig        string `json:"sig"`          // signature variant
	Cert       string `json:"cert"`         // certificate variant
	OtherWho   string `json:"other_who"`    // fixture used as "another key / certificate"
	OtherBits  int    `json:"other_bits"`   //
	FlipBit    int    `json:"flip_bit"`     // sig=flip: bit index (mod signature length)
	AltAlg     int    `json:"alt_alg"`      // sig=other-alg: which of the foreign algorithms
	GarbageHex string `json:"garbage_hex"`  // cert=garbage: the bytes
	NilSlices  bool   `json:"empty_as_nil"` // empty variants use nil instead of a zero-length slice
	// Result is the ServiceResult of the CreateSessionResponse (0 = Good). A
	// response with a non-zero result is never "the canonical one": only the
	// safety direction (no session without a verified signature, no panic) is judged.
	Result uint32 `json:"service_result,omitempty"`
}

var resultMenu = []uint32{0x002E0000 /* GoodCompletesAsynchronously */, 0x002D0000 /* GoodSubscriptionTransferred */, 0x40000000 /* Uncertain */, 0x408F0000, 0x80010000 /* BadUnexpectedError */, 0x80AB0000}

var sigVariants = []string{"valid", "valid-ref", "flip", "truncated", "empty", "nil", "other-key", "other-nonce", "other-cert", "swapped", "other-alg"}
var certVariants = []string{"real", "other-rsa", "ecdsa", "garbage", "empty"}
var signedPolicies = []string{"Basic128Rsa15", "Basic256", "Basic256Sha256", "Aes128Sha256RsaOaep", "Aes256Sha256RsaPss"}

var policyURI = map[string]string{
	"None":                ua.SecurityPolicyURINone,
	"Basic128Rsa15":       ua.SecurityPolicyURIBasic128Rsa15,
	"Basic256":            ua.SecurityPolicyURIBasic256,
	"Basic256Sha256":      ua.SecurityPolicyURIBasic256Sha256,
	"Aes128Sha256RsaOaep": ua.SecurityPolicyURIAes128Sha256RsaOaep,
	"Aes256Sha256RsaPss":  ua.SecurityPolicyURIAes256Sha256RsaPss,
}

// ---------------------------------------------------------------------------
// reference: asymmetric signature algorithm per policy (OPC UA Part 7 profiles),
// written with the standard library only.

type sigAlg struct {
	name string
	hash crypto.Hash
	pss  bool
}

var (
	algSha1   = sigAlg{"rsa-pkcs15-sha1", crypto.SHA1, false}
	algSha256 = sigAlg{"rsa-pkcs15-sha256", crypto.SHA256, false}
	algPss256 = sigAlg{"rsa-pss-sha256", crypto.SHA256, true}
)

func policyAlg(policy string) sigAlg {
	switch policy {
	case "Basic128Rsa15", "Basic256":
		return algSha1
	case "Basic256Sha256", "Aes128Sha256RsaOaep":
		return algSha256
	case "Aes256Sha256RsaPss":
		return algPss256
	}
	panic("no signature algorithm for policy " + policy)
}

// foreign algorithms: the algorithms of the other policies
func altAlgs(policy string) []sigAlg {
	switch policyAlg(policy) {
	case algSha1:
		return []sigAlg{algSha256, algPss256}
	case algSha256:
		return []sigAlg{algSha1, algPss256}
	}
	return []sigAlg{algSha256, algSha1}
}

func digest(h crypto.Hash, data []byte) []byte {
	if h == crypto.SHA1 {
		d := sha1.Sum(data)
		return d[:]
	}
	d := sha256.Sum256(data)
	return d[:]
}

func refSign(a sigAlg, key *rsa.PrivateKey, data []byte) ([]byte, error) {
	d := digest(a.hash, data)
	if a.pss {
		return rsa.SignPSS(rand.Reader, key, a.hash, d, &rsa.PSSOptions{SaltLength: rsa.PSSSaltLengthEqualsHash})
	}
	return rsa.SignPKCS1v15(rand.Reader, key, a.hash, d)
}

func refVerify(a sigAlg, pub *rsa.PublicKey, data, sig []byte) bool {
	d := digest(a.hash, data)
	if a.pss {
		// any salt length a conforming verifier accepts
		return rsa.VerifyPSS(pub, a.hash, d, sig, &rsa.PSSOptions{SaltLength: rsa.PSSSaltLengthAuto}) == nil
	}
	return rsa.VerifyPKCS1v15(pub, a.hash, d, sig) == nil
}

// refValid: does sig prove possession of the private key of the returned
// certificate over clientCert || clientNonce?
func refValid(policy string, returnedCert, clientCert, clientNonce, sig []byte) bool {
	certs, err := x509.ParseCertificates(returnedCert)
	if err != nil || len(certs) == 0 {
		return false
	}
	pub, ok := certs[0].PublicKey.(*rsa.PublicKey)
	if !ok {
		return false
	}
	data := append(append([]byte{}, clientCert...), clientNonce...)
	return refVerify(policyAlg(policy), pub, data, sig)
}

var (
	ecOnce sync.Once
	ecCert []byte
)

// ecdsaCert returns a self-signed ECDSA P-256 certificate (DER).
func ecdsaCert() []byte {
	ecOnce.Do(func() {
		k, err := ecdsa.GenerateKey(elliptic.P256(), rand.Reader)
		if err != nil {
			panic(err)
		}
		tpl := &x509.Certificate{
			SerialNumber: big.NewInt(22),
			Subject:      pkix.Name{CommonName: "verif-c22-ecdsa"},
			NotBefore:    time.Now().Add(-time.Hour),
			NotAfter:     time.Now().Add(24 * time.Hour),
			KeyUsage:     x509.KeyUsageDigitalSignature,
		}
		der, err := x509.CreateCertificate(rand.Reader, tpl, tpl, &k.PublicKey, k)
		if err != nil {
			panic(err)
		}
		ecCert = der
	})
	return ecCert
}

// ---------------------------------------------------------------------------
// generator

func genCase(t *rapid.T) caseT {
	var c caseT
	if rapid.IntRange(0, 11).Draw(t, "none") == 0 {
		c.Policy = "None"
		c.Mode = int(ua.MessageSecurityModeNone)
	} else {
		c.Policy = rapid.SampledFrom(signedPolicies).Draw(t, "policy")
		c.Mode = rapid.SampledFrom([]int{int(ua.MessageSecurityModeSign), int(ua.MessageSecurityModeSignAndEncrypt)}).Draw(t, "mode")
	}
	sizes := chanpair.KeySizes(policyURI[c.Policy])
	pick := func(label string) int {
		// quick: mostly the smallest (fast) size; thorough: all sizes equally
		if !ev.Thorough() && rapid.IntRange(0, 3).Draw(t, label+"small") != 0 {
			return sizes[0]
		}
		return rapid.SampledFrom(sizes).Draw(t, label)
	}
	c.ClientBits = pick("cbits")
	c.ServerBits = pick("sbits")
	c.Sig = rapid.SampledFrom(sigVariants).Draw(t, "sig")
	c.Cert = rapid.SampledFrom(certVariants).Draw(t, "cert")
	// the other identity: the client's own fixture, or fixture b of another size
	if rapid.Bool().Draw(t, "otherIsA") {
		c.OtherWho, c.OtherBits = "a", rapid.SampledFrom(sizes).Draw(t, "obits")
	} else {
		var others []int
		for _, s := range sizes {
			if s != c.ServerBits {
				others = append(others, s)
			}
		}
		if len(others) == 0 {
			c.OtherWho, c.OtherBits = "a", sizes[0]
		} else {
			c.OtherWho, c.OtherBits = "b", rapid.SampledFrom(others).Draw(t, "obits")
		}
	}
	c.FlipBit = rapid.IntRange(0, 1<<15).Draw(t, "flip")
	c.AltAlg = rapid.IntRange(0, 1).Draw(t, "altalg")
	c.NilSlices = rapid.Bool().Draw(t, "nilslices")
	if rapid.IntRange(0, 3).Draw(t, "nonzeroResult") == 0 {
		c.Result = rapid.SampledFrom(resultMenu).Draw(t, "result")
	}
	if c.Cert == "garbage" {
		real := keys.Get("b", c.ServerBits).Cert
		var g []byte
		switch rapid.IntRange(0, 3).Draw(t, "gk") {
		case 0:
			g = rapid.SliceOfN(rapid.Byte(), 1, 64).Draw(t, "gbytes")
		case 1: // truncated real certificate
			g = append([]byte{}, real[:rapid.IntRange(1, len(real)-1).Draw(t, "gcut")]...)
		case 2: // real certificate followed by junk
			g = append(append([]byte{}, real...), rapid.SliceOfN(rapid.Byte(), 1, 16).Draw(t, "gtail")...)
		default: // real certificate with one byte changed
			g = append([]byte{}, real...)
			g[rapid.IntRange(0, len(g)-1).Draw(t, "gpos")] ^= byte(rapid.IntRange(1, 255).Draw(t, "gxor"))
		}
		c.GarbageHex = hex.EncodeToString(g)
	}
	return c
}

// ---------------------------------------------------------------------------
// execution

type outcome struct {
	sawCreate   bool
	clientNonce []byte
	sentCert    []byte
	sentSig     []byte
	buildErr    string

	connectErr   error
	connectPanic string
	state        opcua.ConnState
	readErr      error
	readPanic    string
	closePanic   string
	timedOut     bool
}

// mutate applies the case to the canonical CreateSessionResponse.
func mutate(c caseT, resp *ua.CreateSessionResponse, req *ua.CreateSessionRequest, server, other *keys.Pair) error {
	secured := c.Policy != "None"
	data := append(append([]byte{}, req.ClientCertificate...), req.ClientNonce...)
	var alg sigAlg
	if secured {
		alg = policyAlg(c.Policy)
	} else {
		// no algorithm is defined for None: the variants are still produced
		// (with RSA-SHA256) so that a None client gets fed the same junk
		alg = algSha256
	}
	sign := func(a sigAlg, key *rsa.PrivateKey, d []byte) error {
		s, err := refSign(a, key, d)
		if err != nil {
			return err
		}
		if resp.ServerSignature == nil {
			resp.ServerSignature = &ua.SignatureData{}
		}
		resp.ServerSignature.Signature = s
		return nil
	}
	switch c.Sig {
	case "valid":
		// as built by the script server (gopcua's own NewSessionSignature)
	case "valid-ref":
		if err := sign(alg, server.Key, data); err != nil {
			return err
		}
	case "flip":
		if !secured {
			if err := sign(alg, server.Key, data); err != nil {
				return err
			}
		}
		s := append([]byte{}, resp.ServerSignature.Signature...)
		if len(s) > 0 {
			bit := c.FlipBit % (len(s) * 8)
			s[bit/8] ^= 1 << (bit % 8)
		}
		resp.ServerSignature.Signature = s
	case "truncated":
		if !secured {
			if err := sign(alg, server.Key, data); err != nil {
				return err
			}
		}
		s := resp.ServerSignature.Signature
		if len(s) > 0 {
			resp.ServerSignature.Signature = append([]byte{}, s[:len(s)-1]...)
		}
	case "empty":
		if c.NilSlices {
			resp.ServerSignature.Signature = nil
		} else {
			resp.ServerSignature.Signature = []byte{}
		}
	case "nil":
		resp.ServerSignature = &ua.SignatureData{}
	case "other-key":
		if err := sign(alg, other.Key, data); err != nil {
			return err
		}
	case "other-nonce":
		n := script.Nonce(len(req.ClientNonce))
		if len(n) == 0 {
			n = script.Nonce(32)
		}
		if err := sign(alg, server.Key, append(append([]byte{}, req.ClientCertificate...), n...)); err != nil {
			return err
		}
	case "other-cert":
		// a classic mix-up: the server signs its own certificate instead of the client's
		if err := sign(alg, server.Key, append(append([]byte{}, server.Cert...), req.ClientNonce...)); err != nil {
			return err
		}
	case "swapped":
		if err := sign(alg, server.Key, append(append([]byte{}, req.ClientNonce...), req.ClientCertificate...)); err != nil {
			return err
		}
	case "other-alg":
		a := algSha1
		if secured {
			a = altAlgs(c.Policy)[c.AltAlg%2]
		}
		if err := sign(a, server.Key, data); err != nil {
			return err
		}
	default:
		return fmt.Errorf("unknown signature variant %q", c.Sig)
	}
	switch c.Cert {
	case "real":
	case "other-rsa":
		resp.ServerCertificate = other.Cert
	case "ecdsa":
		resp.ServerCertificate = ecdsaCert()
	case "garbage":
		g, err := hex.DecodeString(c.GarbageHex)
		if err != nil {
			return err
		}
		resp.ServerCertificate = g
	case "empty":
		if c.NilSlices {
			resp.ServerCertificate = nil
		} else {
			resp.ServerCertificate = []byte{}
		}
	default:
		return fmt.Errorf("unknown certificate variant %q", c.Cert)
	}
	return nil
}

const connectGuard = 30 * time.Second

func execute(c caseT) (*outcome, error) {
	uri, ok := policyURI[c.Policy]
	if !ok {
		return nil, fmt.Errorf("unknown policy %q", c.Policy)
	}
	server := keys.Get("b", c.ServerBits)
	client := keys.Get("a", c.ClientBits)
	other := keys.Get(c.OtherWho, c.OtherBits)
	o := &outcome{}
	var mu sync.Mutex

	srv, err := script.Start(script.Options{Key: server, Policy: uri, Mode: ua.MessageSecurityMode(c.Mode),
		Handle: func(conn *script.Conn, req ua.Request, reqID uint32) bool {
			r, ok := req.(*ua.CreateSessionRequest)
			if !ok {
				return false
			}
			mu.Lock()
			defer mu.Unlock()
			resp, err := conn.Srv.CreateSessionResponse(conn, r)
			if err == nil {
				err = mutate(c, resp, r, server, other)
			}
			if err != nil {
				o.buildErr = err.Error()
				_ = conn.Respond(reqID, script.Fault(req, ua.StatusBadInternalError))
				return true
			}
			if c.Result != 0 {
				resp.ResponseHeader.ServiceResult = ua.StatusCode(c.Result)
			}
			o.sawCreate = true
			o.clientNonce = append([]byte{}, r.ClientNonce...)
			o.sentCert = append([]byte{}, resp.ServerCertificate...)
			o.sentSig = append([]byte{}, resp.ServerSignature.Signature...)
			_ = conn.Respond(reqID, resp)
			return true
		}})
	if err != nil {
		return nil, err
	}
	defer srv.Close()

	opts := []opcua.Option{opcua.SecurityMode(ua.MessageSecurityMode(c.Mode)), opcua.AuthAnonymous(), opcua.RequestTimeout(5 * time.Second)}
	if c.Policy != "None" {
		opts = append(opts, opcua.SecurityPolicy(c.Policy), opcua.PrivateKey(client.Key), opcua.Certificate(client.Cert), opcua.RemoteCertificate(server.Cert))
	}
	cl, err := opcua.NewClient(srv.URL, opts...)
	if err != nil {
		return nil, err
	}
	ctx, cancel := context.WithTimeout(context.Background(), 2*connectGuard)
	defer cancel()

	done := make(chan struct{})
	go func() {
		defer close(done)
		func() {
			defer func() {
				if r := recover(); r != nil {
					o.connectPanic = fmt.Sprintf("%v\n%s", r, debug.Stack())
				}
			}()
			o.connectErr = cl.Connect(ctx)
		}()
		func() {
			defer func() {
				if r := recover(); r != nil {
					o.readPanic = fmt.Sprintf("%v\n%s", r, debug.Stack())
				}
			}()
			o.state = cl.State()
			_, o.readErr = cl.Read(ctx, &ua.ReadRequest{NodesToRead: []*ua.ReadValueID{{NodeID: ua.NewNumericNodeID(1, 5), AttributeID: ua.AttributeIDValue}}})
		}()
		func() {
			defer func() {
				if r := recover(); r != nil {
					o.closePanic = fmt.Sprintf("%v\n%s", r, debug.Stack())
				}
			}()
			_ = cl.Close(ctx)
		}()
	}()
	select {
	case <-done:
	case <-time.After(connectGuard):
		o.timedOut = true
	}
	mu.Lock()
	defer mu.Unlock()
	return o, nil
}

// judge returns "" if the property holds on this outcome.
func judge(c caseT, o *outcome) (msg string, valid bool, realCert bool) {
	client := keys.Get("a", c.ClientBits)
	server := keys.Get("b", c.ServerBits)
	secured := c.Policy != "None"
	if secured && o.sawCreate {
		valid = refValid(c.Policy, o.sentCert, client.Cert, o.clientNonce, o.sentSig)
	}
	realCert = string(o.sentCert) == string(server.Cert)
	switch {
	case o.connectPanic != "":
		return "Connect panicked: " + o.connectPanic, valid, realCert
	case o.readPanic != "":
		return "Read after Connect panicked: " + o.readPanic, valid, realCert
	case o.closePanic != "":
		return "Close panicked: " + o.closePanic, valid, realCert
	}
	if !o.sawCreate {
		return "", valid, realCert // judged by the caller (infrastructure)
	}
	if secured && !valid && o.connectErr == nil {
		return fmt.Sprintf("Connect returned nil although the server signature (%s) does not verify over clientCertificate||clientNonce under the returned ServerCertificate (%s)", c.Sig, c.Cert), valid, realCert
	}
	if o.connectErr != nil {
		if o.state == opcua.Connected {
			return fmt.Sprintf("Connect returned %v but State() is Connected", o.connectErr), valid, realCert
		}
		if o.readErr == nil {
			return fmt.Sprintf("Connect returned %v but a following Read succeeded", o.connectErr), valid, realCert
		}
	}
	// a server that does prove its identity with the certificate the channel was
	// opened with must be accepted (otherwise "reject everything" would pass)
	if c.Result == 0 && o.connectErr != nil && ((secured && valid && realCert) || (!secured && c.Sig == "valid" && c.Cert == "real")) {
		return fmt.Sprintf("Connect failed with %v although the response is the canonical, correctly signed one", o.connectErr), valid, realCert
	}
	return "", valid, realCert
}

func classes(c caseT, o *outcome, valid, realCert bool) []string {
	mode := map[int]string{1: "None", 2: "Sign", 3: "SignAndEncrypt"}[c.Mode]
	cl := []string{"policy:" + c.Policy + "/" + mode, "sig:" + c.Sig, "cert:" + c.Cert, "combo:" + c.Sig + "+" + c.Cert,
		fmt.Sprintf("keys:client%d/server%d", c.ClientBits, c.ServerBits)}
	res := "rejected"
	if o.connectErr == nil {
		res = "connected"
	}
	switch {
	case c.Result == 0:
	case c.Result&0x80000000 != 0:
		cl = append(cl, "service-result:bad/"+res)
	case c.Result&0x40000000 != 0:
		cl = append(cl, "service-result:uncertain/"+res)
	default:
		cl = append(cl, "service-result:good-but-not-0/"+res)
	}
	switch {
	case c.Policy == "None":
		cl = append(cl, "expect:none-no-signature-required/"+res)
	case valid && realCert:
		cl = append(cl, "expect:valid/"+res)
	case valid:
		cl = append(cl, "expect:valid-under-foreign-certificate/"+res)
	default:
		cl = append(cl, "expect:invalid/"+res)
	}
	return cl
}

// run executes and judges one case, with confirmation for timeouts.
func run(c caseT) (msg string, o *outcome, valid, realCert bool, infra error) {
	for attempt := 0; ; attempt++ {
		var err error
		o, err = execute(c)
		if err != nil {
			return "", nil, false, false, err
		}
		if o.timedOut {
			// timing verdicts need 3/3 (DESIGN 3.4)
			if attempt < 2 {
				continue
			}
			return fmt.Sprintf("Connect/Read/Close did not return within %v (3 of 3 executions)", connectGuard), o, false, false, nil
		}
		if !o.sawCreate && o.buildErr == "" && o.connectPanic == "" && attempt < 2 {
			// the channel did not even get to CreateSession (loaded machine?): retry
			continue
		}
		break
	}
	msg, valid, realCert = judge(c, o)
	return msg, o, valid, realCert, nil
}

func TestSessionSignature(t *testing.T) {
	rec.Assume("reference oracle: RSA signature verification with the Go standard library (PKCS#1 v1.5 SHA-1 for Basic128Rsa15/Basic256, PKCS#1 v1.5 SHA-256 for Basic256Sha256/Aes128Sha256RsaOaep, PSS SHA-256 for Aes256Sha256RsaPss) over clientCertificate||clientNonce under the first certificate of the returned ServerCertificate")
	rec.Assume("a response that is valid under a certificate other than the one the channel was opened with may be accepted or rejected (the property only forbids accepting an invalid signature); policy None: only the canonical response is required to connect")
	rapid.Check(t, func(t *rapid.T) {
		c := genCase(t)
		rec.Journal("TestSessionSignature", c)
		msg, o, valid, realCert, infra := run(c)
		rec.JournalDone("TestSessionSignature")
		if infra != nil {
			t.Fatalf("infrastructure: %v", infra)
		}
		if msg == "" && !o.sawCreate {
			t.Fatalf("infrastructure: the script server never saw CreateSession (connect error %v, build error %q)", o.connectErr, o.buildErr)
		}
		nt := c.Policy != "None" && !(c.Sig == "valid" && c.Cert == "real")
		b, _ := json.Marshal(c)
		rec.Case(nt, ev.Hash(b), classes(c, o, valid, realCert)...)
		if nt && rec.WantSample() {
			rec.Sample(map[string]any{"case": c, "reference_says_valid": valid, "connect_error": fmt.Sprint(o.connectErr), "state": o.state.String()})
		}
		if msg != "" {
			rec.Fail(t, "TestSessionSignature", c, "%s", msg)
		}
	})
}

// TestReplay re-runs a saved case without rapid.
func TestReplay(t *testing.T) {
	rp, err := ev.LoadReplay()
	if err != nil {
		t.Fatal(err)
	}
	if rp == nil {
		t.Skip("no VERIF_REPLAY")
	}
	var c caseT
	if err := json.Unmarshal(rp.Case, &c); err != nil {
		t.Fatal(err)
	}
	fmt.Println("REPLAYED structured")
	msg, o, valid, _, infra := run(c)
	if infra != nil {
		t.Fatalf("infrastructure: %v", infra)
	}
	t.Logf("reference says valid=%v connect error=%v state=%v read error=%v", valid, o.connectErr, o.state, o.readErr)
	if msg != "" {
		t.Fatalf("property C22 violated: %s", msg)
	}
}
