// Package c21 decides property C21: client calls never panic on any well-formed
// server response.
//
// A case is a short program of client operations (opcua.Client, opcua.Node,
// opcua.Subscription, monitor.NodeMonitor / monitor.Subscription) run against a
// pkg/script server over a real (None) channel. For every request the server
// sees, the response was drawn beforehand: the ideal well-shaped one, or a
// decodable variation of the expected response type (result arrays empty /
// shorter / equal / longer than the request, any Variant type and shape, any
// status code), or another registered response type, or a ServiceFault. Publish
// requests of the background publish loop are answered from a drawn list of
// PublishResponses. Every response is run through ua.Encode + ua.Decode before
// it is sent; one that does not round-trip is replaced by the ideal response,
// so "well-formed" holds by construction.
//
// Oracle: no panic surfaces (recover around every API call; a panic in one of
// gopcua's own goroutines kills the process - the program is journalled first so
// that the driver can name it) and every API call returns within the bound.
package c21

import (
	"context"
	"encoding/hex"
	"encoding/json"
	"fmt"
	"io"
	"log"
	"reflect"
	"runtime"
	"runtime/debug"
	"sort"
	"strings"
	"sync"
	"testing"
	"time"

	"github.com/gopcua/opcua"
	"github.com/gopcua/opcua/id"
	"github.com/gopcua/opcua/monitor"
	"github.com/gopcua/opcua/ua"
	"pgregory.net/rapid"

	"verif/pkg/ev"
	"verif/pkg/gen"
	"verif/pkg/script"
)

func TestMain(m *testing.M) {
	log.SetOutput(io.Discard) // gopcua logs handled errors through the standard logger
	ev.Main(m)
}

var rec = ev.For("C21", "rapid-drawn programs of 1-6 client operations (plus Connect and Close) against a scripted server; per request a drawn response: ideal | expected type with header status, element statuses, Variant types and result-array cardinality (empty/shorter/equal/longer than the request) drawn | any other registered response type | ServiceFault; drawn PublishResponses for the publish loop; evaluation = one executed operation; non-trivial = at least one response of the operation differs from the ideal answer in type, cardinality, status or value type; distinct by hash of (operation, response shape classes)")

const (
	requestTimeout = 500 * time.Millisecond
	// every API call is expected back within softBound (recorded as class "slow" beyond it);
	// a call that is still out after hardBound (>= 20x the longest legitimate wait of
	// the scenario, ~1 s) is a hang candidate, confirmed by two more executions.
	softBound = requestTimeout + 2*time.Second
	hardBound = 25 * time.Second
)

// ---------------------------------------------------------------------------
// case

type respT struct {
	Req    string `json:"req"`              // request type this response answers
	Kind   string `json:"kind"`             // ideal | expected | other | fault
	Type   string `json:"type,omitempty"`   // response type name (expected, other)
	Hex    string `json:"hex,omitempty"`    // ua.Encode of the drawn response
	Card   string `json:"card,omitempty"`   // expected: result arrays vs request: asgen | empty | shorter | equal | longer
	Extra  int    `json:"extra,omitempty"`  // longer: by how many
	Nil    bool   `json:"nil,omitempty"`    // an empty array is sent as null (-1)
	Status uint32 `json:"status,omitempty"` // fault: service result
	Sub    string `json:"sub,omitempty"`    // publish: asgen | zero | known:<k> (k-th subscription id handed out)
	Note   string `json:"note,omitempty"`   // human-readable summary of the drawn response
}

type stepT struct {
	Op   string  `json:"op"`
	N    int     `json:"n,omitempty"`    // number of items in the request
	M    int     `json:"m,omitempty"`    // second count (SetTriggering remove links)
	Sub  int     `json:"sub,omitempty"`  // which live subscription
	Attr int     `json:"attr,omitempty"` // attribute id (Node.Attribute / Attributes)
	Resp []respT `json:"resp"`
}

type caseT struct {
	Steps          []stepT `json:"steps"` // first is Connect, last is Close
	Publish        []respT `json:"publish"`
	PublishDelayMs int     `json:"publish_delay_ms"`
	// Reconnect: the client is built with AutoReconnect(true) and the program
	// contains Drop steps (the reconnect state machine consumes drawn responses)
	Reconnect bool `json:"auto_reconnect,omitempty"`
}

// ---------------------------------------------------------------------------
// service tables

type svcT struct {
	resp  string
	pairs [][2]string // request slice field -> response slice field that parallels it
}

var svcs = map[string]svcT{
	"CreateSessionRequest":                 {"CreateSessionResponse", nil},
	"ActivateSessionRequest":               {"ActivateSessionResponse", nil},
	"CloseSessionRequest":                  {"CloseSessionResponse", nil},
	"GetEndpointsRequest":                  {"GetEndpointsResponse", nil},
	"FindServersRequest":                   {"FindServersResponse", nil},
	"FindServersOnNetworkRequest":          {"FindServersOnNetworkResponse", nil},
	"ReadRequest":                          {"ReadResponse", [][2]string{{"NodesToRead", "Results"}}},
	"WriteRequest":                         {"WriteResponse", [][2]string{{"NodesToWrite", "Results"}}},
	"BrowseRequest":                        {"BrowseResponse", [][2]string{{"NodesToBrowse", "Results"}}},
	"BrowseNextRequest":                    {"BrowseNextResponse", [][2]string{{"ContinuationPoints", "Results"}}},
	"TranslateBrowsePathsToNodeIDsRequest": {"TranslateBrowsePathsToNodeIDsResponse", [][2]string{{"BrowsePaths", "Results"}}},
	"CallRequest":                          {"CallResponse", [][2]string{{"MethodsToCall", "Results"}}},
	"RegisterNodesRequest":                 {"RegisterNodesResponse", [][2]string{{"NodesToRegister", "RegisteredNodeIDs"}}},
	"UnregisterNodesRequest":               {"UnregisterNodesResponse", nil},
	"HistoryReadRequest":                   {"HistoryReadResponse", [][2]string{{"NodesToRead", "Results"}}},
	"CreateSubscriptionRequest":            {"CreateSubscriptionResponse", nil},
	"TransferSubscriptionsRequest":         {"TransferSubscriptionsResponse", [][2]string{{"SubscriptionIDs", "Results"}}},
	"RepublishRequest":                     {"RepublishResponse", nil},
	"ModifySubscriptionRequest":            {"ModifySubscriptionResponse", nil},
	"DeleteSubscriptionsRequest":           {"DeleteSubscriptionsResponse", [][2]string{{"SubscriptionIDs", "Results"}}},
	"CreateMonitoredItemsRequest":          {"CreateMonitoredItemsResponse", [][2]string{{"ItemsToCreate", "Results"}}},
	"ModifyMonitoredItemsRequest":          {"ModifyMonitoredItemsResponse", [][2]string{{"ItemsToModify", "Results"}}},
	"DeleteMonitoredItemsRequest":          {"DeleteMonitoredItemsResponse", [][2]string{{"MonitoredItemIDs", "Results"}}},
	"SetMonitoringModeRequest":             {"SetMonitoringModeResponse", [][2]string{{"MonitoredItemIDs", "Results"}}},
	"SetTriggeringRequest":                 {"SetTriggeringResponse", [][2]string{{"LinksToAdd", "AddResults"}, {"LinksToRemove", "RemoveResults"}}},
	"PublishRequest":                       {"PublishResponse", [][2]string{{"SubscriptionAcknowledgements", "Results"}}},
}

// opReqs: the requests an operation sends, in order (upper bound).
var opReqs = map[string][]string{
	"Connect":                       {"CreateSessionRequest", "ActivateSessionRequest", "ReadRequest"},
	"Close":                         {"CloseSessionRequest"},
	"Wait":                          {},
	// Drop (programs with AutoReconnect only): the server closes every connection;
	// the requests of the client's reconnect state machine, upper bound
	"Drop": {"ActivateSessionRequest", "CreateSessionRequest", "ActivateSessionRequest", "ReadRequest", "TransferSubscriptionsRequest",
		"RepublishRequest", "RepublishRequest", "RepublishRequest", "DeleteSubscriptionsRequest", "CreateSubscriptionRequest", "CreateMonitoredItemsRequest",
		"DeleteSubscriptionsRequest", "CreateSubscriptionRequest", "CreateMonitoredItemsRequest"},
	"Read":                          {"ReadRequest"},
	"Write":                         {"WriteRequest"},
	"Browse":                        {"BrowseRequest"},
	"BrowseNext":                    {"BrowseNextRequest"},
	"Node.NodeClass":                {"ReadRequest"},
	"Node.BrowseName":               {"ReadRequest"},
	"Node.Description":              {"ReadRequest"},
	"Node.DisplayName":              {"ReadRequest"},
	"Node.AccessLevel":              {"ReadRequest"},
	"Node.HasAccessLevel":           {"ReadRequest"},
	"Node.UserAccessLevel":          {"ReadRequest"},
	"Node.HasUserAccessLevel":       {"ReadRequest"},
	"Node.Value":                    {"ReadRequest"},
	"Node.Attribute":                {"ReadRequest"},
	"Node.Attributes":               {"ReadRequest"},
	"Node.References":               {"BrowseRequest", "BrowseNextRequest", "BrowseNextRequest"},
	"Node.ReferencedNodes":          {"BrowseRequest", "BrowseNextRequest", "BrowseNextRequest"},
	"Node.Children":                 {"BrowseRequest", "BrowseNextRequest", "BrowseNextRequest"},
	"Node.TranslateBrowsePaths":     {"TranslateBrowsePathsToNodeIDsRequest"},
	"Node.TranslateBrowsePathInNS":  {"TranslateBrowsePathsToNodeIDsRequest"},
	"Call":                          {"CallRequest"},
	"RegisterNodes":                 {"RegisterNodesRequest"},
	"UnregisterNodes":               {"UnregisterNodesRequest"},
	"HistoryReadEvent":              {"HistoryReadRequest"},
	"HistoryReadRawModified":        {"HistoryReadRequest"},
	"HistoryReadProcessed":          {"HistoryReadRequest"},
	"HistoryReadAtTime":             {"HistoryReadRequest"},
	"NamespaceArray":                {"ReadRequest"},
	"FindNamespace":                 {"ReadRequest"},
	"UpdateNamespaces":              {"ReadRequest"},
	"FindServers":                   {"FindServersRequest"},
	"FindServersOnNetwork":          {"FindServersOnNetworkRequest"},
	"GetEndpoints":                  {"GetEndpointsRequest"},
	"pkg.FindServers":               {"FindServersRequest"},
	"pkg.FindServersOnNetwork":      {"FindServersOnNetworkRequest"},
	"pkg.GetEndpoints":              {"GetEndpointsRequest"},
	"Subscribe":                     {"CreateSubscriptionRequest"},
	"Sub.Monitor":                   {"CreateMonitoredItemsRequest"},
	"Sub.Unmonitor":                 {"DeleteMonitoredItemsRequest"},
	"Sub.ModifyMonitoredItems":      {"ModifyMonitoredItemsRequest"},
	"Sub.SetMonitoringMode":         {"SetMonitoringModeRequest"},
	"Sub.SetTriggering":             {"SetTriggeringRequest"},
	"Sub.ModifySubscription":        {"ModifySubscriptionRequest"},
	"Sub.Stats":                     {"ReadRequest"},
	"Sub.Cancel":                    {"DeleteSubscriptionsRequest"},
	"Mon.Subscribe":                 {"CreateSubscriptionRequest", "CreateMonitoredItemsRequest"},
	"Mon.ChanSubscribe":             {"CreateSubscriptionRequest", "CreateMonitoredItemsRequest"},
	"Mon.AddNodes":                  {"CreateMonitoredItemsRequest"},
	"Mon.AddMonitorItems":           {"CreateMonitoredItemsRequest"},
	"Mon.RemoveNodes":               {"DeleteMonitoredItemsRequest"},
	"Mon.ModifyMonitorItems":        {"ModifyMonitoredItemsRequest"},
	"Mon.SetMonitoringModeForNodes": {"SetMonitoringModeRequest"},
	"Mon.Modify":                    {"ModifySubscriptionRequest"},
	"Mon.Stats":                     {"ReadRequest"},
	"Mon.Unsubscribe":               {"DeleteSubscriptionsRequest"},
}

var basicOps = []string{"Read", "Write", "Browse", "BrowseNext", "Node.NodeClass", "Node.BrowseName", "Node.Description", "Node.DisplayName",
	"Node.AccessLevel", "Node.HasAccessLevel", "Node.UserAccessLevel", "Node.HasUserAccessLevel", "Node.Value", "Node.Attribute", "Node.Attributes",
	"Node.References", "Node.ReferencedNodes", "Node.Children", "Node.TranslateBrowsePaths", "Node.TranslateBrowsePathInNS", "Call",
	"RegisterNodes", "UnregisterNodes", "HistoryReadEvent", "HistoryReadRawModified", "HistoryReadProcessed", "HistoryReadAtTime",
	"NamespaceArray", "FindNamespace", "UpdateNamespaces", "FindServers", "FindServersOnNetwork", "GetEndpoints",
	"pkg.FindServers", "pkg.FindServersOnNetwork", "pkg.GetEndpoints"}
var subOps = []string{"Sub.Monitor", "Sub.Monitor", "Sub.Unmonitor", "Sub.ModifyMonitoredItems", "Sub.SetMonitoringMode", "Sub.SetTriggering",
	"Sub.ModifySubscription", "Sub.Stats", "Sub.Cancel", "Subscribe", "Wait"}
var monOps = []string{"Mon.AddNodes", "Mon.AddMonitorItems", "Mon.RemoveNodes", "Mon.ModifyMonitorItems", "Mon.SetMonitoringModeForNodes",
	"Mon.Modify", "Mon.Stats", "Mon.Unsubscribe", "Mon.Subscribe", "Mon.ChanSubscribe", "Wait"}

// valueHint: the Variant the operation expects in its first read result.
func valueHint(op string, attr int) string {
	switch op {
	case "Node.NodeClass":
		return "int32"
	case "Node.BrowseName":
		return "qname"
	case "Node.Description", "Node.DisplayName":
		return "ltext"
	case "Node.AccessLevel", "Node.HasAccessLevel", "Node.UserAccessLevel", "Node.HasUserAccessLevel":
		return "byte"
	case "NamespaceArray", "FindNamespace", "UpdateNamespaces", "Connect":
		return "strings"
	case "Sub.Stats", "Mon.Stats":
		return "extobjs"
	}
	return ""
}

var (
	respTypes     map[string]reflect.Type // response type name -> pointer type
	otherRespList []string
	typesOnce     sync.Once
	uaResponse    = reflect.TypeOf((*ua.Response)(nil)).Elem()
)

func initTypes() {
	typesOnce.Do(func() {
		respTypes = map[string]reflect.Type{}
		for _, ti := range gen.Universe() {
			if ti.Kind != "service" || !ti.Type.Implements(uaResponse) {
				continue
			}
			if !strings.HasSuffix(ti.Name, "Response") && ti.Name != "ServiceFault" {
				continue
			}
			respTypes[ti.Name] = ti.Type
			// channel-level messages are not service responses (the dispatcher gives
			// OpenSecureChannelResponse a special meaning; that is C16/C18 territory)
			if ti.Name == "OpenSecureChannelResponse" || ti.Name == "CloseSecureChannelResponse" {
				continue
			}
			otherRespList = append(otherRespList, ti.Name)
		}
		sort.Strings(otherRespList)
	})
}

func typeName(v any) string { return reflect.TypeOf(v).Elem().Name() }

// ---------------------------------------------------------------------------
// generator

var interestingStatus = []ua.StatusCode{ua.StatusBadTimeout, ua.StatusBadNoSubscription, ua.StatusBadSequenceNumberUnknown, ua.StatusBadSessionIDInvalid,
	ua.StatusBadSessionNotActivated, ua.StatusBadSubscriptionIDInvalid, ua.StatusBadServiceUnsupported, ua.StatusBadMessageNotAvailable,
	ua.StatusGoodOverload, ua.StatusUncertain, ua.StatusBad, ua.StatusBadUnexpectedError, ua.StatusBadNodeIDUnknown, ua.StatusBadTooManyPublishRequests}

func drawStatus(t *rapid.T, okPct int) ua.StatusCode {
	k := rapid.IntRange(0, 99).Draw(t, "stk")
	switch {
	case k < okPct:
		return ua.StatusOK
	case k < okPct+(100-okPct)/2:
		// BadTooManyPublishRequests makes the publish loop sleep 1 s: keep it rare
		return interestingStatus[rapid.IntRange(0, len(interestingStatus)-1).Draw(t, "sti")]
	}
	return ua.StatusCode(rapid.Uint32().Draw(t, "strand"))
}

var tStatus = reflect.TypeOf(ua.StatusCode(0))

// fixStatuses walks the exported fields of a drawn value and turns status codes
// into StatusOK with probability okPct (a uniformly drawn uint32 is never OK,
// and most client code only looks further when the status is OK).
func fixStatuses(t *rapid.T, v reflect.Value, okPct int, depth int) {
	if depth > 6 {
		return
	}
	switch v.Kind() {
	case reflect.Ptr:
		if !v.IsNil() {
			switch v.Interface().(type) {
			case *ua.Variant, *ua.NodeID, *ua.ExpandedNodeID, *ua.GUID, *ua.ExtensionObject:
				return
			}
			fixStatuses(t, v.Elem(), okPct, depth+1)
		}
	case reflect.Struct:
		for i := 0; i < v.NumField(); i++ {
			f := v.Field(i)
			if f.CanSet() {
				fixStatuses(t, f, okPct, depth+1)
			}
		}
	case reflect.Slice:
		for i := 0; i < v.Len(); i++ {
			fixStatuses(t, v.Index(i), okPct, depth+1)
		}
	case reflect.Uint32:
		if v.Type() == tStatus && v.CanSet() && rapid.IntRange(0, 99).Draw(t, "fixst") < okPct {
			v.SetUint(0)
		}
	}
}

func hintVariant(t *rapid.T, hint string) *ua.Variant {
	switch hint {
	case "int32":
		return ua.MustVariant(rapid.Int32().Draw(t, "hi32"))
	case "qname":
		return ua.MustVariant(&ua.QualifiedName{NamespaceIndex: rapid.Uint16().Draw(t, "hqns"), Name: gen.String(t)})
	case "ltext":
		return ua.MustVariant(gen.LocalizedText(t))
	case "byte":
		return ua.MustVariant(rapid.Uint8().Draw(t, "hbyte"))
	case "strings":
		n := rapid.IntRange(0, 3).Draw(t, "hstrn")
		s := make([]string, n)
		for i := range s {
			s[i] = gen.String(t)
		}
		return ua.MustVariant(s)
	case "extobjs":
		n := rapid.IntRange(0, 3).Draw(t, "heon")
		s := make([]*ua.ExtensionObject, n)
		for i := range s {
			if rapid.Bool().Draw(t, "heodiag") {
				d := gen.Default.Value(t, reflect.TypeOf(&ua.SubscriptionDiagnosticsDataType{})).(*ua.SubscriptionDiagnosticsDataType)
				d.SubscriptionID = uint32(rapid.IntRange(0, 4).Draw(t, "heosub"))
				s[i] = ua.NewExtensionObject(d)
			} else {
				e := gen.Default.ExtensionObject(t, 1)
				if e == nil {
					e = ua.NewExtensionObject(nil)
				}
				s[i] = e
			}
		}
		return ua.MustVariant(s)
	}
	return nil
}

var clientHandles = []uint32{0, 1, 2, 3, 101, 102, 103, 104}

func drawHandle(t *rapid.T) uint32 {
	if rapid.IntRange(0, 4).Draw(t, "hrand") == 0 {
		return rapid.Uint32().Draw(t, "handle")
	}
	return rapid.SampledFrom(clientHandles).Draw(t, "handlek")
}

// genNotificationData draws the NotificationData list of a PublishResponse.
func genNotificationData(t *rapid.T) []*ua.ExtensionObject {
	switch rapid.IntRange(0, 9).Draw(t, "ndk") {
	case 0:
		return nil
	case 1:
		return []*ua.ExtensionObject{}
	}
	n := rapid.IntRange(1, 3).Draw(t, "ndn")
	out := make([]*ua.ExtensionObject, 0, n)
	for i := 0; i < n; i++ {
		switch rapid.IntRange(0, 9).Draw(t, "ndkind") {
		case 0, 1, 2, 3:
			d := &ua.DataChangeNotification{DiagnosticInfos: []*ua.DiagnosticInfo{}}
			for j, m := 0, rapid.IntRange(0, 3).Draw(t, "dcn"); j < m; j++ {
				dv := gen.Default.DataValue(t, 1)
				fixStatuses(t, reflect.ValueOf(dv), 60, 0)
				d.MonitoredItems = append(d.MonitoredItems, &ua.MonitoredItemNotification{ClientHandle: drawHandle(t), Value: dv})
			}
			if rapid.Bool().Draw(t, "dcdiag") {
				d.DiagnosticInfos = []*ua.DiagnosticInfo{gen.Default.DiagnosticInfo(t, 2)}
			}
			out = append(out, ua.NewExtensionObject(d))
		case 4, 5:
			e := &ua.EventNotificationList{}
			for j, m := 0, rapid.IntRange(0, 2).Draw(t, "evn"); j < m; j++ {
				fl := &ua.EventFieldList{ClientHandle: drawHandle(t)}
				for k, q := 0, rapid.IntRange(0, 3).Draw(t, "evf"); k < q; k++ {
					fl.EventFields = append(fl.EventFields, gen.Default.Variant(t, 1))
				}
				e.Events = append(e.Events, fl)
			}
			out = append(out, ua.NewExtensionObject(e))
		case 6, 7:
			out = append(out, ua.NewExtensionObject(&ua.StatusChangeNotification{Status: drawStatus(t, 30), DiagnosticInfo: gen.Default.DiagnosticInfo(t, 2)}))
		default:
			out = append(out, gen.Default.ExtensionObject(t, 1)) // nil / empty / XML / any other registered type
		}
	}
	return out
}

// ensureNonEmpty appends one drawn element to an empty slice field so that the
// resize at send time has an element pool.
func ensureNonEmpty(t *rapid.T, resp reflect.Value, field string) {
	f := resp.Elem().FieldByName(field)
	if !f.IsValid() || f.Kind() != reflect.Slice || f.Len() > 0 {
		return
	}
	el := reflect.ValueOf(gen.Default.Value(t, f.Type().Elem()))
	if f.Type().Elem().Kind() != reflect.Ptr {
		el = el.Convert(f.Type().Elem())
	}
	f.Set(reflect.Append(reflect.MakeSlice(f.Type(), 0, 1), el))
}

// genExpected draws a response of the type the request expects.
func genExpected(t *rapid.T, req string, op string, attr int) (ua.Response, string) {
	initTypes()
	svc := svcs[req]
	v := gen.Default.Value(t, respTypes[svc.resp])
	rv := reflect.ValueOf(v)
	fixStatuses(t, rv, 60, 0)
	resp := v.(ua.Response)
	hdrOK := 80
	if req == "PublishRequest" {
		hdrOK = 70
	}
	resp.Header().ServiceResult = drawStatus(t, hdrOK)
	note := ""
	switch r := v.(type) {
	case *ua.ReadResponse:
		hint := valueHint(op, attr)
		for i, dv := range r.Results {
			if rapid.IntRange(0, 9).Draw(t, "dvval") < 8 {
				dv.EncodingMask |= ua.DataValueValue
			}
			if i == 0 && hint != "" && rapid.IntRange(0, 9).Draw(t, "dvhint") < 4 {
				dv.EncodingMask |= ua.DataValueValue
				dv.Value = hintVariant(t, hint)
			}
		}
		if len(r.Results) > 0 && r.Results[0].Value != nil && r.Results[0].EncodingMask&ua.DataValueValue != 0 {
			note = fmt.Sprintf("val=%v/len%d", r.Results[0].Value.Type(), r.Results[0].Value.ArrayLength())
		} else if len(r.Results) > 0 {
			note = "val=absent"
		}
	case *ua.CreateSubscriptionResponse:
		switch rapid.IntRange(0, 9).Draw(t, "subidk") {
		case 0:
			r.SubscriptionID = 0
		case 1, 2, 3:
			r.SubscriptionID = uint32(rapid.IntRange(1, 3).Draw(t, "subidsmall"))
		case 4, 5:
			r.SubscriptionID = uint32(rapid.IntRange(1000, 1003).Draw(t, "subidmid"))
		}
		note = fmt.Sprintf("subid=%d", r.SubscriptionID)
	case *ua.PublishResponse:
		r.NotificationMessage.NotificationData = genNotificationData(t)
		if rapid.Bool().Draw(t, "seqsmall") {
			r.NotificationMessage.SequenceNumber = uint32(rapid.IntRange(0, 4).Draw(t, "seq"))
		}
		note = fmt.Sprintf("notifs=%d", len(r.NotificationMessage.NotificationData))
	}
	for _, p := range svc.pairs {
		ensureNonEmpty(t, rv, p[1])
	}
	return resp, note
}

func encodeResp(v any) (b []byte, err error) {
	defer func() {
		if r := recover(); r != nil {
			err = fmt.Errorf("encode panicked: %v", r)
		}
	}()
	return ua.Encode(v)
}

var cards = []string{"asgen", "empty", "shorter", "equal", "equal", "longer"}

func genResp(t *rapid.T, req, op string, attr int, variedPct int) respT {
	initTypes()
	r := respT{Req: req, Kind: "ideal"}
	if rapid.IntRange(0, 99).Draw(t, "varied") >= variedPct {
		return r
	}
	switch k := rapid.IntRange(0, 9).Draw(t, "kind"); {
	case k < 7:
		v, note := genExpected(t, req, op, attr)
		b, err := encodeResp(v)
		if err != nil {
			r.Note = "drawn response not encodable: " + err.Error()
			return r
		}
		r.Kind, r.Type, r.Hex, r.Note = "expected", svcs[req].resp, hex.EncodeToString(b), note
		r.Card = rapid.SampledFrom(cards).Draw(t, "card")
		r.Extra = rapid.IntRange(1, 3).Draw(t, "extra")
		r.Nil = rapid.Bool().Draw(t, "nilempty")
		if req == "PublishRequest" {
			r.Sub = rapid.SampledFrom([]string{"known:0", "known:0", "known:1", "known:2", "asgen", "zero"}).Draw(t, "pubsub")
		}
	case k < 9:
		name := rapid.SampledFrom(otherRespList).Draw(t, "othertype")
		v := gen.Default.Value(t, respTypes[name])
		if rapid.Bool().Draw(t, "otherok") {
			v.(ua.Response).Header().ServiceResult = ua.StatusOK
		}
		b, err := encodeResp(v)
		if err != nil {
			r.Note = "drawn response not encodable: " + err.Error()
			return r
		}
		r.Kind, r.Type, r.Hex = "other", name, hex.EncodeToString(b)
	default:
		r.Kind = "fault"
		r.Status = uint32(drawStatus(t, 15))
	}
	return r
}

func genStep(t *rapid.T, op string, variedPct int) stepT {
	s := stepT{Op: op}
	// (rapid favours the first elements)
	s.N = rapid.SampledFrom([]int{2, 1, 3, 1, 2, 0}).Draw(t, "n")
	s.M = rapid.IntRange(0, 2).Draw(t, "m")
	s.Sub = rapid.IntRange(0, 3).Draw(t, "sub")
	s.Attr = rapid.SampledFrom([]int{int(ua.AttributeIDValue), int(ua.AttributeIDNodeClass), int(ua.AttributeIDBrowseName), int(ua.AttributeIDDisplayName),
		int(ua.AttributeIDAccessLevel), int(ua.AttributeIDDataType)}).Draw(t, "attr")
	for _, req := range opReqs[op] {
		s.Resp = append(s.Resp, genResp(t, req, op, s.Attr, variedPct))
	}
	return s
}

func isSetup(op string) bool {
	return op == "Subscribe" || op == "Mon.Subscribe" || op == "Mon.ChanSubscribe" || op == "Sub.Monitor" || op == "Mon.AddNodes"
}

func genCase(t *rapid.T) caseT {
	var c caseT
	variedPct := rapid.SampledFrom([]int{50, 80, 25}).Draw(t, "chaos")
	connectVaried := 0
	if rapid.IntRange(0, 9).Draw(t, "connectVaried") == 5 {
		connectVaried = 40
	}
	c.Steps = append(c.Steps, genStep(t, "Connect", connectVaried))
	n := rapid.SampledFrom([]int{6, 5, 4, 3, 2, 1}).Draw(t, "nsteps")
	template := rapid.SampledFrom([]string{"sub", "mon", "basic", "mixed"}).Draw(t, "template")
	var ops []string
	switch template {
	case "sub":
		ops = append(ops, "Subscribe")
	case "mon":
		ops = append(ops, rapid.SampledFrom([]string{"Mon.Subscribe", "Mon.ChanSubscribe"}).Draw(t, "monsub"))
	case "mixed":
		ops = append(ops, "Subscribe", rapid.SampledFrom([]string{"Mon.ChanSubscribe", "Mon.Subscribe"}).Draw(t, "monsub"))
	}
	for len(ops) < n {
		pool := basicOps
		switch template {
		case "sub":
			pool = subOps
		case "mon":
			pool = monOps
		case "mixed":
			pool = append(append([]string{}, subOps...), monOps...)
		}
		if template != "basic" && rapid.IntRange(0, 5).Draw(t, "interleave") == 3 {
			pool = basicOps
		}
		ops = append(ops, pool[rapid.IntRange(0, len(pool)-1).Draw(t, "op")])
	}
	if template != "basic" && rapid.IntRange(0, 2).Draw(t, "reconnect") == 0 {
		c.Reconnect = true
		// one or two connection drops after the set-up operation(s)
		at := 1
		if template == "mixed" {
			at = 2
		}
		if at > n {
			at = n
		}
		ops = append(append(append([]string{}, ops[:at]...), "Drop"), ops[at:]...)
		if rapid.Bool().Draw(t, "secondDrop") {
			ops = append(ops[:n:n], "Drop")
		} else {
			ops = ops[:n+1]
		}
		n = len(ops)
	}
	for _, op := range ops[:n] {
		pct := variedPct
		if op == "Drop" {
			st := genStep(t, op, variedPct)
			// half of the drops lose the session (the first ActivateSession is
			// refused), so that the transfer / recreate branches run as well
			if rapid.Bool().Draw(t, "sessionLost") {
				st.Resp[0] = respT{Req: "ActivateSessionRequest", Kind: "fault", Status: uint32(ua.StatusBadSessionIDInvalid)}
			} else {
				st.Resp[0] = respT{Req: "ActivateSessionRequest", Kind: "ideal"}
			}
			c.Steps = append(c.Steps, st)
			continue
		}
		if isSetup(op) {
			// set-up operations succeed more often so that the later ones have something to work on
			pct = variedPct / 3
		}
		c.Steps = append(c.Steps, genStep(t, op, pct))
	}
	c.Steps = append(c.Steps, genStep(t, "Close", variedPct/2))
	if template != "basic" {
		np := rapid.SampledFrom([]int{8, 6, 4, 2, 1, 0}).Draw(t, "npub")
		for i := 0; i < np; i++ {
			c.Publish = append(c.Publish, genResp(t, "PublishRequest", "Publish", 0, 85))
		}
	}
	c.PublishDelayMs = rapid.IntRange(1, 6).Draw(t, "pubdelay")
	return c
}

// ---------------------------------------------------------------------------
// scripted server side

type sentT struct {
	Step  int
	Req   string
	Shape string // class of the response that was sent
	Key   string // shape + detail, for the distinct count
}

type runT struct {
	c caseT

	mu       sync.Mutex
	cur      int      // index of the step being executed
	used     [][]bool // which planned responses were consumed
	pubNext  int
	subIDs   []uint32 // subscription ids handed out (responses sent with an OK header)
	nextSub  uint32
	nextItem uint32
	sent     []sentT
	seq      uint32
	fallback int
	badHdr   bool
}

func newRun(c caseT) *runT {
	r := &runT{c: c, used: make([][]bool, len(c.Steps))}
	for i, s := range c.Steps {
		r.used[i] = make([]bool, len(s.Resp))
	}
	return r
}

// badHeaderSent: a response with a ServiceResult other than OK / BadNoSubscription
// went out (the client's dispatcher forwards such a status to the error channel).
func (r *runT) badHeaderSent() bool {
	r.mu.Lock()
	defer r.mu.Unlock()
	return r.badHdr
}

func (r *runT) setStep(i int) {
	r.mu.Lock()
	r.cur = i
	r.mu.Unlock()
}

func statusClass(s ua.StatusCode) string {
	switch {
	case s == ua.StatusOK:
		return "ok"
	case uint32(s)&0xC0000000 == 0:
		return "good-nonzero"
	case uint32(s)&0xC0000000 == 0x40000000:
		return "uncertain"
	}
	return "bad"
}

func decodeResp(name, hx string) (ua.Response, error) {
	initTypes()
	typ, ok := respTypes[name]
	if !ok {
		return nil, fmt.Errorf("unknown response type %q", name)
	}
	b, err := hex.DecodeString(hx)
	if err != nil {
		return nil, err
	}
	v := reflect.New(typ.Elem()).Interface()
	if _, err := ua.Decode(b, v); err != nil {
		return nil, err
	}
	return v.(ua.Response), nil
}

// roundTrips: gopcua itself can encode and decode the response.
func roundTrips(v ua.Response) bool {
	b, err := encodeResp(v)
	if err != nil {
		return false
	}
	w := reflect.New(reflect.TypeOf(v).Elem()).Interface()
	_, err = ua.Decode(b, w)
	return err == nil
}

// resize sets the length of a result array relative to the request.
func resize(resp reflect.Value, field string, n int, p *respT) string {
	f := resp.Elem().FieldByName(field)
	if !f.IsValid() || f.Kind() != reflect.Slice {
		return "none"
	}
	target := f.Len()
	switch p.Card {
	case "empty":
		target = 0
	case "shorter":
		target = n - 1
		if target < 0 {
			target = 0
		}
	case "equal":
		target = n
	case "longer":
		target = n + p.Extra
	}
	if target != f.Len() && f.Len() > 0 {
		pool := f
		ns := reflect.MakeSlice(f.Type(), target, target)
		for i := 0; i < target; i++ {
			ns.Index(i).Set(pool.Index(i % pool.Len()))
		}
		f.Set(ns)
	}
	if f.Len() == 0 {
		if p.Nil {
			f.Set(reflect.Zero(f.Type()))
		} else {
			f.Set(reflect.MakeSlice(f.Type(), 0, 0))
		}
	}
	switch l := f.Len(); {
	case l == n:
		return "equal"
	case l == 0:
		return "empty"
	case l < n:
		return "shorter"
	}
	return "longer"
}

func reqCount(req ua.Request, field string) int {
	f := reflect.ValueOf(req).Elem().FieldByName(field)
	if !f.IsValid() || f.Kind() != reflect.Slice {
		return 0
	}
	return f.Len()
}

// idealRead answers a ReadRequest with the value type the attribute has.
func (r *runT) idealRead(q *ua.ReadRequest) ua.Response {
	res := make([]*ua.DataValue, len(q.NodesToRead))
	for i, n := range q.NodesToRead {
		var v *ua.Variant
		switch {
		case n.NodeID != nil && n.NodeID.Namespace() == 0 && n.NodeID.IntID() == id.Server_NamespaceArray:
			v = ua.MustVariant(script.NamespaceArray)
		case n.NodeID != nil && n.NodeID.Namespace() == 0 && n.NodeID.IntID() == id.Server_ServerDiagnostics_SubscriptionDiagnosticsArray:
			var eos []*ua.ExtensionObject
			for _, sid := range r.subIDs {
				eos = append(eos, ua.NewExtensionObject(&ua.SubscriptionDiagnosticsDataType{SessionID: ua.NewNumericNodeID(1, 1), SubscriptionID: sid}))
			}
			if eos == nil {
				eos = []*ua.ExtensionObject{}
			}
			v = ua.MustVariant(eos)
		default:
			switch n.AttributeID {
			case ua.AttributeIDNodeClass:
				v = ua.MustVariant(int32(ua.NodeClassVariable))
			case ua.AttributeIDBrowseName:
				v = ua.MustVariant(&ua.QualifiedName{NamespaceIndex: 1, Name: "node"})
			case ua.AttributeIDDisplayName, ua.AttributeIDDescription:
				v = ua.MustVariant(ua.NewLocalizedText("node"))
			case ua.AttributeIDAccessLevel, ua.AttributeIDUserAccessLevel:
				v = ua.MustVariant(uint8(3))
			default:
				v = ua.MustVariant(int32(42))
			}
		}
		res[i] = &ua.DataValue{EncodingMask: ua.DataValueValue, Value: v}
	}
	return &ua.ReadResponse{ResponseHeader: script.Header(q, ua.StatusOK), Results: res, DiagnosticInfos: []*ua.DiagnosticInfo{}}
}

func (r *runT) ideal(conn *script.Conn, req ua.Request) ua.Response {
	switch q := req.(type) {
	case *ua.ReadRequest:
		return r.idealRead(q)
	case *ua.CreateSubscriptionRequest:
		r.nextSub++
		return &ua.CreateSubscriptionResponse{ResponseHeader: script.Header(req, ua.StatusOK), SubscriptionID: r.nextSub, RevisedPublishingInterval: q.RequestedPublishingInterval,
			RevisedLifetimeCount: q.RequestedLifetimeCount, RevisedMaxKeepAliveCount: q.RequestedMaxKeepAliveCount}
	case *ua.CreateMonitoredItemsRequest:
		res := make([]*ua.MonitoredItemCreateResult, len(q.ItemsToCreate))
		for i, it := range q.ItemsToCreate {
			r.nextItem++
			res[i] = &ua.MonitoredItemCreateResult{StatusCode: ua.StatusOK, MonitoredItemID: r.nextItem, RevisedSamplingInterval: it.RequestedParameters.SamplingInterval,
				RevisedQueueSize: it.RequestedParameters.QueueSize, FilterResult: ua.NewExtensionObject(nil)}
		}
		return &ua.CreateMonitoredItemsResponse{ResponseHeader: script.Header(req, ua.StatusOK), Results: res, DiagnosticInfos: []*ua.DiagnosticInfo{}}
	case *ua.FindServersOnNetworkRequest:
		return &ua.FindServersOnNetworkResponse{ResponseHeader: script.Header(req, ua.StatusOK), LastCounterResetTime: time.Unix(0, 0).UTC(), Servers: []*ua.ServerOnNetwork{}}
	case *ua.PublishRequest:
		if len(r.subIDs) == 0 {
			return script.Fault(req, ua.StatusBadNoSubscription)
		}
		r.seq++
		return script.KeepAlive(q, r.subIDs[len(r.subIDs)-1], r.seq)
	}
	if resp := conn.Srv.Canonical(conn, req); resp != nil {
		return resp
	}
	return script.Fault(req, ua.StatusBadServiceUnsupported)
}

// build makes the response for a request from the planned entry (nil = ideal).
func (r *runT) build(conn *script.Conn, req ua.Request, p *respT) (resp ua.Response, shape, key string) {
	defer func() {
		if cs, ok := resp.(*ua.CreateSubscriptionResponse); ok && cs.ResponseHeader.ServiceResult == ua.StatusOK {
			r.subIDs = append(r.subIDs, cs.SubscriptionID)
		}
		if st := resp.Header().ServiceResult; st != ua.StatusOK && st != ua.StatusBadNoSubscription && conn.ID == 0 {
			r.badHdr = true // (connection 0 is the client under test; pkg.* helpers use their own)
		}
	}()
	if p == nil || p.Kind == "ideal" {
		return r.ideal(conn, req), "ideal", "ideal"
	}
	switch p.Kind {
	case "fault":
		st := ua.StatusCode(p.Status)
		return script.Fault(req, st), "fault/hdr-" + statusClass(st), fmt.Sprintf("fault/%08x", p.Status)
	case "other", "expected":
		v, err := decodeResp(p.Type, p.Hex)
		if err != nil {
			r.fallback++
			return r.ideal(conn, req), "fallback:undecodable", "fallback"
		}
		hdr := "hdr-" + statusClass(v.Header().ServiceResult)
		if p.Kind == "other" {
			if p.Type == svcs[typeName(req)].resp {
				shape, key = "expected-by-chance/"+hdr, "expected-by-chance/"+hdr
			} else {
				shape, key = "other-type/"+hdr, "other:"+p.Type+"/"+hdr
			}
		} else {
			svc := svcs[typeName(req)]
			if svc.resp != p.Type {
				// the operation sent another request than planned: treat as another type
				shape, key = "other-type/"+hdr, "other:"+p.Type+"/"+hdr
			} else {
				card := "none"
				rv := reflect.ValueOf(v)
				for i, pr := range svc.pairs {
					c := resize(rv, pr[1], reqCount(req, pr[0]), p)
					if i == 0 {
						card = c
					} else {
						card += "+" + c
					}
				}
				if pub, ok := v.(*ua.PublishResponse); ok {
					switch {
					case p.Sub == "zero":
						pub.SubscriptionID = 0
					case strings.HasPrefix(p.Sub, "known:") && len(r.subIDs) > 0:
						k := int(p.Sub[len("known:")] - '0')
						pub.SubscriptionID = r.subIDs[k%len(r.subIDs)]
					}
				}
				shape = "expected/" + hdr + "/card-" + card
				key = shape + "/" + p.Note
			}
		}
		if !roundTrips(v) {
			r.fallback++
			return r.ideal(conn, req), "fallback:unencodable", "fallback"
		}
		return v, shape, key
	}
	return r.ideal(conn, req), "ideal", "ideal"
}

func (r *runT) handle(conn *script.Conn, req ua.Request, reqID uint32) bool {
	name := typeName(req)
	if pr, ok := req.(*ua.PublishRequest); ok {
		r.mu.Lock()
		idx := r.pubNext
		r.pubNext++
		var p *respT
		delay := 10 * time.Millisecond
		if idx < len(r.c.Publish) {
			p = &r.c.Publish[idx]
			delay = time.Duration(r.c.PublishDelayMs) * time.Millisecond
		}
		r.mu.Unlock()
		go func() {
			time.Sleep(delay)
			r.mu.Lock()
			resp, shape, key := r.build(conn, pr, p)
			r.sent = append(r.sent, sentT{Step: -1, Req: name, Shape: shape, Key: key})
			r.mu.Unlock()
			_ = conn.Respond(reqID, resp)
		}()
		return true
	}
	r.mu.Lock()
	var p *respT
	if r.cur < len(r.c.Steps) {
		for i := range r.c.Steps[r.cur].Resp {
			if !r.used[r.cur][i] && r.c.Steps[r.cur].Resp[i].Req == name {
				r.used[r.cur][i] = true
				p = &r.c.Steps[r.cur].Resp[i]
				break
			}
		}
	}
	resp, shape, key := r.build(conn, req, p)
	r.sent = append(r.sent, sentT{Step: r.cur, Req: name, Shape: shape, Key: key})
	r.mu.Unlock()
	_ = conn.Respond(reqID, resp)
	return true
}

// ---------------------------------------------------------------------------
// client side

type subState struct {
	s         *opcua.Subscription
	items     []uint32
	cancelled bool
}

type msubState struct {
	s     *monitor.Subscription
	nodes []string
	unsub bool
}

type harness struct {
	srv       *script.Server
	ctx       context.Context
	url       string
	run       *runT
	connected bool
	c         *opcua.Client
	nm        *monitor.NodeMonitor
	subs      []*subState
	msubs     []*msubState
	notif     chan *opcua.PublishNotificationData
	dc        chan *monitor.DataChangeMessage
}

func nodeID(i int) *ua.NodeID        { return ua.NewNumericNodeID(1, uint32(5+i)) }
func nodeStr(i int) string           { return fmt.Sprintf("ns=1;i=%d", 5+i) }
func nodeStrs(n int) []string        { return nodeStrsFrom(0, n) }
func (h *harness) node() *opcua.Node { return h.c.Node(nodeID(0)) }
func nodeStrsFrom(from, n int) []string {
	out := make([]string, n)
	for i := range out {
		out[i] = nodeStr(from + i)
	}
	return out
}

func (h *harness) liveSub(k int) *subState {
	var live []*subState
	for _, s := range h.subs {
		if !s.cancelled {
			live = append(live, s)
		}
	}
	if len(live) == 0 {
		return nil
	}
	return live[k%len(live)]
}

func (h *harness) liveMon(k int) *msubState {
	var live []*msubState
	for _, s := range h.msubs {
		if !s.unsub {
			live = append(live, s)
		}
	}
	if len(live) == 0 {
		return nil
	}
	return live[k%len(live)]
}

// itemIDs returns monitored item ids of the subscription: up to n of the ids
// the client knows; fabricated ones only if it knows none (the client then
// refuses ModifyMonitoredItems / SetMonitoringMode before sending anything).
func (s *subState) itemIDs(n int) []uint32 {
	out := make([]uint32, 0, n)
	for i := 0; i < n; i++ {
		switch {
		case i < len(s.items):
			out = append(out, s.items[i])
		case len(s.items) == 0:
			out = append(out, uint32(7000+i))
		}
	}
	return out
}

var errSkipped = fmt.Errorf("skipped: nothing to operate on")
var errSkippedStopped = fmt.Errorf("skipped: the client's connection monitor has stopped (state Closed)")

// kfMonitorStopped is the signature of the proposed open finding KF-C21-1: with
// AutoReconnect(false) any response with a bad ServiceResult is also pushed to
// the client's error channel; Client.monitor then returns, which cancels the
// publish loop and sets the state to Closed while the channel stays usable.
// From then on nobody receives from resumech / pausech (capacity 2), so the
// third Client.Subscribe blocks forever in `c.resumech <- struct{}{}`
// (client_sub.go) and Subscription.Cancel in `c.pausech <-` with subMux held.
// A caller that has been told "Closed" is not expected to go on creating
// subscriptions on that client (DESIGN 3.8), so these operations are skipped
// once the state is Closed; everything else is still exercised.
const kfMonitorStopped = "subscribe-or-cancel-after-monitor-stopped:AutoReconnect=false:client_sub.go:resumech/pausech"

// monitorStopped reports whether the client went to Closed behind the caller's back.
func (h *harness) monitorStopped() bool {
	if !h.connected {
		return false
	}
	if h.run.badHeaderSent() {
		// the error travels through a channel to the monitor goroutine: give it a moment
		for i := 0; i < 60 && h.c.State() != opcua.Closed; i++ {
			time.Sleep(5 * time.Millisecond)
		}
	}
	return h.c.State() == opcua.Closed
}

func monParams(handle uint32) *ua.MonitoringParameters {
	return &ua.MonitoringParameters{ClientHandle: handle, SamplingInterval: 10, QueueSize: 2, DiscardOldest: true}
}

// do executes one operation; the returned error is the API's error (or errSkipped).
func (h *harness) do(s stepT) error {
	ctx := h.ctx
	c := h.c
	switch s.Op {
	case "Subscribe", "Mon.Subscribe", "Mon.ChanSubscribe", "Sub.Cancel", "Mon.Unsubscribe":
		// only while KF-C21-1 is listed as open; it was repaired by aa11db2 and
		// the operations are executed again
		if rec.Known(kfMonitorStopped) && h.monitorStopped() {
			return errSkippedStopped
		}
	}
	switch s.Op {
	case "Connect":
		err := c.Connect(ctx)
		h.connected = err == nil
		return err
	case "Close":
		return c.Close(ctx)
	case "Wait":
		time.Sleep(40 * time.Millisecond)
		return nil
	case "Drop":
		if h.srv == nil || !h.connected {
			return errSkipped
		}
		h.srv.DropConns()
		// the reconnect runs in the client's own goroutines (a panic there ends the
		// process: the case is journalled); give it time, nothing is judged here
		deadline := time.Now().Add(1500 * time.Millisecond)
		time.Sleep(150 * time.Millisecond)
		for time.Now().Before(deadline) && c.State() != opcua.Connected && c.State() != opcua.Closed {
			time.Sleep(20 * time.Millisecond)
		}
		return nil
	case "Read":
		req := &ua.ReadRequest{TimestampsToReturn: ua.TimestampsToReturnBoth}
		for i := 0; i < s.N; i++ {
			req.NodesToRead = append(req.NodesToRead, &ua.ReadValueID{NodeID: nodeID(i), AttributeID: ua.AttributeID(s.Attr)})
		}
		if req.NodesToRead == nil {
			req.NodesToRead = []*ua.ReadValueID{}
		}
		_, err := c.Read(ctx, req)
		return err
	case "Write":
		req := &ua.WriteRequest{NodesToWrite: []*ua.WriteValue{}}
		for i := 0; i < s.N; i++ {
			req.NodesToWrite = append(req.NodesToWrite, &ua.WriteValue{NodeID: nodeID(i), AttributeID: ua.AttributeIDValue,
				Value: &ua.DataValue{EncodingMask: ua.DataValueValue, Value: ua.MustVariant(int32(i))}})
		}
		_, err := c.Write(ctx, req)
		return err
	case "Browse":
		req := &ua.BrowseRequest{NodesToBrowse: []*ua.BrowseDescription{}}
		for i := 0; i < s.N; i++ {
			req.NodesToBrowse = append(req.NodesToBrowse, &ua.BrowseDescription{NodeID: nodeID(i), BrowseDirection: ua.BrowseDirectionForward,
				ReferenceTypeID: ua.NewNumericNodeID(0, id.References), IncludeSubtypes: true, ResultMask: uint32(ua.BrowseResultMaskAll)})
		}
		_, err := c.Browse(ctx, req)
		return err
	case "BrowseNext":
		req := &ua.BrowseNextRequest{ContinuationPoints: [][]byte{}}
		for i := 0; i < s.N; i++ {
			req.ContinuationPoints = append(req.ContinuationPoints, []byte{byte(i), 1})
		}
		_, err := c.BrowseNext(ctx, req)
		return err
	case "Node.NodeClass":
		_, err := h.node().NodeClass(ctx)
		return err
	case "Node.BrowseName":
		_, err := h.node().BrowseName(ctx)
		return err
	case "Node.Description":
		_, err := h.node().Description(ctx)
		return err
	case "Node.DisplayName":
		_, err := h.node().DisplayName(ctx)
		return err
	case "Node.AccessLevel":
		_, err := h.node().AccessLevel(ctx)
		return err
	case "Node.HasAccessLevel":
		_, err := h.node().HasAccessLevel(ctx, ua.AccessLevelTypeCurrentRead)
		return err
	case "Node.UserAccessLevel":
		_, err := h.node().UserAccessLevel(ctx)
		return err
	case "Node.HasUserAccessLevel":
		_, err := h.node().HasUserAccessLevel(ctx, ua.AccessLevelTypeCurrentRead)
		return err
	case "Node.Value":
		_, err := h.node().Value(ctx)
		return err
	case "Node.Attribute":
		_, err := h.node().Attribute(ctx, ua.AttributeID(s.Attr))
		return err
	case "Node.Attributes":
		attrs := []ua.AttributeID{ua.AttributeIDNodeClass, ua.AttributeIDBrowseName, ua.AttributeIDValue}[:s.N]
		_, err := h.node().Attributes(ctx, attrs...)
		return err
	case "Node.References":
		_, err := h.node().References(ctx, 0, ua.BrowseDirectionBoth, 0, true)
		return err
	case "Node.ReferencedNodes":
		_, err := h.node().ReferencedNodes(ctx, 0, ua.BrowseDirectionForward, 0, true)
		return err
	case "Node.Children":
		_, err := h.node().Children(ctx, 0, ua.NodeClassAll)
		return err
	case "Node.TranslateBrowsePaths":
		names := []*ua.QualifiedName{}
		for i := 0; i < s.N; i++ {
			names = append(names, &ua.QualifiedName{NamespaceIndex: 1, Name: fmt.Sprintf("seg%d", i)})
		}
		_, err := h.node().TranslateBrowsePathsToNodeIDs(ctx, names)
		return err
	case "Node.TranslateBrowsePathInNS":
		_, err := h.node().TranslateBrowsePathInNamespaceToNodeID(ctx, 1, "a.b.c")
		return err
	case "Call":
		args := []*ua.Variant{}
		for i := 0; i < s.N; i++ {
			args = append(args, ua.MustVariant(int32(i)))
		}
		_, err := c.Call(ctx, &ua.CallMethodRequest{ObjectID: nodeID(0), MethodID: nodeID(1), InputArguments: args})
		return err
	case "RegisterNodes":
		req := &ua.RegisterNodesRequest{NodesToRegister: []*ua.NodeID{}}
		for i := 0; i < s.N; i++ {
			req.NodesToRegister = append(req.NodesToRegister, nodeID(i))
		}
		_, err := c.RegisterNodes(ctx, req)
		return err
	case "UnregisterNodes":
		req := &ua.UnregisterNodesRequest{NodesToUnregister: []*ua.NodeID{}}
		for i := 0; i < s.N; i++ {
			req.NodesToUnregister = append(req.NodesToUnregister, nodeID(i))
		}
		_, err := c.UnregisterNodes(ctx, req)
		return err
	case "HistoryReadEvent", "HistoryReadRawModified", "HistoryReadProcessed", "HistoryReadAtTime":
		nodes := []*ua.HistoryReadValueID{}
		for i := 0; i < s.N; i++ {
			nodes = append(nodes, &ua.HistoryReadValueID{NodeID: nodeID(i), DataEncoding: &ua.QualifiedName{}})
		}
		t0, t1 := time.Unix(1700000000, 0).UTC(), time.Unix(1700003600, 0).UTC()
		var err error
		switch s.Op {
		case "HistoryReadEvent":
			_, err = c.HistoryReadEvent(ctx, nodes, &ua.ReadEventDetails{NumValuesPerNode: 10, StartTime: t0, EndTime: t1,
				Filter: &ua.EventFilter{SelectClauses: []*ua.SimpleAttributeOperand{}, WhereClause: &ua.ContentFilter{Elements: []*ua.ContentFilterElement{}}}})
		case "HistoryReadRawModified":
			_, err = c.HistoryReadRawModified(ctx, nodes, &ua.ReadRawModifiedDetails{StartTime: t0, EndTime: t1, NumValuesPerNode: 10})
		case "HistoryReadProcessed":
			_, err = c.HistoryReadProcessed(ctx, nodes, &ua.ReadProcessedDetails{StartTime: t0, EndTime: t1, ProcessingInterval: 1000,
				AggregateType: []*ua.NodeID{ua.NewNumericNodeID(0, id.AggregateFunction_Average)}, AggregateConfiguration: &ua.AggregateConfiguration{}})
		default:
			_, err = c.HistoryReadAtTime(ctx, nodes, &ua.ReadAtTimeDetails{ReqTimes: []time.Time{t0}})
		}
		return err
	case "NamespaceArray":
		_, err := c.NamespaceArray(ctx)
		return err
	case "FindNamespace":
		_, err := c.FindNamespace(ctx, "urn:verif:script")
		return err
	case "UpdateNamespaces":
		return c.UpdateNamespaces(ctx)
	case "FindServers":
		_, err := c.FindServers(ctx)
		return err
	case "FindServersOnNetwork":
		_, err := c.FindServersOnNetwork(ctx)
		return err
	case "GetEndpoints":
		_, err := c.GetEndpoints(ctx)
		return err
	case "pkg.FindServers":
		_, err := opcua.FindServers(ctx, h.url, opcua.RequestTimeout(requestTimeout))
		return err
	case "pkg.FindServersOnNetwork":
		_, err := opcua.FindServersOnNetwork(ctx, h.url, opcua.RequestTimeout(requestTimeout))
		return err
	case "pkg.GetEndpoints":
		_, err := opcua.GetEndpoints(ctx, h.url, opcua.RequestTimeout(requestTimeout))
		return err
	case "Subscribe":
		sub, err := c.Subscribe(ctx, &opcua.SubscriptionParameters{Interval: 10 * time.Millisecond}, h.notif)
		if err == nil && sub != nil {
			h.subs = append(h.subs, &subState{s: sub})
		}
		return err
	case "Mon.Subscribe":
		ms, err := h.nm.Subscribe(ctx, &opcua.SubscriptionParameters{Interval: 10 * time.Millisecond}, func(*monitor.Subscription, *monitor.DataChangeMessage) {}, nodeStrs(s.N)...)
		if err == nil && ms != nil {
			h.msubs = append(h.msubs, &msubState{s: ms, nodes: nodeStrs(s.N)})
		}
		return err
	case "Mon.ChanSubscribe":
		ms, err := h.nm.ChanSubscribe(ctx, &opcua.SubscriptionParameters{Interval: 10 * time.Millisecond}, h.dc, nodeStrs(s.N)...)
		if err == nil && ms != nil {
			h.msubs = append(h.msubs, &msubState{s: ms, nodes: nodeStrs(s.N)})
		}
		return err
	}
	if strings.HasPrefix(s.Op, "Sub.") {
		st := h.liveSub(s.Sub)
		if st == nil {
			return errSkipped
		}
		sub := st.s
		switch s.Op {
		case "Sub.Monitor":
			var items []*ua.MonitoredItemCreateRequest
			for i := 0; i < s.N; i++ {
				items = append(items, opcua.NewMonitoredItemCreateRequestWithDefaults(nodeID(i), ua.AttributeIDValue, uint32(1+i)))
			}
			res, err := sub.Monitor(ctx, ua.TimestampsToReturnBoth, items...)
			if err == nil && res != nil {
				for i := 0; i < len(items) && i < len(res.Results); i++ {
					st.items = append(st.items, res.Results[i].MonitoredItemID)
				}
			}
			return err
		case "Sub.Unmonitor":
			ids := st.itemIDs(s.N)
			_, err := sub.Unmonitor(ctx, ids...)
			if err == nil {
				st.items = nil
			}
			return err
		case "Sub.ModifyMonitoredItems":
			var items []*ua.MonitoredItemModifyRequest
			for i, mid := range st.itemIDs(s.N) {
				items = append(items, &ua.MonitoredItemModifyRequest{MonitoredItemID: mid, RequestedParameters: monParams(uint32(1 + i))})
			}
			_, err := sub.ModifyMonitoredItems(ctx, ua.TimestampsToReturnSource, items...)
			return err
		case "Sub.SetMonitoringMode":
			_, err := sub.SetMonitoringMode(ctx, ua.MonitoringModeSampling, st.itemIDs(s.N)...)
			return err
		case "Sub.SetTriggering":
			ids := st.itemIDs(1 + s.N + s.M)
			for len(ids) < 1+s.N+s.M {
				ids = append(ids, uint32(7100+len(ids)))
			}
			_, err := sub.SetTriggering(ctx, ids[0], ids[1:1+s.N], ids[1+s.N:])
			return err
		case "Sub.ModifySubscription":
			_, err := sub.ModifySubscription(ctx, opcua.SubscriptionParameters{Interval: 20 * time.Millisecond})
			return err
		case "Sub.Stats":
			_, err := sub.Stats(ctx)
			return err
		case "Sub.Cancel":
			st.cancelled = true
			return sub.Cancel(ctx)
		}
	}
	if strings.HasPrefix(s.Op, "Mon.") {
		st := h.liveMon(s.Sub)
		if st == nil {
			return errSkipped
		}
		ms := st.s
		switch s.Op {
		case "Mon.AddNodes":
			nodes := nodeStrsFrom(len(st.nodes), s.N)
			err := ms.AddNodes(ctx, nodes...)
			if err == nil {
				st.nodes = append(st.nodes, nodes...)
			}
			return err
		case "Mon.AddMonitorItems":
			var reqs []monitor.Request
			for i := 0; i < s.N; i++ {
				r := monitor.Request{NodeID: nodeID(len(st.nodes) + i), MonitoringMode: ua.MonitoringModeReporting}
				if i%2 == 0 {
					r.MonitoringParameters = monParams(0)
				}
				reqs = append(reqs, r)
			}
			_, err := ms.AddMonitorItems(ctx, reqs...)
			if err == nil {
				st.nodes = append(st.nodes, nodeStrsFrom(len(st.nodes), s.N)...)
			}
			return err
		case "Mon.RemoveNodes":
			n := s.N
			if n > len(st.nodes) {
				n = len(st.nodes)
			}
			nodes := st.nodes[:n]
			if s.M == 2 {
				nodes = append(append([]string{}, nodes...), nodeStr(90)) // a node that was never added
			}
			err := ms.RemoveNodes(ctx, nodes...)
			st.nodes = st.nodes[n:]
			return err
		case "Mon.ModifyMonitorItems":
			var reqs []monitor.Request
			for i := 0; i < s.N && i < len(st.nodes); i++ {
				reqs = append(reqs, monitor.Request{NodeID: nodeID(i), MonitoringParameters: monParams(0)})
			}
			return ms.ModifyMonitorItems(ctx, reqs...)
		case "Mon.SetMonitoringModeForNodes":
			n := s.N
			if n > len(st.nodes) {
				n = len(st.nodes)
			}
			return ms.SetMonitoringModeForNodes(ctx, ua.MonitoringModeSampling, st.nodes[:n]...)
		case "Mon.Modify":
			return ms.Modify(ctx, &opcua.SubscriptionParameters{Interval: 20 * time.Millisecond})
		case "Mon.Stats":
			_, err := ms.Stats(ctx)
			_ = ms.Subscribed() + int(ms.Delivered()) + int(ms.Dropped()) + int(ms.SubscriptionID())
			return err
		case "Mon.Unsubscribe":
			st.unsub = true // Unsubscribe is documented as not idempotent: called once per subscription
			return ms.Unsubscribe(ctx)
		}
	}
	return fmt.Errorf("unknown operation %q", s.Op)
}

type stepResult struct {
	Op      string
	Err     error
	Skipped bool
	SkipWhy string
	Panic   string
	Hung    bool
	Dur     time.Duration
}

// call runs one operation in its own goroutine with recover and the bounds.
func (h *harness) call(s stepT) stepResult {
	res := stepResult{Op: s.Op}
	done := make(chan struct{})
	t0 := time.Now()
	go func() {
		defer close(done)
		defer func() {
			if r := recover(); r != nil {
				res.Panic = fmt.Sprintf("%v\n%s", r, debug.Stack())
			}
		}()
		res.Err = h.do(s)
	}()
	select {
	case <-done:
		res.Dur = time.Since(t0)
		if res.Err == errSkipped || res.Err == errSkippedStopped {
			res.Skipped = true
			res.SkipWhy = "nothing-to-operate-on"
			if res.Err == errSkippedStopped {
				res.SkipWhy = "monitor-stopped(KF-C21-1)"
			}
			res.Err = nil
		}
		return res
	case <-time.After(hardBound):
		return stepResult{Op: s.Op, Hung: true, Dur: time.Since(t0)}
	}
}

type caseResult struct {
	Steps     []stepResult
	Sent      []sentT
	Msg       string // violation
	HangDump  string
	Hung      bool
	Fallbacks int
}

func drain[T any](ch chan T, stop <-chan struct{}) {
	for {
		select {
		case <-ch:
		case <-stop:
			return
		}
	}
}

func goroutineDump() string {
	buf := make([]byte, 1<<20)
	return string(buf[:runtime.Stack(buf, true)])
}

// execute runs the whole program once.
func execute(c caseT) (*caseResult, error) {
	initTypes()
	if len(c.Steps) == 0 {
		return nil, fmt.Errorf("empty program")
	}
	run := newRun(c)
	srv, err := script.Start(script.Options{Handle: run.handle})
	if err != nil {
		return nil, err
	}
	defer srv.Close()
	ctx, cancel := context.WithCancel(context.Background())
	defer cancel()
	cl, err := opcua.NewClient(srv.URL, opcua.SecurityMode(ua.MessageSecurityModeNone), opcua.RequestTimeout(requestTimeout), opcua.AutoReconnect(c.Reconnect), opcua.ReconnectInterval(20*time.Millisecond))
	if err != nil {
		return nil, err
	}
	h := &harness{srv: srv, ctx: ctx, url: srv.URL, c: cl, run: run, notif: make(chan *opcua.PublishNotificationData, 64), dc: make(chan *monitor.DataChangeMessage, 64)}
	h.nm, _ = monitor.NewNodeMonitor(cl)
	h.nm.SetErrorHandler(func(*opcua.Client, *monitor.Subscription, error) {})
	stop := make(chan struct{})
	defer close(stop)
	go drain(h.notif, stop)
	go drain(h.dc, stop)

	out := &caseResult{}
	closed := false
	for i, s := range c.Steps {
		if s.Op == "Close" && i == len(c.Steps)-1 {
			// let the publish loop consume the planned PublishResponses first
			deadline := time.Now().Add(time.Duration(60+10*len(c.Publish)) * time.Millisecond)
			for time.Now().Before(deadline) {
				run.mu.Lock()
				left := len(c.Publish) - run.pubNext
				run.mu.Unlock()
				if left <= 0 {
					break
				}
				time.Sleep(5 * time.Millisecond)
			}
			time.Sleep(10 * time.Millisecond)
		}
		run.setStep(i)
		r := h.call(s)
		out.Steps = append(out.Steps, r)
		if s.Op == "Close" {
			closed = true
		}
		if r.Panic != "" {
			out.Msg = fmt.Sprintf("step %d %s panicked: %s", i, s.Op, r.Panic)
			break
		}
		if r.Hung {
			out.Hung = true
			d1 := goroutineDump()
			out.HangDump = d1
			out.Msg = fmt.Sprintf("step %d %s did not return within %v", i, s.Op, hardBound)
			break
		}
	}
	if !closed && !out.Hung {
		// best effort: release the client's goroutines
		done := make(chan struct{})
		go func() {
			defer close(done)
			defer func() { _ = recover() }()
			cl.Close(ctx)
		}()
		select {
		case <-done:
		case <-time.After(5 * time.Second):
		}
	}
	run.mu.Lock()
	out.Sent = append([]sentT{}, run.sent...)
	out.Fallbacks = run.fallback
	run.mu.Unlock()
	return out, nil
}

// record feeds the evidence recorder with one executed program.
func record(c caseT, out *caseResult) {
	rec.Class("programs")
	byStep := map[int][]sentT{}
	for _, s := range out.Sent {
		byStep[s.Step] = append(byStep[s.Step], s)
		rec.Class("shape:" + s.Req + ":" + s.Shape)
		if s.Step == -1 {
			// the publish loop is its own "operation"
			rec.Case(s.Shape != "ideal", ev.Hash("Publish", s.Key), "op:Publish(background)")
		}
	}
	for i, r := range out.Steps {
		var keys []string
		nt := false
		for _, s := range byStep[i] {
			keys = append(keys, s.Req+"="+s.Key)
			if s.Shape != "ideal" {
				nt = true
			}
		}
		sort.Strings(keys)
		outcome := "value"
		switch {
		case r.Skipped:
			outcome = "skipped:" + r.SkipWhy
		case r.Panic != "":
			outcome = "PANIC"
		case r.Hung:
			outcome = "HUNG"
		case r.Err != nil:
			outcome = "error"
		}
		cl := []string{"op:" + r.Op, "outcome:" + r.Op + "/" + outcome}
		if len(byStep[i]) == 0 && !r.Skipped && len(opReqs[r.Op]) > 0 {
			cl = append(cl, "no-request-reached-server:"+r.Op)
		}
		if nt && outcome == "value" {
			cl = append(cl, "value-despite-variation")
		}
		if r.Dur > softBound {
			cl = append(cl, "slow(>RequestTimeout+2s):"+r.Op)
		}
		rec.Case(nt, ev.Hash(r.Op, strings.Join(keys, "|")), cl...)
	}
	if out.Fallbacks > 0 {
		rec.ClassN("fallback-to-ideal(response did not round-trip)", int64(out.Fallbacks))
	}
}

// runCase executes a program and confirms hangs (DESIGN 3.4: 3 of 3).
func runCase(c caseT) (msg string, out *caseResult, err error) {
	out, err = execute(c)
	if err != nil {
		return "", nil, err
	}
	if !out.Hung {
		return out.Msg, out, nil
	}
	first := out
	for i := 0; i < 2; i++ {
		o2, err := execute(c)
		if err != nil {
			return "", nil, err
		}
		if !o2.Hung {
			rec.Inconclusive()
			if o2.Msg != "" {
				return o2.Msg, o2, nil
			}
			return "", first, nil
		}
	}
	return first.Msg + " (3 of 3 executions)\n" + first.HangDump, first, nil
}

func summary(c caseT) any {
	type st struct {
		Op   string   `json:"op"`
		N    int      `json:"n"`
		Resp []string `json:"resp"`
	}
	var steps []st
	for _, s := range c.Steps {
		x := st{Op: s.Op, N: s.N}
		for _, r := range s.Resp {
			x.Resp = append(x.Resp, strings.TrimSpace(fmt.Sprintf("%s:%s %s %s %s", r.Req, r.Kind, r.Type, r.Card, r.Note)))
		}
		steps = append(steps, x)
	}
	return map[string]any{"steps": steps, "publish_responses": len(c.Publish)}
}

func TestPrograms(t *testing.T) {
	rec.Assume("well-formed = the response passed ua.Encode + ua.Decode in the harness before it was sent (responses that do not are replaced by the ideal one and counted)")
	rec.Assume("two thirds of the subscription programs run with AutoReconnect(false); one third with AutoReconnect(true) and 1-2 Drop steps (the server closes every connection, half of the time the session is refused afterwards) so that the reconnect state machine (ActivateSession, CreateSession, TransferSubscriptions, Republish, DeleteSubscriptions, CreateSubscription, CreateMonitoredItems) consumes drawn responses too - only panics and hangs are judged there, whether the client recovers belongs to C25/C26; OpenSecureChannelResponse / CloseSecureChannelResponse are not sent as service responses (channel-level messages, C16/C18); Subscription.Cancel and monitor Unsubscribe are called at most once per subscription (documented as not idempotent); the notification channels are always drained")
	rapid.Check(t, func(t *rapid.T) {
		c := genCase(t)
		rec.Journal("TestPrograms", c)
		msg, out, err := runCase(c)
		rec.JournalDone("TestPrograms")
		if err != nil {
			t.Fatalf("infrastructure: %v", err)
		}
		record(c, out)
		if rec.WantSample() {
			rec.Sample(summary(c))
		}
		if msg != "" {
			rec.Fail(t, "TestPrograms", c, "%s", msg)
		}
	})
}

// TestReplay re-runs a saved program without rapid.
func TestReplay(t *testing.T) {
	rp, err := ev.LoadReplay()
	if err != nil {
		t.Fatal(err)
	}
	if rp == nil {
		t.Skip("no VERIF_REPLAY")
	}
	var c caseT
	if err := json.Unmarshal(rp.Case, &c); err != nil {
		t.Fatal(err)
	}
	fmt.Println("REPLAYED structured")
	// a crash in a background goroutine depends on the timing of the publish loop: a few attempts
	for i := 0; i < 5; i++ {
		msg, out, err := runCase(c)
		if err != nil {
			t.Fatalf("infrastructure: %v", err)
		}
		for j, r := range out.Steps {
			t.Logf("attempt %d step %d %s: err=%v skipped=%v dur=%v", i, j, r.Op, r.Err, r.Skipped, r.Dur.Round(time.Millisecond))
		}
		for _, s := range out.Sent {
			t.Logf("attempt %d sent step=%d %s %s", i, s.Step, s.Req, s.Key)
		}
		if msg != "" {
			t.Fatalf("property C21 violated: %s", msg)
		}
	}
}
