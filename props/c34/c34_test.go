// Package c34 decides property C34: concurrent reads and writes of node values
// are linearizable.
//
// Generator: 2-4 clients (separate connections to one in-process gopcua
// server) each run a rapid-drawn program of 6-20 operations (Read or Write of
// the Value attribute of one of 1-2 shared variables; every write carries a
// value that is unique in the case) with drawn pre-operation yields. All draws
// happen before the goroutines start; inside the goroutines nothing is random.
//
// Oracle: every operation is recorded with its invocation and return time on
// the process' monotonic clock; the history is judged by porcupine with a
// register model per node (initial state = the value the variable was created
// with). A timed-out write is modelled as possibly applied (open-ended return),
// a timed-out read is left out (it observed nothing). Any other error on a
// healthy loopback server is an infrastructure failure, not a verdict.
package c34

import (
	"context"
	"encoding/json"
	"errors"
	"fmt"
	"math"
	"runtime"
	"sort"
	"sync"
	"sync/atomic"
	"testing"
	"time"

	"github.com/anishathalye/porcupine"
	"github.com/gopcua/opcua"
	"github.com/gopcua/opcua/ua"
	"pgregory.net/rapid"

	"verif/pkg/ev"
	"verif/pkg/stack"
)

func TestMain(m *testing.M) { ev.Main(m) }

var rec = ev.For("C34", "rapid-drawn programs: 2-4 clients x 6-20 ops (Read/Write of the Value attribute) over 1-2 fresh shared variables of one in-process server, unique write values client*1e6+k (in a third of the cases the writers also supply a SourceTimestamp - far past, 2 s ago, 1 h ahead - or a ServerTimestamp; in half of the 2-node cases a third of the requests name both nodes - one WriteRequest / ReadRequest, recorded as two operations with the same interval), drawn pre-op yields (none/Gosched/0-400us sleep), common start barrier; history (invoke, return on the monotonic clock) judged by porcupine with a per-node register model; non-trivial = two operations of different clients on the same node overlapped in time and at least one of them is a write; distinct by hash of the drawn programs")

// ---------------------------------------------------------------------------
// case

const (
	kRead  = "R"
	kWrite = "W"
)

// Op is one drawn operation of a client program.
type Op struct {
	Kind  string `json:"k"`           // "R" or "W"
	Node  int    `json:"n"`           // index of the shared variable
	Val   int64  `json:"v,omitempty"` // value written (unique in the case)
	Yield int    `json:"y"`           // 0 none, 1 Gosched, >=2: sleep (Yield-1)*20us
	// TS (writes): the written DataValue also carries a SourceTimestamp:
	// 0 none (value only), 1 far in the past (2001), 2 two seconds ago,
	// 3 one hour ahead, 4 a ServerTimestamp two seconds ago instead
	TS int `json:"ts,omitempty"`
	// Both (cases with 2 nodes): ONE request names both nodes - a write stores
	// Val in Node and Val2 in the other node, a read reads both. It appears in
	// the history as two operations with the same invoke / return times.
	Both bool  `json:"both,omitempty"`
	Val2 int64 `json:"v2,omitempty"`
}

// HOp is one recorded operation of the observed history.
type HOp struct {
	Client  int    `json:"c"`
	Kind    string `json:"k"`
	Node    int    `json:"n"`
	Val     int64  `json:"v"`             // written value, or value read
	Bad     string `json:"bad,omitempty"` // read returned something that is not an int64 value
	Call    int64  `json:"call"`          // ns since case start
	Ret     int64  `json:"ret"`
	Timeout bool   `json:"timeout,omitempty"`
}

// Case is the replayable unit: the drawn programs; History holds the observed
// history of the failing execution (informational + offline re-judgement).
type Case struct {
	Nodes    int     `json:"nodes"`
	Programs [][]Op  `json:"programs"`
	History  []HOp   `json:"history,omitempty"`
	Init     []int64 `json:"init,omitempty"`
}

func initValue(node int) int64 { return -int64(node + 1) }

// counters of the current process (classes only)
var refused, stampedOK atomic.Int64

// writeStamped writes the Value attribute; ts selects the timestamps the writer supplies.
func writeStamped(ctx context.Context, c *opcua.Client, n *ua.NodeID, v int64, ts int) (ua.StatusCode, error) {
	if ts == 0 {
		return stack.WriteValue(ctx, c, n, v)
	}
	dv := &ua.DataValue{EncodingMask: ua.DataValueValue, Value: ua.MustVariant(v)}
	switch ts {
	case 1:
		dv.EncodingMask |= ua.DataValueSourceTimestamp
		dv.SourceTimestamp = time.Date(2001, 1, 1, 0, 0, int(v%60), 0, time.UTC)
	case 2:
		dv.EncodingMask |= ua.DataValueSourceTimestamp
		dv.SourceTimestamp = time.Now().Add(-2 * time.Second)
	case 3:
		dv.EncodingMask |= ua.DataValueSourceTimestamp
		dv.SourceTimestamp = time.Now().Add(time.Hour)
	default:
		dv.EncodingMask |= ua.DataValueServerTimestamp
		dv.ServerTimestamp = time.Now().Add(-2 * time.Second)
	}
	resp, err := c.Write(ctx, &ua.WriteRequest{NodesToWrite: []*ua.WriteValue{{NodeID: n, AttributeID: ua.AttributeIDValue, Value: dv}}})
	if err != nil {
		return 0, err
	}
	if len(resp.Results) != 1 {
		return 0, fmt.Errorf("%d results", len(resp.Results))
	}
	return resp.Results[0], nil
}

func genCase(t *rapid.T) Case {
	var c Case
	c.Nodes = rapid.IntRange(1, 2).Draw(t, "nodes")
	nc := rapid.IntRange(2, 4).Draw(t, "clients")
	writeBias := rapid.IntRange(2, 8).Draw(t, "writeBias") // of 10
	stamped := rapid.IntRange(0, 2).Draw(t, "stampedWrites") == 0 // a third of the cases: writers supply timestamps
	multi := c.Nodes == 2 && rapid.Bool().Draw(t, "multiNodeRequests")  // requests that name both nodes
	for ci := 0; ci < nc; ci++ {
		n := rapid.IntRange(6, 20).Draw(t, "nops")
		prog := make([]Op, n)
		k := int64(0)
		for i := range prog {
			o := Op{Kind: kRead, Node: rapid.IntRange(0, c.Nodes-1).Draw(t, "node")}
			if rapid.IntRange(0, 9).Draw(t, "isWrite") < writeBias {
				k++
				o.Kind = kWrite
				o.Val = int64(ci+1)*1_000_000 + k
				if stamped {
					o.TS = rapid.IntRange(0, 4).Draw(t, "ts")
				}
			}
			if multi && rapid.IntRange(0, 2).Draw(t, "both") == 0 {
				o.Both, o.TS = true, 0
				if o.Kind == kWrite {
					k++
					o.Val2 = int64(ci+1)*1_000_000 + k
				}
			}
			switch y := rapid.IntRange(0, 9).Draw(t, "yieldKind"); {
			case y < 5:
				o.Yield = 0
			case y < 7:
				o.Yield = 1
			default:
				o.Yield = 2 + rapid.IntRange(0, 20).Draw(t, "sleep20us")
			}
			prog[i] = o
		}
		c.Programs = append(c.Programs, prog)
	}
	return c
}

// ---------------------------------------------------------------------------
// fixture: one server per process, a pool of connected clients

var (
	fixMu   sync.Mutex
	srv     *stack.Server
	pool    [4]*opcua.Client
	caseSeq int
)

var errInfra = errors.New("infrastructure")

func server() (*stack.Server, error) {
	if srv != nil {
		return srv, nil
	}
	s, err := stack.StartServer(stack.ServerOpts{})
	if err != nil {
		return nil, err
	}
	srv = s
	return s, nil
}

func client(i int) (*opcua.Client, error) {
	if pool[i] != nil {
		return pool[i], nil
	}
	c, err := stack.Connect(srv.URL, opcua.SecurityMode(ua.MessageSecurityModeNone), opcua.RequestTimeout(10*time.Second), opcua.AutoReconnect(false))
	if err != nil {
		return nil, err
	}
	pool[i] = c
	return c, nil
}

func dropClient(i int) {
	if pool[i] != nil {
		ctx, cancel := context.WithTimeout(context.Background(), 2*time.Second)
		_ = pool[i].Close(ctx)
		cancel()
		pool[i] = nil
	}
}

func isTimeout(err error) bool {
	return errors.Is(err, ua.StatusBadTimeout) || errors.Is(err, context.DeadlineExceeded)
}

// execute runs the programs against fresh variables and returns the history.
func execute(c Case) (hist []HOp, err error) {
	fixMu.Lock()
	defer fixMu.Unlock()
	s, err := server()
	if err != nil {
		return nil, fmt.Errorf("%w: %v", errInfra, err)
	}
	caseSeq++
	ids := make([]*ua.NodeID, c.Nodes)
	for n := 0; n < c.Nodes; n++ {
		name := fmt.Sprintf("c34_%d_%d", caseSeq, n)
		s.AddVariable(name, initValue(n))
		ids[n] = s.NodeID(name)
	}
	clients := make([]*opcua.Client, len(c.Programs))
	for i := range c.Programs {
		cl, err := client(i)
		if err != nil {
			return nil, fmt.Errorf("%w: connect: %v", errInfra, err)
		}
		clients[i] = cl
	}

	base := time.Now()
	start := make(chan struct{})
	per := make([][]HOp, len(c.Programs))
	errs := make([]error, len(c.Programs))
	var wg sync.WaitGroup
	for ci := range c.Programs {
		wg.Add(1)
		go func(ci int) {
			defer wg.Done()
			cl := clients[ci]
			ctx := context.Background()
			out := make([]HOp, 0, len(c.Programs[ci]))
			<-start
			for _, o := range c.Programs[ci] {
				switch {
				case o.Yield == 1:
					runtime.Gosched()
				case o.Yield >= 2:
					time.Sleep(time.Duration(o.Yield-1) * 20 * time.Microsecond)
				}
				h := HOp{Client: ci, Kind: o.Kind, Node: o.Node, Val: o.Val}
				if o.Both && c.Nodes == 2 {
					h2 := HOp{Client: ci, Kind: o.Kind, Node: 1 - o.Node, Val: o.Val2}
					h.Call = time.Since(base).Nanoseconds()
					var err error
					if o.Kind == kWrite {
						var resp *ua.WriteResponse
						resp, err = cl.Write(ctx, &ua.WriteRequest{NodesToWrite: []*ua.WriteValue{
							{NodeID: ids[o.Node], AttributeID: ua.AttributeIDValue, Value: &ua.DataValue{EncodingMask: ua.DataValueValue, Value: ua.MustVariant(o.Val)}},
							{NodeID: ids[1-o.Node], AttributeID: ua.AttributeIDValue, Value: &ua.DataValue{EncodingMask: ua.DataValueValue, Value: ua.MustVariant(o.Val2)}}}})
						if err == nil && (len(resp.Results) != 2 || resp.Results[0] != ua.StatusOK || resp.Results[1] != ua.StatusOK) {
							errs[ci] = fmt.Errorf("client %d two-node write: results %v", ci, resp.Results)
						}
					} else {
						var resp *ua.ReadResponse
						resp, err = cl.Read(ctx, &ua.ReadRequest{MaxAge: 0, TimestampsToReturn: ua.TimestampsToReturnNeither, NodesToRead: []*ua.ReadValueID{
							{NodeID: ids[o.Node], AttributeID: ua.AttributeIDValue, DataEncoding: &ua.QualifiedName{}},
							{NodeID: ids[1-o.Node], AttributeID: ua.AttributeIDValue, DataEncoding: &ua.QualifiedName{}}}})
						if err == nil && len(resp.Results) != 2 {
							errs[ci] = fmt.Errorf("client %d two-node read: %d results", ci, len(resp.Results))
						} else if err == nil {
							for x, hh := range []*HOp{&h, &h2} {
								dv := resp.Results[x]
								switch {
								case dv == nil || dv.Status != ua.StatusOK:
									errs[ci] = fmt.Errorf("client %d two-node read: result %d: %v", ci, x, dv)
								case dv.Value == nil:
									hh.Bad = "no value"
								default:
									if v, ok := dv.Value.Value().(int64); ok {
										hh.Val = v
									} else {
										hh.Bad = fmt.Sprintf("%T %v", dv.Value.Value(), dv.Value.Value())
									}
								}
							}
						}
					}
					h.Ret = time.Since(base).Nanoseconds()
					switch {
					case err != nil && isTimeout(err):
						h.Timeout = true
					case err != nil:
						errs[ci] = fmt.Errorf("client %d two-node %s: %v", ci, o.Kind, err)
					}
					h2.Call, h2.Ret, h2.Timeout = h.Call, h.Ret, h.Timeout
					out = append(out, h, h2)
					if errs[ci] != nil {
						break
					}
					continue
				}
				if o.Kind == kWrite {
					h.Call = time.Since(base).Nanoseconds()
					st, err := writeStamped(ctx, cl, ids[o.Node], o.Val, o.TS)
					h.Ret = time.Since(base).Nanoseconds()
					switch {
					case err != nil && isTimeout(err):
						h.Timeout = true
					case err != nil:
						errs[ci] = fmt.Errorf("client %d write: %v", ci, err)
					case st != ua.StatusOK && o.TS != 0:
						// a server may refuse a write that carries timestamps: an
						// unsuccessful operation is not part of the history
						refused.Add(1)
						continue
					case st != ua.StatusOK:
						errs[ci] = fmt.Errorf("client %d write status %v", ci, st)
					}
					if o.TS != 0 {
						stampedOK.Add(1)
					}
				} else {
					h.Call = time.Since(base).Nanoseconds()
					dv, err := stack.ReadValue(ctx, cl, ids[o.Node])
					h.Ret = time.Since(base).Nanoseconds()
					switch {
					case err != nil && isTimeout(err):
						h.Timeout = true
					case err != nil:
						errs[ci] = fmt.Errorf("client %d read: %v", ci, err)
					case dv == nil:
						errs[ci] = fmt.Errorf("client %d read: nil result", ci)
					case dv.Status != ua.StatusOK:
						errs[ci] = fmt.Errorf("client %d read status %v", ci, dv.Status)
					case dv.Value == nil:
						h.Bad = "no value"
					default:
						if v, ok := dv.Value.Value().(int64); ok {
							h.Val = v
						} else {
							h.Bad = fmt.Sprintf("%T %v", dv.Value.Value(), dv.Value.Value())
						}
					}
				}
				out = append(out, h)
				if errs[ci] != nil {
					break
				}
			}
			per[ci] = out
		}(ci)
	}
	close(start)
	wg.Wait()
	for ci, e := range errs {
		if e != nil {
			err = fmt.Errorf("%w: %v", errInfra, e)
		}
		for _, h := range per[ci] {
			if h.Timeout || e != nil {
				// a late response on this connection must not meet a later case
				dropClient(ci)
				break
			}
		}
	}
	for _, p := range per {
		hist = append(hist, p...)
	}
	sort.SliceStable(hist, func(i, j int) bool { return hist[i].Call < hist[j].Call })
	return hist, err
}

// ---------------------------------------------------------------------------
// oracle

type regIn struct {
	write bool
	node  int
	val   int64
}

type regOut struct {
	val     int64
	bad     bool
	unknown bool
}

func model(inits []int64) porcupine.Model {
	return porcupine.Model{
		Partition: func(history []porcupine.Operation) [][]porcupine.Operation {
			m := map[int][]porcupine.Operation{}
			var keys []int
			for _, o := range history {
				n := o.Input.(regIn).node
				if _, ok := m[n]; !ok {
					keys = append(keys, n)
				}
				m[n] = append(m[n], o)
			}
			sort.Ints(keys)
			out := make([][]porcupine.Operation, 0, len(keys))
			for _, k := range keys {
				out = append(out, m[k])
			}
			return out
		},
		// the state is (node, value); the node of a partition is learnt from its first step
		Init: func() interface{} { return regState{node: -1} },
		Step: func(state, input, output interface{}) (bool, interface{}) {
			st := state.(regState)
			in := input.(regIn)
			if st.node == -1 {
				st = regState{node: in.node, val: inits[in.node]}
			}
			if in.write {
				return true, regState{node: st.node, val: in.val}
			}
			out := output.(regOut)
			if out.unknown {
				return true, st
			}
			return !out.bad && out.val == st.val, st
		},
		Equal: func(a, b interface{}) bool { return a.(regState) == b.(regState) },
	}
}

type regState struct {
	node int
	val  int64
}

// judge returns the porcupine verdict on a recorded history.
func judge(c Case, hist []HOp) porcupine.CheckResult {
	inits := make([]int64, c.Nodes)
	for n := range inits {
		inits[n] = initValue(n)
	}
	var maxT int64
	for _, h := range hist {
		if h.Ret > maxT {
			maxT = h.Ret
		}
	}
	var ops []porcupine.Operation
	for i, h := range hist {
		if h.Kind == kRead && h.Timeout {
			continue // observed nothing, changed nothing
		}
		o := porcupine.Operation{ClientId: h.Client, Call: h.Call, Return: h.Ret}
		if h.Kind == kWrite {
			o.Input = regIn{write: true, node: h.Node, val: h.Val}
			o.Output = regOut{}
			if h.Timeout {
				// possibly applied, at any time after its invocation
				o.Return = maxT + 1 + int64(i)
				if o.Return < 0 {
					o.Return = math.MaxInt64
				}
			}
		} else {
			o.Input = regIn{node: h.Node}
			o.Output = regOut{val: h.Val, bad: h.Bad != ""}
		}
		ops = append(ops, o)
	}
	return porcupine.CheckOperationsTimeout(model(inits), ops, 60*time.Second)
}

// shape computes the non-triviality rule and the evidence classes.
func shape(c Case, hist []HOp) (nontrivial bool, classes []string) {
	classes = append(classes, fmt.Sprintf("clients=%d", len(c.Programs)), fmt.Sprintf("nodes=%d", c.Nodes))
	tsKinds := map[int]bool{}
	for _, p := range c.Programs {
		for _, o := range p {
			if o.Kind == kWrite && o.TS != 0 {
				tsKinds[o.TS] = true
			}
		}
	}
	both := map[string]bool{}
	for _, p := range c.Programs {
		for _, o := range p {
			if o.Both && c.Nodes == 2 {
				both[o.Kind] = true
			}
		}
	}
	for k := range both {
		classes = append(classes, "has-request-naming-both-nodes:"+k)
	}
	if len(tsKinds) > 0 {
		classes = append(classes, "has-write-with-timestamp")
		for k := 1; k <= 4; k++ {
			if tsKinds[k] {
				classes = append(classes, fmt.Sprintf("write-timestamp-kind=%d", k))
			}
		}
	}
	if refused.Swap(0) > 0 {
		classes = append(classes, "timestamped-write-refused(not-in-history)")
	}
	overlap, ww, rw := 0, 0, 0
	for i := range hist {
		for j := i + 1; j < len(hist); j++ {
			a, b := hist[i], hist[j]
			if a.Client == b.Client || a.Node != b.Node {
				continue
			}
			if a.Kind == kRead && b.Kind == kRead {
				continue
			}
			if a.Call <= b.Ret && b.Call <= a.Ret {
				overlap++
				if a.Kind == kWrite && b.Kind == kWrite {
					ww++
				} else {
					rw++
				}
			}
		}
	}
	nontrivial = overlap > 0
	switch {
	case overlap == 0:
		classes = append(classes, "overlapping-pairs=0")
	case overlap < 5:
		classes = append(classes, "overlapping-pairs=1-4")
	case overlap < 20:
		classes = append(classes, "overlapping-pairs=5-19")
	default:
		classes = append(classes, "overlapping-pairs>=20")
	}
	if ww > 0 {
		classes = append(classes, "has-write-write-overlap")
	}
	if rw > 0 {
		classes = append(classes, "has-read-write-overlap")
	}
	// reads that returned the value of a write that was concurrent with the read
	writes := map[int64]HOp{}
	for _, h := range hist {
		if h.Kind == kWrite {
			writes[h.Val] = h
		}
	}
	sawConc, sawInit, sawOther := 0, 0, 0
	timeouts := 0
	for _, h := range hist {
		if h.Timeout {
			timeouts++
		}
		if h.Kind != kRead || h.Timeout || h.Bad != "" {
			continue
		}
		if w, ok := writes[h.Val]; ok {
			if w.Client != h.Client {
				sawOther++
				if w.Call <= h.Ret && h.Call <= w.Ret {
					sawConc++
				}
			}
		} else if h.Val == initValue(h.Node) {
			sawInit++
		}
	}
	if sawConc > 0 {
		classes = append(classes, "read-observed-concurrent-write")
	}
	if sawOther > 0 {
		classes = append(classes, "read-observed-other-clients-write")
	}
	if sawInit > 0 {
		classes = append(classes, "read-observed-initial-value")
	}
	if timeouts > 0 {
		classes = append(classes, "has-timeout")
	}
	return
}

func describe(hist []HOp) string {
	b, _ := json.Marshal(hist)
	if len(b) > 1500 {
		return string(b[:1500]) + "..."
	}
	return string(b)
}

// ---------------------------------------------------------------------------
// tests

func TestLinearizable(t *testing.T) {
	rec.Assume("trusted base: porcupine v1.3.0 (linearizability checker), the Go monotonic clock (invoke stamped before the call, return after it, so recorded intervals only ever contain the real ones), the gopcua client used as the observer")
	rec.Assume("timed-out writes are modelled as possibly applied at any later time; timed-out reads are left out; any other operation error is reported as infrastructure failure (exit 2), never as a violation")
	rapid.Check(t, func(rt *rapid.T) {
		c := genCase(rt)
		rec.Journal("TestLinearizable", c)
		hist, err := execute(c)
		rec.JournalDone("TestLinearizable")
		if err != nil {
			// not a verdict: no replay file is written, the driver reports exit 2
			t.Fatalf("infrastructure failure (not a violation): %v", err)
		}
		nt, classes := shape(c, hist)
		res := judge(c, hist)
		switch res {
		case porcupine.Ok:
			classes = append(classes, "verdict=linearizable")
		case porcupine.Unknown:
			classes = append(classes, "verdict=checker-timeout")
			rec.Inconclusive()
		case porcupine.Illegal:
			classes = append(classes, "verdict=not-linearizable")
		}
		pb, _ := json.Marshal(c.Programs)
		rec.Case(nt, ev.Hash(pb, fmt.Sprint(c.Nodes)), classes...)
		if nt && rec.WantSample() {
			rec.Sample(map[string]any{"nodes": c.Nodes, "programs": c.Programs, "history_ops": len(hist)})
		}
		if res == porcupine.Illegal {
			c.History = hist
			rec.Fail(rt, "TestLinearizable", c, "history of %d operations by %d clients is not linearizable w.r.t. a register per node: %s", len(hist), len(c.Programs), describe(hist))
		}
	})
}

// TestReplay re-judges the recorded history of a saved case (deterministic) and
// re-executes its programs without rapid (schedule dependent, so several runs).
func TestReplay(t *testing.T) {
	rp, err := ev.LoadReplay()
	if err != nil {
		t.Fatal(err)
	}
	if rp == nil {
		t.Skip("no VERIF_REPLAY")
	}
	var c Case
	if err := json.Unmarshal(rp.Case, &c); err != nil {
		t.Fatal(err)
	}
	fmt.Println("REPLAYED structured")
	if len(c.History) > 0 {
		res := judge(c, c.History)
		fmt.Printf("recorded history (%d ops): porcupine says %v\n", len(c.History), res)
	}
	runs := 25
	for i := 0; i < runs; i++ {
		hist, err := execute(c)
		if err != nil {
			t.Skipf("infrastructure failure (not a violation): %v", err)
		}
		if judge(c, hist) == porcupine.Illegal {
			t.Fatalf("property C34 violated (run %d of %d): history not linearizable: %s", i+1, runs, describe(hist))
		}
	}
	fmt.Printf("%d live re-executions were linearizable\n", runs)
}
