package c04

import (
	"encoding/json"
	"fmt"
	"reflect"
	"testing"
	"unicode/utf8"

	"github.com/gopcua/opcua/ua"
	"pgregory.net/rapid"

	"verif/pkg/ev"
)

func TestMain(m *testing.M) { ev.Main(m) }

var rec = ev.For("C04", "rapid-generated NodeIDs of all six encodings (ns 0/1/255/256/65535/random; numbers at every encoding boundary; string ids built from ';' '=' 'ns=' 'nsu=' 'i=' 's=' 'g=' 'b=' 'svr=' fragments, text forms of other ids, empty, spaces, NUL, multi-byte, invalid UTF-8; GUIDs from 16 bytes; opaque ids nil/empty/with '+/=' in base64), each built through a public constructor, Decode, the setters, or as the NodeID of an ExpandedNodeID. Steps: text round trip of one id; Equal on pairs drawn from a pool of a base identity and its near misses; nsu= resolution against a generated namespace table; TypeRegistry keyed lookups. non-trivial = the identifier contains a separator or prefix look-alike or special base64, or the pair is the same node in another encoding / differs in exactly one of namespace, kind, identifier, or the URI occurs more than once / is a near miss of a table entry; distinct by hash of the case")

func assume() {
	rec.Assume("NodeIDs are only built through ua.New*NodeID, (*NodeID).Decode of a hand-written Part 6 encoding, Set{Namespace,IntID,StringID} with in-range values, ua.NewExpandedNodeID(...).NodeID and ua.NewNodeIDFromExpandedNodeID; GUID ids always from 16 well-formed bytes")
	rec.Assume("a null and an empty String/ByteString identifier are the same (absent) identifier; encoding-mask flag bits are not part of the identity")
	rec.Assume("namespace URIs are non-empty and contain no raw ';' (reserved by the text syntax)")
}

// guarded runs f and turns a panic into a message.
func guarded(what string, f func()) (msg string) {
	defer func() {
		if r := recover(); r != nil {
			msg = fmt.Sprintf("%s panicked: %v", what, r)
		}
	}()
	f()
	return ""
}

// ---------------------------------------------------------------------------
// (1) text round trip

type roundTripCase struct {
	ID Spec `json:"id"`
}

func checkRoundTrip(c roundTripCase) (msg string, err error) {
	id, err := build(c.ID)
	if err != nil {
		return "", err
	}
	if d := denotes(id, c.ID); d != "" {
		return "", fmt.Errorf("constructed id does not denote its spec (%s): generator precondition broken", d)
	}
	var s string
	var p *ua.NodeID
	var perr error
	if m := guarded("String/ParseNodeID", func() {
		s = id.String()
		p, perr = ua.ParseNodeID(s)
	}); m != "" {
		return m, nil
	}
	if perr != nil {
		return fmt.Sprintf("ParseNodeID(%q) of the id's own string form fails: %v", s, perr), nil
	}
	if d := denotes(p, c.ID); d != "" {
		return fmt.Sprintf("ParseNodeID(%q) yields another node: %s", s, d), nil
	}
	var e1, e2 bool
	if m := guarded("Equal", func() { e1, e2 = p.Equal(id), id.Equal(p) }); m != "" {
		return m, nil
	}
	if !e1 || !e2 {
		return fmt.Sprintf("ParseNodeID(%q) is not Equal to the original (parsed.Equal(orig)=%v orig.Equal(parsed)=%v)", s, e1, e2), nil
	}
	// A parsed NodeID belongs to its caller: changing it must not change what a
	// second and a third parse of the same text yield (added after seeded
	// change C04-C, a memoised ParseNodeID that hands out one shared pointer).
	var p2, p3 *ua.NodeID
	var err2, err3 error
	if m := guarded("ParseNodeID (repeated)", func() {
		p2, err2 = ua.ParseNodeID(s)
		if err2 != nil {
			return
		}
		// whatever setter applies to the identifier type; errors are irrelevant
		_ = p.SetNamespace(p.Namespace() ^ 1)
		_ = p.SetIntID(p.IntID() + 1)
		_ = p.SetStringID(p.StringID() + "x")
		ua.NewExpandedNodeID(p, "urn:other", 7)
		p3, err3 = ua.ParseNodeID(s)
	}); m != "" {
		return m, nil
	}
	if err2 != nil || err3 != nil {
		return fmt.Sprintf("ParseNodeID(%q) succeeded once and failed when repeated: %v / %v", s, err2, err3), nil
	}
	if d := denotes(p2, c.ID); d != "" {
		return fmt.Sprintf("after the result of an earlier ParseNodeID(%q) was modified, the result of a second parse (taken before the modification) denotes another node: %s", s, d), nil
	}
	if d := denotes(p3, c.ID); d != "" {
		return fmt.Sprintf("after the result of an earlier ParseNodeID(%q) was modified, a fresh parse of the same text yields another node: %s", s, d), nil
	}
	return "", nil
}

func TestRoundTrip(t *testing.T) {
	assume()
	rapid.Check(t, func(t *rapid.T) {
		c := roundTripCase{ID: dress(t, genIdentity(t), "id")}
		msg, err := checkRoundTrip(c)
		if err != nil {
			t.Fatalf("harness: %v", err)
		}
		labels, nt := specLabels(c.ID)
		b, _ := json.Marshal(c)
		rec.Case(nt, ev.Hash("rt", b), prefixed("roundtrip ", labels)...)
		if nt {
			sample("TestRoundTrip", c)
		}
		if msg != "" {
			rec.Fail(t, "TestRoundTrip", c, "%s", msg)
		}
	})
}

// sample offers one non-trivial case per process (the 20th) from the first
// three shards of each step, so that the merged evidence shows cases of every
// step instead of twelve of the first one.
var ntSeen int

func sample(step string, c any) {
	ntSeen++
	if sh, _ := ev.Shard(); sh < 3 && ntSeen == 20 {
		rec.Sample(map[string]any{"step": step, "case": c})
	}
}

func prefixed(p string, ls []string) []string {
	out := make([]string, len(ls))
	for i, l := range ls {
		out[i] = p + l
	}
	return out
}

// ---------------------------------------------------------------------------
// (2) Equal <=> same identity

type equalCase struct {
	A Spec `json:"a"`
	B Spec `json:"b"`
}

func checkEqual(c equalCase) (msg string, err error) {
	a, err := build(c.A)
	if err != nil {
		return "", err
	}
	b, err := build(c.B)
	if err != nil {
		return "", err
	}
	a2, _ := build(c.A) // a second, independently built object of the same spec
	want := sameIdentity(c.A, c.B)
	var ab, ba, aa, bb, aa2 bool
	if m := guarded("Equal", func() {
		ab, ba, aa, bb, aa2 = a.Equal(b), b.Equal(a), a.Equal(a), b.Equal(b), a.Equal(a2)
	}); m != "" {
		return m, nil
	}
	if !aa || !bb || !aa2 {
		return fmt.Sprintf("Equal is not reflexive: a.Equal(a)=%v b.Equal(b)=%v a.Equal(rebuilt a)=%v", aa, bb, aa2), nil
	}
	if ab != ba {
		return fmt.Sprintf("Equal is not symmetric: a.Equal(b)=%v b.Equal(a)=%v", ab, ba), nil
	}
	if ab != want {
		if want {
			return fmt.Sprintf("a and b denote the same namespace and identifier but a.Equal(b)=false (a=%q b=%q)", a.String(), b.String()), nil
		}
		return fmt.Sprintf("a and b denote different nodes but a.Equal(b)=true (a=%q b=%q)", a.String(), b.String()), nil
	}
	return "", nil
}

func genEqualCase(t *rapid.T) equalCase {
	base := genIdentity(t)
	pool := []Spec{base}
	for i, n := 0, rapid.IntRange(1, 2).Draw(t, "nMut"); i < n; i++ {
		m, _ := mutate(t, base)
		pool = append(pool, m)
	}
	if rapid.IntRange(0, 3).Draw(t, "withIndependent") == 0 {
		pool = append(pool, genIdentity(t))
	}
	ai := rapid.IntRange(0, len(pool)-1).Draw(t, "aFrom")
	bi := rapid.IntRange(0, len(pool)-1).Draw(t, "bFrom")
	if rapid.IntRange(0, 2).Draw(t, "forceSame") == 0 {
		bi = ai
	}
	return equalCase{A: dress(t, pool[ai], "a"), B: dress(t, pool[bi], "b")}
}

func TestEqual(t *testing.T) {
	assume()
	rapid.Check(t, func(t *rapid.T) {
		c := genEqualCase(t)
		msg, err := checkEqual(c)
		if err != nil {
			t.Fatalf("harness: %v", err)
		}
		pl := pairLabel(c.A, c.B)
		la, ia := specLabels(c.A)
		_, ib := specLabels(c.B)
		nt := ia || ib || (pl != "pair:differ-in-several" && pl != "pair:same-identity-same-construction")
		b, _ := json.Marshal(c)
		rec.Case(nt, ev.Hash("eq", b), append(prefixed("equal a ", la), "equal "+pl)...)
		if nt {
			sample("TestEqual", c)
		}
		if msg != "" {
			rec.Fail(t, "TestEqual", c, "%s", msg)
		}
	})
}

// ---------------------------------------------------------------------------
// (3) nsu= resolution against a namespace table

type nsuCase struct {
	Table    []string `json:"table"`     // namespace table (index = namespace index)
	NilTable bool     `json:"nil_table"` // pass nil instead of an empty table
	URI      string   `json:"uri"`
	ID       Spec     `json:"id"` // identifier part; its NS and Via are not used
}

var uriFragments = []string{"urn:", "http://", "x", "y", "Z", "=", "ns=", "nsu=", "i=", "s=", "svr=1", " ", "é", ":", "/", "%3B", ",", "1", "example.org", "UA/"}

func genURI(t *rapid.T) string {
	n := rapid.IntRange(1, 4).Draw(t, "nUriFrag")
	s := ""
	for i := 0; i < n; i++ {
		s += rapid.SampledFrom(uriFragments).Draw(t, "uriFrag")
	}
	return s
}

func genNSUCase(t *rapid.T) nsuCase {
	var c nsuCase
	distinct := make([]string, rapid.IntRange(1, 4).Draw(t, "nDistinctURIs"))
	for i := range distinct {
		distinct[i] = genURI(t)
	}
	n := rapid.IntRange(0, 8).Draw(t, "tableLen")
	c.Table = []string{}
	for i := 0; i < n; i++ {
		c.Table = append(c.Table, rapid.SampledFrom(distinct).Draw(t, "tableURI"))
	}
	if n == 0 {
		c.NilTable = rapid.Bool().Draw(t, "nilTable")
	}
	switch k := rapid.IntRange(0, 9).Draw(t, "uriKind"); {
	case k < 6 && n > 0:
		c.URI = c.Table[rapid.IntRange(0, n-1).Draw(t, "uriFromTable")]
	case k < 8:
		u := rapid.SampledFrom(distinct).Draw(t, "uriNear")
		switch rapid.IntRange(0, 3).Draw(t, "nearKind") {
		case 0:
			u += "x"
		case 1:
			_, sz := utf8.DecodeLastRuneInString(u)
			u = u[:len(u)-sz]
		case 2:
			u = "nsu=" + u
		default:
			u += " "
		}
		if u == "" {
			u = "u"
		}
		c.URI = u
	default:
		c.URI = genURI(t)
	}
	c.ID = genIdentity(t)
	c.ID.NS = 0
	c.ID.Via = "ctor"
	return c
}

func checkNSU(c nsuCase) (msg string, nontrivial bool, classes []string, err error) {
	if c.URI == "" || containsSemicolon(c.URI) {
		return "", false, nil, fmt.Errorf("case outside the domain: URI empty or with raw ';'")
	}
	for _, u := range c.Table {
		if u == "" || containsSemicolon(u) {
			return "", false, nil, fmt.Errorf("case outside the domain: table URI empty or with raw ';'")
		}
	}
	if err := c.ID.valid(); err != nil {
		return "", false, nil, err
	}
	first, count := -1, 0
	for i, u := range c.Table {
		if u == c.URI {
			count++
			if first < 0 {
				first = i
			}
		}
	}
	table := c.Table
	if c.NilTable && len(c.Table) == 0 {
		table = nil
	}
	text := "nsu=" + c.URI + ";" + idText(c.ID)
	var e *ua.ExpandedNodeID
	var perr error
	if m := guarded("ParseExpandedNodeID", func() { e, perr = ua.ParseExpandedNodeID(text, table) }); m != "" {
		return m, true, nil, nil
	}
	idl, hostile := specLabels(c.ID)
	_ = idl
	switch {
	case first < 0:
		classes = append(classes, "nsu uri-absent")
	case count > 1:
		classes = append(classes, "nsu uri-present-duplicated")
	default:
		classes = append(classes, "nsu uri-present-once")
	}
	classes = append(classes, "nsu id-kind:"+c.ID.class(), fmt.Sprintf("nsu table-len:%d", len(c.Table)))
	if first > 0 {
		classes = append(classes, "nsu resolves-to-index>0")
	}
	nontrivial = count > 1 || hostile || (first < 0 && len(c.Table) > 0)
	if first < 0 {
		if perr == nil {
			return fmt.Sprintf("ParseExpandedNodeID(%q, %q): URI is not in the table but parsing succeeded (ns=%d)", text, c.Table, e.NodeID.Namespace()), nontrivial, classes, nil
		}
		return "", nontrivial, classes, nil
	}
	if perr != nil {
		return fmt.Sprintf("ParseExpandedNodeID(%q, %q): URI is at index %d but parsing fails: %v", text, c.Table, first, perr), nontrivial, classes, nil
	}
	if e == nil || e.NodeID == nil {
		return fmt.Sprintf("ParseExpandedNodeID(%q, %q) returned no NodeID and no error", text, c.Table), nontrivial, classes, nil
	}
	want := c.ID
	want.NS = uint16(first)
	if d := denotes(e.NodeID, want); d != "" {
		return fmt.Sprintf("ParseExpandedNodeID(%q, %q): %s (first matching index is %d)", text, c.Table, d, first), nontrivial, classes, nil
	}
	if e.HasNamespaceURI() && e.NamespaceURI != c.URI {
		return fmt.Sprintf("ParseExpandedNodeID(%q, %q) carries namespace URI %q", text, c.Table, e.NamespaceURI), nontrivial, classes, nil
	}
	return "", nontrivial, classes, nil
}

func containsSemicolon(s string) bool {
	for i := 0; i < len(s); i++ {
		if s[i] == ';' {
			return true
		}
	}
	return false
}

func TestExpandedNSU(t *testing.T) {
	assume()
	rapid.Check(t, func(t *rapid.T) {
		c := genNSUCase(t)
		msg, nt, classes, err := checkNSU(c)
		if err != nil {
			t.Fatalf("harness: %v", err)
		}
		b, _ := json.Marshal(c)
		rec.Case(nt, ev.Hash("nsu", b), classes...)
		if nt {
			sample("TestExpandedNSU", c)
		}
		if msg != "" {
			rec.Fail(t, "TestExpandedNSU", c, "%s", msg)
		}
	})
}

// ---------------------------------------------------------------------------
// (4) type registry keyed by node id

type (
	regT0 struct{ A int }
	regT1 struct{ B int }
	regT2 struct{ C int }
	regT3 struct{ D int }
	regT4 struct{ E int }
	regT5 struct{ F int }
)

func regValue(i int) any {
	switch i {
	case 0:
		return new(regT0)
	case 1:
		return new(regT1)
	case 2:
		return new(regT2)
	case 3:
		return new(regT3)
	case 4:
		return new(regT4)
	default:
		return new(regT5)
	}
}

const maxRegs = 6

type registryCase struct {
	// Regs[i] is registered as Go type #i (six distinct struct types).
	Regs    []Spec `json:"register"`
	Queries []Spec `json:"query"`
}

func genRegistryCase(t *rapid.T) registryCase {
	base := genIdentity(t)
	pool := []Spec{base}
	for i, n := 0, rapid.IntRange(1, 3).Draw(t, "nMut"); i < n; i++ {
		m, _ := mutate(t, base)
		pool = append(pool, m)
	}
	pool = append(pool, genIdentity(t))
	var c registryCase
	for i, n := 0, rapid.IntRange(1, maxRegs).Draw(t, "nRegs"); i < n; i++ {
		c.Regs = append(c.Regs, dress(t, pool[rapid.IntRange(0, len(pool)-1).Draw(t, "regFrom")], "reg"))
	}
	for i, n := 0, rapid.IntRange(1, 4).Draw(t, "nQueries"); i < n; i++ {
		var q Spec
		if rapid.IntRange(0, 4).Draw(t, "queryKind") == 0 {
			q, _ = mutate(t, pool[rapid.IntRange(0, len(pool)-1).Draw(t, "queryMutFrom")])
		} else {
			q = pool[rapid.IntRange(0, len(pool)-1).Draw(t, "queryFrom")]
		}
		c.Queries = append(c.Queries, dress(t, q, "query"))
	}
	return c
}

func checkRegistry(c registryCase) (msg string, nontrivial bool, classes []string, err error) {
	if len(c.Regs) > maxRegs {
		return "", false, nil, fmt.Errorf("at most %d registrations", maxRegs)
	}
	reg := ua.NewTypeRegistry()
	model := map[string]int{} // identity -> index of the type registered under it
	firstID := map[int]Spec{} // type index -> id it was (first and only) registered with
	otherEnc, hostile := false, false
	for i, s := range c.Regs {
		id, err := build(s)
		if err != nil {
			return "", false, nil, err
		}
		if _, h := specLabels(s); h {
			hostile = true
		}
		var rerr error
		if m := guarded("TypeRegistry.Register", func() { rerr = reg.Register(id, regValue(i)) }); m != "" {
			return m, true, classes, nil
		}
		if j, taken := model[s.key()]; taken {
			classes = append(classes, "registry register-same-identity-again")
			if c.Regs[j].Enc != s.Enc {
				otherEnc = true
			}
			if rerr == nil {
				return fmt.Sprintf("register #%d (%q): the same node is already registered as type #%d (%q) but Register reported no error", i, id.String(), j, mustString(c.Regs[j])), true, classes, nil
			}
			continue
		}
		if rerr != nil {
			return fmt.Sprintf("register #%d (%q): no registered id denotes this node, yet Register fails: %v", i, id.String(), rerr), true, classes, nil
		}
		model[s.key()] = i
		firstID[i] = s
	}
	for qi, q := range c.Queries {
		id, err := build(q)
		if err != nil {
			return "", false, nil, err
		}
		if _, h := specLabels(q); h {
			hostile = true
		}
		var v any
		if m := guarded("TypeRegistry.New", func() { v = reg.New(id) }); m != "" {
			return m, true, classes, nil
		}
		j, known := model[q.key()]
		if !known {
			classes = append(classes, "registry query-unknown-id")
			if v != nil {
				return fmt.Sprintf("query #%d (%q) denotes no registered node but New returned a %T", qi, id.String(), v), true, classes, nil
			}
			continue
		}
		if c.Regs[j].Enc != q.Enc {
			otherEnc = true
			classes = append(classes, "registry query-known-id-other-numeric-encoding")
		} else {
			classes = append(classes, "registry query-known-id-same-encoding")
		}
		if v == nil {
			return fmt.Sprintf("query #%d (%q) denotes the node registered as type #%d (%q) but New found nothing", qi, id.String(), j, mustString(c.Regs[j])), true, classes, nil
		}
		if reflect.TypeOf(v) != reflect.TypeOf(regValue(j)) {
			return fmt.Sprintf("query #%d (%q): New returned %T, the node was registered as %T", qi, id.String(), v, regValue(j)), true, classes, nil
		}
	}
	for i := 0; i < maxRegs; i++ {
		var got *ua.NodeID
		if m := guarded("TypeRegistry.Lookup", func() { got = reg.Lookup(regValue(i)) }); m != "" {
			return m, true, classes, nil
		}
		want, registered := firstID[i]
		if !registered {
			if got != nil {
				return fmt.Sprintf("Lookup of type #%d, which was never (successfully) registered, returned %q", i, got.String()), true, classes, nil
			}
			continue
		}
		if d := denotes(got, want); d != "" {
			return fmt.Sprintf("Lookup of type #%d registered under %q returned another node: %s", i, mustString(want), d), true, classes, nil
		}
	}
	nontrivial = otherEnc || hostile || len(model) < len(c.Regs)
	return "", nontrivial, classes, nil
}

func mustString(s Spec) string {
	id, err := build(s)
	if err != nil {
		return "?"
	}
	out := "?"
	_ = guarded("String", func() { out = id.String() })
	return out
}

func TestRegistry(t *testing.T) {
	assume()
	rec.Assume("TypeRegistry: ids are NodeIDs, so 'already registered' / 'the type with the given id' are read with NodeID identity (ua registers extension objects with NewNumericNodeID and looks them up with wire-decoded FourByte ids)")
	rapid.Check(t, func(t *rapid.T) {
		c := genRegistryCase(t)
		msg, nt, classes, err := checkRegistry(c)
		if err != nil {
			t.Fatalf("harness: %v", err)
		}
		b, _ := json.Marshal(c)
		rec.Case(nt, ev.Hash("reg", b), classes...)
		if nt {
			sample("TestRegistry", c)
		}
		if msg != "" {
			rec.Fail(t, "TestRegistry", c, "%s", msg)
		}
	})
}

// ---------------------------------------------------------------------------

// TestReplay re-runs a saved case without rapid.
func TestReplay(t *testing.T) {
	rp, err := ev.LoadReplay()
	if err != nil {
		t.Fatal(err)
	}
	if rp == nil {
		t.Skip("no VERIF_REPLAY")
	}
	var msg string
	switch rp.Test {
	case "TestRoundTrip":
		var c roundTripCase
		if err = json.Unmarshal(rp.Case, &c); err == nil {
			msg, err = checkRoundTrip(c)
		}
	case "TestEqual":
		var c equalCase
		if err = json.Unmarshal(rp.Case, &c); err == nil {
			msg, err = checkEqual(c)
		}
	case "TestExpandedNSU":
		var c nsuCase
		if err = json.Unmarshal(rp.Case, &c); err == nil {
			msg, _, _, err = checkNSU(c)
		}
	case "TestRegistry":
		var c registryCase
		if err = json.Unmarshal(rp.Case, &c); err == nil {
			msg, _, _, err = checkRegistry(c)
		}
	default:
		t.Fatalf("replay file names unknown test %q", rp.Test)
	}
	if err != nil {
		t.Fatalf("replay file is not a valid C04 case: %v", err)
	}
	fmt.Println("REPLAYED structured")
	if msg != "" {
		t.Fatalf("property C04 violated: %s", msg)
	}
}
