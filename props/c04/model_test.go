// Package c04 decides property C04: the textual form of a NodeID round-trips
// and NodeID equality matches identity (namespace + identifier; the three
// numeric encodings of one number are the same node).
//
// This file is the reference side: a plain-data description of a NodeID
// (Spec), the identity it denotes, the documented text syntax written out by
// hand, the Part 6 binary encoding written out by hand (for building ids
// through Decode), and the only place where ids are built from a Spec —
// always through the public constructors, setters or Decode, never by poking
// fields.
package c04

import (
	"bytes"
	"encoding/base64"
	"encoding/binary"
	"encoding/hex"
	"fmt"
	"strconv"
	"strings"

	"github.com/gopcua/opcua/ua"
)

// Identifier classes (what "the same identifier" ranges over).
const (
	classNumeric = "numeric"
	classString  = "string"
	classGUID    = "guid"
	classOpaque  = "opaque"
)

// Spec is one NodeID as plain data.
type Spec struct {
	Enc string `json:"enc"` // twobyte | fourbyte | numeric | string | guid | opaque
	Via string `json:"via"` // ctor | decode | setters | expanded | fromexpanded
	NS  uint16 `json:"ns"`
	Num uint32 `json:"num,omitempty"`
	// Hex holds the identifier bytes of string (raw bytes of the string), guid
	// (16 bytes in textual order) and opaque ids. Hex because identifiers may
	// be arbitrary bytes, which JSON strings cannot carry.
	Hex string `json:"hex,omitempty"`
	// Nil: a null string / byte string (length -1 on the wire, nil slice for
	// the constructor) instead of an empty one.
	Nil bool `json:"nil,omitempty"`
	// Text is Hex as a quoted Go string, for the reader only; never parsed.
	Text string `json:"text,omitempty"`
}

func (s Spec) bytes() []byte {
	b, err := hex.DecodeString(s.Hex)
	if err != nil {
		panic("c04 harness: bad hex in case: " + err.Error())
	}
	return b
}

func (s Spec) class() string {
	switch s.Enc {
	case "twobyte", "fourbyte", "numeric":
		return classNumeric
	case "string":
		return classString
	case "guid":
		return classGUID
	case "opaque":
		return classOpaque
	}
	panic("c04 harness: unknown encoding " + s.Enc)
}

// valid says whether the spec describes something the chosen encoding can
// hold (replay files are data; a hand-edited one must not turn into a bogus
// violation).
func (s Spec) valid() error {
	switch s.Enc {
	case "twobyte":
		if s.NS != 0 || s.Num > 0xff {
			return fmt.Errorf("twobyte cannot hold ns=%d id=%d", s.NS, s.Num)
		}
	case "fourbyte":
		if s.NS > 0xff || s.Num > 0xffff {
			return fmt.Errorf("fourbyte cannot hold ns=%d id=%d", s.NS, s.Num)
		}
	case "numeric", "string", "opaque":
	case "guid":
		if len(s.bytes()) != 16 {
			return fmt.Errorf("guid needs 16 bytes")
		}
	default:
		return fmt.Errorf("unknown encoding %q", s.Enc)
	}
	switch s.Via {
	case "ctor", "decode", "setters", "expanded", "fromexpanded":
	default:
		return fmt.Errorf("unknown construction %q", s.Via)
	}
	return nil
}

// sameIdentity is the property's right-hand side, written from its text: two
// NodeIDs are the same node iff namespace, identifier class and identifier are
// equal. TwoByte / FourByte / Numeric are one class. A null and an empty
// string / byte string are the same (absent) identifier.
func sameIdentity(a, b Spec) bool {
	if a.NS != b.NS || a.class() != b.class() {
		return false
	}
	if a.class() == classNumeric {
		return a.Num == b.Num
	}
	return bytes.Equal(a.bytes(), b.bytes())
}

// key is a canonical map key of the identity (reference model of a registry).
func (s Spec) key() string {
	if s.class() == classNumeric {
		return fmt.Sprintf("%d|numeric|%d", s.NS, s.Num)
	}
	return fmt.Sprintf("%d|%s|%s", s.NS, s.class(), s.Hex)
}

// guidText renders 16 bytes (textual order) as 8-4-4-4-12.
func guidText(b []byte, upper bool) string {
	h := hex.EncodeToString(b)
	if upper {
		h = strings.ToUpper(h)
	}
	return h[0:8] + "-" + h[8:12] + "-" + h[12:16] + "-" + h[16:20] + "-" + h[20:32]
}

// idText is the identifier part of the documented syntax,
// '{s,i,b,g}=<identifier>', written independently of NodeID.String.
func idText(s Spec) string {
	switch s.class() {
	case classNumeric:
		return "i=" + strconv.FormatUint(uint64(s.Num), 10)
	case classString:
		return "s=" + string(s.bytes())
	case classGUID:
		return "g=" + guidText(s.bytes(), true)
	default:
		return "b=" + base64.StdEncoding.EncodeToString(s.bytes())
	}
}

// refText is the full documented text form 'ns=<namespace>;{s,i,b,g}=<identifier>'.
// Only used to manufacture look-alike string identifiers.
func refText(s Spec) string {
	if s.NS == 0 {
		return idText(s)
	}
	return "ns=" + strconv.Itoa(int(s.NS)) + ";" + idText(s)
}

// wire is the OPC UA Part 6 §5.2.2.9 binary encoding of the spec.
func wire(s Spec) []byte {
	var b []byte
	le16 := func(v uint16) { b = binary.LittleEndian.AppendUint16(b, v) }
	le32 := func(v uint32) { b = binary.LittleEndian.AppendUint32(b, v) }
	bs := func() {
		if s.Nil {
			le32(0xffffffff)
			return
		}
		d := s.bytes()
		le32(uint32(len(d)))
		b = append(b, d...)
	}
	switch s.Enc {
	case "twobyte":
		b = append(b, 0x00, byte(s.Num))
	case "fourbyte":
		b = append(b, 0x01, byte(s.NS))
		le16(uint16(s.Num))
	case "numeric":
		b = append(b, 0x02)
		le16(s.NS)
		le32(s.Num)
	case "string":
		b = append(b, 0x03)
		le16(s.NS)
		bs()
	case "guid":
		g := s.bytes()
		b = append(b, 0x04)
		le16(s.NS)
		b = append(b, g[3], g[2], g[1], g[0], g[5], g[4], g[7], g[6])
		b = append(b, g[8:16]...)
	case "opaque":
		b = append(b, 0x05)
		le16(s.NS)
		bs()
	}
	return b
}

// ctor builds the id with the public constructor of its encoding.
func ctor(s Spec) *ua.NodeID {
	switch s.Enc {
	case "twobyte":
		return ua.NewTwoByteNodeID(uint8(s.Num))
	case "fourbyte":
		return ua.NewFourByteNodeID(uint8(s.NS), uint16(s.Num))
	case "numeric":
		return ua.NewNumericNodeID(s.NS, s.Num)
	case "string":
		return ua.NewStringNodeID(s.NS, string(s.bytes()))
	case "guid":
		return ua.NewGUIDNodeID(s.NS, guidText(s.bytes(), s.bytes()[15]&1 == 0))
	default:
		if s.Nil {
			return ua.NewByteStringNodeID(s.NS, nil)
		}
		return ua.NewByteStringNodeID(s.NS, append([]byte{}, s.bytes()...))
	}
}

// build makes a fresh *ua.NodeID for the spec using only public API. An error
// here is a harness problem (or an invalid replay file), never a violation.
func build(s Spec) (*ua.NodeID, error) {
	if err := s.valid(); err != nil {
		return nil, err
	}
	switch s.Via {
	case "ctor":
		return ctor(s), nil
	case "decode":
		w := wire(s)
		n := new(ua.NodeID)
		k, err := n.Decode(w)
		if err != nil || k != len(w) {
			return nil, fmt.Errorf("Decode(% x) = %d, %v", w, k, err)
		}
		return n, nil
	case "setters":
		var n *ua.NodeID
		var err error
		switch s.Enc {
		case "twobyte":
			n = ua.NewTwoByteNodeID(0)
			err = n.SetIntID(s.Num)
		case "fourbyte":
			n = ua.NewFourByteNodeID(0, 0)
			if err = n.SetNamespace(s.NS); err == nil {
				err = n.SetIntID(s.Num)
			}
		case "numeric":
			n = ua.NewNumericNodeID(0, 0)
			if err = n.SetNamespace(s.NS); err == nil {
				err = n.SetIntID(s.Num)
			}
		case "string":
			n = ua.NewStringNodeID(0, "placeholder")
			if err = n.SetNamespace(s.NS); err == nil {
				err = n.SetStringID(string(s.bytes()))
			}
		case "guid":
			n = ua.NewGUIDNodeID(0, "00000000-0000-0000-0000-000000000000")
			if err = n.SetNamespace(s.NS); err == nil {
				err = n.SetStringID(guidText(s.bytes(), false))
			}
		case "opaque":
			n = ua.NewByteStringNodeID(0, []byte{1})
			if err = n.SetNamespace(s.NS); err == nil {
				err = n.SetStringID(base64.StdEncoding.EncodeToString(s.bytes()))
			}
		}
		if err != nil {
			return nil, fmt.Errorf("setters: %v", err)
		}
		return n, nil
	case "expanded":
		// the NodeID inside an ExpandedNodeID with URI and server index: same
		// namespace index and identifier, flag bits set in the encoding mask
		return ua.NewExpandedNodeID(ctor(s), "urn:c04:some-uri", 3).NodeID, nil
	default: // fromexpanded
		return ua.NewNodeIDFromExpandedNodeID(ua.NewExpandedNodeID(ctor(s), "urn:c04:some-uri", 3)), nil
	}
}

// classOfType maps the id type reported by the code under test to a class.
func classOfType(t ua.NodeIDType) string {
	switch t {
	case ua.NodeIDTypeTwoByte, ua.NodeIDTypeFourByte, ua.NodeIDTypeNumeric:
		return classNumeric
	case ua.NodeIDTypeString:
		return classString
	case ua.NodeIDTypeGUID:
		return classGUID
	case ua.NodeIDTypeByteString:
		return classOpaque
	}
	return fmt.Sprintf("unknown(%d)", t)
}

// denotes compares a NodeID produced by the code under test with a spec,
// through the public accessors only. Returns "" when it is the same node.
func denotes(n *ua.NodeID, want Spec) string {
	if n == nil {
		return "nil NodeID"
	}
	if n.Namespace() != want.NS {
		return fmt.Sprintf("namespace %d, want %d", n.Namespace(), want.NS)
	}
	if c := classOfType(n.Type()); c != want.class() {
		return fmt.Sprintf("identifier kind %s, want %s", c, want.class())
	}
	switch want.class() {
	case classNumeric:
		if n.IntID() != want.Num {
			return fmt.Sprintf("numeric identifier %d, want %d", n.IntID(), want.Num)
		}
	case classString:
		if n.StringID() != string(want.bytes()) {
			return fmt.Sprintf("string identifier %q, want %q", n.StringID(), string(want.bytes()))
		}
	case classGUID:
		got, err := hex.DecodeString(strings.ReplaceAll(n.StringID(), "-", ""))
		if err != nil || !bytes.Equal(got, want.bytes()) {
			return fmt.Sprintf("guid identifier %q, want %s", n.StringID(), guidText(want.bytes(), true))
		}
	case classOpaque:
		got, err := base64.StdEncoding.DecodeString(n.StringID())
		if err != nil || !bytes.Equal(got, want.bytes()) {
			return fmt.Sprintf("opaque identifier %q, want base64 of % x", n.StringID(), want.bytes())
		}
	}
	return ""
}
