package c04

import (
	"bytes"
	"encoding/base64"
	"encoding/hex"
	"strconv"
	"strings"
	"unicode/utf8"

	"pgregory.net/rapid"
)

// ---------------------------------------------------------------------------
// namespaces and numbers

var nsBoundaries = []uint16{0, 1, 255, 256, 65535}

func genNS(t *rapid.T) uint16 {
	switch k := rapid.IntRange(0, 9).Draw(t, "nsKind"); {
	case k < 3:
		return 0
	case k < 8:
		return rapid.SampledFrom(nsBoundaries).Draw(t, "nsBoundary")
	default:
		return rapid.Uint16().Draw(t, "nsAny")
	}
}

// every value at which the set of encodings able to hold the number changes,
// and its neighbours
var numBoundaries = []uint32{0, 1, 254, 255, 256, 257, 65534, 65535, 65536, 65537, 1<<31 - 1, 1 << 31, 1<<32 - 2, 1<<32 - 1}

func genNum(t *rapid.T) uint32 {
	switch k := rapid.IntRange(0, 9).Draw(t, "numKind"); {
	case k < 5:
		return rapid.SampledFrom(numBoundaries).Draw(t, "numBoundary")
	case k < 7:
		return uint32(rapid.IntRange(0, 300).Draw(t, "numSmall"))
	default:
		return rapid.Uint32().Draw(t, "numAny")
	}
}

// numericEncodings lists the encodings able to hold (ns, num).
func numericEncodings(ns uint16, num uint32) []string {
	encs := []string{"numeric"}
	if ns <= 0xff && num <= 0xffff {
		encs = append(encs, "fourbyte")
	}
	if ns == 0 && num <= 0xff {
		encs = append(encs, "twobyte")
	}
	return encs
}

// ---------------------------------------------------------------------------
// hostile string identifiers

var fragments = []string{
	";", ";", "=", ",", "ns=", "nsu=", "i=", "s=", "g=", "b=", "svr=",
	"ns=0;", "ns=1;", "ns=65535;", "i=1", "i=85", "s=a", "b=YQ==", "nsu=urn:x;", "svr=1;",
	" ", "\x00", "é", "日本", "%3B", "a", "b", "Z", "0", "1", "-", ":", "/", "+",
}

var lookalikes = []string{
	"i=1", "ns=1;i=1", "ns=0;i=1", "ns=1;s=a", "s=a", "s=a;b", "a;b", ";", "ns=2;s=a;b", "ns=1", "ns=",
	"g=72962B91-FA75-4AE6-8D28-B404DC7DAF63", "ns=3;g=72962b91-fa75-4ae6-8d28-b404dc7daf63",
	"b=YWJj", "ns=4;b=YWJj", "nsu=urn:x;i=1", "nsu=urn:x;s=a", "svr=1;nsu=urn:x;i=1", "svr=1;i=2",
	"ns=1;", "s=", "i=", "=", "ns=abc;i=1", "ns=65536;i=1", "i=4294967296",
}

func genStringID(t *rapid.T) []byte {
	switch k := rapid.IntRange(0, 11).Draw(t, "strKind"); {
	case k == 0:
		return []byte{}
	case k < 6:
		n := rapid.IntRange(1, 5).Draw(t, "nfrag")
		var sb strings.Builder
		for i := 0; i < n; i++ {
			sb.WriteString(rapid.SampledFrom(fragments).Draw(t, "frag"))
		}
		return []byte(sb.String())
	case k < 8:
		return []byte(rapid.SampledFrom(lookalikes).Draw(t, "lookalike"))
	case k < 10:
		return []byte(rapid.StringMatching(`[A-Za-z0-9_.]{1,12}`).Draw(t, "plain"))
	case k == 10:
		return []byte(rapid.String().Draw(t, "unicode"))
	default:
		return rapid.SliceOfN(rapid.Byte(), 1, 8).Draw(t, "rawBytes")
	}
}

// opaque identifiers; the fixed ones have '+', '/' and '=' in their base64
var opaqueFixed = [][]byte{
	{0xfb, 0xef, 0xbe}, {0xff, 0xff, 0xff}, {0xfb, 0xff}, {0xff}, {0x3e, 0x3f}, {0x00}, {0x00, 0x00},
	[]byte("a"), []byte("abc"), []byte("a;b"), []byte("i=1"),
}

func genOpaque(t *rapid.T) (b []byte, isNil bool) {
	switch k := rapid.IntRange(0, 9).Draw(t, "opqKind"); {
	case k == 0:
		return []byte{}, true
	case k == 1:
		return []byte{}, false
	case k < 5:
		return append([]byte{}, rapid.SampledFrom(opaqueFixed).Draw(t, "opqFixed")...), false
	default:
		return rapid.SliceOfN(rapid.Byte(), 1, 12).Draw(t, "opqBytes"), false
	}
}

func genGUID(t *rapid.T) []byte {
	if rapid.IntRange(0, 5).Draw(t, "guidKind") == 0 {
		return rapid.SampledFrom([][]byte{
			make([]byte, 16),
			bytes.Repeat([]byte{0xff}, 16),
			{0x72, 0x96, 0x2b, 0x91, 0xfa, 0x75, 0x4a, 0xe6, 0x8d, 0x28, 0xb4, 0x04, 0xdc, 0x7d, 0xaf, 0x63},
			{0, 0, 0, 1, 0, 2, 0, 3, 0, 4, 0, 0, 0, 0, 0, 5},
		}).Draw(t, "guidFixed")
	}
	return rapid.SliceOfN(rapid.Byte(), 16, 16).Draw(t, "guidBytes")
}

// ---------------------------------------------------------------------------
// identities and specs

func setBytes(s *Spec, b []byte) {
	s.Hex = hex.EncodeToString(b)
	s.Text = ""
	if s.Enc == "string" {
		s.Text = strconv.Quote(string(b))
	}
}

// genIdentity draws namespace + identifier; Enc is the class representative
// (numeric for numbers) and Via is left empty: both are chosen by dress().
func genIdentity(t *rapid.T) Spec {
	s := Spec{NS: genNS(t)}
	switch k := rapid.IntRange(0, 9).Draw(t, "class"); {
	case k < 3:
		s.Enc = "numeric"
		s.Num = genNum(t)
	case k < 7:
		s.Enc = "string"
		setBytes(&s, genStringID(t))
		if len(s.Hex) == 0 {
			s.Nil = rapid.Bool().Draw(t, "nullString")
		}
	case k < 8:
		s.Enc = "guid"
		setBytes(&s, genGUID(t))
	default:
		s.Enc = "opaque"
		b, isNil := genOpaque(t)
		setBytes(&s, b)
		s.Nil = isNil
	}
	return s
}

// dress chooses how the identity is encoded and constructed.
func dress(t *rapid.T, id Spec, label string) Spec {
	s := id
	if s.class() == classNumeric {
		encs := numericEncodings(s.NS, s.Num)
		s.Enc = encs[rapid.IntRange(0, len(encs)-1).Draw(t, label+"Enc")]
	}
	switch k := rapid.IntRange(0, 19).Draw(t, label+"Via"); {
	case k < 7:
		s.Via = "ctor"
	case k < 14:
		s.Via = "decode"
	case k < 16:
		s.Via = "setters"
	case k < 18:
		s.Via = "expanded"
	default:
		s.Via = "fromexpanded"
	}
	if len(s.Hex) != 0 {
		s.Nil = false
	}
	return s
}

// mutate derives a near miss of an identity: it differs in exactly one of
// namespace / identifier class / identifier, or is a string id that spells the
// text form of the base.
func mutate(t *rapid.T, base Spec) (Spec, string) {
	s := base
	s.Nil = false
	switch rapid.IntRange(0, 3).Draw(t, "mutKind") {
	case 0: // other namespace, same identifier
		for _, ns := range []uint16{rapid.SampledFrom(nsBoundaries).Draw(t, "mutNS"), base.NS + 1, base.NS ^ 0x100} {
			if ns != base.NS {
				s.NS = ns
				break
			}
		}
		return s, "ns"
	case 1: // other class, "same" payload
		switch base.class() {
		case classNumeric:
			s.Enc, s.Num = "string", 0
			dec := strconv.FormatUint(uint64(base.Num), 10)
			setBytes(&s, []byte(rapid.SampledFrom([]string{dec, "i=" + dec}).Draw(t, "numAsString")))
		case classString:
			s.Enc = "opaque"
			setBytes(&s, base.bytes())
		case classOpaque:
			s.Enc = "string"
			if rapid.Bool().Draw(t, "opaqueAsB64") {
				setBytes(&s, []byte(base64.StdEncoding.EncodeToString(base.bytes())))
			} else {
				setBytes(&s, base.bytes())
			}
		case classGUID:
			if rapid.Bool().Draw(t, "guidAsOpaque") {
				s.Enc = "opaque"
				setBytes(&s, base.bytes())
			} else {
				s.Enc = "string"
				setBytes(&s, []byte(guidText(base.bytes(), rapid.Bool().Draw(t, "guidUpper"))))
			}
		}
		return s, "class"
	case 2: // neighbouring identifier
		switch base.class() {
		case classNumeric:
			d := rapid.SampledFrom([]uint32{1, 0xffffffff, 0x100, 0x10000, 0x80000000}).Draw(t, "numDelta")
			if rapid.Bool().Draw(t, "numXor") {
				s.Num = base.Num ^ d
			} else {
				s.Num = base.Num + d
			}
			if s.Num == base.Num {
				s.Num++
			}
		case classGUID:
			b := base.bytes()
			i := rapid.IntRange(0, 15).Draw(t, "guidByte")
			b[i] ^= byte(rapid.IntRange(1, 255).Draw(t, "guidFlip"))
			setBytes(&s, b)
		default:
			b := base.bytes()
			switch k := rapid.IntRange(0, 4).Draw(t, "bytesMut"); {
			case k == 0 && len(b) > 0:
				b = b[:len(b)-1]
			case k == 1 && len(b) > 0:
				i := rapid.IntRange(0, len(b)-1).Draw(t, "flipAt")
				b[i] ^= 0x20
			case k == 2:
				b = append([]byte(rapid.SampledFrom([]string{"s=", "ns=0;", " ", ";", "\x00"}).Draw(t, "prepend")), b...)
			default:
				b = append(b, []byte(rapid.SampledFrom([]string{";", "=", " ", "\x00", "a"}).Draw(t, "append"))...)
			}
			setBytes(&s, b)
		}
		return s, "ident"
	default: // string id that spells the base's text form
		s.Enc, s.Num = "string", 0
		txt := refText(base)
		if rapid.Bool().Draw(t, "textInNS0") {
			s.NS = 0
		}
		if base.NS == 0 && rapid.Bool().Draw(t, "explicitNS0") {
			txt = "ns=0;" + txt
		}
		setBytes(&s, []byte(txt))
		return s, "text-of"
	}
}

// ---------------------------------------------------------------------------
// class labels (evidence)

func hostileString(b []byte) (labels []string, hostile bool) {
	s := string(b)
	if len(b) == 0 {
		labels = append(labels, "str:empty")
	}
	if strings.Contains(s, ";") {
		labels = append(labels, "str:has-semicolon")
		hostile = true
	}
	if strings.Contains(s, "=") {
		labels = append(labels, "str:has-equals")
		hostile = true
	}
	for _, p := range []string{"ns=", "nsu=", "svr=", "i=", "s=", "g=", "b="} {
		if strings.HasPrefix(s, p) {
			labels = append(labels, "str:starts-with-prefix-lookalike")
			hostile = true
			break
		}
	}
	if strings.Contains(s, "\x00") {
		labels = append(labels, "str:has-NUL")
	}
	if strings.Contains(s, " ") {
		labels = append(labels, "str:has-space")
	}
	if !utf8.Valid(b) {
		labels = append(labels, "str:invalid-utf8")
	} else if len(b) != utf8.RuneCount(b) {
		labels = append(labels, "str:multibyte")
	}
	return
}

// specLabels describes one generated id; interesting = the identifier has a
// shape the fixed-list tests lack.
func specLabels(s Spec) (labels []string, interesting bool) {
	labels = append(labels, "enc:"+s.Enc, "via:"+s.Via)
	switch {
	case s.NS == 0:
		labels = append(labels, "ns:0")
	case s.NS < 256:
		labels = append(labels, "ns:1-255")
	default:
		labels = append(labels, "ns:256-65535")
	}
	switch s.class() {
	case classString:
		l, h := hostileString(s.bytes())
		labels = append(labels, l...)
		interesting = h
		if s.NS == 0 && strings.Contains(string(s.bytes()), ";") {
			labels = append(labels, "str:ns0-with-semicolon")
		}
	case classOpaque:
		b := s.bytes()
		switch {
		case len(b) == 0 && s.Nil:
			labels = append(labels, "opaque:nil")
		case len(b) == 0:
			labels = append(labels, "opaque:empty")
		}
		if strings.ContainsAny(base64.StdEncoding.EncodeToString(b), "+/=") {
			labels = append(labels, "opaque:base64-has-+/=")
			interesting = true
		}
	case classNumeric:
		for _, v := range numBoundaries {
			if s.Num == v {
				labels = append(labels, "num:at-encoding-boundary")
				break
			}
		}
	}
	return
}

// pairLabel says how two specs relate.
func pairLabel(a, b Spec) string {
	if sameIdentity(a, b) {
		if a.Enc != b.Enc {
			return "pair:same-identity-other-numeric-encoding"
		}
		if a.Via != b.Via {
			return "pair:same-identity-other-construction"
		}
		return "pair:same-identity-same-construction"
	}
	payload := func(s Spec) string {
		if s.class() == classNumeric {
			return strconv.FormatUint(uint64(s.Num), 10)
		}
		return string(s.bytes())
	}
	nsD, clD, idD := a.NS != b.NS, a.class() != b.class(), payload(a) != payload(b)
	switch {
	case nsD && !clD && !idD:
		return "pair:differ-in-namespace-only"
	case !nsD && clD && !idD:
		return "pair:differ-in-identifier-kind-only"
	case !nsD && !clD && idD:
		return "pair:differ-in-identifier-only"
	default:
		return "pair:differ-in-several"
	}
}
