// Package c15 decides property C15: asymmetric crypto is correct for all
// plaintext lengths and enforces the key size limits of the policy.
//
// Oracles (all independent of uapolicy's own logic):
//   - key size limits: a table written from the MinAsymmetricKeyLength /
//     MaxAsymmetricKeyLength lines of the Part 7 profiles (quoted in the comments
//     of /repo/uapolicy/policy*.go): construction fails iff a supplied key is
//     outside [min,max]; a key that is not supplied (nil) never makes it fail;
//   - inverse: B.Decrypt(A.Encrypt(p)) == p with A=(kA private, kB public),
//     B=(kB private, kA public);
//   - Go standard library as the second implementation: every cipher block of A
//     decrypts with rsa.DecryptPKCS1v15 / rsa.DecryptOAEP(SHA-1|SHA-256), A's
//     signature verifies with rsa.VerifyPKCS1v15(SHA-1|SHA-256) / rsa.VerifyPSS
//     (SHA-256, salt 32), and ciphertexts / signatures produced with the standard
//     library (blocks filled up to the limit of the padding scheme) are accepted
//     by gopcua;
//   - length arithmetic the chunking code in uasc relies on:
//     len(ciphertext) = ceil(len(p)/PlaintextBlockSize)*BlockSize, BlockSize =
//     remote key bytes, signature length = local key bytes;
//   - tampering: changed message, one signature bit flipped, truncated
//     signature, signature made with another key, A's own signature presented to A
//     -> all rejected.
//
// Randomness inside gopcua (padding, salts) never enters an oracle.
package c15

import (
	"bytes"
	"crypto"
	"crypto/rsa"
	"crypto/sha1"
	"crypto/sha256"
	"encoding/binary"
	"encoding/json"
	"fmt"
	"hash"
	"io"
	"testing"

	"github.com/gopcua/opcua/uapolicy"
	"pgregory.net/rapid"

	"verif/pkg/ev"
	"verif/pkg/keys"
)

func TestMain(m *testing.M) { ev.Main(m) }

// ---------------------------------------------------------------------------
// Reference table (OPC UA Part 7 security policy profiles)

const uriPrefix = "http://opcfoundation.org/UA/SecurityPolicy#"

type polT struct {
	Frag    string
	MinBits int    // MinAsymmetricKeyLength
	MaxBits int    // MaxAsymmetricKeyLength
	Enc     string // AsymmetricEncryptionAlgorithm: "pkcs1v15" | "oaep-sha1" | "oaep-sha256"
	Sig     string // AsymmetricSignatureAlgorithm: "pkcs1v15-sha1" | "pkcs1v15-sha256" | "pss-sha256"
}

var table = []polT{
	{"Basic128Rsa15", 1024, 2048, "pkcs1v15", "pkcs1v15-sha1"},            // Rsa15, RsaSha1
	{"Basic256", 1024, 2048, "oaep-sha1", "pkcs1v15-sha1"},                // RsaOaep, RsaSha1
	{"Basic256Sha256", 2048, 4096, "oaep-sha1", "pkcs1v15-sha256"},        // RSA-OAEP-SHA1, RSA-PKCS15-SHA2-256
	{"Aes128_Sha256_RsaOaep", 2048, 4096, "oaep-sha1", "pkcs1v15-sha256"}, // RSA-OAEP-SHA1, RSA-PKCS15-SHA2-256
	{"Aes256_Sha256_RsaPss", 2048, 4096, "oaep-sha256", "pss-sha256"},     // RSA-OAEP-SHA2-256, RSA-PSS-SHA2-256
}

func polByFrag(f string) *polT {
	for i := range table {
		if table[i].Frag == f {
			return &table[i]
		}
	}
	return nil
}

func (p *polT) inRange(bits int) bool { return bits >= p.MinBits && bits <= p.MaxBits }

func (p *polT) where(bits int) string {
	switch {
	case bits < p.MinBits:
		return "below"
	case bits > p.MaxBits:
		return "above"
	}
	return "in"
}

func (p *polT) inRangeSizes() []int {
	var out []int
	for _, b := range keys.Sizes {
		if p.inRange(b) {
			out = append(out, b)
		}
	}
	return out
}

// overhead of the padding scheme per RSA block (RFC 8017: 11 for
// RSAES-PKCS1-v1_5, 2*hLen+2 for RSAES-OAEP).
func (p *polT) padOverhead() int {
	switch p.Enc {
	case "pkcs1v15":
		return 11
	case "oaep-sha1":
		return 2*20 + 2
	default:
		return 2*32 + 2
	}
}

func (p *polT) oaepHash() hash.Hash {
	if p.Enc == "oaep-sha256" {
		return sha256.New()
	}
	return sha1.New()
}

func (p *polT) sigHash() crypto.Hash {
	if p.Sig == "pkcs1v15-sha1" {
		return crypto.SHA1
	}
	return crypto.SHA256
}

func digest(h crypto.Hash, m []byte) []byte {
	x := h.New()
	x.Write(m)
	return x.Sum(nil)
}

// detReader is a deterministic byte stream (SHA-256 in counter mode) used as the
// padding / salt source of the standard-library calls of the harness, so that a
// case is a function of its rapid draws only. (crypto/rsa may still consume one
// byte more or less by design; no verdict depends on the padding bytes.)
type detReader struct {
	seed, ctr uint64
	buf       []byte
}

func (r *detReader) Read(p []byte) (int, error) {
	for len(r.buf) < len(p) {
		var in [16]byte
		binary.LittleEndian.PutUint64(in[:8], r.seed)
		binary.LittleEndian.PutUint64(in[8:], r.ctr)
		r.ctr++
		s := sha256.Sum256(in[:])
		r.buf = append(r.buf, s[:]...)
	}
	n := copy(p, r.buf)
	r.buf = r.buf[n:]
	return n, nil
}

// stdlib primitives named by the policy
func (p *polT) stdDecryptBlock(k *rsa.PrivateKey, blk []byte) ([]byte, error) {
	if p.Enc == "pkcs1v15" {
		return rsa.DecryptPKCS1v15(nil, k, blk)
	}
	return rsa.DecryptOAEP(p.oaepHash(), nil, k, blk, nil)
}

func (p *polT) stdEncryptBlock(rnd io.Reader, k *rsa.PublicKey, m []byte) ([]byte, error) {
	if p.Enc == "pkcs1v15" {
		return rsa.EncryptPKCS1v15(rnd, k, m)
	}
	return rsa.EncryptOAEP(p.oaepHash(), rnd, k, m, nil)
}

func (p *polT) stdSign(rnd io.Reader, k *rsa.PrivateKey, m []byte) ([]byte, error) {
	h := p.sigHash()
	if p.Sig == "pss-sha256" {
		return rsa.SignPSS(rnd, k, h, digest(h, m), &rsa.PSSOptions{SaltLength: 32, Hash: h})
	}
	return rsa.SignPKCS1v15(nil, k, h, digest(h, m))
}

func (p *polT) stdVerify(k *rsa.PublicKey, m, sig []byte) error {
	h := p.sigHash()
	if p.Sig == "pss-sha256" {
		return rsa.VerifyPSS(k, h, digest(h, m), sig, &rsa.PSSOptions{SaltLength: 32, Hash: h})
	}
	return rsa.VerifyPKCS1v15(k, h, digest(h, m), sig)
}

// expand produces n deterministic bytes from a seed (SHA-256 in counter mode).
func expand(seed uint64, n int) []byte {
	out := make([]byte, 0, n+32)
	var ctr [16]byte
	binary.LittleEndian.PutUint64(ctr[:8], seed)
	for i := uint64(0); len(out) < n; i++ {
		binary.LittleEndian.PutUint64(ctr[8:], i)
		s := sha256.Sum256(ctr[:])
		out = append(out, s[:]...)
	}
	return out[:n]
}

// ---------------------------------------------------------------------------
// Case

type keyRef struct {
	Who  string `json:"who"`  // "a" | "b" | "" (key not supplied)
	Bits int    `json:"bits"` // 0 = key not supplied
}

func (k keyRef) pair() *keys.Pair {
	if k.Bits == 0 {
		return nil
	}
	return keys.Get(k.Who, k.Bits)
}

type caseT struct {
	Policy string `json:"policy"`
	Local  keyRef `json:"local_key"`  // kA
	Remote keyRef `json:"remote_key"` // kB
	// plaintext: length = f(LenClass, block); block = PlaintextBlockSize reported by
	// gopcua (LenBase "reported") or the limit of the padding scheme (LenBase "scheme")
	LenClass string `json:"len_class"`
	LenBase  string `json:"len_base"`
	RandLen  int    `json:"rand_len"` // per-mille of the maximum for LenClass "random"
	Fill     uint64 `json:"fill"`     // seed of the plaintext / message bytes
	MsgLen   int    `json:"msg_len"`
	MsgBit   int    `json:"msg_bit"`   // message tamper position (mod length)
	SigBit   int    `json:"sig_bit"`   // signature tamper position (mod length)
	TruncTo  int    `json:"trunc_to"`  // per-mille of the signature length kept
	Other    keyRef `json:"other_key"` // kC != kA, signs the forged signature
	// resolved by check (informational in replay files)
	PlainLen int `json:"plain_len,omitempty"`
}

var lenClasses = []string{"0", "1", "block-1", "block", "block+1", "2*block", "3*block+7", "random"}

func resolveLen(class string, block, randPermille int) int {
	switch class {
	case "0":
		return 0
	case "1":
		return 1
	case "block-1":
		return block - 1
	case "block":
		return block
	case "block+1":
		return block + 1
	case "2*block":
		return 2 * block
	case "3*block+7":
		return 3*block + 7
	default:
		return randPermille * ev.Pick(4, 8) * block / 1000
	}
}

func genKey(t *rapid.T, sizes []int, label string) keyRef {
	return keyRef{Who: rapid.SampledFrom([]string{"a", "b"}).Draw(t, label+"Who"), Bits: rapid.SampledFrom(sizes).Draw(t, label+"Bits")}
}

func genCase(t *rapid.T) caseT {
	var c caseT
	p := &table[rapid.IntRange(0, len(table)-1).Draw(t, "policy")]
	c.Policy = p.Frag
	if rapid.IntRange(0, 9).Draw(t, "anySize") < 2 {
		// any sizes, mostly outside the range of the policy: construction check only
		c.Local = genKey(t, keys.Sizes, "local")
		c.Remote = genKey(t, keys.Sizes, "remote")
	} else {
		c.Local = genKey(t, p.inRangeSizes(), "local")
		c.Remote = genKey(t, p.inRangeSizes(), "remote")
	}
	if c.Local == c.Remote { // two different parties
		if c.Remote.Who == "a" {
			c.Remote.Who = "b"
		} else {
			c.Remote.Who = "a"
		}
	}
	c.LenClass = rapid.SampledFrom(lenClasses).Draw(t, "lenClass")
	c.LenBase = rapid.SampledFrom([]string{"reported", "scheme"}).Draw(t, "lenBase")
	c.RandLen = rapid.IntRange(0, 1000).Draw(t, "randLen")
	c.Fill = rapid.Uint64().Draw(t, "fill")
	c.MsgLen = rapid.IntRange(0, 300).Draw(t, "msgLen")
	c.MsgBit = rapid.IntRange(0, 1<<16).Draw(t, "msgBit")
	c.SigBit = rapid.IntRange(0, 1<<16).Draw(t, "sigBit")
	c.TruncTo = rapid.IntRange(0, 999).Draw(t, "truncTo")
	c.Other = genKey(t, p.inRangeSizes(), "other")
	if rapid.Bool().Draw(t, "otherSameSize") {
		c.Other.Bits = c.Local.Bits // a forged signature of the right length
	}
	if !p.inRange(c.Other.Bits) {
		c.Other.Bits = p.MinBits
	}
	if c.Other == c.Local {
		if c.Other.Who == "a" {
			c.Other.Who = "b"
		} else {
			c.Other.Who = "a"
		}
	}
	return c
}

func privOf(k keyRef) *rsa.PrivateKey {
	if p := k.pair(); p != nil {
		return p.Key
	}
	return nil
}

func pubOf(k keyRef) *rsa.PublicKey {
	if p := k.pair(); p != nil {
		return &p.Key.PublicKey
	}
	return nil
}

// construct calls uapolicy.Asymmetric and judges the key size rule.
func construct(p *polT, local, remote keyRef) (alg *uapolicy.EncryptionAlgorithm, wantOK bool, msg string) {
	wantOK = (local.Bits == 0 || p.inRange(local.Bits)) && (remote.Bits == 0 || p.inRange(remote.Bits))
	alg, err := uapolicy.Asymmetric(uriPrefix+p.Frag, privOf(local), pubOf(remote))
	switch {
	case wantOK && err != nil:
		return nil, wantOK, fmt.Sprintf("Asymmetric(%s, local %d bit, remote %d bit) failed although both keys are within %d-%d bit: %v", p.Frag, local.Bits, remote.Bits, p.MinBits, p.MaxBits, err)
	case !wantOK && err == nil:
		return nil, wantOK, fmt.Sprintf("Asymmetric(%s, local %d bit, remote %d bit) succeeded although a key is outside %d-%d bit", p.Frag, local.Bits, remote.Bits, p.MinBits, p.MaxBits)
	case wantOK && alg == nil:
		return nil, wantOK, "Asymmetric returned neither an algorithm nor an error"
	}
	return alg, wantOK, ""
}

func flipBit(b []byte, pos int) []byte {
	out := append([]byte(nil), b...)
	pos %= 8 * len(out)
	out[pos/8] ^= 1 << (pos % 8)
	return out
}

// check runs one case; "" = property holds. c.PlainLen is filled in.
func check(c *caseT) (msg string, nontrivial bool, classes []string) {
	defer func() {
		if r := recover(); r != nil {
			msg = fmt.Sprintf("panic: %v", r)
		}
	}()
	p := polByFrag(c.Policy)
	if p == nil || c.Local.Bits == 0 || c.Remote.Bits == 0 || c.Local == c.Remote || c.Other == c.Local || !p.inRange(c.Other.Bits) {
		return "bad case: outside the input domain", false, nil
	}
	kA, kB, kC := c.Local.pair(), c.Remote.pair(), c.Other.pair()
	rnd := &detReader{seed: c.Fill ^ 0x5eed}
	classes = []string{"policy=" + p.Frag}

	A, wantOK, m := construct(p, c.Local, c.Remote)
	if m != "" {
		return m, false, classes
	}
	if !wantOK {
		classes = append(classes, "construction-rejected", p.Frag+"/rejected", fmt.Sprintf("rejected/local=%s/remote=%s", p.where(c.Local.Bits), p.where(c.Remote.Bits)))
		return "", false, classes
	}
	B, _, m := construct(p, c.Remote, c.Local)
	if m != "" {
		return m, false, classes
	}

	kAbytes, kBbytes := kA.Key.PublicKey.Size(), kB.Key.PublicKey.Size()
	if A.BlockSize() != kBbytes {
		return fmt.Sprintf("A.BlockSize() = %d, remote key has %d bytes", A.BlockSize(), kBbytes), false, classes
	}
	pbs := A.PlaintextBlockSize()
	schemeMax := kBbytes - p.padOverhead()
	if pbs < 1 || pbs > schemeMax {
		return fmt.Sprintf("A.PlaintextBlockSize() = %d, the %s padding allows 1..%d bytes per %d byte block", pbs, p.Enc, schemeMax, kBbytes), false, classes
	}
	block := pbs
	if c.LenBase == "scheme" {
		block = schemeMax
	}
	c.PlainLen = resolveLen(c.LenClass, block, c.RandLen)
	plain := expand(c.Fill, c.PlainLen)
	nblocks := (c.PlainLen + pbs - 1) / pbs
	nontrivial = c.PlainLen > 0
	bclass := "multi-block"
	if nblocks <= 1 {
		bclass = fmt.Sprintf("%d-block", nblocks)
	}
	classes = append(classes,
		"len="+c.LenClass, "lenBase="+c.LenBase, bclass,
		fmt.Sprintf("local=%d", c.Local.Bits), fmt.Sprintf("remote=%d", c.Remote.Bits),
		fmt.Sprintf("%s/local=%d/remote=%d", p.Frag, c.Local.Bits, c.Remote.Bits),
		fmt.Sprintf("%s/len=%s", p.Frag, c.LenClass),
		fmt.Sprintf("remote=%d/len=%s", c.Remote.Bits, c.LenClass),
	)

	// ---- encryption
	in := append([]byte(nil), plain...)
	ct, err := A.Encrypt(in)
	if err != nil {
		return fmt.Sprintf("A.Encrypt(%d bytes) failed: %v", c.PlainLen, err), nontrivial, classes
	}
	if !bytes.Equal(in, plain) {
		return "A.Encrypt modified its input", nontrivial, classes
	}
	if want := nblocks * A.BlockSize(); len(ct) != want {
		return fmt.Sprintf("len(A.Encrypt(%d bytes)) = %d, want ceil(%d/%d)*%d = %d", c.PlainLen, len(ct), c.PlainLen, pbs, A.BlockSize(), want), nontrivial, classes
	}
	got, err := B.Decrypt(append([]byte(nil), ct...))
	if err != nil {
		return fmt.Sprintf("B.Decrypt(A.Encrypt(%d bytes)) failed: %v", c.PlainLen, err), nontrivial, classes
	}
	if !bytes.Equal(got, plain) {
		return fmt.Sprintf("B.Decrypt(A.Encrypt(p)) != p for len(p) = %d (got %d bytes)", c.PlainLen, len(got)), nontrivial, classes
	}
	// each block with the standard library primitive the policy names
	var std []byte
	for i := 0; i < len(ct); i += kBbytes {
		blk, err := p.stdDecryptBlock(kB.Key, ct[i:i+kBbytes])
		if err != nil {
			return fmt.Sprintf("cipher block %d of A.Encrypt does not decrypt with the standard library's %s: %v", i/kBbytes, p.Enc, err), nontrivial, classes
		}
		std = append(std, blk...)
	}
	if !bytes.Equal(std, plain) {
		return fmt.Sprintf("the blocks of A.Encrypt decrypted with the standard library's %s do not give the plaintext", p.Enc), nontrivial, classes
	}
	// ciphertext of a conforming peer: blocks filled up to the limit of the padding scheme
	var pct []byte
	for i := 0; i < len(plain); i += schemeMax {
		j := i + schemeMax
		if j > len(plain) {
			j = len(plain)
		}
		blk, err := p.stdEncryptBlock(rnd, &kB.Key.PublicKey, plain[i:j])
		if err != nil {
			return "harness: standard library encryption failed: " + err.Error(), nontrivial, classes
		}
		pct = append(pct, blk...)
	}
	got, err = B.Decrypt(append([]byte(nil), pct...))
	if err != nil {
		return fmt.Sprintf("B.Decrypt rejects a %s ciphertext of %d bytes made with the standard library: %v", p.Enc, c.PlainLen, err), nontrivial, classes
	}
	if !bytes.Equal(got, plain) {
		return fmt.Sprintf("B.Decrypt(standard library %s ciphertext) != plaintext (len %d)", p.Enc, c.PlainLen), nontrivial, classes
	}

	// ---- signatures
	message := expand(c.Fill+1, c.MsgLen)
	min := append([]byte(nil), message...)
	sig, err := A.Signature(min)
	if err != nil {
		return fmt.Sprintf("A.Signature failed: %v", err), nontrivial, classes
	}
	if !bytes.Equal(min, message) {
		return "A.Signature modified its input", nontrivial, classes
	}
	if len(sig) != kAbytes || A.SignatureLength() != kAbytes {
		return fmt.Sprintf("len(A.Signature) = %d, A.SignatureLength() = %d, local key has %d bytes", len(sig), A.SignatureLength(), kAbytes), nontrivial, classes
	}
	if err := p.stdVerify(&kA.Key.PublicKey, message, sig); err != nil {
		return fmt.Sprintf("A.Signature does not verify with the standard library's %s: %v", p.Sig, err), nontrivial, classes
	}
	if err := B.VerifySignature(append([]byte(nil), message...), append([]byte(nil), sig...)); err != nil {
		return fmt.Sprintf("B.VerifySignature rejects A's signature: %v", err), nontrivial, classes
	}
	ssig, err := p.stdSign(rnd, kA.Key, message)
	if err != nil {
		return "harness: standard library signing failed: " + err.Error(), nontrivial, classes
	}
	if err := B.VerifySignature(append([]byte(nil), message...), ssig); err != nil {
		return fmt.Sprintf("B.VerifySignature rejects a %s signature made with the standard library: %v", p.Sig, err), nontrivial, classes
	}
	// tampering
	var changed []byte
	if len(message) == 0 {
		changed = []byte{0}
	} else {
		changed = flipBit(message, c.MsgBit)
	}
	if err := B.VerifySignature(changed, append([]byte(nil), sig...)); err == nil {
		return "B.VerifySignature accepts the signature for a changed message", nontrivial, classes
	}
	if err := B.VerifySignature(append([]byte(nil), message...), flipBit(sig, c.SigBit)); err == nil {
		return fmt.Sprintf("B.VerifySignature accepts a signature with bit %d flipped", c.SigBit%(8*len(sig))), nontrivial, classes
	}
	keep := c.TruncTo * len(sig) / 1000
	if err := B.VerifySignature(append([]byte(nil), message...), append([]byte(nil), sig[:keep]...)); err == nil {
		return fmt.Sprintf("B.VerifySignature accepts a signature truncated to %d of %d bytes", keep, len(sig)), nontrivial, classes
	}
	if err := B.VerifySignature(append([]byte(nil), message...), append([]byte(nil), sig[:len(sig)-1]...)); err == nil {
		return "B.VerifySignature accepts a signature with the last byte cut off", nontrivial, classes
	}
	// a signature is exactly as long as the modulus: anything longer is not the signature
	// (added after seeded change C15-C, which cut over-long signatures to size)
	for _, extra := range [][]byte{{0}, {0xff}, {1, 2, 3, 4}, sig} {
		if err := B.VerifySignature(append([]byte(nil), message...), append(append([]byte(nil), extra...), sig...)); err == nil {
			return fmt.Sprintf("B.VerifySignature accepts the signature with %d foreign bytes in front of it", len(extra)), nontrivial, classes
		}
		if err := B.VerifySignature(append([]byte(nil), message...), append(append([]byte(nil), sig...), extra...)); err == nil {
			return fmt.Sprintf("B.VerifySignature accepts the signature with %d foreign bytes behind it", len(extra)), nontrivial, classes
		}
	}
	forged, err := p.stdSign(rnd, kC.Key, message)
	if err != nil {
		return "harness: standard library signing failed: " + err.Error(), nontrivial, classes
	}
	if err := B.VerifySignature(append([]byte(nil), message...), forged); err == nil {
		return fmt.Sprintf("B.VerifySignature accepts a signature made with another key (%s%d instead of %s%d)", c.Other.Who, c.Other.Bits, c.Local.Who, c.Local.Bits), nontrivial, classes
	}
	// A's own signature presented to A (A verifies with kB's public key)
	if err := A.VerifySignature(append([]byte(nil), message...), append([]byte(nil), sig...)); err == nil {
		return "A.VerifySignature accepts A's own signature (made with the local key, not the remote key)", nontrivial, classes
	}
	if c.Other.Bits == c.Local.Bits {
		classes = append(classes, "forged-signature-same-length")
	} else {
		classes = append(classes, "forged-signature-other-length")
	}
	return "", nontrivial, classes
}

var rec = ev.For("C15", "rapid-generated (policy of 5, local and remote RSA key from the fixtures a/b x 768..5120 bit: 80% both inside the policy's range, 20% any size; plaintext length class of {0,1,block-1,block,block+1,2*block,3*block+7,random up to 4 (thorough 8) blocks} relative to the reported PlaintextBlockSize or to the limit of the padding scheme; message 0-300 B; tamper positions; forging key); every in-range case runs all oracles (round trip, per-block standard-library decryption, standard-library ciphertext and signature accepted, 5 tamper variants rejected); non-trivial = keys in range and plaintext not empty; distinct by hash of the whole case | TestKeySizeLimits: exhaustive enumeration of 5 policies x (7 sizes + not supplied) x (7 sizes + not supplied)")

func TestAsymmetric(t *testing.T) {
	rec.Assume("reference: Go standard library crypto/rsa (PKCS1v15, OAEP, PSS) as second implementation; table policy -> (min/max key bits, encryption scheme, signature scheme) written in props/c15 from the Part 7 profile text")
	rec.Assume("RSA fixtures of verif/pkg/keys (modulus lengths exactly 768,1024,1536,2048,3072,4096,5120 bit); moduli whose bit length is not a multiple of 8 are not covered")
	rapid.Check(t, func(t *rapid.T) {
		c := genCase(t)
		msg, nt, classes := check(&c)
		b, _ := json.Marshal(c)
		rec.Case(nt, ev.Hash(b), classes...)
		if nt && rec.WantSample() {
			rec.Sample(c)
		}
		if msg != "" {
			rec.Fail(t, "TestAsymmetric", c, "%s", msg)
		}
	})
}

// limitCase is one point of the exhaustive key size enumeration.
type limitCase struct {
	Kind   string `json:"kind"` // "limits"
	Policy string `json:"policy"`
	Local  keyRef `json:"local_key"`
	Remote keyRef `json:"remote_key"`
}

func checkLimit(c limitCase) (msg string, classes []string) {
	defer func() {
		if r := recover(); r != nil {
			msg = fmt.Sprintf("panic: %v", r)
		}
	}()
	p := polByFrag(c.Policy)
	if p == nil {
		return "bad case: unknown policy", nil
	}
	_, wantOK, m := construct(p, c.Local, c.Remote)
	cl := "limits/accepted"
	if !wantOK {
		cl = "limits/rejected"
	}
	if c.Local.Bits == 0 || c.Remote.Bits == 0 {
		cl += "/one-key-not-supplied"
	}
	return m, []string{cl}
}

// TestKeySizeLimits enumerates every (policy, local size, remote size) of the
// fixtures, including "key not supplied", and checks construction fails iff a
// supplied key is outside the policy's range.
func TestKeySizeLimits(t *testing.T) {
	sizes := append([]int{0}, keys.Sizes...)
	for i := range table {
		for _, lb := range sizes {
			for _, rb := range sizes {
				c := limitCase{Kind: "limits", Policy: table[i].Frag, Local: keyRef{"a", lb}, Remote: keyRef{"b", rb}}
				if lb == 0 {
					c.Local.Who = ""
				}
				if rb == 0 {
					c.Remote.Who = ""
				}
				msg, classes := checkLimit(c)
				b, _ := json.Marshal(c)
				rec.Case(lb != 0 || rb != 0, ev.Hash(b), classes...)
				if msg != "" {
					rec.Fail(t, "TestKeySizeLimits", c, "%s", msg)
				}
			}
		}
	}
}

// TestReplay re-runs a saved case without rapid.
func TestReplay(t *testing.T) {
	rp, err := ev.LoadReplay()
	if err != nil {
		t.Fatal(err)
	}
	if rp == nil {
		t.Skip("no VERIF_REPLAY")
	}
	var probe struct {
		Kind string `json:"kind"`
	}
	_ = json.Unmarshal(rp.Case, &probe)
	if probe.Kind == "limits" {
		var c limitCase
		if err := json.Unmarshal(rp.Case, &c); err != nil {
			t.Fatal(err)
		}
		fmt.Println("REPLAYED structured")
		if msg, _ := checkLimit(c); msg != "" {
			t.Fatalf("property C15 violated: %s", msg)
		}
		return
	}
	var c caseT
	if err := json.Unmarshal(rp.Case, &c); err != nil {
		t.Fatal(err)
	}
	fmt.Println("REPLAYED structured")
	if msg, _, _ := check(&c); msg != "" {
		t.Fatalf("property C15 violated: %s", msg)
	}
}
