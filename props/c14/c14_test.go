// Package c14 decides property C14: the symmetric keys of every security policy
// follow the Part 6 §6.7.5 P_SHA derivation and the two directions of a channel
// are separated (a side never accepts what it produced itself).
//
// Oracle: an independent reference (this file) written from the specification:
// HMAC per RFC 2104 on top of crypto/sha1 and crypto/sha256, P_hash per
// RFC 5246 §5, CBC chaining written out over the bare AES block function, and a
// policy table written from the OPC UA Part 7 profiles. The reference never
// calls uapolicy or uasc.
//
// Input domain (what real callers can produce, see uasc/secure_channel.go):
//   - client: uapolicy.Symmetric(uri, localNonce=ClientNonce, remoteNonce=resp.ServerNonce)
//   - server: uapolicy.Symmetric(uri, localNonce=ServerNonce, remoteNonce=req.ClientNonce)
//
// The local nonce is always made by gopcua with the policy's nonce length; the
// remote nonce comes from the peer and is used without a length check, but a
// zero-length ByteString decodes to nil which Symmetric rejects, so it has >= 1
// byte. Hence: local nonce = policy length, remote nonce = any length >= 1.
// The mirrored instance B = Symmetric(uri, remote, local) is only built when the
// remote nonce has the policy length too (otherwise B would have a local nonce
// that no gopcua caller can produce; the peer is then played by the reference).
package c14

import (
	"bytes"
	"crypto/aes"
	"crypto/sha1"
	"crypto/sha256"
	"encoding/hex"
	"encoding/json"
	"fmt"
	"hash"
	"testing"

	"github.com/gopcua/opcua/uapolicy"
	"pgregory.net/rapid"

	"verif/pkg/ev"
)

func TestMain(m *testing.M) { ev.Main(m) }

// ---------------------------------------------------------------------------
// Reference (independent of gopcua)

const uriPrefix = "http://opcfoundation.org/UA/SecurityPolicy#"

// polT is one row of the policy table (OPC UA Part 7 security policy profiles).
type polT struct {
	Frag     string           // URI fragment
	newHash  func() hash.Hash // hash of the KeyDerivationAlgorithm and of the SymmetricSignatureAlgorithm
	hashName string
	SigKey   int // DerivedSignatureKeyLength / 8
	EncKey   int // key length of the SymmetricEncryptionAlgorithm
	IV       int // block size of the SymmetricEncryptionAlgorithm
	Nonce    int // SecureChannelNonceLength
}

var table = []polT{
	// Basic128Rsa15: HmacSha1, Aes128-CBC, P_SHA1, DerivedSignatureKeyLength 128
	{"Basic128Rsa15", sha1.New, "sha1", 16, 16, 16, 16},
	// Basic256: HmacSha1, Aes256-CBC, P_SHA1, DerivedSignatureKeyLength 192
	{"Basic256", sha1.New, "sha1", 24, 32, 16, 32},
	// Basic256Sha256: HMAC-SHA2-256, AES256-CBC, P_SHA2-256, DerivedSignatureKeyLength 256
	{"Basic256Sha256", sha256.New, "sha256", 32, 32, 16, 32},
	// Aes128_Sha256_RsaOaep: HMAC-SHA2-256, AES128-CBC, P_SHA2-256, DerivedSignatureKeyLength 256
	{"Aes128_Sha256_RsaOaep", sha256.New, "sha256", 32, 16, 16, 32},
	// Aes256_Sha256_RsaPss: HMAC-SHA2-256, AES256-CBC, P_SHA2-256, DerivedSignatureKeyLength 256
	{"Aes256_Sha256_RsaPss", sha256.New, "sha256", 32, 32, 16, 32},
}

func polByFrag(f string) *polT {
	for i := range table {
		if table[i].Frag == f {
			return &table[i]
		}
	}
	return nil
}

// refHMAC is HMAC per RFC 2104 written out (H(K^opad || H(K^ipad || text))).
func refHMAC(newHash func() hash.Hash, key, msg []byte) []byte {
	h := newHash()
	bs := h.BlockSize()
	k := make([]byte, bs)
	if len(key) > bs {
		h.Write(key)
		copy(k, h.Sum(nil))
		h.Reset()
	} else {
		copy(k, key)
	}
	ipad := make([]byte, bs)
	opad := make([]byte, bs)
	for i := 0; i < bs; i++ {
		ipad[i] = k[i] ^ 0x36
		opad[i] = k[i] ^ 0x5c
	}
	h.Write(ipad)
	h.Write(msg)
	inner := h.Sum(nil)
	h.Reset()
	h.Write(opad)
	h.Write(inner)
	return h.Sum(nil)
}

// refPHash is P_hash of RFC 5246 §5:
//
//	P_hash(secret, seed) = HMAC(secret, A(1)+seed) + HMAC(secret, A(2)+seed) + ...
//	A(0) = seed, A(i) = HMAC(secret, A(i-1))
func refPHash(newHash func() hash.Hash, secret, seed []byte, n int) []byte {
	var out []byte
	a := append([]byte(nil), seed...) // A(0)
	for len(out) < n {
		a = refHMAC(newHash, secret, a) // A(i)
		in := make([]byte, 0, len(a)+len(seed))
		in = append(in, a...)
		in = append(in, seed...)
		out = append(out, refHMAC(newHash, secret, in)...)
	}
	return out[:n]
}

type keySet struct{ Sign, Enc, IV []byte }

// refChannelKeys is Part 6 §6.7.5 table "Cryptography key generation parameters":
//
//	ClientSigningKey / ClientEncryptingKey / ClientInitializationVector:
//	    secret = ServerNonce, seed = ClientNonce, offsets 0, SigKey, SigKey+EncKey
//	ServerSigningKey / ServerEncryptingKey / ServerInitializationVector:
//	    secret = ClientNonce, seed = ServerNonce, same offsets
//
// The client keys secure what the client sends, the server keys what the server sends.
func refChannelKeys(p *polT, clientNonce, serverNonce []byte) (client, server keySet) {
	n := p.SigKey + p.EncKey + p.IV
	cut := func(b []byte) keySet {
		return keySet{Sign: b[:p.SigKey], Enc: b[p.SigKey : p.SigKey+p.EncKey], IV: b[p.SigKey+p.EncKey : n]}
	}
	client = cut(refPHash(p.newHash, serverNonce, clientNonce, n))
	server = cut(refPHash(p.newHash, clientNonce, serverNonce, n))
	return
}

// refCBCEncrypt / refCBCDecrypt: CBC chaining written out over the AES block function.
func refCBCEncrypt(key, iv, plain []byte) []byte {
	blk, err := aes.NewCipher(key)
	if err != nil {
		panic(err)
	}
	out := make([]byte, len(plain))
	prev := iv
	var x [16]byte
	for i := 0; i+16 <= len(plain); i += 16 {
		for j := 0; j < 16; j++ {
			x[j] = plain[i+j] ^ prev[j]
		}
		blk.Encrypt(out[i:i+16], x[:])
		prev = out[i : i+16]
	}
	return out
}

func refCBCDecrypt(key, iv, ct []byte) []byte {
	blk, err := aes.NewCipher(key)
	if err != nil {
		panic(err)
	}
	out := make([]byte, len(ct))
	prev := iv
	for i := 0; i+16 <= len(ct); i += 16 {
		blk.Decrypt(out[i:i+16], ct[i:i+16])
		for j := 0; j < 16; j++ {
			out[i+j] ^= prev[j]
		}
		prev = ct[i : i+16]
	}
	return out
}

// ---------------------------------------------------------------------------
// Case

type hexb []byte

func (h hexb) MarshalJSON() ([]byte, error) { return json.Marshal(hex.EncodeToString(h)) }
func (h *hexb) UnmarshalJSON(b []byte) error {
	var s string
	if err := json.Unmarshal(b, &s); err != nil {
		return err
	}
	d, err := hex.DecodeString(s)
	*h = d
	return err
}

type caseT struct {
	Policy  string `json:"policy"`  // URI fragment
	Role    string `json:"role"`    // role of A: "client" or "server"
	Content string `json:"content"` // how the nonce pair was built (informational)
	Local   hexb   `json:"local_nonce"`
	Remote  hexb   `json:"remote_nonce"`
	Msg     hexb   `json:"message"`
	Plain   hexb   `json:"plaintext"`  // block aligned, >= 1 block
	Plain2  hexb   `json:"plaintext2"` // second Encrypt call on the same instance
}

var oddLens = []int{1, 8, 15, 16, 17, 31, 32, 33, 64, 65, 128}

func genBytes(t *rapid.T, n int, label string) []byte {
	return rapid.SliceOfN(rapid.Byte(), n, n).Draw(t, label)
}

func genCase(t *rapid.T) caseT {
	var c caseT
	p := &table[rapid.IntRange(0, len(table)-1).Draw(t, "policy")]
	c.Policy = p.Frag
	c.Role = rapid.SampledFrom([]string{"client", "server"}).Draw(t, "role")
	c.Content = rapid.SampledFrom([]string{"random", "random", "zero", "onebit", "prefix", "prefix-zeros", "equal"}).Draw(t, "content")

	// remote length: policy length or another length a peer could send
	rl := p.Nonce
	if rapid.IntRange(0, 9).Draw(t, "oddLen") < 4 {
		rl = rapid.SampledFrom(oddLens).Draw(t, "remoteLen")
	}
	switch c.Content {
	case "random":
		c.Local = genBytes(t, p.Nonce, "local")
		c.Remote = genBytes(t, rl, "remote")
	case "zero":
		c.Local = make([]byte, p.Nonce)
		c.Remote = make([]byte, rl) // equal nonces when rl is the policy length
	case "onebit":
		c.Local = genBytes(t, p.Nonce, "local")
		c.Remote = append([]byte(nil), c.Local...)
		bit := rapid.IntRange(0, 8*p.Nonce-1).Draw(t, "bit")
		c.Remote[bit/8] ^= 1 << (bit % 8)
	case "prefix": // one nonce is a proper prefix of the other
		c.Local = genBytes(t, p.Nonce, "local")
		if rl == p.Nonce {
			rl = rapid.SampledFrom([]int{1, 8, p.Nonce - 1, p.Nonce + 1, 2 * p.Nonce}).Draw(t, "prefixLen")
		}
		if rl < p.Nonce {
			c.Remote = append([]byte(nil), c.Local[:rl]...)
		} else {
			c.Remote = append(append([]byte(nil), c.Local...), genBytes(t, rl-p.Nonce, "tail")...)
		}
	case "prefix-zeros": // the nonces are equivalent as HMAC keys (zero padding) but different as seeds
		c.Local = genBytes(t, p.Nonce, "local")
		extra := rapid.SampledFrom([]int{1, 2, 16, 32}).Draw(t, "zeros")
		c.Remote = append(append([]byte(nil), c.Local...), make([]byte, extra)...)
	case "equal":
		c.Local = genBytes(t, p.Nonce, "local")
		c.Remote = append([]byte(nil), c.Local...)
	}
	c.Msg = genBytes(t, rapid.IntRange(0, 200).Draw(t, "msgLen"), "msg")
	c.Plain = genBytes(t, 16*rapid.IntRange(1, 8).Draw(t, "blocks"), "plain")
	c.Plain2 = genBytes(t, 16*rapid.IntRange(1, 3).Draw(t, "blocks2"), "plain2")
	return c
}

func lenClass(n, pol int) string {
	switch {
	case n == pol:
		return "policy"
	case n < pol:
		return "shorter"
	case n > 64:
		return "longer-than-hmac-block"
	default:
		return "longer"
	}
}

// check runs the real uapolicy.Symmetric against the reference; "" = property holds.
func check(c caseT) (msg string, nontrivial bool, classes []string) {
	defer func() {
		if r := recover(); r != nil {
			msg = fmt.Sprintf("panic: %v", r)
		}
	}()
	p := polByFrag(c.Policy)
	if p == nil {
		return "bad case: unknown policy", false, nil
	}
	if len(c.Local) != p.Nonce || len(c.Remote) < 1 || len(c.Plain) < 16 || len(c.Plain)%16 != 0 || len(c.Plain2)%16 != 0 {
		return "bad case: outside the input domain", false, nil
	}
	uri := uriPrefix + p.Frag
	differ := !bytes.Equal(c.Local, c.Remote)
	mirrored := len(c.Remote) == p.Nonce
	nontrivial = differ
	classes = []string{
		"policy=" + p.Frag,
		"role=" + c.Role,
		"content=" + c.Content,
		"remoteLen=" + lenClass(len(c.Remote), p.Nonce),
		fmt.Sprintf("%s/remoteLen=%s", p.Frag, lenClass(len(c.Remote), p.Nonce)),
		fmt.Sprintf("%s/%s", p.Frag, c.Content),
	}
	if differ {
		classes = append(classes, "separation-checked")
	} else {
		classes = append(classes, "equal-nonces(no-separation-demanded)")
	}
	if mirrored {
		classes = append(classes, "mirrored-instance-B-checked")
	}

	// --- reference keys, in the vocabulary of the specification
	var clientNonce, serverNonce []byte
	if c.Role == "client" {
		clientNonce, serverNonce = c.Local, c.Remote
	} else {
		clientNonce, serverNonce = c.Remote, c.Local
	}
	ck, sk := refChannelKeys(p, clientNonce, serverNonce)
	send, recv := ck, sk // keys securing what A sends / what A receives
	if c.Role == "server" {
		send, recv = sk, ck
	}

	A, err := uapolicy.Symmetric(uri, append([]byte(nil), c.Local...), append([]byte(nil), c.Remote...))
	if err != nil {
		return fmt.Sprintf("Symmetric(local,remote) failed: %v", err), nontrivial, classes
	}

	// 1. A's signature = HMAC with the reference signing key of A's sending direction
	m := append([]byte(nil), c.Msg...)
	sig, err := A.Signature(m)
	if err != nil {
		return fmt.Sprintf("A.Signature failed: %v", err), nontrivial, classes
	}
	if want := refHMAC(p.newHash, send.Sign, c.Msg); !bytes.Equal(sig, want) {
		return fmt.Sprintf("A.Signature = %x, reference HMAC-%s with the %s signing key (P_%s secret=remote seed=local, offset 0, %d bytes) = %x",
			sig, p.hashName, c.Role, p.hashName, p.SigKey, want), nontrivial, classes
	}
	if !bytes.Equal(m, c.Msg) {
		return "A.Signature modified its input", nontrivial, classes
	}

	// 2. A's ciphertext = AES-CBC with the reference key and IV (two calls: the IV is per instance, not chained across calls)
	x := append([]byte(nil), c.Plain...)
	ct, err := A.Encrypt(x)
	if err != nil {
		return fmt.Sprintf("A.Encrypt failed: %v", err), nontrivial, classes
	}
	if want := refCBCEncrypt(send.Enc, send.IV, c.Plain); !bytes.Equal(ct, want) {
		return fmt.Sprintf("A.Encrypt = %x, reference AES-%d-CBC(key at offset %d, IV at offset %d) = %x", ct, 8*p.EncKey, p.SigKey, p.SigKey+p.EncKey, want), nontrivial, classes
	}
	if !bytes.Equal(x, c.Plain) {
		return "A.Encrypt modified its input", nontrivial, classes
	}
	if len(c.Plain2) > 0 {
		ct2, err := A.Encrypt(append([]byte(nil), c.Plain2...))
		if err != nil {
			return fmt.Sprintf("second A.Encrypt failed: %v", err), nontrivial, classes
		}
		if want := refCBCEncrypt(send.Enc, send.IV, c.Plain2); !bytes.Equal(ct2, want) {
			return fmt.Sprintf("second A.Encrypt = %x, reference = %x", ct2, want), nontrivial, classes
		}
	}

	// 3. A accepts what a conforming peer (the reference) produces with the keys of the other direction
	psig := refHMAC(p.newHash, recv.Sign, c.Msg)
	if err := A.VerifySignature(append([]byte(nil), c.Msg...), psig); err != nil {
		return fmt.Sprintf("A.VerifySignature rejects the reference peer's signature: %v", err), nontrivial, classes
	}
	pct := refCBCEncrypt(recv.Enc, recv.IV, c.Plain)
	got, err := A.Decrypt(append([]byte(nil), pct...))
	if err != nil {
		return fmt.Sprintf("A.Decrypt rejects the reference peer's ciphertext: %v", err), nontrivial, classes
	}
	if !bytes.Equal(got, c.Plain) {
		return fmt.Sprintf("A.Decrypt(reference peer ciphertext) = %x, want %x", got, c.Plain), nontrivial, classes
	}
	// ... and the reference peer reads what A produced (inverse direction of 2.)
	if back := refCBCDecrypt(send.Enc, send.IV, ct); !bytes.Equal(back, c.Plain) {
		return "reference peer cannot decrypt A's ciphertext", nontrivial, classes
	}

	// 4. separation: A never accepts its own output (reflected traffic)
	sepDemanded := differ && !bytes.Equal(send.Sign, recv.Sign)
	if sepDemanded {
		if err := A.VerifySignature(append([]byte(nil), c.Msg...), sig); err == nil {
			return "A.VerifySignature accepts A's own signature although the nonces differ (reflection not rejected)", nontrivial, classes
		}
		// the same with message and signature in ONE buffer, the signature right
		// behind the message - the layout of every received chunk (added after
		// seeded change C14-C: a MAC computed into the spare capacity of the
		// message overwrote the signature it was then compared with)
		chunk := append(append(make([]byte, 0, len(c.Msg)+len(sig)+64), c.Msg...), sig...)
		if err := A.VerifySignature(chunk[:len(c.Msg)], chunk[len(c.Msg):]); err == nil {
			return "A.VerifySignature accepts A's own signature (reflection) when message and signature lie in one buffer, as in a received chunk", nontrivial, classes
		}
		junk := append(append(make([]byte, 0, len(c.Msg)+len(sig)+64), c.Msg...), bytes.Repeat([]byte{0xa5}, len(sig))...)
		if err := A.VerifySignature(junk[:len(c.Msg)], junk[len(c.Msg):]); err == nil {
			return "A.VerifySignature accepts made-up signature bytes when message and signature lie in one buffer, as in a received chunk", nontrivial, classes
		}
	}
	if differ && !(bytes.Equal(send.Enc, recv.Enc) && bytes.Equal(send.IV, recv.IV)) {
		if own, err := A.Decrypt(append([]byte(nil), ct...)); err == nil && bytes.Equal(own, c.Plain) {
			return "A.Decrypt turns A's own ciphertext back into the plaintext although the nonces differ (reflection not rejected)", nontrivial, classes
		}
	}

	// 5. the mirrored gopcua instance
	if mirrored {
		B, err := uapolicy.Symmetric(uri, append([]byte(nil), c.Remote...), append([]byte(nil), c.Local...))
		if err != nil {
			return fmt.Sprintf("Symmetric(remote,local) failed: %v", err), nontrivial, classes
		}
		if err := B.VerifySignature(append([]byte(nil), c.Msg...), sig); err != nil {
			return fmt.Sprintf("B.VerifySignature rejects A's signature: %v", err), nontrivial, classes
		}
		got, err := B.Decrypt(append([]byte(nil), ct...))
		if err != nil || !bytes.Equal(got, c.Plain) {
			return fmt.Sprintf("B.Decrypt(A.Encrypt(x)) = %x, %v; want %x", got, err, c.Plain), nontrivial, classes
		}
		bsig, err := B.Signature(append([]byte(nil), c.Msg...))
		if err != nil {
			return fmt.Sprintf("B.Signature failed: %v", err), nontrivial, classes
		}
		if !bytes.Equal(bsig, psig) {
			return fmt.Sprintf("B.Signature = %x, reference (keys of B's sending direction) = %x", bsig, psig), nontrivial, classes
		}
		if err := A.VerifySignature(append([]byte(nil), c.Msg...), bsig); err != nil {
			return fmt.Sprintf("A.VerifySignature rejects B's signature: %v", err), nontrivial, classes
		}
		bct, err := B.Encrypt(append([]byte(nil), c.Plain...))
		if err != nil {
			return fmt.Sprintf("B.Encrypt failed: %v", err), nontrivial, classes
		}
		if !bytes.Equal(bct, pct) {
			return fmt.Sprintf("B.Encrypt = %x, reference (keys of B's sending direction) = %x", bct, pct), nontrivial, classes
		}
		if sepDemanded {
			if err := B.VerifySignature(append([]byte(nil), c.Msg...), bsig); err == nil {
				return "B.VerifySignature accepts B's own signature although the nonces differ", nontrivial, classes
			}
		}
	}
	return "", nontrivial, classes
}

var rec = ev.For("C14", "rapid-generated (policy of 5, role of A client|server, nonce pair, message 0-200 B, 1-8 block plaintext); local nonce of the policy's length, remote nonce of the policy's length (60%) or 1..128 bytes; contents random / all-zero / equal-but-one-bit / proper prefix / prefix padded with zeros / equal; non-trivial = the two nonces differ (direction separation is demanded and checked); distinct by hash of the whole case")

func TestSymmetric(t *testing.T) {
	rec.Assume("reference: HMAC (RFC 2104), P_hash (RFC 5246 §5) and CBC chaining written out in props/c14 over crypto/sha1, crypto/sha256 and the AES block function of the Go standard library; policy table (hash, key/IV lengths, nonce length) written from the Part 7 profiles; self-tested by TestReference against RFC 2202/4231 vectors, crypto/hmac, crypto/cipher and the P_SHA1 vector of uapolicy/securitypolicy_test.go")
	rec.Assume("input domain = what uasc can pass to uapolicy.Symmetric: local nonce of the policy's nonce length, remote nonce of any length >= 1; the mirrored gopcua instance is only built when the remote nonce has the policy length")
	rapid.Check(t, func(t *rapid.T) {
		c := genCase(t)
		msg, nt, classes := check(c)
		b, _ := json.Marshal(c)
		rec.Case(nt, ev.Hash(b), classes...)
		if nt && rec.WantSample() {
			rec.Sample(c)
		}
		if msg != "" {
			rec.Fail(t, "TestSymmetric", c, "%s", msg)
		}
	})
}

// TestReplay re-runs a saved case without rapid.
func TestReplay(t *testing.T) {
	rp, err := ev.LoadReplay()
	if err != nil {
		t.Fatal(err)
	}
	if rp == nil {
		t.Skip("no VERIF_REPLAY")
	}
	var c caseT
	if err := json.Unmarshal(rp.Case, &c); err != nil {
		t.Fatal(err)
	}
	fmt.Println("REPLAYED structured")
	if msg, _, _ := check(c); msg != "" {
		t.Fatalf("property C14 violated: %s", msg)
	}
}
