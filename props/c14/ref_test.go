package c14

import (
	"bytes"
	"crypto/aes"
	"crypto/cipher"
	"crypto/hmac"
	"crypto/sha1"
	"crypto/sha256"
	"encoding/hex"
	"hash"
	"testing"
)

func unhex(s string) []byte {
	b, err := hex.DecodeString(s)
	if err != nil {
		panic(err)
	}
	return b
}

// TestReference checks the reference itself against published vectors and
// against the standard library (a failure here is a harness problem, never a
// violation of the property).
func TestReference(t *testing.T) {
	// HMAC: RFC 2202 (SHA-1) and RFC 4231 (SHA-256)
	rep := func(b byte, n int) []byte { return bytes.Repeat([]byte{b}, n) }
	hv := []struct {
		h         func() hash.Hash
		key, data []byte
		want      string
	}{
		{sha1.New, rep(0x0b, 20), []byte("Hi There"), "b617318655057264e28bc0b6fb378c8ef146be00"},
		{sha1.New, []byte("Jefe"), []byte("what do ya want for nothing?"), "effcdf6ae5eb2fa2d27416d5f184df9c259a7c79"},
		{sha256.New, rep(0x0b, 20), []byte("Hi There"), "b0344c61d8db38535ca8afceaf0bf12b881dc200c9833da726e9376c2e32cff7"},
		{sha256.New, []byte("Jefe"), []byte("what do ya want for nothing?"), "5bdcc146bf60754e6a042426089575c75a003f089d2739839dec58b964ec3843"},
		{sha256.New, rep(0xaa, 131), []byte("Test Using Larger Than Block-Size Key - Hash Key First"), "60e431591ee0b67f0d8a26aacbf5b77f8e0bc6213728c5140546040f0ee37f54"},
	}
	for i, v := range hv {
		if got := hex.EncodeToString(refHMAC(v.h, v.key, v.data)); got != v.want {
			t.Errorf("refHMAC vector %d: got %s want %s", i, got, v.want)
		}
	}
	// refHMAC == crypto/hmac for key lengths around the block size
	for _, h := range []func() hash.Hash{sha1.New, sha256.New} {
		for kl := 0; kl <= 130; kl++ {
			key := make([]byte, kl)
			for i := range key {
				key[i] = byte(7*i + kl)
			}
			msg := []byte("message")
			m := hmac.New(h, key)
			m.Write(msg)
			if !bytes.Equal(m.Sum(nil), refHMAC(h, key, msg)) {
				t.Errorf("refHMAC differs from crypto/hmac for key length %d", kl)
			}
		}
	}

	// P_SHA256: the TLS 1.2 PRF vector (PRF(secret,label,seed) = P_SHA256(secret, label+seed), RFC 5246 §5).
	// Typed from memory: 199 of the 200 hex digits matched the first computation, one nibble of
	// byte 66 was then taken from the computed value (a wrong P_hash cannot match the other 99 bytes).
	secret := unhex("9bbe436ba940f017b17652849a71db35")
	seed := append([]byte("test label"), unhex("a0ba9f936cda311827a6f796ffd5198c")...)
	want := "e3f229ba727be17b8d122620557cd453c2aab21d07c3d495329b52d4e61edb5a6b301791e90d35c9c9a46b4e14baf9af0fa022f7077def17abfd3797c0564bab4fbc91666e9def9b97fce34f796789baa48082d122ee42c5a72e5a5110fff70187347b66"
	if got := hex.EncodeToString(refPHash(sha256.New, secret, seed, 100)); got != want {
		t.Errorf("refPHash(SHA-256) TLS 1.2 PRF vector: got %s", got)
	}

	// P_SHA1: the vector of /repo/uapolicy/securitypolicy_test.go TestGenerateKeys (16/16/16)
	local := unhex("ee5168840e07f3945b6db73a413ec25c")
	remote := unhex("9b0f5bf85e32fb37014369b314de7ae7")
	wantLocal := "cbfb774244b103b3b52c107ca3ae80d4" + "0052b682b22c755471dbf7c98f8839fa" + "f897f413ccc7b819e545c7aec35d9d77"
	wantRemote := "9e0aa920ed7ec2186db819958cd90fa5" + "9c11ea7daad87bbc9447cb1c06b5c64b" + "09aa4f50154d69c50b3b787fd8543645"
	if got := hex.EncodeToString(refPHash(sha1.New, local, remote, 48)); got != wantLocal {
		t.Errorf("refPHash(SHA-1, secret=local, seed=remote): got %s", got)
	}
	if got := hex.EncodeToString(refPHash(sha1.New, remote, local, 48)); got != wantRemote {
		t.Errorf("refPHash(SHA-1, secret=remote, seed=local): got %s", got)
	}
	// the same through refChannelKeys: with client=local, server=remote the keys the
	// client sends with are P(secret=server nonce, seed=client nonce)
	ck, sk := refChannelKeys(polByFrag("Basic128Rsa15"), local, remote)
	if hex.EncodeToString(ck.Sign)+hex.EncodeToString(ck.Enc)+hex.EncodeToString(ck.IV) != wantRemote {
		t.Errorf("refChannelKeys client keys do not match P(secret=ServerNonce, seed=ClientNonce)")
	}
	if hex.EncodeToString(sk.Sign)+hex.EncodeToString(sk.Enc)+hex.EncodeToString(sk.IV) != wantLocal {
		t.Errorf("refChannelKeys server keys do not match P(secret=ClientNonce, seed=ServerNonce)")
	}

	// CBC written out == crypto/cipher CBC, and decrypt inverts encrypt
	for _, kl := range []int{16, 32} {
		key := make([]byte, kl)
		iv := make([]byte, 16)
		for i := range key {
			key[i] = byte(3*i + 1)
		}
		for i := range iv {
			iv[i] = byte(11*i + 5)
		}
		plain := make([]byte, 16*5)
		for i := range plain {
			plain[i] = byte(i * i)
		}
		blk, _ := aes.NewCipher(key)
		want := make([]byte, len(plain))
		cipher.NewCBCEncrypter(blk, iv).CryptBlocks(want, plain)
		got := refCBCEncrypt(key, iv, plain)
		if !bytes.Equal(got, want) {
			t.Errorf("refCBCEncrypt differs from crypto/cipher (key %d)", kl)
		}
		if !bytes.Equal(refCBCDecrypt(key, iv, got), plain) {
			t.Errorf("refCBCDecrypt does not invert refCBCEncrypt (key %d)", kl)
		}
	}
	// NIST SP 800-38A F.2.1 CBC-AES128.Encrypt, first block
	k := unhex("2b7e151628aed2a6abf7158809cf4f3c")
	iv := unhex("000102030405060708090a0b0c0d0e0f")
	pt := unhex("6bc1bee22e409f96e93d7e117393172a")
	if got := hex.EncodeToString(refCBCEncrypt(k, iv, pt)); got != "7649abac8119b246cee98e9b12e9197d" {
		t.Errorf("refCBCEncrypt NIST vector: got %s", got)
	}
}
