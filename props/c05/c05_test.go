// Package c05 decides property C05: UACP framing delivers exactly the frames
// sent under any segmentation.
//
// A case is a receive buffer size R (the negotiated buffer of an established
// UA-TCP connection, so R >= 8192), a script of 1..24 frames (header fields and
// payloads, including malformed sizes and ERR frames), a segmentation of the
// concatenated byte stream (explicit segment lengths) and pauses between
// segments. The stream is written over a real loopback TCP connection with
// TCP_NODELAY by a writer that closes at the end; the receiver is
// uacp.NewConn(tcpConn, ack{ReceiveBufSize: R}).Receive().
//
// Oracle: a reference framing model that parses the *byte stream* (not the
// generator's descriptors): header = 3 type bytes, 1 chunk byte, uint32 LE size
// that includes the 8 header bytes. Receive must return exactly the frames the
// model accepts (8 <= size <= R, type != ERR, fully present), byte for byte and
// in order; at the first frame the model rejects, Receive must return an error:
//   - size < 8 or size > R: an error although the writer sends nothing beyond
//     that header until the error has been returned (no waiting for a body),
//   - ERR frame: an error; if the body is a well-formed Error message
//     (code, string) the error is a *uacp.Error carrying the sent code,
//   - stream ends inside a frame / at a frame boundary: an error (io.EOF class
//     recorded, not required).
//
// Never a panic, never a delivered slice that is not a whole frame, never
// blocked (every Receive is bounded by a timeout; a timeout is a violation only
// if the case times out three times in a row, otherwise inconclusive).
// Delivered slices are snapshotted and compared again after all later calls.
package c05

import (
	"encoding/binary"
	"encoding/hex"
	"encoding/json"
	"errors"
	"fmt"
	"io"
	"net"
	"sort"
	"testing"
	"time"

	"github.com/gopcua/opcua/uacp"
	"pgregory.net/rapid"

	"verif/pkg/ev"
)

func TestMain(m *testing.M) { ev.Main(m) }

var rec = ev.For("C05", "rapid-generated (receive buffer R in {8192, 65535, 2^20, random >= 8192}) x (script of 1-24 UA-TCP frames: 9 message types incl. unknown and non-ASCII, 4 chunk types, sizes {8, 9, small, medium, R-1, R, random <= R}; optionally one terminator: malformed size {0..7, R+1, 2^31, 2^32-1, random > R}, ERR frame {well-formed, null reason, truncated reason, over-long body, short body}, or a truncated tail) x (segmentation of the byte stream: bytewise, header 3+5, frame-aligned, coalesced, straddling, random cuts near frame boundaries) x (pauses between segments), written over loopback TCP with TCP_NODELAY; non-trivial = the stream holds >= 2 frames and (a frame spans >= 2 segments or two frames share a segment); distinct by hash of the case")

// ---------------------------------------------------------------------------
// case

type frameT struct {
	TypeHex string `json:"type_hex"` // 3 message type bytes
	Chunk   byte   `json:"chunk"`
	Size    uint32 `json:"size"`               // declared MessageSize
	BodyLen int    `json:"body_len"`           // bytes that follow the header in the stream
	Seed    uint64 `json:"seed"`               // payload generator seed (when BodyHex is empty)
	BodyHex string `json:"body_hex,omitempty"` // explicit body (ERR frames, small bodies)
	Kind    string `json:"kind"`               // generator's label (informational only)
}

type caseT struct {
	R uint32 `json:"r"`
	S uint32 `json:"send_buf"` // the connection's send buffer (0 = same as R); the receive limit must not depend on it
	// the connection's message limits: framing depends on the receive buffer only
	MaxMsg    uint32   `json:"max_message_size,omitempty"`
	MaxChunks uint32   `json:"max_chunk_count,omitempty"`
	Frames    []frameT `json:"frames"`
	Trunc     int      `json:"trunc"`     // bytes removed from the end of the stream
	SegMode   string   `json:"seg_mode"`  // informational
	Cuts      []int    `json:"cuts"`      // segment lengths; the remainder is the last segment
	PauseN    int      `json:"pause_n"`   // pause after every PauseN-th segment (0 = never)
	PauseUs   int      `json:"pause_us"`  // pause length
	MaxP      int      `json:"max_pause"` // at most this many pauses
}

func splitmix(s *uint64) uint64 {
	*s += 0x9E3779B97F4A7C15
	z := *s
	z = (z ^ (z >> 30)) * 0xBF58476D1CE4E5B9
	z = (z ^ (z >> 27)) * 0x94D049BB133111EB
	return z ^ (z >> 31)
}

func (f frameT) bytes() []byte {
	b := make([]byte, 8+f.BodyLen)
	t, _ := hex.DecodeString(f.TypeHex)
	copy(b[:3], t)
	b[3] = f.Chunk
	binary.LittleEndian.PutUint32(b[4:], f.Size)
	if f.BodyHex != "" {
		body, _ := hex.DecodeString(f.BodyHex)
		copy(b[8:], body)
		return b
	}
	s := f.Seed
	i := 8
	for ; i+8 <= len(b); i += 8 {
		binary.LittleEndian.PutUint64(b[i:], splitmix(&s))
	}
	if i < len(b) {
		var last [8]byte
		binary.LittleEndian.PutUint64(last[:], splitmix(&s))
		copy(b[i:], last[:])
	}
	return b
}

func (c caseT) stream() (stream []byte, starts []int) {
	for _, f := range c.Frames {
		starts = append(starts, len(stream))
		stream = append(stream, f.bytes()...)
	}
	if c.Trunc > 0 {
		if c.Trunc >= len(stream) {
			stream = stream[:0]
		} else {
			stream = stream[:len(stream)-c.Trunc]
		}
	}
	return
}

// ---------------------------------------------------------------------------
// reference framing model (works on the bytes, written from Part 6 7.1.2.2)

type expectT struct {
	frames   [][]byte // frames that must be delivered, in order
	end      string   // "eof", "trunc-header", "trunc-body", "small", "big", "err-typed", "err-untyped"
	errCode  uint32   // for err-typed
	holdAt   int      // stream offset after which the writer holds until the error was returned (-1 = none)
	nframes  int      // frames in the stream as the model sees them (delivered + terminator)
	hasR     bool     // a delivered frame has size == R
	hasRm1   bool     // a delivered frame has size == R-1
	hasMin   bool     // a delivered frame has size == 8
	unkType  bool     // a delivered frame has a message type outside the UA-TCP/UASC set
	maxFrame int
}

var knownTypes = map[string]bool{"MSG": true, "OPN": true, "CLO": true, "HEL": true, "ACK": true, "RHE": true}

func model(stream []byte, R uint32) expectT {
	e := expectT{holdAt: -1}
	pos := 0
	for {
		rem := len(stream) - pos
		if rem == 0 {
			e.end = "eof"
			return e
		}
		if rem < 8 {
			e.end = "trunc-header"
			e.nframes++
			return e
		}
		size := binary.LittleEndian.Uint32(stream[pos+4:])
		e.nframes++
		if size < 8 {
			e.end = "small"
			e.holdAt = pos + 8
			return e
		}
		if size > R {
			e.end = "big"
			e.holdAt = pos + 8
			return e
		}
		if uint64(rem) < uint64(size) {
			e.end = "trunc-body"
			return e
		}
		fr := stream[pos : pos+int(size)]
		if string(fr[:3]) == "ERR" {
			body := fr[8:]
			e.end = "err-untyped"
			if len(body) >= 8 {
				code := binary.LittleEndian.Uint32(body)
				n := int32(binary.LittleEndian.Uint32(body[4:]))
				if n == -1 || (n >= 0 && int(n) <= len(body)-8) {
					e.end = "err-typed"
					e.errCode = code
				}
			}
			return e
		}
		e.frames = append(e.frames, fr)
		if size == R {
			e.hasR = true
		}
		if size == R-1 {
			e.hasRm1 = true
		}
		if size == 8 {
			e.hasMin = true
		}
		if !knownTypes[string(fr[:3])] {
			e.unkType = true
		}
		if int(size) > e.maxFrame {
			e.maxFrame = int(size)
		}
		pos += int(size)
	}
}

// ---------------------------------------------------------------------------
// generator

var msgTypes = [][]byte{[]byte("MSG"), []byte("OPN"), []byte("CLO"), []byte("HEL"), []byte("ACK"), []byte("RHE"), []byte("XYZ"), {0xff, 0x00, 0x80}, {0xc3, 0xa4, 0x45}}
var chunkTypes = []byte{'F', 'C', 'A', 'Z', 0x00, 0xff}

func genGood(t *rapid.T, R uint32, large *int) frameT {
	f := frameT{Kind: "good"}
	f.TypeHex = hex.EncodeToString(rapid.SampledFrom(msgTypes).Draw(t, "mtype"))
	f.Chunk = rapid.SampledFrom(chunkTypes).Draw(t, "ctype")
	maxLarge := ev.Pick(2, 3)
	cls := rapid.IntRange(0, 11).Draw(t, "sizeClass")
	if cls >= 8 && *large >= maxLarge {
		cls -= 6
	}
	switch cls {
	case 0:
		f.Size = 8
	case 1:
		f.Size = 9
	case 2, 3, 4:
		f.Size = uint32(rapid.IntRange(10, 64).Draw(t, "small"))
	case 5, 6, 7:
		f.Size = uint32(rapid.IntRange(65, 4096).Draw(t, "medium"))
	case 8:
		f.Size = R - 1
	case 9, 10:
		f.Size = R
	case 11:
		f.Size = uint32(rapid.IntRange(4097, int(R)).Draw(t, "anysize"))
	}
	if f.Size > 65536 || cls >= 8 {
		*large++
	}
	f.BodyLen = int(f.Size) - 8
	f.Seed = rapid.Uint64().Draw(t, "seed")
	return f
}

func genBad(t *rapid.T, R uint32) frameT {
	f := frameT{}
	f.Chunk = rapid.SampledFrom(chunkTypes).Draw(t, "bctype")
	f.Seed = rapid.Uint64().Draw(t, "bseed")
	kind := rapid.IntRange(0, 9).Draw(t, "badKind")
	switch {
	case kind <= 2: // size below the header size
		f.Kind = "small"
		f.TypeHex = hex.EncodeToString(rapid.SampledFrom(msgTypes).Draw(t, "bmtype"))
		f.Size = uint32(rapid.IntRange(0, 7).Draw(t, "smallSize"))
		f.BodyLen = rapid.IntRange(0, 40).Draw(t, "garbage")
	case kind <= 5: // size above the receive buffer
		f.Kind = "big"
		f.TypeHex = hex.EncodeToString(rapid.SampledFrom(msgTypes).Draw(t, "bmtype"))
		switch rapid.IntRange(0, 4).Draw(t, "bigClass") {
		case 0, 1:
			f.Size = R + 1
		case 2:
			f.Size = 1 << 31
		case 3:
			f.Size = 0xffffffff
		case 4:
			f.Size = uint32(rapid.Uint64Range(uint64(R)+1, 0xffffffff).Draw(t, "bigSize"))
		}
		f.BodyLen = rapid.IntRange(0, 40).Draw(t, "garbage")
	default: // ERR frame
		f.TypeHex = hex.EncodeToString([]byte("ERR"))
		code := rapid.SampledFrom([]uint32{0x80010000, 0x807D0000, 0x80800000, 0x80820000, 0, 0xffffffff, 0x12345678}).Draw(t, "code")
		reason := rapid.SliceOfN(rapid.Byte(), 0, 40).Draw(t, "reason")
		body := make([]byte, 8, 8+len(reason)+16)
		binary.LittleEndian.PutUint32(body, code)
		binary.LittleEndian.PutUint32(body[4:], uint32(len(reason)))
		body = append(body, reason...)
		switch rapid.IntRange(0, 6).Draw(t, "errShape") {
		case 0, 1, 2:
			f.Kind = "err-ok"
		case 3:
			f.Kind = "err-null-reason"
			body = body[:8]
			binary.LittleEndian.PutUint32(body[4:], 0xffffffff)
		case 4:
			f.Kind = "err-truncated-reason" // declares more reason bytes than the frame holds
			binary.LittleEndian.PutUint32(body[4:], uint32(len(reason)+rapid.IntRange(1, 5000).Draw(t, "over")))
		case 5:
			f.Kind = "err-overlong" // bytes after the reason
			body = append(body, rapid.SliceOfN(rapid.Byte(), 1, 16).Draw(t, "trail")...)
		case 6:
			f.Kind = "err-short-body"
			body = body[:rapid.IntRange(0, 7).Draw(t, "shortBody")]
		}
		f.BodyHex = hex.EncodeToString(body)
		f.BodyLen = len(body)
		f.Size = uint32(8 + len(body))
	}
	return f
}

func genCase(t *rapid.T) caseT {
	var c caseT
	switch rapid.IntRange(0, 5).Draw(t, "rClass") {
	case 0, 1:
		c.R = 8192
	case 2, 3:
		c.R = 65535
	case 4:
		c.R = 1 << 20
	case 5:
		c.R = uint32(rapid.IntRange(8192, 1<<20).Draw(t, "r"))
	}
	switch rapid.IntRange(0, 3).Draw(t, "sClass") {
	case 0:
		c.S = c.R
	case 1:
		c.S = 8192
	case 2:
		c.S = 2 * c.R
	case 3:
		c.S = uint32(rapid.IntRange(8192, 1<<21).Draw(t, "s"))
	}
	switch rapid.IntRange(0, 5).Draw(t, "maxMsgClass") {
	case 1:
		c.MaxMsg = 8192
	case 2:
		c.MaxMsg = c.R - 1
	case 3:
		c.MaxMsg = c.R
	case 4:
		c.MaxMsg = 2 << 20
	}
	c.MaxChunks = rapid.SampledFrom([]uint32{0, 0, 1, 512}).Draw(t, "maxChunks")
	n := rapid.IntRange(1, 24).Draw(t, "nframes")
	term := rapid.IntRange(0, 9).Draw(t, "terminator") // 0-3 none, 4-7 bad frame, 8-9 truncated tail
	badAt := -1
	if term >= 4 && term <= 7 {
		if rapid.Bool().Draw(t, "badLate") {
			badAt = n - 1 - rapid.IntRange(0, min(2, n-1)).Draw(t, "badBack")
		} else {
			badAt = rapid.IntRange(0, n-1).Draw(t, "badAt")
		}
	}
	large := 0
	for i := 0; i < n; i++ {
		if i == badAt {
			c.Frames = append(c.Frames, genBad(t, c.R))
		} else {
			c.Frames = append(c.Frames, genGood(t, c.R, &large))
		}
	}
	if term >= 8 {
		last := c.Frames[len(c.Frames)-1]
		c.Trunc = rapid.IntRange(1, 8+last.BodyLen).Draw(t, "trunc")
		if rapid.IntRange(0, 3).Draw(t, "truncInHeader") == 0 {
			c.Trunc = last.BodyLen + rapid.IntRange(1, 7).Draw(t, "truncHdr")
		}
	}
	stream, starts := c.stream()
	total := len(stream)

	// segmentation
	const maxSegs = 1500
	add := func(n int) {
		if n > 0 && len(c.Cuts) < maxSegs {
			c.Cuts = append(c.Cuts, n)
		}
	}
	flen := func(i int) int { return 8 + c.Frames[i].BodyLen }
	mode := rapid.SampledFrom([]string{"bytewise", "hdr3+5", "aligned", "coalesced", "straddle", "random", "random"}).Draw(t, "segMode")
	c.SegMode = mode
	switch mode {
	case "bytewise":
		if total <= 700 {
			for i := 0; i < total; i++ {
				add(1)
			}
		} else {
			for i := range c.Frames {
				l := flen(i)
				k := min(l, 16)
				for j := 0; j < k; j++ {
					add(1)
				}
				add(l - k)
			}
		}
	case "hdr3+5":
		for i := range c.Frames {
			add(3)
			add(5)
			add(flen(i) - 8)
		}
	case "aligned":
		for i := range c.Frames {
			add(flen(i))
		}
	case "coalesced":
		k := rapid.IntRange(1, 24).Draw(t, "group")
		for i := 0; i < len(c.Frames); i += k {
			s := 0
			for j := i; j < i+k && j < len(c.Frames); j++ {
				s += flen(j)
			}
			add(s)
		}
	case "straddle":
		// every segment ends inside a frame: tail of one frame + head of the next
		off := rapid.IntRange(1, 7).Draw(t, "straddleOff")
		prev := 0
		for i := range c.Frames {
			cut := starts[i] + min(off, flen(i)-1)
			if cut > prev {
				add(cut - prev)
				prev = cut
			}
		}
	case "random":
		ncut := rapid.IntRange(1, 60).Draw(t, "ncuts")
		pts := map[int]bool{}
		for i := 0; i < ncut && total > 1; i++ {
			var p int
			if rapid.Bool().Draw(t, "nearBoundary") {
				p = starts[rapid.IntRange(0, len(starts)-1).Draw(t, "bIdx")] + rapid.IntRange(-9, 9).Draw(t, "bOff")
			} else {
				p = rapid.IntRange(1, total-1).Draw(t, "cutAt")
			}
			if p > 0 && p < total {
				pts[p] = true
			}
		}
		var ps []int
		for p := range pts {
			ps = append(ps, p)
		}
		sort.Ints(ps)
		prev := 0
		for _, p := range ps {
			add(p - prev)
			prev = p
		}
	}
	c.PauseN = rapid.SampledFrom([]int{0, 1, 1, 2, 3, 7}).Draw(t, "pauseEvery")
	c.PauseUs = rapid.IntRange(20, 400).Draw(t, "pauseUs")
	c.MaxP = 80
	return c
}

// ---------------------------------------------------------------------------
// execution

type recvT struct {
	b     []byte
	err   error
	panic string
}

type outcome struct {
	msg      string // "" = held
	timedOut bool   // the failure is a timeout (needs confirmation)
	eofClass string
}

const recvTimeout = 10 * time.Second

func runOnce(c caseT, e expectT, stream []byte) outcome {
	w, rc := tcpPair()
	defer w.Close()
	// the receiving end is closed last and with a reset: the writer's socket then
	// does not linger in TIME_WAIT (tens of thousands of cases would use up the ports)
	defer func() { rc.SetLinger(0); rc.Close() }()
	a := struct{ c *net.TCPConn }{rc}
	w.SetNoDelay(true)

	sendBuf := c.S
	if sendBuf == 0 {
		sendBuf = c.R
	}
	conn, err := uacp.NewConn(a.c, &uacp.Acknowledge{ReceiveBufSize: c.R, SendBufSize: sendBuf, MaxChunkCount: c.MaxChunks, MaxMessageSize: c.MaxMsg})
	if err != nil {
		return outcome{msg: fmt.Sprintf("NewConn: %v", err)}
	}

	// writer
	release := make(chan struct{})
	wdone := make(chan struct{})
	go func() {
		defer close(wdone)
		defer w.Close()
		w.SetWriteDeadline(time.Now().Add(30 * time.Second))
		pos, seg, pauses := 0, 0, 0
		held := e.holdAt < 0
		write := func(n int) bool {
			for n > 0 {
				k := n
				if !held && pos+k > e.holdAt {
					k = e.holdAt - pos
				}
				if k > 0 {
					if _, err := w.Write(stream[pos : pos+k]); err != nil {
						return false
					}
					pos += k
					n -= k
				}
				if !held && pos == e.holdAt {
					<-release
					held = true
				}
			}
			return true
		}
		for _, l := range c.Cuts {
			if pos >= len(stream) {
				break
			}
			if l > len(stream)-pos {
				l = len(stream) - pos
			}
			if l <= 0 {
				continue
			}
			if !write(l) {
				return
			}
			seg++
			if c.PauseN > 0 && seg%c.PauseN == 0 && pauses < c.MaxP {
				pauses++
				time.Sleep(time.Duration(c.PauseUs) * time.Microsecond)
			}
		}
		if pos < len(stream) {
			write(len(stream) - pos)
		}
		if !held { // holdAt == len(stream): nothing follows the malformed header
			<-release
		}
	}()
	released := false
	doRelease := func() {
		if !released {
			released = true
			close(release)
		}
	}
	defer doRelease()

	// receiver: one goroutine per call so that a blocked call can be abandoned
	receive := func() (recvT, bool) {
		ch := make(chan recvT, 1)
		go func() {
			var r recvT
			defer func() {
				if p := recover(); p != nil {
					r.panic = fmt.Sprint(p)
				}
				ch <- r
			}()
			r.b, r.err = conn.Receive()
		}()
		select {
		case r := <-ch:
			return r, true
		case <-time.After(recvTimeout):
			return recvT{}, false
		}
	}

	type snap struct{ got, copy []byte }
	var snaps []snap
	abort := func() { a.c.Close(); w.Close() }

	for i, want := range e.frames {
		r, ok := receive()
		if !ok {
			abort()
			return outcome{msg: fmt.Sprintf("Receive #%d blocked > %v although the whole frame (%d bytes) is written or being written", i, recvTimeout, len(want)), timedOut: true}
		}
		if r.panic != "" {
			return outcome{msg: fmt.Sprintf("Receive #%d panicked: %s", i, r.panic)}
		}
		if r.err != nil {
			return outcome{msg: fmt.Sprintf("Receive #%d returned error %q, want frame #%d of %d bytes (type %q chunk %q)", i, r.err, i, len(want), want[:3], want[3])}
		}
		if len(r.b) != len(want) {
			return outcome{msg: fmt.Sprintf("Receive #%d returned %d bytes, the frame sent has %d bytes", i, len(r.b), len(want))}
		}
		for j := range want {
			if r.b[j] != want[j] {
				return outcome{msg: fmt.Sprintf("Receive #%d differs from the frame sent at byte %d of %d: got %#x want %#x", i, j, len(want), r.b[j], want[j])}
			}
		}
		snaps = append(snaps, snap{r.b, append([]byte(nil), r.b...)})
	}

	// the terminating call
	r, ok := receive()
	idx := len(e.frames)
	if !ok {
		abort()
		what := "the writer has closed"
		if e.holdAt >= 0 {
			what = "the malformed header is complete (Receive must not wait for a body)"
		}
		return outcome{msg: fmt.Sprintf("Receive #%d blocked > %v although %s; expected end %q", idx, recvTimeout, what, e.end), timedOut: true}
	}
	doRelease()
	if r.panic != "" {
		return outcome{msg: fmt.Sprintf("Receive #%d panicked: %s (expected end %q)", idx, r.panic, e.end)}
	}
	if r.err == nil {
		return outcome{msg: fmt.Sprintf("Receive #%d returned %d bytes (%x...) and no error, expected an error (%s)", idx, len(r.b), r.b[:min(len(r.b), 12)], e.end)}
	}
	if r.b != nil {
		return outcome{msg: fmt.Sprintf("Receive #%d returned an error together with %d bytes (partial frame), end %q", idx, len(r.b), e.end)}
	}
	out := outcome{}
	if e.end == "err-typed" {
		var ue *uacp.Error
		if !errors.As(r.err, &ue) {
			return outcome{msg: fmt.Sprintf("well-formed ERR frame (code %#x): Receive returned %T %q, want *uacp.Error", e.errCode, r.err, r.err)}
		}
		if ue.ErrorCode != e.errCode {
			return outcome{msg: fmt.Sprintf("ERR frame code %#x: *uacp.Error carries %#x", e.errCode, ue.ErrorCode)}
		}
	}
	if e.end == "eof" {
		if r.err == io.EOF {
			out.eofClass = "end:io.EOF"
		} else {
			// (uasc compares with io.EOF itself; the property does not speak about
			// the value of the error, so this stays a class)
			out.eofClass = "end:other-error"
		}
	}

	// after the error: whatever follows (garbage / the writer's close) must not panic or block
	drained := false
	for k := 0; k < 40; k++ {
		r, ok := receive()
		if !ok {
			abort()
			return outcome{msg: fmt.Sprintf("Receive call %d after the error blocked > %v although the writer closes", k, recvTimeout), timedOut: true}
		}
		if r.panic != "" {
			return outcome{msg: fmt.Sprintf("Receive call %d after the error panicked: %s", k, r.panic)}
		}
		if r.err != nil && r.b != nil {
			return outcome{msg: "Receive returned an error together with bytes after the stream had ended"}
		}
		if r.err == io.EOF || errors.Is(r.err, io.ErrUnexpectedEOF) {
			drained = true
			break
		}
		if r.err == nil {
			snaps = append(snaps, snap{r.b, append([]byte(nil), r.b...)})
		}
	}
	if !drained {
		abort() // the writer may still be writing the rest of a long tail
	}
	select {
	case <-wdone:
	case <-time.After(recvTimeout):
		abort()
	}
	// delivered frames must not have changed
	for i, s := range snaps {
		if len(s.got) != len(s.copy) {
			return outcome{msg: fmt.Sprintf("delivered frame #%d changed length afterwards", i)}
		}
		for j := range s.copy {
			if s.got[j] != s.copy[j] {
				return outcome{msg: fmt.Sprintf("delivered frame #%d changed at byte %d after later Receive calls", i, j)}
			}
		}
	}
	return out
}

// tcpPair returns a connected loopback pair (dialling side, accepted side). It
// waits while the host has no free port (other checks run in parallel).
func tcpPair() (*net.TCPConn, *net.TCPConn) {
	var lastErr error
	for i := 0; i < 120; i++ {
		if i > 0 {
			time.Sleep(time.Second)
		}
		ln, err := net.Listen("tcp", "127.0.0.1:0")
		if err != nil {
			lastErr = err
			continue
		}
		type accT struct {
			c   net.Conn
			err error
		}
		acc := make(chan accT, 1)
		go func() {
			cn, err := ln.Accept()
			acc <- accT{cn, err}
		}()
		w, err := net.DialTimeout("tcp", ln.Addr().String(), 10*time.Second)
		if err != nil {
			ln.Close()
			<-acc
			lastErr = err
			continue
		}
		a := <-acc
		ln.Close()
		if a.err != nil {
			w.Close()
			lastErr = a.err
			continue
		}
		return w.(*net.TCPConn), a.c.(*net.TCPConn)
	}
	panic(fmt.Sprintf("infrastructure: no loopback connection: %v", lastErr))
}

// segmentation facts for the non-triviality rule
func segFacts(c caseT, total int, starts []int) (spans, shares bool, nsegs int) {
	var bounds []int // segment end offsets
	pos := 0
	for _, l := range c.Cuts {
		if pos >= total {
			break
		}
		if l <= 0 {
			continue
		}
		pos = min(pos+l, total)
		bounds = append(bounds, pos)
	}
	if pos < total {
		bounds = append(bounds, total)
	}
	nsegs = len(bounds)
	segOf := func(off int) int { // index of the segment holding byte off
		for i, b := range bounds {
			if off < b {
				return i
			}
		}
		return len(bounds) - 1
	}
	for i, s := range starts {
		if s >= total {
			break
		}
		end := total
		if i+1 < len(starts) && starts[i+1] < total {
			end = starts[i+1]
		}
		if segOf(s) != segOf(end-1) {
			spans = true
		}
		if i > 0 && segOf(s) == segOf(s-1) {
			shares = true
		}
	}
	return
}

func bucket(n int) string {
	switch {
	case n == 0:
		return "0"
	case n == 1:
		return "1"
	case n <= 4:
		return "2-4"
	case n <= 12:
		return "5-12"
	}
	return "13-24"
}

// check runs one case (with the timeout confirmation rule).
func check(c caseT) (msg string, nontrivial bool, classes []string, inconclusive bool) {
	if c.R < 8192 {
		return "", false, []string{"out-of-scope:R<8192"}, false
	}
	stream, starts := c.stream()
	e := model(stream, c.R)
	spans, shares, nsegs := segFacts(c, len(stream), starts)
	nontrivial = e.nframes >= 2 && (spans || shares)

	rc := "R:random"
	switch c.R {
	case 8192:
		rc = "R:8192"
	case 65535:
		rc = "R:65535"
	case 1 << 20:
		rc = "R:2^20"
	}
	classes = append(classes, rc, "seg:"+c.SegMode, "end:"+e.end, "delivered:"+bucket(len(e.frames)))
	if spans {
		classes = append(classes, "frame-spans-segments")
	}
	if shares {
		classes = append(classes, "frames-share-segment")
	}
	if e.hasR {
		classes = append(classes, "frame-size==R")
	}
	if e.hasRm1 {
		classes = append(classes, "frame-size==R-1")
	}
	if e.hasMin {
		classes = append(classes, "frame-size==8")
	}
	if e.unkType {
		classes = append(classes, "unknown-message-type-delivered")
	}
	if c.PauseN > 0 && nsegs > 1 {
		classes = append(classes, "paused-between-segments")
	}
	if nsegs >= 100 {
		classes = append(classes, "segments>=100")
	}
	for _, f := range c.Frames {
		if f.Kind != "good" && f.Kind != "" {
			classes = append(classes, "bad-frame:"+f.Kind)
		}
	}
	if e.holdAt >= 0 {
		classes = append(classes, "writer-holds-after-malformed-header")
	}

	o := runOnce(c, e, stream)
	if o.eofClass != "" {
		classes = append(classes, o.eofClass)
	}
	if o.msg == "" {
		return "", nontrivial, classes, false
	}
	if !o.timedOut {
		return o.msg, nontrivial, classes, false
	}
	// timing-based verdict: only 3 out of 3 is a violation
	for i := 0; i < 2; i++ {
		o2 := runOnce(c, e, stream)
		if o2.msg == "" || !o2.timedOut {
			if o2.msg != "" {
				return o2.msg, nontrivial, classes, false
			}
			return "", nontrivial, classes, true
		}
	}
	return o.msg + " (reproduced 3 times)", nontrivial, classes, false
}

func TestFraming(t *testing.T) {
	rec.Assume("reference framing model written from Part 6 7.1.2.2 (3 type bytes, chunk byte, uint32 LE size including the header); ERR body = uint32 code + UA String")
	rec.Assume("receiver-side read boundaries are influenced (TCP_NODELAY, one write per segment, pauses), not dictated: the conn is a concrete *net.TCPConn")
	rec.Assume("only R >= 8192 (protocol minimum of a negotiated buffer); a blocked Receive is a violation only if it reproduces 3 times with a 10 s bound each")
	rapid.Check(t, func(t *rapid.T) {
		c := genCase(t)
		msg, nt, classes, inconcl := check(c)
		b, _ := json.Marshal(c)
		rec.Case(nt, ev.Hash(b), classes...)
		if inconcl {
			rec.Inconclusive()
		}
		if nt && rec.WantSample() {
			rec.Sample(c)
		}
		if msg != "" {
			rec.Fail(t, "TestFraming", c, "%s", msg)
		}
	})
}

// TestTinyBufferProbe is informational: uacp.NewConn accepts any Acknowledge,
// also receive buffers below the protocol minimum that no handshake can
// negotiate. The property does not cover them; the probe only records what
// Receive does there (it never fails the check).
func TestTinyBufferProbe(t *testing.T) {
	res := map[string]string{}
	for _, R := range []uint32{0, 4, 7, 8, 12, 64} {
		c := caseT{R: R, Frames: []frameT{{TypeHex: hex.EncodeToString([]byte("MSG")), Chunk: 'F', Size: 8, BodyLen: 0, Kind: "good"}}}
		stream, _ := c.stream()
		e := model(stream, R)
		o := runOnce(c, e, stream)
		if o.msg == "" {
			res[fmt.Sprintf("R=%d", R)] = "8-byte frame handled as the model says"
		} else {
			res[fmt.Sprintf("R=%d", R)] = o.msg
		}
	}
	rec.Extra("tiny_receive_buffer_probe_not_claimed", res)
	t.Logf("%v", res)
}

// TestReplay re-runs a saved case without rapid.
func TestReplay(t *testing.T) {
	rp, err := ev.LoadReplay()
	if err != nil {
		t.Fatal(err)
	}
	if rp == nil {
		t.Skip("no VERIF_REPLAY")
	}
	var c caseT
	if err := json.Unmarshal(rp.Case, &c); err != nil {
		t.Fatal(err)
	}
	fmt.Println("REPLAYED structured")
	msg, _, _, inconcl := check(c)
	if inconcl {
		t.Log("timeout did not reproduce 3 times: inconclusive")
	}
	if msg != "" {
		t.Fatalf("property C05 violated: %s", msg)
	}
}
