// Package c17 decides property C17: chunks secured with an expired token are
// rejected. Once a security token has been replaced and its lifetime plus the
// 25 % grace period has elapsed, a chunk protected with that token's keys must
// not be delivered by the receiver, even if it is otherwise well-formed and
// carries a fresh sequence number.
//
// The receiver under test is a gopcua secure channel; the peer is the
// independent reference codec (pkg/refcodec), which keeps the keys of EVERY
// token of the channel:
//
//   - client kind: a gopcua client channel is opened against a reference server
//     with a token lifetime L of 400 ms - 1.5 s. The client renews 1-3 times (its
//     own timer at 0.75 L, or Renew() after a drawn delay) and keeps renewing by
//     itself while the case waits. For a pending SendRequest the reference then
//     answers with a response chunk secured with a SUPERSEDED token's keys (that
//     token's id in the security header, next sequence number), immediately
//     followed by the same answer secured with the CURRENT token (positive
//     control: "rejected" must not just mean "dead channel").
//   - server kind (mirror): a gopcua server channel (uacp.Listen +
//     uasc.NewServerSecureChannel + Receive loop) against a reference client
//     that opens, renews 1-3 times (and keeps renewing at 0.75 L like a real
//     client), then sends a request secured with a superseded token followed by
//     a request secured with the current token.
//
// The injection time is drawn relative to the superseded token's expiry
// (creation + 1.25 L): well before, around, well after. Only the physically
// safe side is a hard verdict (DESIGN 3.4): a timer cannot fire early, so the
// one violation is DELIVERY of the stale chunk although it was written no
// earlier than 300 ms after the latest instant the token can have been created
// plus 1.25 L. Before and around the expiry both outcomes are allowed and are
// recorded as classes (delivery before the expiry is the evidence that the
// forged chunk is well-formed). A failing case is re-executed; only three
// failing executions without a passing one count, and an execution during
// which the process itself measured a scheduling stall (a goroutine that
// sleeps 5 ms at a time woke up >= 100 ms late) counts for nothing.
package c17

import (
	"context"
	"crypto/sha256"
	"encoding/binary"
	"encoding/json"
	"fmt"
	"io"
	"net"
	"strings"
	"sync"
	"testing"
	"time"

	"github.com/gopcua/opcua/ua"
	"github.com/gopcua/opcua/uacp"
	"github.com/gopcua/opcua/uapolicy"
	"github.com/gopcua/opcua/uasc"
	"pgregory.net/rapid"

	"verif/pkg/ev"
	"verif/pkg/keys"
	"verif/pkg/refcodec"
)

func TestMain(m *testing.M) { ev.Main(m) }

var rec = ev.For("C17", "gopcua client channel vs reference server and gopcua server channel vs reference client (pkg/refcodec keeps every token's keys), 5 secured policies x {Sign, SignAndEncrypt}, token lifetime 400 ms - 1.5 s (a quarter of the cases: per-token lifetimes L..5L with the victim at L and an older token at 3L-5L, so that tokens expire out of issue order), 1-3 renewals (the client's own timer, Renew(), or the reference client) plus keep-alive renewals, then a well-formed chunk secured with a drawn superseded token's keys and the next sequence number at a drawn time before / around / after that token's expiry (creation + 1.25 x lifetime), followed by a control chunk secured with the current token; non-trivial = the stale chunk was written after the drawn renewals and its fate was observed (delivered, or not delivered while the control chunk was); distinct by hash of the case")

// ---------------------------------------------------------------------------
// Case (plain data)

type caseT struct {
	Kind       string `json:"kind"`          // "client": the gopcua receiver is a client channel; "server": a server channel
	Policy     string `json:"policy"`        // URI fragment of a secured policy
	Encrypt    bool   `json:"encrypt"`       // SignAndEncrypt instead of Sign
	LifetimeMS int    `json:"lifetime_ms"`   // requested = granted token lifetime
	LifesMS    []int  `json:"lifetimes_ms,omitempty"` // per token (0 = first): server kind: the lifetime the reference client requests; client kind: the lifetime the reference server grants (revised). Missing entries = lifetime_ms
	Renewals   int    `json:"renewals"`      // renewals driven by the case before the injection (more follow from the 0.75 L rule while waiting)
	GapsMS     []int  `json:"renew_gaps_ms"` // per renewal: delay after the previous token was issued; -1 = at 0.75 L (client kind: the client's own timer)
	Victim     int    `json:"victim"`        // index (0 = first token) of the superseded token whose keys secure the stale chunk
	Timing     string `json:"timing"`        // drawn intent: "before" | "around" | "after"
	OffsetMS   int    `json:"offset_ms"`     // target time of the stale chunk relative to the victim's expiry (negative = before)
	ChannelID  uint32 `json:"channel_id"`
	TokenBase  uint32 `json:"token_base"`  // id of the first token
	TokenSteps []int  `json:"token_steps"` // client kind: id increments chosen by the reference server (cycled)
	FirstSeq   uint32 `json:"first_seq"`   // first sequence number of the reference side (server kind: also of the gopcua server)
	Seed       uint32 `json:"seed"`        // nonces of the reference side are derived from it
	// SkewS (client kind): the reference server's clock differs from the client's
	// by this many seconds (CreatedAt of every token it issues). The expiry the
	// check judges is counted from the moment the token was handed out.
	SkewS int `json:"server_clock_skew_s,omitempty"`
}

var secPolicies = []string{"Basic128Rsa15", "Basic256", "Basic256Sha256", "Aes128_Sha256_RsaOaep", "Aes256_Sha256_RsaPss"}

const (
	// margin after the latest possible expiry from which on delivery is a violation
	hardMargin = 300 * time.Millisecond
	// a chunk written at least this long before the expiry counts as "before"
	beforeMargin = 150 * time.Millisecond
	// bound of every wait of the harness that is not a drawn delay
	waitBound = 25 * time.Second
	// request timeout of the gopcua channel: generous, a loaded machine must not fake a verdict
	requestTimeout = 30 * time.Second
	// how long the fate of the two injected chunks is awaited after they were written
	verdictWait = 10 * time.Second
	// a measured scheduling stall of this size makes a failing verdict inconclusive
	stallLimit = 100 * time.Millisecond

	markStale   = 1
	markControl = 2
)

func (c caseT) lifetime() time.Duration { return time.Duration(c.LifetimeMS) * time.Millisecond }

// lifeMS is the lifetime of the idx-th token of the case.
func (c caseT) lifeMS(idx int) int {
	if idx < len(c.LifesMS) {
		return c.LifesMS[idx]
	}
	return c.LifetimeMS
}

func (c caseT) refPolicy() (*refcodec.Policy, refcodec.Mode) {
	if c.Encrypt {
		return refcodec.PolicyByURI(c.Policy), refcodec.ModeSignAndEncrypt
	}
	return refcodec.PolicyByURI(c.Policy), refcodec.ModeSign
}

func (c caseT) modeName() string {
	if c.Encrypt {
		return "SignAndEncrypt"
	}
	return "Sign"
}

func (c caseT) valid() error {
	p := refcodec.PolicyByURI(c.Policy)
	switch {
	case c.Kind != "client" && c.Kind != "server":
		return fmt.Errorf("kind %q", c.Kind)
	case p == nil || !p.Secure():
		return fmt.Errorf("policy %q", c.Policy)
	case c.LifetimeMS < 200 || c.LifetimeMS > 60000:
		return fmt.Errorf("lifetime %d ms", c.LifetimeMS)
	case len(c.LifesMS) > c.Renewals+1:
		return fmt.Errorf("%d lifetimes for %d tokens", len(c.LifesMS), c.Renewals+1)
	case c.Renewals < 1 || c.Renewals > 8 || len(c.GapsMS) != c.Renewals:
		return fmt.Errorf("%d renewals with %d gaps", c.Renewals, len(c.GapsMS))
	case c.Victim < 0 || c.Victim >= c.Renewals:
		return fmt.Errorf("victim %d of %d renewals is not superseded", c.Victim, c.Renewals)
	case c.ChannelID == 0 || c.TokenBase == 0:
		return fmt.Errorf("channel / token id 0")
	}
	for _, l := range c.LifesMS {
		if l < 200 || l > 60000 {
			return fmt.Errorf("lifetime %d ms", l)
		}
	}
	return nil
}

// nonce derives the idx-th nonce of the reference side from the case seed.
// Distinct per index, so every token has its own keys.
func nonce(seed uint32, idx, n int) []byte {
	var in [12]byte
	binary.LittleEndian.PutUint32(in[0:], seed)
	binary.LittleEndian.PutUint32(in[4:], uint32(idx))
	var out []byte
	for k := uint32(0); len(out) < n; k++ {
		binary.LittleEndian.PutUint32(in[8:], k)
		h := sha256.Sum256(in[:])
		out = append(out, h[:]...)
	}
	return out[:n]
}

// tokenRec is what the reference keeps about every token of the channel.
type tokenRec struct {
	ID       uint32
	CK, SK   *refcodec.Keys // client -> server keys, server -> client keys
	Lifetime time.Duration  // revised lifetime of the token
	// Anchor is a reading of the harness clock taken AFTER the token existed
	// (reference server: after the OPN response was written, its CreatedAt was
	// taken before; reference client: after the OPN response was read). The
	// token's lifetime cannot have started later than this at the issuing side.
	Anchor time.Time
}

func (t tokenRec) expiry() time.Time {
	return t.Anchor.Add(time.Duration(float64(t.Lifetime) * 1.25))
}

// ---------------------------------------------------------------------------
// Outcome of one execution

type outcome struct {
	infra    string // the harness could not bring the case to the injection (no verdict)
	timing   string // realised class of the stale chunk's time: before | around | after
	stale    string // delivered | rejected
	control  string // delivered | lost | down | skipped
	retained int    // victim token still listed by VerifInstances after the outcome was known: 1 yes, 0 no, -1 unknown
	issued   int    // tokens issued on the channel when the stale chunk was written
	late     time.Duration
	stall    time.Duration
	errs     []string
	viol     string
}

func short(err error) string {
	if err == nil {
		return ""
	}
	s := err.Error()
	if len(s) > 120 {
		s = s[:120]
	}
	return s
}

func classify(t0, t1 time.Time, victim tokenRec) (string, time.Duration) {
	exp := victim.expiry()
	switch {
	case !t0.Before(exp.Add(hardMargin)):
		return "after", t0.Sub(exp)
	case !t1.After(exp.Add(-beforeMargin)):
		return "before", t1.Sub(exp)
	}
	return "around", t0.Sub(exp)
}

func sleepUntil(t time.Time) {
	if d := time.Until(t); d > 0 {
		time.Sleep(d)
	}
}

// ---------------------------------------------------------------------------
// Scheduling stall monitor: a goroutine that sleeps 5 ms at a time and records
// when it woke up much later than that. If the process could not serve its
// timers in time while a case ran, a failing verdict of that case is dropped.

type stallEv struct {
	from, to time.Time
	late     time.Duration
}

var stalls struct {
	once sync.Once
	mu   sync.Mutex
	ev   []stallEv
}

func startStallMonitor() {
	stalls.once.Do(func() {
		go func() {
			const tick = 5 * time.Millisecond
			for {
				t0 := time.Now()
				time.Sleep(tick)
				t1 := time.Now()
				if late := t1.Sub(t0) - tick; late >= 30*time.Millisecond {
					stalls.mu.Lock()
					if len(stalls.ev) > 4096 {
						stalls.ev = stalls.ev[2048:]
					}
					stalls.ev = append(stalls.ev, stallEv{t0, t1, late})
					stalls.mu.Unlock()
				}
			}
		}()
	})
}

func maxStall(from, to time.Time) time.Duration {
	stalls.mu.Lock()
	defer stalls.mu.Unlock()
	var m time.Duration
	for _, e := range stalls.ev {
		if e.to.Before(from) || e.from.After(to) {
			continue
		}
		if e.late > m {
			m = e.late
		}
	}
	return m
}

// ---------------------------------------------------------------------------
// Client kind: gopcua client channel <-> reference server

type seenReq struct {
	reqID, handle, tokenID uint32
	svc                    any
}

type refServer struct {
	c    caseT
	pol  *refcodec.Policy
	mode refcodec.Mode

	mu     sync.Mutex // guards sess (writes), seq, tokens
	sess   *refcodec.Session
	seq    uint32
	tokens []tokenRec

	notify chan struct{} // a token was issued
	reqs   chan seenReq  // MSG requests of the client
	done   chan error    // the read loop ended
}

func (s *refServer) tokenID(idx int) uint32 {
	id := s.c.TokenBase
	for i := 0; i < idx; i++ {
		step := 1
		if n := len(s.c.TokenSteps); n > 0 {
			step = s.c.TokenSteps[i%n]
		}
		if step < 1 {
			step = 1
		}
		id += uint32(step)
	}
	return id
}

func (s *refServer) snapshot() []tokenRec {
	s.mu.Lock()
	defer s.mu.Unlock()
	return append([]tokenRec(nil), s.tokens...)
}

// waitTokens waits until n tokens have been issued.
func (s *refServer) waitTokens(n int, d time.Duration) bool {
	deadline := time.After(d)
	for {
		if len(s.snapshot()) >= n {
			return true
		}
		select {
		case <-s.notify:
		case <-time.After(20 * time.Millisecond):
		case <-deadline:
			return len(s.snapshot()) >= n
		}
	}
}

func (s *refServer) serve(ln net.Listener) {
	s.done <- func() error {
		if tl, ok := ln.(*net.TCPListener); ok {
			tl.SetDeadline(time.Now().Add(waitBound))
		}
		conn, err := ln.Accept()
		if err != nil {
			return fmt.Errorf("accept: %w", err)
		}
		defer conn.Close()
		kb := keys.Get("b", 2048)
		sess := refcodec.NewServerSession(conn, kb.Key, kb.Cert, s.c.ChannelID, s.c.TokenBase)
		sess.Timeout = 90 * time.Second
		sess.CreatedAtSkew = time.Duration(s.c.SkewS) * time.Second
		s.mu.Lock()
		s.sess = sess
		s.mu.Unlock()
		if _, err := sess.AcceptHello(refcodec.Acknowledge{ReceiveBufferSize: 65535, SendBufferSize: 65535}); err != nil {
			return fmt.Errorf("HEL: %w", err)
		}
		for {
			f, err := sess.ReadFrame()
			if err != nil {
				return err
			}
			switch refcodec.FrameType(f) {
			case "OPN":
				if err := s.handleOPN(f); err != nil {
					return fmt.Errorf("OPN: %w", err)
				}
			case "MSG":
				if err := s.handleMSG(f); err != nil {
					return fmt.Errorf("MSG: %w", err)
				}
			case "CLO":
				return nil
			default:
				return fmt.Errorf("unexpected frame %q", refcodec.FrameType(f))
			}
		}
	}()
}

func (s *refServer) handleOPN(f []byte) error {
	kb := keys.Get("b", 2048)
	ch, err := refcodec.ParseAsymChunk(f, refcodec.AsymParse{ReceiverKey: kb.Key, ReceiverCert: kb.Cert})
	if err != nil {
		return err
	}
	svc, err := refcodec.DecodeService(ch.Body)
	if err != nil {
		return err
	}
	req, ok := svc.(*ua.OpenSecureChannelRequest)
	if !ok {
		return fmt.Errorf("OPN carries %T", svc)
	}
	s.mu.Lock()
	defer s.mu.Unlock()
	idx := len(s.tokens)
	if ch.PolicyURI != s.pol.URI || refcodec.Mode(req.SecurityMode) != s.mode {
		return fmt.Errorf("client asks for %s / %v, the case is %s / %v", ch.PolicyURI, req.SecurityMode, s.pol.URI, s.mode)
	}
	s.sess.Policy, s.sess.Mode, s.sess.RemoteCert = s.pol, s.mode, ch.SenderCertificate
	s.sess.ClientNonce = req.ClientNonce
	s.sess.TokenID = s.tokenID(idx)
	if idx == 0 {
		s.seq = s.c.FirstSeq
	}
	revised := req.RequestedLifetime
	if idx < len(s.c.LifesMS) {
		revised = uint32(s.c.LifesMS[idx])
	}
	// OpenResponse stamps CreatedAt = now, writes the response and derives the keys
	if _, err := s.sess.OpenResponse(ch.RequestID, s.seq, req.RequestHeader.RequestHandle, nonce(s.c.Seed, idx, s.pol.NonceLen), revised); err != nil {
		return err
	}
	anchor := time.Now()
	s.seq++
	s.tokens = append(s.tokens, tokenRec{ID: s.sess.TokenID, CK: s.sess.ClientKeys, SK: s.sess.ServerKeys,
		Lifetime: time.Duration(revised) * time.Millisecond, Anchor: anchor})
	select {
	case s.notify <- struct{}{}:
	default:
	}
	return nil
}

func (s *refServer) handleMSG(f []byte) error {
	if len(f) < 16 {
		return fmt.Errorf("short MSG")
	}
	id := binary.LittleEndian.Uint32(f[12:])
	var tok *tokenRec
	for _, t := range s.snapshot() {
		if t.ID == id {
			t := t
			tok = &t
		}
	}
	if tok == nil {
		return fmt.Errorf("client used unknown token id %d", id)
	}
	ch, err := refcodec.ParseSymChunk(f, s.pol, s.mode, tok.CK)
	if err != nil {
		return err
	}
	if ch.ChunkType != 'F' {
		return fmt.Errorf("unexpected chunk type %c", ch.ChunkType)
	}
	svc, err := refcodec.DecodeService(ch.Body)
	if err != nil {
		return err
	}
	r := seenReq{reqID: ch.RequestID, tokenID: id, svc: svc}
	if q, ok := svc.(ua.Request); ok && q.Header() != nil {
		r.handle = q.Header().RequestHandle
	}
	select {
	case s.reqs <- r:
	default:
	}
	return nil
}

// send writes one MSG chunk secured with token idx (-1 = the latest token) and
// the next sequence number of the reference server.
func (s *refServer) send(idx int, reqID uint32, body []byte) (tokenRec, error) {
	s.mu.Lock()
	defer s.mu.Unlock()
	if idx < 0 {
		idx = len(s.tokens) - 1
	}
	tok := s.tokens[idx]
	f, err := refcodec.BuildSymChunk(s.pol, s.mode, tok.SK, refcodec.SymHeader{MessageType: "MSG", ChunkType: 'F',
		SecureChannelID: s.c.ChannelID, TokenID: tok.ID, SequenceNumber: s.seq, RequestID: reqID}, body, refcodec.SymOptions{})
	if err != nil {
		return tok, err
	}
	s.seq++
	return tok, s.sess.WriteFrame(f)
}

func readResponse(handle uint32, mark int32) ([]byte, error) {
	return refcodec.EncodeService(&ua.ReadResponse{
		ResponseHeader:  refcodec.NewResponseHeader(handle),
		Results:         []*ua.DataValue{{EncodingMask: ua.DataValueValue, Value: ua.MustVariant(mark)}},
		DiagnosticInfos: []*ua.DiagnosticInfo{},
	})
}

func readRequest(handle uint32, mark int) ([]byte, error) {
	return refcodec.EncodeService(&ua.ReadRequest{
		RequestHeader:      refcodec.NewRequestHeader(handle),
		MaxAge:             float64(mark),
		TimestampsToReturn: ua.TimestampsToReturnNeither,
		NodesToRead:        []*ua.ReadValueID{},
	})
}

func hasToken(sc *uasc.SecureChannel, channel, token uint32) int {
	for _, t := range sc.VerifInstances() {
		if t.ChannelID == channel && t.TokenID == token {
			return 1
		}
	}
	return 0
}

func runClient(c caseT) (o outcome) {
	o.retained = -1
	pol, mode := c.refPolicy()
	L := c.lifetime()
	ctx, cancel := context.WithCancel(context.Background())
	defer cancel()

	ln, err := net.Listen("tcp", "127.0.0.1:0")
	if err != nil {
		o.infra = "listen: " + short(err)
		return
	}
	defer ln.Close()
	srv := &refServer{c: c, pol: pol, mode: mode, notify: make(chan struct{}, 1), reqs: make(chan seenReq, 16), done: make(chan error, 1)}
	go srv.serve(ln)
	closeRef := func() {
		srv.mu.Lock()
		if srv.sess != nil {
			srv.sess.Conn.Close()
		}
		srv.mu.Unlock()
	}
	defer closeRef()

	endpoint := "opc.tcp://" + ln.Addr().String()
	d := &uacp.Dialer{Dialer: &net.Dialer{}, ClientACK: &uacp.Acknowledge{ReceiveBufSize: 65535, SendBufSize: 65535}}
	dctx, dcancel := context.WithTimeout(ctx, waitBound)
	defer dcancel()
	conn, err := d.Dial(dctx, endpoint)
	if err != nil {
		o.infra = "dial: " + short(err)
		return
	}
	defer conn.Close()
	ka, kb := keys.Get("a", 2048), keys.Get("b", 2048)
	// the client takes min(requested, revised): request the largest lifetime of
	// the case, so that every per-token lifetime of the reference server is a
	// downward revision and really takes effect
	reqLife := c.LifetimeMS
	for _, l := range c.LifesMS {
		if l > reqLife {
			reqLife = l
		}
	}
	cfg := &uasc.Config{SecurityPolicyURI: pol.URI, SecurityMode: ua.MessageSecurityMode(mode), Lifetime: uint32(reqLife), RequestTimeout: requestTimeout,
		Certificate: ka.Cert, LocalKey: ka.Key, RemoteCertificate: kb.Cert, Thumbprint: uapolicy.Thumbprint(kb.Cert)}
	errch := make(chan error, 64)
	sc, err := uasc.NewSecureChannel(endpoint, conn, cfg, errch)
	if err != nil {
		o.infra = "new channel: " + short(err)
		return
	}
	defer func() {
		// peer first, so that the dispatcher ends with EOF; then the channel's timers
		closeRef()
		conn.Close()
		go sc.Close()
	}()
	octx, ocancel := context.WithTimeout(ctx, waitBound)
	defer ocancel()
	if err := sc.Open(octx); err != nil {
		o.infra = "open: " + short(err)
		return
	}
	if !srv.waitTokens(1, waitBound) {
		o.infra = "no first token"
		return
	}

	// ---- the drawn renewals
	for i := 1; i <= c.Renewals; i++ {
		g := c.GapsMS[i-1]
		if g >= 0 {
			prev := srv.snapshot()[i-1]
			sleepUntil(prev.Anchor.Add(time.Duration(g) * time.Millisecond))
			if len(srv.snapshot()) < i+1 {
				if err := sc.Renew(ctx); err != nil {
					o.infra = fmt.Sprintf("Renew #%d: %s", i, short(err))
					return
				}
			}
		}
		// g < 0: the client's own timer renews at 0.75 L
		if !srv.waitTokens(i+1, time.Duration(c.lifeMS(i-1))*time.Millisecond+L+waitBound) {
			select {
			case e := <-srv.done:
				o.infra = fmt.Sprintf("renewal #%d did not reach the reference server, which ended: %v", i, e)
			default:
				o.infra = fmt.Sprintf("renewal #%d did not happen", i)
			}
			return
		}
	}
	victim := srv.snapshot()[c.Victim]
	target := victim.expiry().Add(time.Duration(c.OffsetMS) * time.Millisecond)

	// ---- the pending request
	sleepUntil(target.Add(-20 * time.Millisecond))
	type result struct {
		err   error
		marks []int32
	}
	resCh := make(chan result, 1)
	go func() {
		var r result
		req := &ua.ReadRequest{TimestampsToReturn: ua.TimestampsToReturnNeither, NodesToRead: []*ua.ReadValueID{}}
		r.err = sc.SendRequest(ctx, req, nil, func(v ua.Response) error {
			m := int32(-1)
			if rr, ok := v.(*ua.ReadResponse); ok && len(rr.Results) == 1 && rr.Results[0] != nil && rr.Results[0].Value != nil {
				if x, ok := rr.Results[0].Value.Value().(int32); ok {
					m = x
				}
			}
			r.marks = append(r.marks, m)
			return nil
		})
		resCh <- r
	}()
	var seen seenReq
	select {
	case seen = <-srv.reqs:
	case e := <-srv.done:
		o.infra = fmt.Sprintf("reference server ended before the request arrived: %v", e)
		return
	case r := <-resCh:
		o.infra = "request failed before it reached the reference server: " + short(r.err)
		return
	case <-time.After(waitBound):
		o.infra = "request did not reach the reference server"
		return
	}
	if _, ok := seen.svc.(*ua.ReadRequest); !ok {
		o.infra = fmt.Sprintf("reference server saw %T", seen.svc)
		return
	}
	staleBody, err1 := readResponse(seen.handle, markStale)
	ctrlBody, err2 := readResponse(seen.handle, markControl)
	if err1 != nil || err2 != nil {
		o.infra = "encode response"
		return
	}
	sleepUntil(target)

	// ---- the stale chunk, then the control chunk
	t0 := time.Now()
	_, err = srv.send(c.Victim, seen.reqID, staleBody)
	t1 := time.Now()
	if err != nil {
		o.infra = "writing the stale chunk: " + short(err)
		return
	}
	o.issued = len(srv.snapshot())
	o.timing, o.late = classify(t0, t1, victim)
	cur, err := srv.send(-1, seen.reqID, ctrlBody)
	if err != nil {
		o.infra = "writing the control chunk: " + short(err)
		return
	}

	// Both chunks are on the wire, in this order. If neither has reached the
	// pending request after verdictWait the case ends without a verdict (giving
	// up can only miss a delivery, never invent one).
	var r result
	select {
	case r = <-resCh:
	case <-time.After(verdictWait):
		cancel()
		select {
		case r = <-resCh:
		case <-time.After(waitBound):
			o.infra = "SendRequest did not return"
			return
		}
	}
	tEnd := time.Now()
	o.retained = hasToken(sc, c.ChannelID, victim.ID)
	o.stall = maxStall(victim.Anchor, tEnd)
	for len(errch) > 0 {
		o.errs = append(o.errs, short(<-errch))
	}
	switch {
	case len(r.marks) == 1 && r.marks[0] == markStale:
		o.stale, o.control = "delivered", "skipped"
	case len(r.marks) == 1 && r.marks[0] == markControl && r.err == nil:
		o.stale, o.control = "rejected", "delivered"
	case len(r.marks) == 0 && r.err == io.EOF:
		o.stale, o.control = "rejected", "down"
	case len(r.marks) == 0:
		o.stale, o.control = "rejected", "lost"
		o.errs = append(o.errs, "SendRequest: "+short(r.err))
	default:
		o.infra = fmt.Sprintf("handler saw %v, SendRequest returned %v", r.marks, r.err)
		return
	}
	if o.stale == "delivered" && o.timing == "after" {
		o.viol = fmt.Sprintf("client channel (%s/%s, lifetime %v): token %d was replaced (%d tokens issued since) and handed out at least %v before a response chunk secured with its keys was written, i.e. %v after creation + 1.25 x lifetime; the chunk (token id %d, next sequence number) was delivered to the pending request (current token %d; VerifInstances still lists the old token: %v)",
			c.Policy, c.modeName(), L, victim.ID, o.issued-1-c.Victim, t0.Sub(victim.Anchor).Round(time.Millisecond), o.late.Round(time.Millisecond), victim.ID, cur.ID, o.retained == 1)
	}
	return
}

// ---------------------------------------------------------------------------
// Server kind: gopcua server channel <-> reference client

func runServer(c caseT) (o outcome) {
	o.retained = -1
	pol, mode := c.refPolicy()
	L := c.lifetime()
	ctx, cancel := context.WithCancel(context.Background())
	defer cancel()

	ln, err := uacp.Listen(ctx, "opc.tcp://127.0.0.1:0", &uacp.Acknowledge{ReceiveBufSize: 65535, SendBufSize: 65535, MaxChunkCount: 512, MaxMessageSize: 4 << 20})
	if err != nil {
		o.infra = "listen: " + short(err)
		return
	}
	defer ln.Close()
	endpoint := "opc.tcp://" + ln.Addr().String()
	type acc struct {
		c   *uacp.Conn
		err error
	}
	accCh := make(chan acc, 1)
	go func() {
		cc, err := ln.Accept(ctx)
		accCh <- acc{cc, err}
	}()
	tcp, err := net.DialTimeout("tcp", ln.Addr().String(), waitBound)
	if err != nil {
		o.infra = "dial: " + short(err)
		return
	}
	defer tcp.Close()
	ka, kb := keys.Get("a", 2048), keys.Get("b", 2048)
	s := refcodec.NewClientSession(tcp, pol, mode, ka.Key, ka.Cert, kb.Cert)
	s.Timeout = waitBound
	if _, err := s.Hello(refcodec.Hello{ReceiveBufferSize: 65535, SendBufferSize: 65535, EndpointURL: endpoint}); err != nil {
		o.infra = "HEL: " + short(err)
		return
	}
	var conn *uacp.Conn
	select {
	case a := <-accCh:
		if a.err != nil {
			o.infra = "accept: " + short(a.err)
			return
		}
		conn = a.c
	case <-time.After(waitBound):
		o.infra = "accept timed out"
		return
	}
	defer conn.Close()
	errch := make(chan error, 64)
	scfg := &uasc.Config{SecurityPolicyURI: ua.SecurityPolicyURINone, SecurityMode: ua.MessageSecurityModeNone, Lifetime: 3600_000, RequestTimeout: requestTimeout,
		Certificate: kb.Cert, LocalKey: kb.Key}
	sc, err := uasc.NewServerSecureChannel(endpoint, conn, scfg, errch, c.ChannelID, c.FirstSeq, c.TokenBase)
	if err != nil {
		o.infra = "new channel: " + short(err)
		return
	}
	results := make(chan *uasc.MessageBody, 256)
	go func() {
		for {
			m := sc.Receive(ctx)
			select {
			case results <- m:
			default:
			}
			if m.Err == io.EOF || ctx.Err() != nil {
				return
			}
		}
	}()

	// ---- OPN exchanges of the reference client
	seq, reqID := c.FirstSeq, uint32(1)
	var tokens []tokenRec
	open := func() error {
		idx := len(tokens)
		want := time.Duration(c.lifeMS(idx)) * time.Millisecond
		if _, err := s.OpenRequest(reqID, seq, idx > 0, nonce(c.Seed, idx, pol.NonceLen), uint32(c.lifeMS(idx))); err != nil {
			return err
		}
		seq++
		reqID++
		resp, _, err := s.ReadOpenResponse()
		if err != nil {
			return err
		}
		anchor := time.Now()
		lt := time.Duration(resp.SecurityToken.RevisedLifetime) * time.Millisecond
		if lt < want {
			lt = want // never judge earlier than the lifetime the client asked for
		}
		tokens = append(tokens, tokenRec{ID: s.TokenID, CK: s.ClientKeys, SK: s.ServerKeys, Lifetime: lt, Anchor: anchor})
		return nil
	}
	if err := open(); err != nil {
		o.infra = "OPN: " + short(err)
		return
	}
	if s.ChannelID != c.ChannelID {
		o.infra = fmt.Sprintf("server issued channel id %d", s.ChannelID)
		return
	}
	renewAfter := func(t tokenRec) time.Duration { return time.Duration(float64(t.Lifetime) * 0.75) }
	for i := 1; i <= c.Renewals; i++ {
		g := renewAfter(tokens[i-1])
		if c.GapsMS[i-1] >= 0 {
			g = time.Duration(c.GapsMS[i-1]) * time.Millisecond
		}
		sleepUntil(tokens[i-1].Anchor.Add(g))
		if err := open(); err != nil {
			o.infra = fmt.Sprintf("renewal #%d: %s", i, short(err))
			return
		}
	}
	for i, t := range tokens {
		for _, u := range tokens[:i] {
			if u.ID == t.ID {
				o.infra = fmt.Sprintf("server issued token id %d twice", t.ID)
				return
			}
		}
	}
	victim := tokens[c.Victim]
	target := victim.expiry().Add(time.Duration(c.OffsetMS) * time.Millisecond)
	// a real client keeps renewing at 0.75 L, so that the current token is alive at the control
	for {
		due := tokens[len(tokens)-1].Anchor.Add(renewAfter(tokens[len(tokens)-1]))
		if !due.Before(target.Add(-50 * time.Millisecond)) {
			break
		}
		sleepUntil(due)
		if err := open(); err != nil {
			o.infra = "keep-alive renewal: " + short(err)
			return
		}
	}
	staleBody, err1 := readRequest(reqID, markStale)
	ctrlBody, err2 := readRequest(reqID+1, markControl)
	if err1 != nil || err2 != nil {
		o.infra = "encode request"
		return
	}
	build := func(tok tokenRec, id uint32, body []byte) ([]byte, error) {
		f, err := refcodec.BuildSymChunk(pol, mode, tok.CK, refcodec.SymHeader{MessageType: "MSG", ChunkType: 'F',
			SecureChannelID: c.ChannelID, TokenID: tok.ID, SequenceNumber: seq, RequestID: id}, body, refcodec.SymOptions{})
		seq++
		return f, err
	}
	cur := tokens[len(tokens)-1]
	staleFrame, err1 := build(victim, reqID, staleBody)
	ctrlFrame, err2 := build(cur, reqID+1, ctrlBody)
	if err1 != nil || err2 != nil {
		o.infra = "build chunk"
		return
	}
	sleepUntil(target)

	// ---- the stale chunk, then the control chunk
	t0 := time.Now()
	err = s.WriteFrame(staleFrame)
	t1 := time.Now()
	if err != nil {
		o.infra = "writing the stale chunk: " + short(err)
		return
	}
	o.issued = len(tokens)
	o.timing, o.late = classify(t0, t1, victim)
	if err := s.WriteFrame(ctrlFrame); err != nil {
		o.infra = "writing the control chunk: " + short(err)
		return
	}

	staleSeen, ctrlSeen, down := false, false, false
	deadline := time.After(verdictWait)
wait:
	for !ctrlSeen {
		select {
		case m := <-results:
			switch {
			case m.Err == io.EOF:
				down = true
				break wait
			case m.Err != nil:
				o.errs = append(o.errs, short(m.Err))
			default:
				if rr, ok := m.Request().(*ua.ReadRequest); ok {
					switch int(rr.MaxAge) {
					case markStale:
						staleSeen = true
					case markControl:
						ctrlSeen = true
					}
				}
			}
		case <-deadline:
			break wait
		}
	}
	tEnd := time.Now()
	o.retained = hasToken(sc, c.ChannelID, victim.ID)
	o.stall = maxStall(victim.Anchor, tEnd)
	switch {
	case staleSeen:
		o.stale, o.control = "delivered", "skipped"
		if ctrlSeen {
			o.control = "delivered"
		}
	case ctrlSeen:
		o.stale, o.control = "rejected", "delivered"
	case down:
		o.stale, o.control = "rejected", "down"
	default:
		o.stale, o.control = "rejected", "lost"
	}
	if o.stale == "delivered" && o.timing == "after" {
		o.viol = fmt.Sprintf("server channel (%s/%s, lifetime %v): token %d was replaced (%d tokens issued since) and its OPN response was received at least %v before a request chunk secured with its keys was written, i.e. %v after creation + 1.25 x lifetime; Receive returned the request (token id %d, next sequence number) as a message (current token %d; VerifInstances still lists the old token: %v)",
			c.Policy, c.modeName(), L, victim.ID, o.issued-1-c.Victim, t0.Sub(victim.Anchor).Round(time.Millisecond), o.late.Round(time.Millisecond), victim.ID, cur.ID, o.retained == 1)
	}
	return
}

func execute(c caseT) outcome {
	if err := c.valid(); err != nil {
		return outcome{infra: "invalid case: " + err.Error(), retained: -1}
	}
	startStallMonitor()
	if c.Kind == "client" {
		return runClient(c)
	}
	return runServer(c)
}

// ---------------------------------------------------------------------------
// Generator

// genMixed: the tokens of one channel have different lifetimes, the victim a
// short one and an older token a long one, so that tokens do not expire in the
// order in which they were issued (added after seeded change C17-B).
func genMixed(t *rapid.T) caseT {
	var c caseT
	c.Kind = rapid.SampledFrom([]string{"client", "server"}).Draw(t, "kind")
	c.Policy = rapid.SampledFrom(secPolicies).Draw(t, "policy")
	c.Encrypt = rapid.Bool().Draw(t, "encrypt")
	L := rapid.IntRange(400, 900).Draw(t, "l")
	c.LifetimeMS = L
	c.Renewals = rapid.IntRange(2, 3).Draw(t, "renewals")
	c.Victim = rapid.IntRange(1, c.Renewals-1).Draw(t, "victim")
	for i := 0; i <= c.Renewals; i++ {
		c.LifesMS = append(c.LifesMS, L*rapid.SampledFrom([]int{1, 2, 3, 4}).Draw(t, "mult"))
	}
	c.LifesMS[c.Victim] = L
	c.LifesMS[rapid.IntRange(0, c.Victim-1).Draw(t, "longOlder")] = L * rapid.IntRange(3, 5).Draw(t, "longMult")
	sumAfter := 0
	for i := 1; i <= c.Renewals; i++ {
		g := rapid.IntRange(20, L/5).Draw(t, "gap")
		c.GapsMS = append(c.GapsMS, g)
		if i > c.Victim {
			sumAfter += g
		}
	}
	if rapid.IntRange(0, 4).Draw(t, "timing") == 0 {
		c.Timing = "before"
		hi := L*5/4 - sumAfter - 60
		if hi < 151 {
			hi = 151
		}
		c.OffsetMS = -rapid.IntRange(150, hi).Draw(t, "offBefore")
	} else {
		c.Timing = "after"
		c.OffsetMS = rapid.IntRange(300, 800).Draw(t, "offAfter")
	}
	c.ChannelID = rapid.Uint32Range(1, 1<<24).Draw(t, "channel")
	c.TokenBase = rapid.Uint32Range(1, 1<<24).Draw(t, "token")
	for i := 0; i < 4; i++ {
		c.TokenSteps = append(c.TokenSteps, rapid.SampledFrom([]int{1, 1, 2, 7, 1000}).Draw(t, "step"))
	}
	c.FirstSeq = rapid.Uint32Range(1, 100000).Draw(t, "seq")
	c.Seed = rapid.Uint32().Draw(t, "seed")
	return c
}

// genSkew: a third of the client-kind cases meet a server whose clock is off.
func genSkew(t *rapid.T, c *caseT) {
	if c.Kind == "client" && rapid.IntRange(0, 2).Draw(t, "skewed") == 0 {
		c.SkewS = rapid.SampledFrom([]int{3600, 86400, 30, -30, -3600}).Draw(t, "skew")
	}
}

func genCase(t *rapid.T) caseT {
	if rapid.IntRange(0, 3).Draw(t, "mixedLifetimes") == 0 {
		c := genMixed(t)
		genSkew(t, &c)
		return c
	}
	var c caseT
	c.Kind = rapid.SampledFrom([]string{"client", "server"}).Draw(t, "kind")
	c.Policy = rapid.SampledFrom(secPolicies).Draw(t, "policy")
	c.Encrypt = rapid.Bool().Draw(t, "encrypt")
	if rapid.IntRange(0, 2).Draw(t, "lk") == 0 {
		c.LifetimeMS = rapid.SampledFrom([]int{400, 500, 750, 1000, 1250, 1500}).Draw(t, "lfix")
	} else {
		c.LifetimeMS = rapid.IntRange(400, 1500).Draw(t, "l")
	}
	L := c.LifetimeMS
	c.Renewals = rapid.IntRange(1, 3).Draw(t, "renewals")
	c.Timing = rapid.SampledFrom([]string{"after", "after", "after", "before", "before", "around"}).Draw(t, "timing")
	c.Victim = rapid.IntRange(0, c.Renewals-1).Draw(t, "victim")
	sumAfter := 0
	for i := 1; i <= c.Renewals; i++ {
		var g int
		switch {
		case c.Timing != "after" && i > c.Victim:
			// the renewals that follow the victim must be over well before it expires
			g = rapid.IntRange(20, L/6).Draw(t, "gapShort")
		case rapid.IntRange(0, 2).Draw(t, "gk") == 0:
			g = -1
		default:
			g = rapid.IntRange(20, L/2).Draw(t, "gap")
		}
		c.GapsMS = append(c.GapsMS, g)
		if i > c.Victim {
			if g < 0 {
				sumAfter += L * 3 / 4
			} else {
				sumAfter += g
			}
		}
	}
	switch c.Timing {
	case "before":
		hi := L*5/4 - sumAfter - 60
		if hi < 151 {
			hi = 151
		}
		c.OffsetMS = -rapid.IntRange(150, hi).Draw(t, "offBefore")
	case "around":
		c.OffsetMS = rapid.IntRange(-149, 299).Draw(t, "offAround")
	default:
		c.OffsetMS = rapid.IntRange(300, 1000).Draw(t, "offAfter")
	}
	c.ChannelID = rapid.Uint32Range(1, 1<<24).Draw(t, "channel")
	c.TokenBase = rapid.Uint32Range(1, 1<<24).Draw(t, "token")
	for i := 0; i < 4; i++ {
		c.TokenSteps = append(c.TokenSteps, rapid.SampledFrom([]int{1, 1, 2, 7, 1000}).Draw(t, "step"))
	}
	c.FirstSeq = rapid.Uint32Range(1, 100000).Draw(t, "seq")
	c.Seed = rapid.Uint32().Draw(t, "seed")
	genSkew(t, &c)
	return c
}

// ---------------------------------------------------------------------------
// Recording and verdict

func record(c caseT, o outcome) {
	b, _ := json.Marshal(c)
	key := ev.Hash("C17", b)
	cfg := fmt.Sprintf("%s/%s/%s", c.Policy, c.modeName(), c.Kind)
	if o.infra != "" {
		rec.Inconclusive()
		slug := o.infra
		if i := strings.IndexAny(slug, ":#"); i > 0 {
			slug = slug[:i]
		}
		rec.Case(false, key, "infra:"+c.Kind+":"+slug, "cfg:"+cfg)
		return
	}
	definite := o.stale == "delivered" || o.control == "delivered"
	nTimer := 0
	for _, g := range c.GapsMS {
		if g < 0 {
			nTimer++
		}
	}
	driven := fmt.Sprintf("at-0.75L=%d,after-drawn-delay=%d", nTimer, len(c.GapsMS)-nTimer)
	classes := []string{
		"cfg:" + cfg,
		fmt.Sprintf("verdict:%s/%s/stale-%s,control-%s", c.Kind, o.timing, o.stale, o.control),
		fmt.Sprintf("history:%s/renewals=%d/victim=%d/tokens-after-victim=%d", c.Kind, c.Renewals, c.Victim, o.issued-1-c.Victim),
		fmt.Sprintf("renewals-by:%s/%s", c.Kind, driven),
		fmt.Sprintf("retained:%s/%s/%v", c.Kind, o.timing, o.retained == 1),
		fmt.Sprintf("intent:%s->%s", c.Timing, o.timing),
	}
	if c.SkewS != 0 {
		classes = append(classes, fmt.Sprintf("server-clock-skew:%ds/%s/stale-%s,control-%s", c.SkewS, o.timing, o.stale, o.control))
	}
	if len(c.LifesMS) > 0 {
		classes = append(classes, "mixed-lifetimes:"+c.Kind+"/"+o.timing+"(victim expires before an older token)")
	}
	if o.timing == "after" {
		classes = append(classes, fmt.Sprintf("after:%s/stale-%s", cfg, o.stale))
	}
	if o.timing == "before" {
		classes = append(classes, fmt.Sprintf("before:%s/stale-%s", cfg, o.stale))
	}
	if o.stall >= stallLimit {
		classes = append(classes, "stall>=100ms")
	}
	rec.Case(definite, key, classes...)
	if definite && rec.WantSample() {
		rec.Sample(map[string]any{"case": c, "timing": o.timing, "stale_chunk": o.stale, "control_chunk": o.control,
			"written_relative_to_expiry_ms": o.late.Milliseconds(), "tokens_issued": o.issued, "victim_retained": o.retained == 1, "channel_errors": o.errs})
	}
}

// confirm re-executes a failing case: a violation needs three failing
// executions during which the process measured no scheduling stall, and no
// execution in which the stale chunk was rejected after the expiry. Executions
// without a verdict (stalled, or the case did not get to the injection) do not
// count either way; at most four re-executions.
func confirm(c caseT, first outcome) (string, bool) {
	fails, msg := 0, ""
	if first.stall < stallLimit {
		fails, msg = 1, first.viol
	}
	for attempt := 0; attempt < 4 && fails < 3; attempt++ {
		o := execute(c)
		switch {
		case o.viol != "" && o.stall < stallLimit:
			fails++
			msg = o.viol
		case o.viol == "" && o.infra == "" && o.timing == "after" && o.stale == "rejected":
			return "", false
		}
	}
	if fails < 3 {
		return "", false
	}
	return msg + " (3 failing executions, none passing)", true
}

func TestExpiredToken(t *testing.T) {
	startStallMonitor()
	rapid.Check(t, func(t *rapid.T) {
		n := ev.Pick(12, 16)
		cases := make([]caseT, n)
		for i := range cases {
			cases[i] = genCase(t)
		}
		rec.Journal("TestExpiredToken", cases)
		outs := make([]outcome, n)
		var wg sync.WaitGroup
		for i := range cases {
			wg.Add(1)
			go func(i int) {
				defer wg.Done()
				outs[i] = execute(cases[i])
			}(i)
		}
		wg.Wait()
		rec.JournalDone("TestExpiredToken")
		for i, c := range cases {
			record(c, outs[i])
			if o := outs[i]; o.infra != "" || o.control == "lost" || o.control == "down" {
				b, _ := json.Marshal(c)
				fmt.Printf("C17 no verdict: infra=%q timing=%s stale=%s control=%s stall=%v errors=%v case=%s\n", o.infra, o.timing, o.stale, o.control, o.stall, o.errs, b)
			}
		}
		for i, c := range cases {
			if outs[i].viol == "" {
				continue
			}
			msg, ok := confirm(c, outs[i])
			if !ok {
				rec.Inconclusive()
				rec.Class("unconfirmed-failure")
				b, _ := json.Marshal(c)
				fmt.Printf("C17 unconfirmed failure (stall %v): %s case=%s\n", outs[i].stall, outs[i].viol, b)
				continue
			}
			rec.Fail(t, "TestExpiredToken", c, "%s", msg)
		}
	})
}

// TestReplay re-executes a saved case (or a journalled batch) without rapid:
// three executions, a violation only if all three fail.
func TestReplay(t *testing.T) {
	rp, err := ev.LoadReplay()
	if err != nil {
		t.Fatal(err)
	}
	if rp == nil {
		t.Skip("no VERIF_REPLAY")
	}
	fmt.Println("REPLAYED structured")
	var cases []caseT
	var one caseT
	if err := json.Unmarshal(rp.Case, &one); err == nil && one.Kind != "" {
		cases = []caseT{one}
	} else if err := json.Unmarshal(rp.Case, &cases); err != nil {
		t.Fatalf("replay case: %v", err)
	}
	for _, c := range cases {
		if err := c.valid(); err != nil {
			t.Fatalf("replay case: %v", err)
		}
		bad, last := 0, ""
		for i := 0; i < 3; i++ {
			o := execute(c)
			fmt.Printf("execution %d: infra=%q timing=%s stale=%s control=%s written %v after expiry, stall %v, errors %v\n", i+1, o.infra, o.timing, o.stale, o.control, o.late.Round(time.Millisecond), o.stall, o.errs)
			if o.viol != "" && o.stall < stallLimit {
				bad++
				last = o.viol
			}
		}
		if bad == 3 {
			t.Fatalf("property C17 violated: %s (3/3 executions)", last)
		}
	}
}
