// Package c30 decides property C30: the server only opens channels with
// security settings it enabled, and advertises exactly those settings.
//
// Domain: server configurations = subsets of the 11 valid (policy, mode) pairs
// (stack.AllSec): all singletons, all complements of singletons, rapid-drawn
// subsets (thorough: every non-empty subset). Per server a fixed battery of
// OpenSecureChannel attempts with EXPLICIT client settings (never endpoint
// selection):
//
//	uasc         gopcua raw client channel (uacp.Dial + uasc.NewSecureChannel + Open), the 11 valid pairs
//	uasc-forced  the same with invalid combinations the constructor refuses, forced into the
//	             channel's config after construction (None with Sign / SignAndEncrypt)
//	ref          the independent reference client of pkg/refcodec (not gopcua): the full grid
//	             6 policies x wire modes {0 Invalid, 1 None, 2 Sign, 3 SignAndEncrypt} plus an unknown policy URI;
//	             for policy != None with mode None it also accepts an OPN response sent in the clear
//	ref-renew    reference client: open with the first configured pair, then send a RENEW OpenSecureChannel
//	             request asking for another (unconfigured) valid pair
//	opcua        opcua.NewClient(SecurityPolicy, SecurityMode, ...).Dial, the 11 valid pairs + 2 invalid ones
//
// Oracle (written from the property text): the set of (policy URI, mode) of the
// advertised endpoints == the configured set; an attempt yields a usable channel
// (OPN answered with a security token AND a first GetEndpoints request answered
// on it) <=> its pair is configured.
package c30

import (
	"context"
	"crypto/sha256"
	"encoding/json"
	"fmt"
	"net"
	"os"
	"sort"
	"strings"
	"sync"
	"testing"
	"time"

	"github.com/gopcua/opcua"
	"github.com/gopcua/opcua/ua"
	"github.com/gopcua/opcua/uacp"
	"github.com/gopcua/opcua/uapolicy"
	"github.com/gopcua/opcua/uasc"
	"pgregory.net/rapid"

	"verif/pkg/ev"
	"verif/pkg/keys"
	"verif/pkg/refcodec"
	"verif/pkg/stack"
)

func TestMain(m *testing.M) { ev.Main(m) }

const prefix = "http://opcfoundation.org/UA/SecurityPolicy#"

// sigOpen is the signature of the (possible) open known finding: a channel
// opened although its pair is not configured.
const sigOpen = "opn-accepted-unconfigured-pair"

var rec = ev.For("C30", "server configurations = subsets of the 11 valid (policy, mode) pairs (singletons, complements of singletons, rapid-drawn subsets; thorough: every non-empty subset), one real server each; per server a fixed battery of explicit OpenSecureChannel attempts (gopcua raw channel, gopcua channel with forced invalid settings, independent reference client over the full policy x wire-mode grid incl. an unknown policy, reference client renewing towards another pair, opcua.NewClient); one case = (configuration, attempt); non-trivial = configuration is neither empty nor all 11 pairs, so configured and unconfigured valid pairs coexist on the same server; distinct by hash of (configuration, attempt)")

// fragments of the six supported policy URIs, in the order of stack.AllSec
var policyFragments = []string{"None", "Basic128Rsa15", "Basic256", "Basic256Sha256", "Aes128_Sha256_RsaOaep", "Aes256_Sha256_RsaPss"}

const unknownFragment = "Vendor_Unknown"

type attempt struct {
	Client string `json:"client"` // uasc | uasc-forced | ref | ref-as-renew | ref-renew | opcua
	Policy string `json:"policy"` // URI fragment
	Mode   int    `json:"mode"`   // wire value of MessageSecurityMode
}

func (a attempt) String() string {
	return fmt.Sprintf("%s:%s/%s", a.Client, a.Policy, modeName(a.Mode))
}

func modeName(m int) string {
	switch m {
	case 0:
		return "Invalid"
	case 1:
		return "None"
	case 2:
		return "Sign"
	case 3:
		return "SignAndEncrypt"
	}
	return fmt.Sprintf("Mode%d", m)
}

type caseT struct {
	Config   []int     `json:"config"` // sorted indices into stack.AllSec
	Pairs    []string  `json:"config_pairs,omitempty"`
	Attempts []attempt `json:"attempts"`
}

type outcome struct {
	Opened    bool     // an OPN response with a security token arrived (Open returned nil)
	Answered  bool     // the first request on the channel was answered with a GetEndpointsResponse
	Closed    bool     // the server closed the connection / sent ERR
	Infra     bool     // could not even reach the server (TCP / HEL-ACK): infrastructure
	Skip      bool     // attempt does not apply to this configuration
	NotSent   bool     // the client library refused the settings itself, nothing reached the server
	Endpoints []string // sorted "fragment/mode" of the endpoints in the answer
	Detail    string
	Dur       time.Duration
}

func (o outcome) usable() bool { return o.Opened && o.Answered }

// ---------------------------------------------------------------------------
// the battery

func validPair(frag string, mode int) bool {
	if frag == "None" {
		return mode == 1
	}
	for _, f := range policyFragments[1:] {
		if f == frag {
			return mode == 2 || mode == 3
		}
	}
	return false
}

func battery() []attempt {
	var as []attempt
	for _, s := range stack.AllSec {
		as = append(as, attempt{"uasc", s.Policy, int(s.Mode)})
	}
	// (policy != None with mode None cannot be forced into the gopcua channel: it
	// divides by zero before anything is sent; the reference client covers it)
	as = append(as, attempt{"uasc-forced", "None", 2}, attempt{"uasc-forced", "None", 3})
	for _, f := range policyFragments {
		for m := 0; m <= 3; m++ {
			as = append(as, attempt{"ref", f, m})
		}
	}
	as = append(as, attempt{"ref", unknownFragment, 1}, attempt{"ref", unknownFragment, 2})
	// mode values outside the enumeration
	for _, f := range []string{"None", "Basic256Sha256"} {
		for _, m := range []int{4, 255} {
			as = append(as, attempt{"ref", f, m})
		}
	}
	// the same, but the FIRST OpenSecureChannel request of the connection says
	// RequestType = Renew (no conforming client does; added after seed C30-B)
	for _, f := range policyFragments {
		for m := 0; m <= 3; m++ {
			as = append(as, attempt{"ref-as-renew", f, m})
		}
	}
	// renewal of a channel that was opened with a configured pair, asking for another pair
	for _, sec := range stack.AllSec {
		as = append(as, attempt{"ref-renew", sec.Policy, int(sec.Mode)})
	}
	for _, s := range stack.AllSec {
		as = append(as, attempt{"opcua", s.Policy, int(s.Mode)})
	}
	as = append(as, attempt{"opcua", "Basic256Sha256", 1}, attempt{"opcua", "None", 2})
	return as
}

var clientKey = func() *keys.Pair { return keys.Get("a", 2048) }
var serverKey = func() *keys.Pair { return keys.Get("b", 2048) }

func pairName(frag string, mode int) string { return frag + "/" + modeName(mode) }

func epNames(eps []*ua.EndpointDescription) []string {
	set := map[string]bool{}
	for _, e := range eps {
		if e == nil {
			continue
		}
		set[pairName(strings.TrimPrefix(e.SecurityPolicyURI, prefix), int(e.SecurityMode))] = true
	}
	out := make([]string, 0, len(set))
	for k := range set {
		out = append(out, k)
	}
	sort.Strings(out)
	return out
}

// tryUASC opens a raw gopcua client channel with explicit settings.
func tryUASC(url string, a attempt, forced bool, timeout time.Duration) (o outcome) {
	defer func() {
		if r := recover(); r != nil {
			// the CLIENT library panicked on settings it does not support: no channel
			o.Detail = fmt.Sprintf("client panic: %v", r)
		}
	}()
	ctx, cancel := context.WithTimeout(context.Background(), 2*timeout+5*time.Second)
	defer cancel()
	ack := *uacp.DefaultClientACK
	d := &uacp.Dialer{Dialer: &net.Dialer{Timeout: 10 * time.Second}, ClientACK: &ack}
	conn, err := d.Dial(ctx, url)
	if err != nil {
		o.Infra, o.Detail = true, "dial: "+err.Error()
		return
	}
	defer conn.Close()
	uri := prefix + a.Policy
	mode := ua.MessageSecurityMode(a.Mode)
	ck, sk := clientKey(), serverKey()
	cfg := &uasc.Config{SecurityPolicyURI: uri, SecurityMode: mode, Lifetime: 3600_000, RequestTimeout: timeout}
	if uri != ua.SecurityPolicyURINone || forced {
		cfg.Certificate = ck.Cert
		cfg.LocalKey = ck.Key
		cfg.RemoteCertificate = sk.Cert
		cfg.Thumbprint = uapolicy.Thumbprint(sk.Cert)
	}
	if forced {
		// the constructor refuses invalid combinations: construct with a valid
		// one, then force the wanted settings into the config the channel reads
		if uri == ua.SecurityPolicyURINone {
			cfg.SecurityMode = ua.MessageSecurityModeNone
		} else {
			cfg.SecurityMode = ua.MessageSecurityModeSign
		}
	}
	errch := make(chan error, 16)
	sc, err := uasc.NewSecureChannel(url, conn, cfg, errch)
	if err != nil {
		o.Detail, o.NotSent = "client refused the settings: "+err.Error(), true
		return
	}
	if forced {
		cfg.SecurityMode = mode
	}
	if err := sc.Open(ctx); err != nil {
		o.Detail = "open: " + err.Error()
		o.Closed = strings.Contains(err.Error(), "EOF")
		return
	}
	o.Opened = true
	err = sc.SendRequest(ctx, &ua.GetEndpointsRequest{EndpointURL: url}, nil, func(r ua.Response) error {
		if resp, ok := r.(*ua.GetEndpointsResponse); ok {
			o.Answered = true
			o.Endpoints = epNames(resp.Endpoints)
			return nil
		}
		return fmt.Errorf("got %T", r)
	})
	if err != nil {
		o.Detail = "request: " + err.Error()
	}
	sc.Close()
	return
}

// tryOpcua goes through the high-level client with explicit options.
func tryOpcua(url string, a attempt, timeout time.Duration) (o outcome) {
	defer func() {
		if r := recover(); r != nil {
			o.Detail = fmt.Sprintf("client panic: %v", r)
		}
	}()
	ctx, cancel := context.WithTimeout(context.Background(), 2*timeout+5*time.Second)
	defer cancel()
	ck, sk := clientKey(), serverKey()
	opts := []opcua.Option{opcua.SecurityPolicy(a.Policy), opcua.SecurityMode(ua.MessageSecurityMode(a.Mode)),
		opcua.AutoReconnect(false), opcua.RequestTimeout(timeout)}
	if a.Policy != "None" {
		opts = append(opts, opcua.PrivateKey(ck.Key), opcua.Certificate(ck.Cert), opcua.RemoteCertificate(sk.Cert))
	}
	c, err := opcua.NewClient(url, opts...)
	if err != nil {
		o.Detail = "client refused the settings: " + err.Error()
		return
	}
	if err := c.Dial(ctx); err != nil {
		o.Detail = "dial: " + err.Error()
		o.NotSent = strings.Contains(err.Error(), "invalid channel config")
		// a TCP-level failure is infrastructure; everything after HEL/ACK is the server's answer
		if _, ok := err.(*net.OpError); ok {
			o.Infra = true
		}
		o.Closed = strings.Contains(err.Error(), "EOF")
		return
	}
	defer c.Close(ctx)
	o.Opened = true
	resp, err := c.GetEndpoints(ctx)
	if err != nil {
		o.Detail = "request: " + err.Error()
		return
	}
	o.Answered = true
	o.Endpoints = epNames(resp.Endpoints)
	return
}

// tryRef plays the client with the independent reference implementation.
func tryRef(url string, a attempt, timeout time.Duration) (o outcome) {
	return tryRefType(url, a, false, timeout)
}

// tryRefType: asRenew sets RequestType = Renew in the first (and only) OPN request.
func tryRefType(url string, a attempt, asRenew bool, timeout time.Duration) (o outcome) {
	defer func() {
		if r := recover(); r != nil {
			o.Infra, o.Detail = true, fmt.Sprintf("reference client panic: %v", r)
		}
	}()
	hostport := strings.TrimPrefix(url, "opc.tcp://")
	c, err := net.DialTimeout("tcp", hostport, 10*time.Second)
	if err != nil {
		o.Infra, o.Detail = true, "dial: "+err.Error()
		return
	}
	defer c.Close()
	pol := refcodec.PolicyByURI(a.Policy)
	if pol == nil {
		// unknown policy URI: nothing to secure the chunk with, sent in the clear
		pol = &refcodec.Policy{Name: a.Policy, URI: prefix + a.Policy}
	}
	ck, sk := clientKey(), serverKey()
	s := refcodec.NewClientSession(c, pol, refcodec.Mode(a.Mode), ck.Key, ck.Cert, sk.Cert)
	s.Timeout = timeout
	if _, err := s.Hello(refcodec.Hello{ReceiveBufferSize: 65535, SendBufferSize: 65535, EndpointURL: url}); err != nil {
		o.Infra, o.Detail = true, "hello: "+err.Error()
		return
	}
	var nonce []byte
	if pol.NonceLen > 0 {
		h := sha256.Sum256([]byte(a.String()))
		nonce = h[:pol.NonceLen]
	}
	if _, err := s.OpenRequest(1, 1, asRenew, nonce, 3600_000); err != nil {
		o.Detail = "send OPN: " + err.Error()
		return
	}
	if _, ch, err := s.ReadOpenResponse(); err != nil {
		o.Detail = "OPN response: " + err.Error()
		o.Closed = refClosed(err)
		// A client that asked for a real policy with mode None may get its
		// response in the clear (nothing is secured in mode None): take it.
		if !(pol.Secure() && a.Mode == 1 && lenientOpen(s, ch)) {
			return
		}
		o.Detail = "OPN response accepted although sent in the clear under " + pol.Name
	}
	o.Opened = true
	body, err := refcodec.EncodeService(&ua.GetEndpointsRequest{RequestHeader: refcodec.NewRequestHeader(2), EndpointURL: url})
	if err != nil {
		o.Infra, o.Detail = true, "encode: "+err.Error()
		return
	}
	if _, err := s.SendMSG("MSG", 2, 2, 'F', body); err != nil {
		o.Detail = "send MSG: " + err.Error()
		return
	}
	m, err := s.ReadMessage()
	if err != nil {
		o.Detail = "MSG response: " + err.Error()
		return
	}
	if resp, ok := m.Service.(*ua.GetEndpointsResponse); ok {
		o.Answered = true
		o.Endpoints = epNames(resp.Endpoints)
	} else {
		o.Detail = fmt.Sprintf("MSG response carries %T", m.Service)
	}
	return
}

func refClosed(err error) bool {
	_, isErr := err.(*refcodec.UACPError)
	return isErr || strings.Contains(err.Error(), "EOF") || strings.Contains(err.Error(), "reset")
}

// lenientOpen reads an OPN response that was sent without any protection
// although its security header names a real policy, and continues the
// conversation unprotected. Reports whether the chunk held such a response.
func lenientOpen(s *refcodec.Session, ch *refcodec.Chunk) bool {
	if ch == nil || ch.MessageType != "OPN" || ch.SecurityHeaderLen == 0 {
		return false
	}
	pos := refcodec.HeaderLen + ch.SecurityHeaderLen + refcodec.SeqHeaderLen
	if len(ch.Raw) <= pos {
		return false
	}
	svc, err := refcodec.DecodeService(ch.Raw[pos:])
	if err != nil {
		return false
	}
	resp, ok := svc.(*ua.OpenSecureChannelResponse)
	if !ok || resp.SecurityToken == nil {
		return false
	}
	s.ChannelID, s.TokenID = resp.SecurityToken.ChannelID, resp.SecurityToken.TokenID
	s.Policy, s.Mode = refcodec.PolicyByURI("None"), refcodec.ModeNone
	return true
}

// tryRenew opens a channel with the configured pair `first` and then sends a
// renew OPN that asks for the pair of a. Opened/Answered describe the RENEWED
// channel: Opened = the renew was answered with a token, Answered = a request
// secured with the new token's keys was answered.
func tryRenew(url string, first stack.Sec, a attempt, timeout time.Duration) (o outcome) {
	defer func() {
		if r := recover(); r != nil {
			o.Infra, o.Detail = true, fmt.Sprintf("reference client panic: %v", r)
		}
	}()
	c, err := net.DialTimeout("tcp", strings.TrimPrefix(url, "opc.tcp://"), 10*time.Second)
	if err != nil {
		o.Infra, o.Detail = true, "dial: "+err.Error()
		return
	}
	defer c.Close()
	ck, sk := clientKey(), serverKey()
	pol0 := refcodec.PolicyByURI(first.Policy)
	s := refcodec.NewClientSession(c, pol0, refcodec.Mode(first.Mode), ck.Key, ck.Cert, sk.Cert)
	s.Timeout = longTimeout
	if _, err := s.Hello(refcodec.Hello{ReceiveBufferSize: 65535, SendBufferSize: 65535, EndpointURL: url}); err != nil {
		o.Infra, o.Detail = true, "hello: "+err.Error()
		return
	}
	nonce := func(p *refcodec.Policy, tag string) []byte {
		if p.NonceLen == 0 {
			return nil
		}
		h := sha256.Sum256([]byte(tag + a.String()))
		return h[:p.NonceLen]
	}
	if _, err := s.OpenRequest(1, 1, false, nonce(pol0, "issue"), 3600_000); err != nil {
		o.Infra, o.Detail = true, "send first OPN: "+err.Error()
		return
	}
	if _, _, err := s.ReadOpenResponse(); err != nil {
		// the configured pair did not open: judged by the plain attempts, not here
		o.Infra, o.Detail = true, "first OPN (configured pair "+pairName(first.Policy, int(first.Mode))+") failed: "+err.Error()
		return
	}
	pol := refcodec.PolicyByURI(a.Policy)
	s.Policy, s.Mode = pol, refcodec.Mode(a.Mode)
	s.Timeout = timeout
	if _, err := s.OpenRequest(2, 2, true, nonce(pol, "renew"), 3600_000); err != nil {
		o.Detail = "send renew OPN: " + err.Error()
		return
	}
	if _, _, err := s.ReadOpenResponse(); err != nil {
		o.Detail = "renew OPN response: " + err.Error()
		o.Closed = refClosed(err)
		return
	}
	o.Opened = true
	body, err := refcodec.EncodeService(&ua.GetEndpointsRequest{RequestHeader: refcodec.NewRequestHeader(3), EndpointURL: url})
	if err != nil {
		o.Infra, o.Detail = true, "encode: "+err.Error()
		return
	}
	if _, err := s.SendMSG("MSG", 3, 3, 'F', body); err != nil {
		o.Detail = "send MSG: " + err.Error()
		return
	}
	m, err := s.ReadMessage()
	if err != nil {
		o.Detail = "MSG response: " + err.Error()
		return
	}
	if resp, ok := m.Service.(*ua.GetEndpointsResponse); ok {
		o.Answered = true
		o.Endpoints = epNames(resp.Endpoints)
	} else {
		o.Detail = fmt.Sprintf("MSG response carries %T", m.Service)
	}
	return
}

func runAttempt(url string, cfg []int, a attempt, timeout time.Duration) outcome {
	t0 := time.Now()
	var o outcome
	switch a.Client {
	case "ref-renew":
		// only towards a valid pair that is NOT configured, from the first configured one
		o.Skip = true
		if len(cfg) > 0 && validPair(a.Policy, a.Mode) {
			o.Skip = false
			for _, i := range cfg {
				if stack.AllSec[i].Policy == a.Policy && int(stack.AllSec[i].Mode) == a.Mode {
					o.Skip = true
				}
			}
		}
		if !o.Skip {
			o = tryRenew(url, stack.AllSec[cfg[0]], a, timeout)
		}
	case "uasc":
		o = tryUASC(url, a, false, timeout)
	case "uasc-forced":
		o = tryUASC(url, a, true, timeout)
	case "ref":
		o = tryRef(url, a, timeout)
	case "ref-as-renew":
		o = tryRefType(url, a, true, timeout)
	case "opcua":
		o = tryOpcua(url, a, timeout)
	default:
		o = outcome{Infra: true, Detail: "unknown client kind " + a.Client}
	}
	o.Dur = time.Since(t0)
	return o
}

// ---------------------------------------------------------------------------
// one configuration

func configSec(cfg []int) []stack.Sec {
	var s []stack.Sec
	for _, i := range cfg {
		s = append(s, stack.AllSec[i])
	}
	return s
}

func configNames(cfg []int) []string {
	var out []string
	for _, i := range cfg {
		out = append(out, pairName(stack.AllSec[i].Policy, int(stack.AllSec[i].Mode)))
	}
	sort.Strings(out)
	return out
}

type failure struct {
	c   caseT
	msg string
}

// timeouts: an attempt expected to be refused may have to wait for the server's
// silence; one expected to open gets a long timeout and a serial retry, so a
// loaded machine cannot turn into a verdict. A refused-but-expected-open verdict
// never rests on the short timeout.
const (
	shortTimeout = 2500 * time.Millisecond
	longTimeout  = 20 * time.Second
)

// checkConfig starts a server with the configuration, runs the attempts and
// judges them. infra != "" means the harness could not do its job.
func checkConfig(cfg []int, attempts []attempt) (fails []failure, known int, infra string) {
	srv, err := stack.StartServer(stack.ServerOpts{Sec: configSec(cfg), Key: serverKey()})
	if err != nil {
		return nil, 0, "cannot start server: " + err.Error()
	}
	defer srv.Close()
	want := configNames(cfg)
	wantSet := map[string]bool{}
	for _, w := range want {
		wantSet[w] = true
	}
	mk := func(as ...attempt) caseT { return caseT{Config: cfg, Pairs: want, Attempts: as} }
	nontrivial := len(cfg) > 0 && len(cfg) < len(stack.AllSec)

	// (1) advertisement, as the server object reports it
	if got := epNames(srv.S.Endpoints()); strings.Join(got, ",") != strings.Join(want, ",") {
		fails = append(fails, failure{mk(), fmt.Sprintf("Server.Endpoints() advertises %v, configured %v", got, want)})
	}

	// (2) the attempts, concurrently (bounded)
	outs := make([]outcome, len(attempts))
	sem := make(chan struct{}, 12)
	var wg sync.WaitGroup
	for i, a := range attempts {
		wg.Add(1)
		go func(i int, a attempt) {
			defer wg.Done()
			sem <- struct{}{}
			defer func() { <-sem }()
			to := shortTimeout
			if wantSet[pairName(a.Policy, a.Mode)] {
				to = longTimeout
			}
			outs[i] = runAttempt(srv.URL, cfg, a, to)
		}(i, a)
	}
	wg.Wait()

	for i, a := range attempts {
		o := outs[i]
		if o.Skip {
			continue
		}
		name := pairName(a.Policy, a.Mode)
		configured := wantSet[name]
		if o.Infra {
			// once more, alone
			o = runAttempt(srv.URL, cfg, a, longTimeout)
			if o.Infra {
				return fails, known, fmt.Sprintf("attempt %s: %s", a, o.Detail)
			}
		}
		if configured && !o.usable() {
			// confirm serially with a long timeout before calling it a refusal
			o = runAttempt(srv.URL, cfg, a, longTimeout)
			if o.Infra {
				return fails, known, fmt.Sprintf("attempt %s: %s", a, o.Detail)
			}
		}
		classes := []string{"client:" + a.Client}
		switch {
		case configured:
			classes = append(classes, "configured-pair:"+name)
		case validPair(a.Policy, a.Mode):
			classes = append(classes, "unconfigured-valid-pair:"+name)
		default:
			classes = append(classes, "invalid-combination:"+name)
		}
		switch {
		case o.usable():
			classes = append(classes, "outcome:channel-usable")
		case o.Opened:
			classes = append(classes, "outcome:opened-but-request-unanswered")
		case o.NotSent:
			classes = append(classes, "outcome:client-library-refused-the-settings-itself")
		case o.Closed:
			classes = append(classes, "outcome:refused-connection-closed")
		default:
			classes = append(classes, "outcome:refused-no-answer")
		}
		b, _ := json.Marshal(mk(a))
		rec.Case(nontrivial, ev.Hash(b), classes...)
		if nontrivial && rec.WantSample() {
			rec.Sample(map[string]any{"config": want, "attempt": a.String(), "opened": o.Opened, "answered": o.Answered, "detail": o.Detail})
		}
		switch {
		case configured && !o.usable() && a.Client == "ref-as-renew":
			// a server may refuse a first request that calls itself a renewal
			rec.Class("first-OPN-says-Renew:configured-pair-refused(allowed)")
		case configured && !o.usable():
			fails = append(fails, failure{mk(a), fmt.Sprintf("pair %s is configured but attempt %s got no usable channel (opened=%v answered=%v: %s)", name, a, o.Opened, o.Answered, o.Detail)})
		case !configured && (o.usable() || (o.Opened && !strings.Contains(o.Detail, "sent in the clear"))):
			// a verified OpenSecureChannelResponse with a token IS an established
			// channel, whether or not the first request on it gets an answer
			if rec.Known(sigOpen) {
				known++
				rec.Class("known:" + sigOpen)
			} else {
				fails = append(fails, failure{mk(a), fmt.Sprintf("pair %s is NOT configured (configured: %v) but attempt %s opened a channel (token issued; first request answered: %v)", name, want, a, o.Answered)})
			}
		}
		// (3) advertisement over the wire, on every channel that answered
		if o.Answered && strings.Join(o.Endpoints, ",") != strings.Join(want, ",") {
			fails = append(fails, failure{mk(a), fmt.Sprintf("GetEndpoints over %s returned %v, configured %v", a, o.Endpoints, want)})
		}
	}
	return
}

func reportAndFail(t ev.TB, test string, fails []failure) {
	if len(fails) == 0 {
		return
	}
	// the first failure names the replay case; the count is in the message
	f := fails[0]
	rec.Fail(t, test, f.c, "%s (%d failing attempts on this configuration)", f.msg, len(fails))
}

// ---------------------------------------------------------------------------
// tests

// families returns the singletons and the complements of singletons.
func families() [][]int {
	n := len(stack.AllSec)
	var out [][]int
	for i := 0; i < n; i++ {
		out = append(out, []int{i})
	}
	for i := 0; i < n; i++ {
		var c []int
		for j := 0; j < n; j++ {
			if j != i {
				c = append(c, j)
			}
		}
		out = append(out, c)
	}
	return out
}

func allSubsets() [][]int {
	n := len(stack.AllSec)
	var out [][]int
	for m := 1; m < 1<<n; m++ {
		var c []int
		for j := 0; j < n; j++ {
			if m&(1<<j) != 0 {
				c = append(c, j)
			}
		}
		out = append(out, c)
	}
	return out
}

func runList(t *testing.T, test string, cfgs [][]int) {
	sh, n := ev.Shard()
	bat := battery()
	done := 0
	for i, cfg := range cfgs {
		if i%n != sh {
			continue
		}
		rec.Journal(test, caseT{Config: cfg, Pairs: configNames(cfg), Attempts: bat})
		fails, _, infra := checkConfig(cfg, bat)
		rec.JournalDone(test)
		if infra != "" {
			t.Fatalf("infrastructure: %s", infra)
		}
		done++
		switch {
		case len(cfg) == 1:
			rec.Class("config:singleton")
		case len(cfg) == len(stack.AllSec)-1:
			rec.Class("config:complement-of-singleton")
		case len(cfg) == len(stack.AllSec):
			rec.Class("config:all")
		default:
			rec.Class(fmt.Sprintf("config:size-%02d", len(cfg)))
		}
		reportAndFail(t, test, fails)
	}
	t.Logf("%s: shard %d/%d ran %d configurations", test, sh, n, done)
}

// TestFamilies: every singleton and every complement of a singleton (22
// configurations), partitioned over the shards.
func TestFamilies(t *testing.T) {
	rec.Assume("a channel counts as established only when the OPN was answered with a token AND a first request was answered on it; 'refused' covers an error, a closed connection and silence (bounded wait of 2.5 s for attempts on pairs that are not configured, 20 s plus a serial retry for configured pairs)")
	rec.Assume("server and client certificates are the 2048-bit fixtures (key sizes are C37's domain); the client knows the server certificate beforehand, no endpoint selection anywhere")
	runList(t, "TestFamilies", families())
}

// TestAllSubsets (thorough): every non-empty subset of the 11 pairs.
func TestAllSubsets(t *testing.T) {
	if !ev.Thorough() && os.Getenv("C30_ALL") == "" {
		t.Skip("thorough only")
	}
	runList(t, "TestAllSubsets", allSubsets())
	rec.Extra("configurations", "every non-empty subset of the 11 valid pairs (2047)")
}

// TestRandomSubsets: rapid-drawn subsets (each pair included with a drawn bias).
func TestRandomSubsets(t *testing.T) {
	bat := battery()
	rapid.Check(t, func(t *rapid.T) {
		n := len(stack.AllSec)
		var cfg []int
		mask := rapid.IntRange(1, 1<<n-1).Draw(t, "subset")
		for j := 0; j < n; j++ {
			if mask&(1<<j) != 0 {
				cfg = append(cfg, j)
			}
		}
		rec.Journal("TestRandomSubsets", caseT{Config: cfg, Pairs: configNames(cfg), Attempts: bat})
		fails, _, infra := checkConfig(cfg, bat)
		rec.JournalDone("TestRandomSubsets")
		if infra != "" {
			t.Fatalf("infrastructure: %s", infra)
		}
		rec.Class(fmt.Sprintf("config:size-%02d", len(cfg)))
		reportAndFail(t, "TestRandomSubsets", fails)
	})
}

// TestProbe prints the outcome table of one configuration (development aid):
// C30_PROBE=0,3,4 go test -run TestProbe -v
func TestProbe(t *testing.T) {
	spec := os.Getenv("C30_PROBE")
	if spec == "" {
		t.Skip("no C30_PROBE")
	}
	var cfg []int
	for _, f := range strings.Split(spec, ",") {
		var i int
		fmt.Sscanf(f, "%d", &i)
		cfg = append(cfg, i)
	}
	t0 := time.Now()
	srv, err := stack.StartServer(stack.ServerOpts{Sec: configSec(cfg), Key: serverKey()})
	if err != nil {
		t.Fatal(err)
	}
	defer srv.Close()
	fmt.Printf("server %v up in %v\n", configNames(cfg), time.Since(t0))
	for _, a := range battery() {
		o := runAttempt(srv.URL, cfg, a, shortTimeout)
		if o.Skip {
			continue
		}
		fmt.Printf("%-45s opened=%-5v answered=%-5v closed=%-5v %6dms %s\n", a, o.Opened, o.Answered, o.Closed, o.Dur.Milliseconds(), o.Detail)
	}
}

// TestReplay re-runs a saved case (configuration + attempts) without rapid.
func TestReplay(t *testing.T) {
	rp, err := ev.LoadReplay()
	if err != nil {
		t.Fatal(err)
	}
	if rp == nil {
		t.Skip("no VERIF_REPLAY")
	}
	var c caseT
	if err := json.Unmarshal(rp.Case, &c); err != nil {
		t.Fatal(err)
	}
	for _, i := range c.Config {
		if i < 0 || i >= len(stack.AllSec) {
			t.Fatalf("bad config index %d", i)
		}
	}
	fmt.Println("REPLAYED structured")
	fails, known, infra := checkConfig(c.Config, c.Attempts)
	if infra != "" {
		t.Fatalf("infrastructure: %s", infra)
	}
	if known > 0 {
		fmt.Printf("%d attempts matched the open known finding %s\n", known, sigOpen)
	}
	for _, f := range fails {
		t.Errorf("property C30 violated: %s", f.msg)
	}
}
