package c26

import (
	"context"
	"encoding/binary"
	"encoding/json"
	"errors"
	"fmt"
	"os"
	"runtime"
	"sort"
	"strings"
	"sync"
	"sync/atomic"
	"testing"
	"time"

	"github.com/gopcua/opcua"
	"github.com/gopcua/opcua/id"
	"github.com/gopcua/opcua/server"
	"github.com/gopcua/opcua/ua"
	"pgregory.net/rapid"

	"verif/pkg/ev"
	"verif/pkg/netx"
	"verif/pkg/stack"
	"verif/pkg/starve"
)

// ---------------------------------------------------------------------------
// (a) survival
//
// client (AutoReconnect, ReconnectInterval 100 ms) -- Tap -- gopcua server.
// Faults:
//   reset    the proxy resets every connection: the secure channel is lost, the
//            session stays alive on the server
//   session  the session is closed on the server through a side channel (a
//            CloseSessionRequest carrying the client's authentication token,
//            read from the proxied clear-text frames): the channel stays, the
//            session is lost
//   restart  the proxy is handed to a fresh server instance with the same
//            address space (nothing of the client is known there) and every
//            connection is reset: the client keeps dialling the same address
// Oracle: after the last fault the client reports Connected again (a state other
// than Connected was reported in between); from that moment on, for every
// subscription and every monitored item a notification carrying a value that
// the side writer wrote after that moment must reach the subscription's
// notification channel within survivalBound.

const survivalBound = 20 * time.Second

// kfFaultDuringReconnect: a fault that arrived while Client.monitor was still
// restoring the session and the subscriptions of the previous fault could leave
// the client Connected on a dead connection (the monitor discarded the error of
// the broken connection when it cleared sechanErr). /repo commit e25d395 (found
// by C25) repaired that, so no finding with this id is open and faults are
// injected at any moment. Should a finding KF-C26-1 be opened again, the next
// fault is injected only after the client reported Connected.
const (
	kfFaultDuringReconnect   = "fault-during-reconnect:Connected-on-dead-connection:client.go:monitor-clears-sechanErr"
	kfFaultDuringReconnectID = "KF-C26-1"
)

func excludeFaultDuringReconnect() bool {
	return ev.HasOpen("C26", kfFaultDuringReconnectID) || os.Getenv("VERIF_C26_DEV_ASSUME_KF") != ""
}

// Fault is one injected fault.
type Fault struct {
	Kind    string `json:"kind"`     // reset | session | restart
	AfterMs int    `json:"after_ms"` // pause before the fault
}

// SurvCase is the replayable unit of TestSurvival.
type SurvCase struct {
	IntervalMs int           `json:"interval_ms"`
	Vars       int           `json:"vars"`
	Subs       [][]int       `json:"subs"` // per subscription: the variable each monitored item watches
	// TS: per subscription, per item: TimestampsToReturn of the Monitor call that
	// creates the item (0 Source 1 Server 2 Both 3 Neither); missing = Both. Items
	// of one subscription with different values are created by separate calls.
	TS [][]int `json:"timestamps,omitempty"`
	Faults     []Fault       `json:"faults"`
	Observed   *SurvObserved `json:"observed,omitempty"`
}

// SurvObserved describes a failing execution.
type SurvObserved struct {
	Verdict string   `json:"verdict"`
	Missing []string `json:"missing,omitempty"`
	Events  []string `json:"events,omitempty"`
	Others  []string `json:"confirmations,omitempty"`
}

func genSurvCase(t *rapid.T) SurvCase {
	c := SurvCase{
		IntervalMs: rapid.SampledFrom([]int{50, 60, 80, 100}).Draw(t, "interval"),
		Vars:       1 + int(rapid.Uint64().Draw(t, "vars")%4),
	}
	ns := 1 + int(rapid.Uint64().Draw(t, "nsubs")%3)
	for i := 0; i < ns; i++ {
		ni := 1 + int(rapid.Uint64().Draw(t, "nitems")%4)
		var items []int
		for j := 0; j < ni; j++ {
			items = append(items, rapid.IntRange(0, c.Vars-1).Draw(t, "var"))
		}
		c.Subs = append(c.Subs, items)
	}
	if rapid.Bool().Draw(t, "mixedTimestamps") {
		for _, items := range c.Subs {
			var ts []int
			for range items {
				ts = append(ts, rapid.IntRange(0, 3).Draw(t, "ts"))
			}
			c.TS = append(c.TS, ts)
		}
	}
	nf := 1 + int(rapid.Uint64().Draw(t, "nfaults")%3)
	for i := 0; i < nf; i++ {
		c.Faults = append(c.Faults, Fault{
			Kind:    rapid.SampledFrom([]string{"reset", "session", "restart"}).Draw(t, "fault"),
			AfterMs: rapid.SampledFrom([]int{0, 5, 20, 60, 150, 400}).Draw(t, "afterMs"),
		})
	}
	return c
}

// ---------------------------------------------------------------------------

type survRun struct {
	c   SurvCase
	tap *netx.Tap

	mu      sync.Mutex
	srv     *stack.Server
	events  []string
	t0      time.Time
	states  []stateEv
	written map[int64]time.Time // value -> time the write was started
	// last[handle] = time the newest value delivered for the item was written
	last  map[uint32]time.Time
	count map[uint32]int
	errs  int // notifications with Error set

	nextVal atomic.Int64
}

type stateEv struct {
	s  opcua.ConnState
	at time.Time
}

func (r *survRun) logf(format string, args ...any) {
	r.mu.Lock()
	r.events = append(r.events, fmt.Sprintf("%6dms ", time.Since(r.t0).Milliseconds())+fmt.Sprintf(format, args...))
	if len(r.events) > 200 {
		r.events = r.events[len(r.events)-200:]
	}
	r.mu.Unlock()
}

var stateNames = map[opcua.ConnState]string{opcua.Closed: "Closed", opcua.Connected: "Connected", opcua.Connecting: "Connecting", opcua.Disconnected: "Disconnected", opcua.Reconnecting: "Reconnecting"}

func (r *survRun) onState(s opcua.ConnState) {
	r.mu.Lock()
	r.states = append(r.states, stateEv{s, time.Now()})
	r.mu.Unlock()
	r.logf("client: state %s", stateNames[s])
}

func varName(i int) string { return fmt.Sprintf("c26v%d", i) }

// devLogger prints the server's own log (development aid).
type devLogger struct{}

func (devLogger) Debug(msg string, args ...any) {}
func (devLogger) Info(msg string, args ...any)  { fmt.Printf("SERVER info: "+msg+"\n", args...) }
func (devLogger) Warn(msg string, args ...any)  { fmt.Printf("SERVER warn: "+msg+"\n", args...) }
func (devLogger) Error(msg string, args ...any) { fmt.Printf("SERVER error: "+msg+"\n", args...) }

func startServer(nvars int) (*stack.Server, error) {
	var extra []server.Option
	if os.Getenv("VERIF_C26_DEV_SERVERLOG") != "" {
		extra = append(extra, server.SetLogger(devLogger{}))
	}
	s, err := stack.StartServer(stack.ServerOpts{Extra: extra})
	if err != nil {
		return nil, err
	}
	for i := 0; i < nvars; i++ {
		s.AddVariable(varName(i), int64(0))
	}
	return s, nil
}

// collect consumes one subscription's notification channel.
func (r *survRun) collect(ctx context.Context, ch chan *opcua.PublishNotificationData) {
	for {
		select {
		case <-ctx.Done():
			return
		case n := <-ch:
			if n == nil {
				continue
			}
			if n.Error != nil {
				r.mu.Lock()
				r.errs++
				r.mu.Unlock()
				continue
			}
			dcn, ok := n.Value.(*ua.DataChangeNotification)
			if !ok {
				continue
			}
			r.mu.Lock()
			for _, it := range dcn.MonitoredItems {
				if it == nil || it.Value == nil || it.Value.Value == nil {
					continue
				}
				v, ok := it.Value.Value.Value().(int64)
				if !ok {
					continue
				}
				if wt, ok := r.written[v]; ok {
					r.count[it.ClientHandle]++
					if wt.After(r.last[it.ClientHandle]) {
						r.last[it.ClientHandle] = wt
					}
				}
			}
			r.mu.Unlock()
		}
	}
}

// writer keeps changing every variable until ctx ends. It talks to the current
// server directly (not through the proxy).
func (r *survRun) writer(ctx context.Context, done chan<- struct{}) {
	defer close(done)
	var (
		cl  *opcua.Client
		url string
	)
	closeCl := func() {
		if cl != nil {
			cx, cc := context.WithTimeout(context.Background(), time.Second)
			cl.Close(cx)
			cc()
			cl = nil
		}
	}
	defer closeCl()
	for ctx.Err() == nil {
		r.mu.Lock()
		srv := r.srv
		r.mu.Unlock()
		if cl == nil || url != srv.URL {
			closeCl()
			c, err := stack.Connect(srv.URL, opcua.SecurityMode(ua.MessageSecurityModeNone), opcua.RequestTimeout(2*time.Second), opcua.AutoReconnect(false))
			if err != nil {
				time.Sleep(50 * time.Millisecond)
				continue
			}
			cl, url = c, srv.URL
		}
		for i := 0; i < r.c.Vars && ctx.Err() == nil; i++ {
			v := r.nextVal.Add(1)
			r.mu.Lock()
			r.written[v] = time.Now()
			r.mu.Unlock()
			wctx, wc := context.WithTimeout(ctx, 2*time.Second)
			st, err := stack.WriteValue(wctx, cl, srv.NodeID(varName(i)), v)
			wc()
			if err != nil || st != ua.StatusOK {
				closeCl()
				time.Sleep(20 * time.Millisecond)
				break
			}
		}
		select {
		case <-ctx.Done():
		case <-time.After(20 * time.Millisecond):
		}
	}
}

// authToken reads the authentication token of the newest client request that
// went through the proxy (security policy None: the frames are clear text).
func (r *survRun) authToken() *ua.NodeID {
	frames := r.tap.Frames()
	for i := len(frames) - 1; i >= 0; i-- {
		f := frames[i]
		if f.Dir != netx.C2S || f.Type() != "MSG" || f.Chunk() != 'F' || len(f.Data) < 32 {
			continue
		}
		// 24 bytes of headers, then the type id of the request (four byte node id)
		if f.Data[24] != 0x01 || f.Data[25] != 0 {
			continue
		}
		typ := binary.LittleEndian.Uint16(f.Data[26:])
		if typ != id.PublishRequest_Encoding_DefaultBinary {
			continue
		}
		id := &ua.NodeID{}
		if _, err := id.Decode(f.Data[28:]); err != nil {
			continue
		}
		return id
	}
	return nil
}

// closeSessionFromTheSide closes the client's session on the server.
func (r *survRun) closeSessionFromTheSide(ctx context.Context) error {
	tok := r.authToken()
	if tok == nil {
		return fmt.Errorf("no PublishRequest seen on the proxy")
	}
	r.mu.Lock()
	url := r.srv.URL
	r.mu.Unlock()
	side, err := opcua.NewClient(url, opcua.SecurityMode(ua.MessageSecurityModeNone), opcua.RequestTimeout(2*time.Second), opcua.AutoReconnect(false))
	if err != nil {
		return err
	}
	dctx, dc := context.WithTimeout(ctx, 5*time.Second)
	defer dc()
	if err := side.Dial(dctx); err != nil {
		return err
	}
	defer side.Close(dctx)
	var res *ua.CloseSessionResponse
	err = side.SecureChannel().SendRequest(dctx, &ua.CloseSessionRequest{DeleteSubscriptions: false}, tok, func(v ua.Response) error {
		r, ok := v.(*ua.CloseSessionResponse)
		if !ok {
			return fmt.Errorf("unexpected response %T", v)
		}
		res = r
		return nil
	})
	if err != nil {
		return err
	}
	if res == nil || res.ResponseHeader.ServiceResult != ua.StatusOK {
		return fmt.Errorf("CloseSession refused")
	}
	return nil
}

type survResult struct {
	verdict string
	starved bool
	nontriv bool
	classes []string
	obs     SurvObserved
}

func executeSurvival(c SurvCase) (res survResult, err error) {
	hb := starve.Begin()
	r := &survRun{c: c, t0: time.Now(), written: map[int64]time.Time{}, last: map[uint32]time.Time{}, count: map[uint32]int{}}
	cls := map[string]bool{}
	for _, ts := range c.TS {
		seen := map[int]bool{}
		for _, x := range ts {
			seen[x] = true
		}
		if len(seen) > 1 {
			cls["subscription-with-items-of-different-TimestampsToReturn"] = true
		}
	}
	defer func() {
		for k := range cls {
			res.classes = append(res.classes, k)
		}
		sort.Strings(res.classes)
	}()
	srv, e := startServer(c.Vars)
	if e != nil {
		return res, fmt.Errorf("%w: server: %v", errSetup, e)
	}
	r.srv = srv
	var srvs []*stack.Server
	srvs = append(srvs, srv)
	defer func() {
		for _, s := range srvs {
			go s.Close()
		}
	}()
	// a standby for every restart is built in the background
	nrestart := 0
	for _, f := range c.Faults {
		if f.Kind == "restart" {
			nrestart++
		}
	}
	standby := make(chan *stack.Server, nrestart+1)
	go func() {
		for i := 0; i < nrestart; i++ {
			s, err := startServer(c.Vars)
			if err != nil {
				standby <- nil
				continue
			}
			standby <- s
		}
	}()
	defer func() {
		// servers that were built but not used
		go func() {
			for {
				select {
				case s := <-standby:
					if s != nil {
						s.Close()
					}
				case <-time.After(30 * time.Second):
					return
				}
			}
		}()
	}()

	tap, e := netx.NewTap(fmt.Sprintf("127.0.0.1:%d", srv.Port))
	if e != nil {
		return res, fmt.Errorf("%w: tap: %v", errSetup, e)
	}
	r.tap = tap
	defer tap.Close()

	ctx, cancel := context.WithCancel(context.Background())
	defer cancel()
	cl, e := opcua.NewClient("opc.tcp://"+tap.Addr(), opcua.SecurityMode(ua.MessageSecurityModeNone), opcua.RequestTimeout(2*time.Second),
		opcua.AutoReconnect(true), opcua.ReconnectInterval(100*time.Millisecond), opcua.DialTimeout(time.Second), opcua.StateChangedFunc(r.onState))
	if e != nil {
		return res, e
	}
	cctx, cc := context.WithTimeout(ctx, 15*time.Second)
	e = cl.Connect(cctx)
	cc()
	if e != nil {
		return res, fmt.Errorf("%w: connect: %v", errSetup, e)
	}
	defer func() {
		cancel()
		done := make(chan struct{})
		go func() {
			defer close(done)
			defer func() { _ = recover() }()
			cx, cc := context.WithTimeout(context.Background(), 3*time.Second)
			defer cc()
			cl.Close(cx)
		}()
		select {
		case <-done:
		case <-time.After(4 * time.Second):
		}
	}()

	// subscriptions and monitored items; client handles are unique over the case
	type item struct {
		sub, idx, v int
		handle      uint32
	}
	var items []item
	handle := uint32(0)
	for si, vars := range c.Subs {
		ch := make(chan *opcua.PublishNotificationData, 1024)
		go r.collect(ctx, ch)
		sctx, sc := context.WithTimeout(ctx, 10*time.Second)
		sub, e := cl.Subscribe(sctx, &opcua.SubscriptionParameters{Interval: time.Duration(c.IntervalMs) * time.Millisecond, MaxKeepAliveCount: 5, LifetimeCount: 10000}, ch)
		if e != nil {
			sc()
			return res, fmt.Errorf("%w: subscribe: %v", errSetup, e)
		}
		groups := map[int][]*ua.MonitoredItemCreateRequest{}
		for ii, v := range vars {
			handle++
			items = append(items, item{si, ii, v, handle})
			ts := int(ua.TimestampsToReturnBoth)
			if si < len(c.TS) && ii < len(c.TS[si]) && c.TS[si][ii] >= 0 && c.TS[si][ii] <= 3 {
				ts = c.TS[si][ii]
			}
			groups[ts] = append(groups[ts], opcua.NewMonitoredItemCreateRequestWithDefaults(srv.NodeID(varName(v)), ua.AttributeIDValue, handle))
		}
		for ts := 0; ts <= 3; ts++ {
			reqs := groups[ts]
			if len(reqs) == 0 {
				continue
			}
			mres, e := sub.Monitor(sctx, ua.TimestampsToReturn(ts), reqs...)
			if e != nil {
				sc()
				return res, fmt.Errorf("%w: monitor: %v", errSetup, e)
			}
			for _, x := range mres.Results {
				if x.StatusCode != ua.StatusOK {
					sc()
					return res, fmt.Errorf("%w: monitor: %v", errSetup, x.StatusCode)
				}
			}
		}
		sc()
	}
	wctx, wcancel := context.WithCancel(ctx)
	wdone := make(chan struct{})
	go r.writer(wctx, wdone)
	defer func() { wcancel(); <-wdone }()

	// missing lists the items without a delivered value written after t
	missing := func(t time.Time) []string {
		r.mu.Lock()
		defer r.mu.Unlock()
		var out []string
		for _, it := range items {
			if !r.last[it.handle].After(t) {
				out = append(out, fmt.Sprintf("subscription #%d item #%d (variable %s, client handle %d; %d written values delivered so far, newest written %v before the reference time)",
					it.sub, it.idx, varName(it.v), it.handle, r.count[it.handle], t.Sub(r.last[it.handle]).Round(time.Millisecond)))
			}
		}
		return out
	}
	waitDelivered := func(t time.Time, bound time.Duration) []string {
		deadline := time.Now().Add(bound)
		for {
			m := missing(t)
			if len(m) == 0 || time.Now().After(deadline) {
				return m
			}
			time.Sleep(10 * time.Millisecond)
		}
	}

	// ---- baseline: every item delivers written values before the first fault
	if m := waitDelivered(time.Now(), 10*time.Second); len(m) > 0 {
		return res, fmt.Errorf("%w: no baseline delivery before the first fault: %v", errSetup, m)
	}
	cls["baseline-delivery-before-first-fault"] = true

	// ---- faults
	stateIdx := func() int { r.mu.Lock(); defer r.mu.Unlock(); return len(r.states) }
	// reconnected waits until a state other than Connected and then Connected
	// was reported after index from; returns the time of that Connected report
	reconnected := func(from int, notice, bound time.Duration) (time.Time, string) {
		start := time.Now()
		for {
			r.mu.Lock()
			st := append([]stateEv(nil), r.states[from:]...)
			r.mu.Unlock()
			left := false
			for _, s := range st {
				if s.s != opcua.Connected {
					left = true
				}
			}
			if left && st[len(st)-1].s == opcua.Connected {
				return st[len(st)-1].at, ""
			}
			el := time.Since(start)
			if !left && el > notice {
				return time.Time{}, "fault-not-noticed"
			}
			if left && el > notice+bound {
				return time.Time{}, "not-Connected-again"
			}
			time.Sleep(5 * time.Millisecond)
		}
	}
	lastFaultIdx := 0
	for fi, f := range c.Faults {
		time.Sleep(time.Duration(f.AfterMs) * time.Millisecond)
		if fi > 0 && excludeFaultDuringReconnect() {
			t0 := time.Now()
			if _, why := reconnected(lastFaultIdx, 5*time.Second, 15*time.Second); why == "" {
				time.Sleep(50 * time.Millisecond)
			}
			if time.Since(t0) > 60*time.Millisecond {
				cls["next-fault-deferred-until-reconnect-finished("+kfFaultDuringReconnectID+")"] = true
			}
		}
		r.mu.Lock()
		connected := len(r.states) > 0 && r.states[len(r.states)-1].s == opcua.Connected
		r.mu.Unlock()
		if !connected {
			cls["fault-during-reconnect"] = true
		}
		lastFaultIdx = stateIdx()
		switch f.Kind {
		case "reset":
			r.logf("fault: proxy resets all connections (channel lost, session kept)")
			tap.Reset()
		case "session":
			r.logf("fault: session closed on the server from a side channel")
			if e := r.closeSessionFromTheSide(ctx); e != nil {
				r.logf("fault: could not close the session: %v", e)
				cls["fault:session-could-not-be-closed"] = true
				continue
			}
		case "restart":
			ns := <-standby
			if ns == nil {
				return res, fmt.Errorf("%w: standby server", errSetup)
			}
			srvs = append(srvs, ns)
			r.logf("fault: server restart (proxy handed to a fresh instance, connections reset)")
			r.mu.Lock()
			old := r.srv
			r.srv = ns
			r.mu.Unlock()
			tap.SetUpstream(fmt.Sprintf("127.0.0.1:%d", ns.Port))
			tap.Reset()
			go old.Close()
		}
		cls["fault:"+f.Kind] = true
	}

	// ---- heal: nothing to do, every fault is instantaneous. Wait for Connected.
	tConn, why := reconnected(lastFaultIdx, 10*time.Second, 30*time.Second)
	if why != "" {
		// the property is about what happens after a successful reconnect; a client
		// that does not come back is the subject of C25
		cls["no-verdict("+why+")"] = true
		return res, nil
	}
	cls["reconnected"] = true
	res.nontriv = true
	r.logf("oracle: client reported Connected; waiting for values written after that moment")
	if m := waitDelivered(tConn, survivalBound); len(m) > 0 {
		r.mu.Lock()
		st := r.states[len(r.states)-1].s
		r.mu.Unlock()
		res.verdict = fmt.Sprintf("%d of %d monitored items received no value written after the client reported Connected again (%v ago; state now %s)", len(m), len(items), time.Since(tConn).Round(time.Millisecond), stateNames[st])
		res.obs.Verdict = res.verdict
		res.obs.Missing = m
		r.mu.Lock()
		res.obs.Events = append([]string(nil), r.events...)
		r.mu.Unlock()
		if hb.Settle() > 2*time.Second {
			res.starved = true
		}
	}
	cls[fmt.Sprintf("subs=%d", len(c.Subs))] = true
	cls[fmt.Sprintf("items=%d", min(len(items), 8))] = true
	cls[fmt.Sprintf("faults=%d", len(c.Faults))] = true
	if os.Getenv("VERIF_C26_DEV_TRACE") != "" {
		r.mu.Lock()
		fmt.Println(strings.Join(r.events, "\n"))
		r.mu.Unlock()
	}
	return res, nil
}

func decideSurvival(c *SurvCase, logf func(string, ...any)) (msg string, res survResult, err error) {
	res, err = executeSurvival(*c)
	if err != nil || res.verdict == "" {
		return "", res, err
	}
	first := res
	inconclusive := func(why string) (string, survResult, error) {
		cj, _ := json.Marshal(c)
		oj, _ := json.Marshal(first.obs)
		fmt.Printf("C26 INCONCLUSIVE (%s): %s\n  observed: %s\n  case: %s\n", why, first.verdict, oj, cj)
		rec.Inconclusive()
		first.classes = append(first.classes, "inconclusive("+why+")")
		return "", first, nil
	}
	if res.starved {
		return inconclusive("process-starved")
	}
	if os.Getenv("VERIF_C26_DEV_SURVEY") != "" {
		buf := make([]byte, 8<<20)
		buf = buf[:runtime.Stack(buf, true)]
		for _, g := range strings.Split(string(buf), "\n\n") {
			if strings.Contains(g, "opcua/server.") || strings.Contains(g, "opcua.(*Client)") {
				fmt.Println("GOROUTINE", g)
			}
		}
		cj, _ := json.Marshal(c)
		fmt.Printf("SURVEY %s\n  case: %s\n  missing: %s\n  events: %s\n", res.verdict, cj, strings.Join(res.obs.Missing, "\n    "), strings.Join(res.obs.Events, "\n    "))
		return "", res, nil
	}
	obs := res.obs
	for i := 0; i < 2; i++ {
		r2, e2 := executeSurvival(*c)
		if e2 != nil {
			logf("confirmation run %d: %v", i+1, e2)
			return inconclusive("confirmation-run-failed-to-set-up")
		}
		obs.Others = append(obs.Others, r2.verdict)
		if r2.verdict == "" || r2.starved {
			return inconclusive("confirmation-not-3/3")
		}
	}
	c.Observed = &obs
	return first.verdict + " (confirmed 3/3)", first, nil
}

func TestSurvival(t *testing.T) {
	rec.Assume("(a) trusted base: pkg/stack's in-process gopcua server and the side writer's client as the source of changes, netx.Tap as the fault proxy, the client's StateChangedFunc as the signal for 'Connected again'; benign parameters (MaxKeepAliveCount 5, LifetimeCount 10000, request timeout 2 s); a delivery counts only if the delivered value was written after the Connected report; 20 s bound, confirmed 3/3, starvation gate")
	rapid.Check(t, func(rt *rapid.T) {
		c := genSurvCase(rt)
		rec.Journal("TestSurvival", c)
		msg, res, err := decideSurvival(&c, func(f string, a ...any) { rt.Logf(f, a...) })
		rec.JournalDone("TestSurvival")
		if errors.Is(err, errSetup) {
			rec.Class("a:case-discarded(set-up-failed-on-a-loaded-machine)")
			rt.Skip(err.Error())
		}
		if err != nil {
			t.Fatalf("infrastructure failure (not a violation): %v", err)
		}
		cc := c
		cc.Observed = nil
		b, _ := json.Marshal(cc)
		cl := make([]string, len(res.classes))
		for i, k := range res.classes {
			cl[i] = "a:" + k
			if strings.HasPrefix(k, "next-fault-deferred") {
				rec.Excluded(kfFaultDuringReconnectID)
			}
		}
		rec.Case(res.nontriv, ev.Hash("survival", b), cl...)
		if res.nontriv && rec.WantSample() {
			rec.Sample(map[string]any{"test": "TestSurvival", "case": cc})
		}
		if msg != "" {
			rec.Fail(rt, "TestSurvival", c, "%s", msg)
		}
	})
}
