package c26

import (
	"strings"
	"testing"

	"github.com/gopcua/opcua/ua"
)

// TestJudgeSelfCheck runs the acknowledgement oracle (a pure function of the
// captured history) over hand-written histories with known verdicts.
func TestJudgeSelfCheck(t *testing.T) {
	type h struct {
		name    string
		reqs    []*capReq
		deleted map[uint32]pos
		want    string // "" or the clause
	}
	good, unknown, bad := ua.StatusOK, ua.StatusBadSequenceNumberUnknown, ua.StatusBadInternalError
	rq := func(idx, conn, seq int, acks []ack, kind string, deliver ack, results ...ua.StatusCode) *capReq {
		r := &capReq{idx: idx, conn: conn, seq: seq, acks: acks, kind: kind, deliver: deliver}
		if kind == "data" || kind == "keepalive" || kind == "tail" {
			r.good = true
			r.results = results
		}
		return r
	}
	n := ack{}
	cases := []h{
		{"delivered, acknowledged once, accepted", []*capReq{
			rq(0, 0, 0, nil, "data", ack{1, 1}),
			rq(1, 0, 1, []ack{{1, 1}}, "keepalive", n, good),
			rq(2, 0, 2, nil, "keepalive", n),
			rq(3, 0, 3, nil, "held", n)}, nil, ""},
		{"acknowledged before anything was delivered", []*capReq{
			rq(0, 0, 0, []ack{{1, 1}}, "keepalive", n, good)}, nil, "(i)"},
		{"keep-alive sequence number acknowledged", []*capReq{
			rq(0, 0, 0, nil, "keepalive", n),
			rq(1, 0, 1, []ack{{1, 1}}, "data", ack{1, 1}, good)}, nil, "(i)"},
		{"notification inside a response with a bad service result is not delivered", []*capReq{
			{idx: 0, conn: 0, seq: 0, kind: "badstatus"},
			rq(1, 0, 1, []ack{{1, 1}}, "keepalive", n, good)}, nil, "(i)"},
		{"re-sent after Good", []*capReq{
			rq(0, 0, 0, nil, "data", ack{1, 1}),
			rq(1, 0, 1, []ack{{1, 1}}, "keepalive", n, good),
			rq(2, 0, 2, nil, "keepalive", n),
			rq(3, 0, 3, []ack{{1, 1}}, "keepalive", n, good)}, nil, "(ii)"},
		{"re-sent after BadSequenceNumberUnknown", []*capReq{
			rq(0, 0, 0, nil, "data", ack{1, 1}),
			rq(1, 0, 1, []ack{{1, 1}}, "keepalive", n, unknown),
			rq(2, 0, 2, nil, "keepalive", n),
			rq(3, 0, 3, []ack{{1, 1}}, "keepalive", n, good)}, nil, "(ii)"},
		{"re-sent after another Bad result: allowed", []*capReq{
			rq(0, 0, 0, nil, "data", ack{1, 1}),
			rq(1, 0, 1, []ack{{1, 1}}, "keepalive", n, bad),
			rq(2, 0, 2, []ack{{1, 1}}, "keepalive", n, bad),
			rq(3, 0, 3, []ack{{1, 1}}, "keepalive", n, good),
			rq(4, 0, 4, nil, "held", n)}, nil, ""},
		{"re-sent after a wrong result count: allowed", []*capReq{
			rq(0, 0, 0, nil, "data", ack{1, 1}),
			rq(1, 0, 1, []ack{{1, 1}}, "keepalive", n, good, good),
			rq(2, 0, 2, nil, "keepalive", n),
			rq(3, 0, 3, []ack{{1, 1}}, "keepalive", n, good)}, nil, ""},
		{"re-sent after a ServiceFault / dropped request: allowed", []*capReq{
			rq(0, 0, 0, nil, "data", ack{1, 1}),
			rq(1, 0, 1, []ack{{1, 1}}, "fault", n),
			rq(2, 0, 2, []ack{{1, 1}}, "drop", n),
			rq(3, 0, 3, []ack{{1, 1}}, "keepalive", n, good),
			rq(4, 0, 4, nil, "keepalive", n),
			rq(5, 0, 5, nil, "held", n)}, nil, ""},
		{"accepted in the last response of a connection, re-sent on the next connection: allowed", []*capReq{
			rq(0, 0, 0, nil, "data", ack{1, 1}),
			rq(1, 0, 1, []ack{{1, 1}}, "keepalive", n, good),
			rq(2, 1, 0, []ack{{1, 1}}, "keepalive", n, good),
			rq(3, 1, 1, nil, "keepalive", n),
			rq(4, 1, 2, nil, "held", n)}, nil, ""},
		{"request on the old connection handled by the server after requests on the new one", []*capReq{
			rq(0, 0, 0, nil, "data", ack{1, 1}),
			rq(1, 1, 0, []ack{{1, 1}}, "keepalive", n, good),
			rq(2, 1, 1, nil, "keepalive", n),
			rq(3, 1, 2, nil, "keepalive", n),
			rq(4, 0, 1, []ack{{1, 1}}, "data", ack{1, 2})}, nil, ""},
		{"never acknowledged", []*capReq{
			rq(0, 0, 0, nil, "data", ack{1, 1}),
			rq(1, 0, 1, nil, "keepalive", n),
			rq(2, 0, 2, nil, "keepalive", n)}, nil, "(iii)"},
		{"never acknowledged but only one more request followed: no verdict", []*capReq{
			rq(0, 0, 0, nil, "data", ack{1, 1}),
			rq(1, 0, 1, nil, "keepalive", n)}, nil, ""},
		{"never acknowledged but the subscription was deleted meanwhile: no verdict", []*capReq{
			rq(0, 0, 0, nil, "data", ack{1, 1}),
			rq(1, 0, 1, nil, "keepalive", n),
			rq(2, 0, 2, nil, "keepalive", n)}, map[uint32]pos{1: {0, 2}}, ""},
		{"acknowledged on the next connection", []*capReq{
			rq(0, 0, 0, nil, "data", ack{1, 1}),
			rq(1, 0, 1, nil, "fault", n),
			rq(2, 0, 2, nil, "fault", n),
			rq(3, 1, 0, []ack{{1, 1}}, "keepalive", n, good)}, nil, ""},
	}
	// a response whose successor arrived late may have been given up by the client
	slow := []*capReq{
		rq(0, 0, 0, nil, "data", ack{1, 1}),
		rq(1, 0, 1, nil, "keepalive", n),
		rq(2, 0, 2, nil, "keepalive", n)}
	slow[1].atMs, slow[2].atMs = 2300, 2310
	if got := judgeAcks(slow, nil, nil, nil, 1000); got != "" {
		t.Errorf("slow successor: the oracle rejects a history it must accept: %s", got)
	}
	slow[1].atMs, slow[2].atMs = 30, 40
	if got := judgeAcks(slow, nil, nil, nil, 1000); !strings.HasPrefix(got, "(iii)") {
		t.Errorf("fast successor: want a violation of clause (iii), got %q", got)
	}
	// a notification of a subscription whose Subscribe call had not returned when the request arrived
	early := []*capReq{
		rq(0, 0, 0, nil, "data", ack{2, 1}),
		rq(1, 0, 1, nil, "keepalive", n),
		rq(2, 0, 2, nil, "keepalive", n)}
	if got := judgeAcks(early, nil, nil, map[uint32]pos{2: {0, 1}}, 0); got != "" {
		t.Errorf("early notification: the oracle rejects a history it must accept: %s", got)
	}
	if got := judgeAcks(early, nil, nil, map[uint32]pos{2: {0, 0}}, 0); !strings.HasPrefix(got, "(iii)") {
		t.Errorf("known subscription: want a violation of clause (iii), got %q", got)
	}
	for _, c := range cases {
		got := judgeAcks(c.reqs, c.deleted, nil, nil, 0)
		switch {
		case c.want == "" && got != "":
			t.Errorf("%s: the oracle rejects a history it must accept: %s", c.name, got)
		case c.want != "" && !strings.HasPrefix(got, c.want):
			t.Errorf("%s: want a violation of clause %s, got %q", c.name, c.want, got)
		}
	}
}
