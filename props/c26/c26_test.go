// Package c26 decides property C26: subscriptions survive reconnects and
// notifications are acknowledged once.
//
// Two tests:
//
// TestSurvival (survival_test.go): opcua.Client (AutoReconnect) - netx.Tap -
// in-process gopcua server; 1-3 subscriptions x 1-4 monitored items on variables
// a side writer keeps changing; 1-3 faults (channel loss with the session kept,
// session loss, server restart). After the client reports Connected again, a
// value written after that moment must be notified for every monitored item of
// every subscription within 20 s.
//
// TestAcks (acks_test.go): opcua.Client against a scripted server (pkg/script)
// that answers every PublishRequest according to a rapid-drawn history; oracle
// over the SubscriptionAcknowledgement lists of the captured PublishRequests.
package c26

import (
	"bufio"
	"encoding/json"
	"fmt"
	"io"
	"log"
	"os"
	"strings"
	"sync"
	"testing"
	"time"

	"github.com/gopcua/opcua/debug"

	"verif/pkg/ev"
)

func TestMain(m *testing.M) {
	log.SetOutput(io.Discard)
	if os.Getenv("VERIF_C26_DEV_DEBUG") != "" {
		// development only: gopcua's debug log on stdout
		log.SetOutput(os.Stdout)
		log.SetFlags(log.Lmicroseconds)
		debug.Enable = true
	}
	if os.Getenv("VERIF_C26_DEV_RING") != "" {
		// development only: keep the tail of gopcua's debug log in memory
		log.SetOutput(devRing)
		log.SetFlags(log.Lmicroseconds)
		debug.Enable = true
		debug.Logger = log.New(devRing, "debug: ", log.Lmicroseconds)
		if pr, pw, err := os.Pipe(); err == nil {
			// the prefix loggers of the debug package write to os.Stderr
			os.Stderr = pw
			go func() {
				sc := bufio.NewScanner(pr)
				sc.Buffer(make([]byte, 1<<20), 1<<20)
				for sc.Scan() {
					devRing.Write([]byte(time.Now().Format("15:04:05.000000 ") + sc.Text() + "\n"))
				}
			}()
		}
	}
	ev.Main(m)
}

// ringWriter keeps the last lines written to it (development aid).
type ringWriter struct {
	mu    sync.Mutex
	lines []string
}

var devRing = &ringWriter{}

func (r *ringWriter) Write(b []byte) (int, error) {
	r.mu.Lock()
	r.lines = append(r.lines, string(b))
	if len(r.lines) > 1500 {
		r.lines = r.lines[len(r.lines)-1000:]
	}
	r.mu.Unlock()
	return len(b), nil
}

func (r *ringWriter) dump() string {
	r.mu.Lock()
	defer r.mu.Unlock()
	return strings.Join(r.lines, "")
}

var rec = ev.For("C26", "(a) TestSurvival: rapid-drawn stacks of 1-3 subscriptions x 1-4 monitored items (publishing interval 50-100 ms) on variables of an in-process gopcua server behind a fault proxy, a side writer changing every variable every ~20 ms, 1-3 faults (proxy resets all connections = channel loss with the session kept / the session is closed on the server from a side channel / the proxy is handed to a fresh server instance = restart) at drawn moments; non-trivial = every item had delivered written values before the first fault and the client went through a reconnect; (b) TestAcks: rapid-drawn publish histories of 4-40 responses for 1-3 subscriptions (data change with in- and out-of-order sequence numbers, keep-alive, ServiceFault, PublishResponse with a bad service result, dropped request; per-acknowledgement results Good / BadSequenceNumberUnknown / BadSubscriptionIdInvalid / other Bad, result count right or wrong; session kept or lost and subscriptions transferred or not on the reconnects the faults cause); non-trivial = at least one notification was delivered and at least one acknowledgement was captured; distinct by hash of the drawn case")

// TestReplay re-executes a saved case without rapid.
func TestReplay(t *testing.T) {
	rp, err := ev.LoadReplay()
	if err != nil {
		t.Fatal(err)
	}
	if rp == nil {
		t.Skip("no VERIF_REPLAY")
	}
	switch rp.Test {
	case "TestSurvival":
		var c SurvCase
		if err := json.Unmarshal(rp.Case, &c); err != nil {
			t.Fatal(err)
		}
		c.Observed = nil
		fmt.Println("REPLAYED structured")
		msg, _, err := decideSurvival(&c, func(f string, a ...any) { fmt.Printf(f+"\n", a...) })
		if err != nil {
			t.Skipf("infrastructure failure (not a violation): %v", err)
		}
		if msg != "" {
			b, _ := json.MarshalIndent(c.Observed, "", " ")
			t.Fatalf("property C26 violated: %s\n%s", msg, b)
		}
	case "TestAcks":
		var c AckCase
		if err := json.Unmarshal(rp.Case, &c); err != nil {
			t.Fatal(err)
		}
		c.Observed = nil
		fmt.Println("REPLAYED structured")
		msg, _, err := decideAcks(&c, func(f string, a ...any) { fmt.Printf(f+"\n", a...) })
		if err != nil {
			t.Skipf("infrastructure failure (not a violation): %v", err)
		}
		if msg != "" {
			b, _ := json.MarshalIndent(c.Observed, "", " ")
			t.Fatalf("property C26 violated: %s\n%s", msg, b)
		}
	default:
		t.Fatalf("unknown test %q in replay file", rp.Test)
	}
	fmt.Println("re-execution held")
}
