package c26

import (
	"context"
	"encoding/json"
	"errors"
	"fmt"
	"os"
	"sort"
	"strings"
	"sync"
	"testing"
	"time"

	"github.com/gopcua/opcua"
	"github.com/gopcua/opcua/ua"
	"pgregory.net/rapid"

	"verif/pkg/ev"
	"verif/pkg/script"
	"verif/pkg/starve"
)

// ---------------------------------------------------------------------------
// (b) acknowledgements
//
// The scripted server sees every PublishRequest and therefore every
// SubscriptionAcknowledgement list. It answers each request at once (or never:
// "drop") according to the next step of a rapid-drawn history. Oracle over the
// captured requests, written against Part 4 5.13.5 and the property text only:
//
//  (i)   an acknowledgement (subscription, sequence number) names a
//        notification that was delivered in a Good PublishResponse before the
//        request arrived (a keep-alive's sequence number is not a notification);
//  (ii)  once the server has answered an acknowledgement with Good or
//        BadSequenceNumberUnknown in a well-formed Good response, and two more
//        requests arrived on the same connection (so the client has certainly
//        processed that response, even if it pipelined two requests), the
//        acknowledgement is not sent again;
//  (iii) a delivered notification whose response was certainly processed (two
//        more requests on the same connection, sent while the subscription was
//        still registered) appears in the acknowledgement list of some later
//        request.
//
//  (ii') an acknowledgement answered BadSubscriptionIdInvalid (certainly
//        processed, as in (ii)) is re-sent in at most 3 later requests.
//
// Re-sending after a ServiceFault, a bad service result, a dropped request, a
// wrong result count or another Bad result is allowed.

// PubStep is one scripted reaction to a PublishRequest.
type PubStep struct {
	Kind   string `json:"kind"`             // data | keepalive | fault | badstatus | drop
	Sub    int    `json:"sub,omitempty"`    // index among the server's subscriptions (sorted by id), mod their number
	Pick   int    `json:"pick,omitempty"`   // data: which of the 4 lowest unused sequence numbers (0 = in order)
	Status uint32 `json:"status,omitempty"` // fault / badstatus
	Res    []int  `json:"res,omitempty"`    // results for the acknowledgements of the request, cycled: 0 Good 1 BadSequenceNumberUnknown 2 BadSubscriptionIdInvalid 3 BadInternalError
	Count  int    `json:"count,omitempty"`  // result count: 0 right, -1 one fewer, +1 one more, -99 none
}

// AckCase is the replayable unit of TestAcks.
type AckCase struct {
	Subs        int          `json:"subs"`
	SessionLost bool         `json:"session_lost"` // the server forgets the session when the client comes back on a new connection
	TransferOK  bool         `json:"transfer_ok"`  // TransferSubscriptions succeeds for subscriptions the server has
	Steps       []PubStep    `json:"steps"`
	Observed    *AckObserved `json:"observed,omitempty"`
}

// AckObserved describes a failing execution.
type AckObserved struct {
	Verdict  string   `json:"verdict"`
	Requests []string `json:"requests,omitempty"`
	Events   []string `json:"events,omitempty"`
	Others   []string `json:"confirmations,omitempty"`
}

var ackFaults = []ua.StatusCode{ua.StatusBadTimeout, ua.StatusBadInternalError, ua.StatusBadSequenceNumberUnknown, ua.StatusBadSessionIDInvalid,
	ua.StatusBadSubscriptionIDInvalid, ua.StatusBadNoSubscription, ua.StatusBadTooManyPublishRequests}

var resCodes = []ua.StatusCode{ua.StatusOK, ua.StatusBadSequenceNumberUnknown, ua.StatusBadSubscriptionIDInvalid, ua.StatusBadInternalError}

func genAckCase(t *rapid.T) AckCase {
	c := AckCase{
		Subs:        1 + int(rapid.Uint64().Draw(t, "subs")%3),
		SessionLost: rapid.Bool().Draw(t, "sessionLost"),
		TransferOK:  rapid.Bool().Draw(t, "transferOK"),
	}
	n := 4 + int(rapid.Uint64().Draw(t, "nsteps")%uint64(ev.Pick(37, 60)))
	// a history is either mostly well-behaved or hostile
	hostile := rapid.Bool().Draw(t, "hostile")
	for i := 0; i < n; i++ {
		var s PubStep
		x := int(rapid.Uint64().Draw(t, "kind") % 100)
		fault, bad, drop := 3, 1, 1
		if hostile {
			fault, bad, drop = 9, 4, 2
		}
		switch {
		case x < 55:
			s.Kind = "data"
			s.Pick = rapid.SampledFrom([]int{0, 0, 0, 0, 1, 2, 3}).Draw(t, "pick")
		case x < 100-fault-bad-drop:
			s.Kind = "keepalive"
		case x < 100-bad-drop:
			s.Kind = "fault"
			s.Status = uint32(rapid.SampledFrom(ackFaults).Draw(t, "status"))
			if ua.StatusCode(s.Status) == ua.StatusBadTooManyPublishRequests && rapid.IntRange(0, 3).Draw(t, "rare") > 0 {
				s.Status = uint32(ua.StatusBadInternalError) // the client sleeps 1 s on BadTooManyPublishRequests
			}
		case x < 100-drop:
			s.Kind = "badstatus"
			s.Status = uint32(rapid.SampledFrom(ackFaults[:5]).Draw(t, "status"))
		default:
			s.Kind = "drop"
		}
		s.Sub = rapid.IntRange(0, 2).Draw(t, "sub")
		if s.Kind == "data" || s.Kind == "keepalive" || s.Kind == "badstatus" {
			if rapid.IntRange(0, 9).Draw(t, "allGood") < 6 {
				s.Res = []int{0}
			} else {
				k := rapid.IntRange(1, 4).Draw(t, "nres")
				for j := 0; j < k; j++ {
					s.Res = append(s.Res, rapid.IntRange(0, 3).Draw(t, "res"))
				}
			}
			s.Count = rapid.SampledFrom([]int{0, 0, 0, 0, 0, 0, 0, 0, 0, 0, 0, -1, 1, -99}).Draw(t, "count")
		}
		c.Steps = append(c.Steps, s)
	}
	return c
}

func (c AckCase) hasDrop() bool {
	for _, s := range c.Steps {
		if s.Kind == "drop" {
			return true
		}
	}
	return false
}

// ---------------------------------------------------------------------------
// scripted server

type ack struct{ sub, seq uint32 }

type capReq struct {
	idx     int // order of arrival at the server over all connections
	conn    int
	seq     int // order of arrival on its connection
	reqID   uint32
	acks    []ack
	kind    string          // how it was answered: held | data | keepalive | fault | badstatus | drop | tail | nosub
	good    bool            // answered with a PublishResponse whose service result is Good
	deliver ack             // notification delivered (kind data, good)
	results []ua.StatusCode // acknowledgement results sent
	atMs    int64           // arrival, ms since the start of the case
	sendErr string          // the response could not be sent
}

func (r *capReq) String() string {
	var as []string
	for _, a := range r.acks {
		as = append(as, fmt.Sprintf("%d/%d", a.sub, a.seq))
	}
	s := fmt.Sprintf("%6dms #%d conn#%d.%d acks[%s] <- %s", r.atMs, r.idx, r.conn, r.seq, strings.Join(as, " "), r.kind)
	if r.sendErr != "" {
		s += " (NOT SENT: " + r.sendErr + ")"
	}
	if r.kind == "data" {
		s += fmt.Sprintf(" %d/%d", r.deliver.sub, r.deliver.seq)
	}
	if r.good {
		var rs []string
		for _, x := range r.results {
			switch x {
			case ua.StatusOK:
				rs = append(rs, "Good")
			case ua.StatusBadSequenceNumberUnknown:
				rs = append(rs, "Unknown")
			case ua.StatusBadSubscriptionIDInvalid:
				rs = append(rs, "SubInvalid")
			default:
				rs = append(rs, "Bad")
			}
		}
		s += " results[" + strings.Join(rs, " ") + "]"
	}
	return s
}

type ackWorld struct {
	c   AckCase
	srv *script.Server

	mu         sync.Mutex
	started    bool
	reqs       []*capReq
	held       []*heldReq
	next       int // next step
	tail       int
	live       map[uint32]bool
	deleted    map[uint32]pos  // subscription id -> position of its DeleteSubscriptions request in the client's stream of publish requests
	perConn    map[int]int     // publish requests captured per connection
	byApp      map[uint32]bool // subscriptions created while an application Subscribe call was running
	inApp      bool            // an application Subscribe call is running
	orphan     map[uint32]bool // created for an application Subscribe call that failed at the client (e.g. timed out): the client does not know them
	appFailed  bool            // an application Subscribe call failed: its CreateSubscription request may still arrive
	knownAt    map[uint32]pos  // subscriptions created by an application Subscribe call during the history: position at which the call had returned
	used       map[uint32]map[uint32]bool
	subInvalid map[ack]bool // acknowledgements that were answered BadSubscriptionIdInvalid once
	nextSub    uint32
	tokConn    map[string]int
	events     []string
	t0         time.Time
	lastReq    time.Time
	conns      int
	reconn     int
	kinds      map[string]int
	rescodes   map[string]int
}

// pos is a position in the client's stream of publish requests: the client uses
// one connection at a time, so (connection, arrival order on that connection)
// orders the requests as they were sent, while the order of arrival over all
// connections does not (a request on the old connection can be handled by the
// server after requests on the new one).
type pos struct{ conn, seq int }

func (p pos) before(r *capReq) bool { return p.conn < r.conn || (p.conn == r.conn && p.seq <= r.seq) }

type heldReq struct {
	conn *script.Conn
	id   uint32
	req  *ua.PublishRequest
	cap  *capReq
}

const tailRounds = 3

func (w *ackWorld) logf(format string, args ...any) {
	w.events = append(w.events, fmt.Sprintf("%6dms ", time.Since(w.t0).Milliseconds())+fmt.Sprintf(format, args...))
	if len(w.events) > 300 {
		w.events = w.events[len(w.events)-300:]
	}
}

func (w *ackWorld) liveIDs() []uint32 {
	var ids []uint32
	for id := range w.live {
		ids = append(ids, id)
	}
	sort.Slice(ids, func(i, j int) bool { return ids[i] < ids[j] })
	return ids
}

// unused returns the k-th lowest unused sequence number of a subscription.
func (w *ackWorld) unused(sub uint32, k int) uint32 {
	u := w.used[sub]
	for q := uint32(1); ; q++ {
		if !u[q] {
			if k == 0 {
				return q
			}
			k--
		}
	}
}

func (w *ackWorld) results(s PubStep, n int) []ua.StatusCode {
	m := n
	switch s.Count {
	case -1:
		m = n - 1
	case 1:
		m = n + 1
	case -99:
		m = 0
	}
	if m < 0 {
		m = 0
	}
	out := make([]ua.StatusCode, m)
	for i := range out {
		if len(s.Res) > 0 {
			out[i] = resCodes[((s.Res[i%len(s.Res)]%len(resCodes))+len(resCodes))%len(resCodes)]
		}
	}
	return out
}

// process answers one publish request. Callers hold w.mu.
func (w *ackWorld) process(conn *script.Conn, reqID uint32, req *ua.PublishRequest, cr *capReq) {
	respond := func(resp ua.Response) {
		// answered synchronously: the order of responses on the wire is the order of the history
		if err := conn.Respond(reqID, resp); err != nil {
			// nothing was delivered and nothing was answered
			cr.sendErr = err.Error()
			cr.good = false
			cr.kind = "unsent-" + cr.kind
		}
	}
	ids := w.liveIDs()
	if w.next >= len(w.c.Steps) {
		// tail: a few keep-alives so that the last acknowledgement lists are seen
		if w.tail >= tailRounds {
			cr.kind = "held"
			return
		}
		w.tail++
		if len(ids) == 0 {
			cr.kind = "nosub"
			go func() { time.Sleep(10 * time.Millisecond); respond(script.Fault(req, ua.StatusBadNoSubscription)) }()
			return
		}
		cr.kind, cr.good = "tail", true
		cr.results = make([]ua.StatusCode, len(cr.acks))
		id := ids[0]
		resp := script.KeepAlive(req, id, w.unused(id, 0))
		go func() { time.Sleep(10 * time.Millisecond); respond(resp) }()
		return
	}
	s := w.c.Steps[w.next]
	w.next++
	w.kinds[s.Kind]++
	if len(ids) == 0 && s.Kind != "drop" && s.Kind != "fault" {
		cr.kind = "nosub"
		respond(script.Fault(req, ua.StatusBadNoSubscription))
		return
	}
	switch s.Kind {
	case "drop":
		cr.kind = "drop"
	case "fault":
		cr.kind = "fault"
		w.logf("request #%d <- ServiceFault %v", cr.idx, ua.StatusCode(s.Status))
		respond(script.Fault(req, ua.StatusCode(s.Status)))
	case "keepalive", "data", "badstatus":
		id := ids[s.Sub%len(ids)]
		res := w.results(s, len(cr.acks))
		// a server that does not know a subscription (any more) goes on saying
		// so: BadSubscriptionIdInvalid is sticky per acknowledgement
		for i := range res {
			if i < len(cr.acks) {
				if w.subInvalid[cr.acks[i]] {
					res[i] = ua.StatusBadSubscriptionIDInvalid
				} else if res[i] == ua.StatusBadSubscriptionIDInvalid {
					w.subInvalid[cr.acks[i]] = true
				}
			}
		}
		var resp *ua.PublishResponse
		if s.Kind == "keepalive" {
			resp = script.KeepAlive(req, id, w.unused(id, 0))
		} else {
			q := w.unused(id, s.Pick)
			if s.Kind == "data" {
				w.used[id][q] = true
				cr.deliver = ack{id, q}
			}
			resp = script.DataChange(req, id, q, map[uint32]*ua.DataValue{1: {EncodingMask: ua.DataValueValue, Value: ua.MustVariant(int32(q))}})
		}
		resp.Results = res
		cr.kind = s.Kind
		if s.Kind == "badstatus" {
			resp.ResponseHeader.ServiceResult = ua.StatusCode(s.Status)
			w.logf("request #%d <- PublishResponse with service result %v", cr.idx, ua.StatusCode(s.Status))
		} else {
			cr.good = true
			cr.results = res
			for _, x := range res {
				w.rescodes[x.Error()]++
			}
			if len(res) != len(cr.acks) {
				w.rescodes["wrong-result-count"]++
			}
		}
		respond(resp)
	}
}

func (w *ackWorld) handle(conn *script.Conn, req ua.Request, reqID uint32) bool {
	switch r := req.(type) {
	case *ua.PublishRequest:
		w.mu.Lock()
		defer w.mu.Unlock()
		cr := &capReq{idx: len(w.reqs), conn: conn.ID, seq: w.perConn[conn.ID], reqID: reqID, kind: "held", atMs: time.Since(w.t0).Milliseconds()}
		w.perConn[conn.ID]++
		for _, a := range r.SubscriptionAcknowledgements {
			if a != nil {
				cr.acks = append(cr.acks, ack{a.SubscriptionID, a.SequenceNumber})
			}
		}
		w.reqs = append(w.reqs, cr)
		w.lastReq = time.Now()
		if !w.started {
			w.held = append(w.held, &heldReq{conn, reqID, r, cr})
			return true
		}
		w.process(conn, reqID, r, cr)
		return true
	case *ua.CreateSessionRequest:
		resp, err := w.srv.CreateSessionResponse(conn, r)
		if err != nil {
			return false
		}
		w.mu.Lock()
		w.tokConn[resp.AuthenticationToken.String()] = conn.ID
		w.mu.Unlock()
		_ = conn.Respond(reqID, resp)
		return true
	case *ua.ActivateSessionRequest:
		w.mu.Lock()
		home, known := w.tokConn[r.RequestHeader.AuthenticationToken.String()]
		lost := w.c.SessionLost && known && home != conn.ID
		if conn.ID > 0 {
			w.logf("conn#%d ActivateSession (session lost: %v)", conn.ID, lost)
		}
		w.mu.Unlock()
		if lost {
			_ = conn.Respond(reqID, script.Fault(req, ua.StatusBadSessionIDInvalid))
			return true
		}
		return false
	case *ua.CreateSubscriptionRequest:
		w.mu.Lock()
		w.nextSub++
		id := w.nextSub
		w.live[id] = true
		w.used[id] = map[uint32]bool{}
		if w.inApp {
			w.byApp[id] = true
		} else if w.appFailed {
			// possibly the request of an application Subscribe call that the client
			// gave up: the client may not know this subscription
			w.orphan[id] = true
		}
		w.logf("conn#%d CreateSubscription -> %d", conn.ID, id)
		w.mu.Unlock()
		_ = conn.Respond(reqID, &ua.CreateSubscriptionResponse{ResponseHeader: script.Header(req, ua.StatusOK), SubscriptionID: id,
			RevisedPublishingInterval: r.RequestedPublishingInterval, RevisedLifetimeCount: r.RequestedLifetimeCount, RevisedMaxKeepAliveCount: r.RequestedMaxKeepAliveCount})
		return true
	case *ua.DeleteSubscriptionsRequest:
		res := make([]ua.StatusCode, len(r.SubscriptionIDs))
		w.mu.Lock()
		for i, id := range r.SubscriptionIDs {
			if w.live[id] {
				delete(w.live, id)
			} else {
				res[i] = ua.StatusBadSubscriptionIDInvalid
			}
			if _, ok := w.deleted[id]; !ok {
				w.deleted[id] = pos{conn.ID, w.perConn[conn.ID]}
			}
		}
		w.logf("conn#%d DeleteSubscriptions %v", conn.ID, r.SubscriptionIDs)
		w.mu.Unlock()
		_ = conn.Respond(reqID, &ua.DeleteSubscriptionsResponse{ResponseHeader: script.Header(req, ua.StatusOK), Results: res, DiagnosticInfos: []*ua.DiagnosticInfo{}})
		return true
	case *ua.TransferSubscriptionsRequest:
		res := make([]*ua.TransferResult, len(r.SubscriptionIDs))
		w.mu.Lock()
		for i, id := range r.SubscriptionIDs {
			st := ua.StatusBadSubscriptionIDInvalid
			if w.c.TransferOK && w.live[id] {
				st = ua.StatusOK
			}
			res[i] = &ua.TransferResult{StatusCode: st, AvailableSequenceNumbers: []uint32{}}
		}
		w.logf("conn#%d TransferSubscriptions %v (ok: %v)", conn.ID, r.SubscriptionIDs, w.c.TransferOK)
		w.mu.Unlock()
		_ = conn.Respond(reqID, &ua.TransferSubscriptionsResponse{ResponseHeader: script.Header(req, ua.StatusOK), Results: res, DiagnosticInfos: []*ua.DiagnosticInfo{}})
		return true
	}
	return false
}

// ---------------------------------------------------------------------------
// oracle (pure function of the captured history)

// judgeAcks returns "" or a description of the first violated clause. The
// requests are judged in the order the client sent them (see pos).
//
// fastMs > 0 (histories with a short publish timeout): a response counts as
// processed by the client only if the next request on the same connection
// arrived within fastMs of the request it answers. A client that gave the
// request up (timeout) sends the next request later than that, unless this
// process delayed the request or the response by the rest of the timeout,
// which the starvation gate detects.
func judgeAcks(captured []*capReq, deleted map[uint32]pos, orphan map[uint32]bool, knownAt map[uint32]pos, fastMs int64) string {
	reqs := append([]*capReq(nil), captured...)
	sort.SliceStable(reqs, func(i, j int) bool {
		if reqs[i].conn != reqs[j].conn {
			return reqs[i].conn < reqs[j].conn
		}
		return reqs[i].seq < reqs[j].seq
	})
	name := func(k int) string { return fmt.Sprintf("#%d", reqs[k].idx) }
	// indices of the requests after k on the same connection
	laterSameConn := func(k int) []int {
		var out []int
		for m := k + 1; m < len(reqs) && reqs[m].conn == reqs[k].conn; m++ {
			out = append(out, m)
		}
		if fastMs > 0 && len(out) > 0 && reqs[out[0]].atMs-reqs[k].atMs >= fastMs {
			return nil // the client may have given request k up before the response arrived
		}
		return out
	}
	delivered := map[ack]int{} // notification -> request whose response delivered it
	for k, r := range reqs {
		// (i)
		for _, a := range r.acks {
			if _, ok := delivered[a]; !ok {
				return fmt.Sprintf("(i) request %s acknowledges notification %d/%d, which the server had not delivered before", name(k), a.sub, a.seq)
			}
		}
		if r.kind == "data" && r.good {
			delivered[r.deliver] = k
		}
	}
	// (ii)
	for k, r := range reqs {
		if !r.good || len(r.results) != len(r.acks) {
			continue
		}
		ls := laterSameConn(k)
		if len(ls) < 2 {
			continue
		}
		for i, a := range r.acks {
			if r.results[i] == ua.StatusBadSubscriptionIDInvalid {
				// (ii') the server does not know the subscription (any more): a few
				// more attempts are tolerated, acknowledging it in request after
				// request is not "exactly once" under any reading
				again, last := 0, 0
				for m := ls[1]; m < len(reqs); m++ {
					for _, b := range reqs[m].acks {
						if a == b {
							again++
							last = m
						}
					}
				}
				if again > 3 {
					return fmt.Sprintf("(ii') the acknowledgement of notification %d/%d was answered BadSubscriptionIdInvalid in the response to request %s (requests %s and %s followed on the same connection), and %d later requests (the last one %s) acknowledge it again", a.sub, a.seq, name(k), name(ls[0]), name(ls[1]), again, name(last))
				}
				continue
			}
			if r.results[i] != ua.StatusOK && r.results[i] != ua.StatusBadSequenceNumberUnknown {
				continue
			}
			for m := ls[1]; m < len(reqs); m++ {
				for _, b := range reqs[m].acks {
					if a == b {
						what := "Good"
						if r.results[i] != ua.StatusOK {
							what = "BadSequenceNumberUnknown"
						}
						return fmt.Sprintf("(ii) the acknowledgement of notification %d/%d was answered %s in the response to request %s (requests %s and %s followed on the same connection), but the later request %s acknowledges it again", a.sub, a.seq, what, name(k), name(ls[0]), name(ls[1]), name(m))
					}
				}
			}
		}
	}
	// (iii)
	for k, r := range reqs {
		if r.kind != "data" || !r.good {
			continue
		}
		ls := laterSameConn(k)
		if len(ls) < 2 {
			continue
		}
		if d, ok := deleted[r.deliver.sub]; ok && d.before(reqs[ls[1]]) {
			continue // the subscription did not stay registered
		}
		if orphan[r.deliver.sub] {
			continue // the client never knew the subscription
		}
		if p, ok := knownAt[r.deliver.sub]; ok && !p.before(r) {
			continue // the request arrived before the application's Subscribe call had returned
		}
		found := false
		for m := k + 1; m < len(reqs) && !found; m++ {
			for _, b := range reqs[m].acks {
				if b == r.deliver {
					found = true
				}
			}
		}
		if !found {
			return fmt.Sprintf("(iii) notification %d/%d was delivered in the response to request %s, %d more requests followed (%s and %s on the same connection while the subscription was registered), none acknowledges it", r.deliver.sub, r.deliver.seq, name(k), len(reqs)-1-k, name(ls[0]), name(ls[1]))
		}
	}
	return ""
}

// ---------------------------------------------------------------------------
// execution

var errSetup = errors.New("set-up failed")

type ackResult struct {
	verdict string
	starved bool
	nontriv bool
	classes []string
	obs     AckObserved
}

func executeAcks(c AckCase) (res ackResult, err error) {
	hb := starve.Begin()
	w := &ackWorld{c: c, live: map[uint32]bool{}, deleted: map[uint32]pos{}, perConn: map[int]int{}, byApp: map[uint32]bool{}, orphan: map[uint32]bool{}, knownAt: map[uint32]pos{}, used: map[uint32]map[uint32]bool{}, subInvalid: map[ack]bool{}, tokConn: map[string]int{},
		t0: time.Now(), kinds: map[string]int{}, rescodes: map[string]int{}}
	srv, e := script.Start(script.Options{Handle: w.handle, OnConn: func(*script.Conn) { w.mu.Lock(); w.conns++; w.mu.Unlock() }})
	if e != nil {
		return res, fmt.Errorf("script server: %v", e)
	}
	w.srv = srv
	defer srv.Close()
	ctx, cancel := context.WithCancel(context.Background())
	defer cancel()

	// without dropped requests the client never has a reason to time a publish
	// request out: a long publish timeout keeps timeouts out of the history
	reqTimeout, keepAlive := 2*time.Second, uint32(300)
	if c.hasDrop() {
		// 2 s: long enough that a response the server sent at once is not
		// overtaken by the timeout on a busy machine, short enough to wait for
		keepAlive = 20
	}
	var cl *opcua.Client
	for attempt := 0; ; attempt++ {
		cl, e = opcua.NewClient(srv.URL, opcua.SecurityMode(ua.MessageSecurityModeNone), opcua.RequestTimeout(reqTimeout),
			opcua.AutoReconnect(true), opcua.ReconnectInterval(50*time.Millisecond))
		if e != nil {
			return res, e
		}
		cctx, ccancel := context.WithTimeout(ctx, 10*time.Second)
		e = cl.Connect(cctx)
		ccancel()
		if e == nil {
			break
		}
		if attempt >= 8 {
			return res, fmt.Errorf("%w: connect: %v", errSetup, e)
		}
		time.Sleep(time.Duration(100*(attempt+1)) * time.Millisecond)
	}
	defer func() {
		cancel()
		done := make(chan struct{})
		go func() {
			defer close(done)
			defer func() { _ = recover() }()
			cx, cc := context.WithTimeout(context.Background(), 2*time.Second)
			defer cc()
			cl.Close(cx)
		}()
		select {
		case <-done:
		case <-time.After(3 * time.Second):
		}
	}()
	nch := make(chan *opcua.PublishNotificationData, 256)
	go func() {
		for {
			select {
			case <-nch:
			case <-ctx.Done():
				return
			}
		}
	}()
	// subscribe is the application's Subscribe call. A subscription the server
	// created for a call that failed at the client (its response timed out on a
	// loaded machine) is not known to the client: the server may publish for it,
	// the client cannot acknowledge that.
	subscribe := func(timeout time.Duration) error {
		w.mu.Lock()
		w.inApp = true
		w.mu.Unlock()
		sctx, sc := context.WithTimeout(ctx, timeout)
		sub, e := cl.Subscribe(sctx, &opcua.SubscriptionParameters{Interval: 100 * time.Millisecond, MaxKeepAliveCount: keepAlive, LifetimeCount: 3 * keepAlive}, nch)
		sc()
		w.mu.Lock()
		w.inApp = false
		if e != nil {
			w.appFailed = true
		}
		for id := range w.byApp {
			if e != nil || sub == nil || sub.SubscriptionID != id {
				w.orphan[id] = true
				w.logf("subscription %d was created for a Subscribe call that failed at the client: %v", id, e)
			} else if w.started {
				// a PublishRequest that reached the server before this moment may be
				// answered with a notification of the new subscription before the
				// client has registered it; only later requests count for clause (iii)
				newest := -1
				for c := range w.perConn {
					if c > newest {
						newest = c
					}
				}
				w.knownAt[id] = pos{newest, w.perConn[newest]}
			}
			delete(w.byApp, id)
		}
		w.mu.Unlock()
		return e
	}
	for i := 0; i < c.Subs; i++ {
		var e error
		for attempt := 0; attempt < 5; attempt++ {
			if e = subscribe(10 * time.Second); e == nil {
				break
			}
			time.Sleep(100 * time.Millisecond)
		}
		if e != nil {
			return res, fmt.Errorf("%w: subscribe: %v", errSetup, e)
		}
	}

	// ---- start the history: the newest held request gets the first step
	// (with a publish timeout of 2 s the held request may be about to time
	// out at the client: it is left unanswered and the history starts with the
	// next request)
	w.mu.Lock()
	w.started = true
	w.lastReq = time.Now()
	if n := len(w.held); n > 0 && !c.hasDrop() {
		h := w.held[n-1]
		w.process(h.conn, h.id, h.req, h.cap)
	}
	w.mu.Unlock()

	// ---- wait for the end of the history (or for a stall)
	stallBound := 3 * time.Second
	if c.hasDrop() {
		stallBound = 6 * time.Second
	}
	// legitimate gaps between two PublishRequests: the client's 1 s sleeps
	// (BadTooManyPublishRequests, between Republish requests), a reconnect, and
	// the publish timeout after a dropped request
	kickAfter := 1800 * time.Millisecond
	if c.hasDrop() {
		kickAfter = 4 * time.Second
	}
	total := time.After(90 * time.Second)
	stalled := false
	kicks := 0
wait:
	for {
		w.mu.Lock()
		idle := time.Since(w.lastReq)
		done := w.next >= len(c.Steps) && w.tail >= tailRounds && len(w.reqs) > 0 && (w.reqs[len(w.reqs)-1].kind == "held" || idle > 300*time.Millisecond)
		w.mu.Unlock()
		switch {
		case done:
			break wait
		case idle > kickAfter && kicks < 2:
			// the publish loop has stopped (e.g. the server claimed to have no
			// subscription): another Subscribe starts it again, the history goes on
			kicks++
			if os.Getenv("VERIF_C26_DEV_RING") != "" {
				w.mu.Lock()
				var rs []string
				for _, r := range w.reqs {
					rs = append(rs, r.String())
				}
				fmt.Printf("KICK after %v idle\n%s\n%s\n---- gopcua debug tail ----\n%s\n---- end ----\n", idle, strings.Join(rs, "\n"), strings.Join(w.events, "\n"), devRing.dump())
				w.mu.Unlock()
			}
			e := subscribe(5 * time.Second)
			w.mu.Lock()
			w.lastReq = time.Now()
			w.logf("publish loop idle for %v: extra Subscribe -> %v", kickAfter, e)
			w.mu.Unlock()
		case idle > stallBound:
			stalled = true
			break wait
		}
		select {
		case <-total:
			stalled = true
			break wait
		case <-time.After(5 * time.Millisecond):
		}
	}

	w.mu.Lock()
	reqs := append([]*capReq(nil), w.reqs...)
	deleted := map[uint32]pos{}
	for k, v := range w.deleted {
		deleted[k] = v
	}
	orphan := map[uint32]bool{}
	for k := range w.orphan {
		orphan[k] = true
	}
	knownAt := map[uint32]pos{}
	for k, v := range w.knownAt {
		knownAt[k] = v
	}
	cls := map[string]bool{}
	for k := range w.kinds {
		cls["step:"+k] = true
	}
	for k := range w.rescodes {
		cls["ack-result:"+k] = true
	}
	if w.conns > 1 {
		cls["reconnected"] = true
	}
	if len(w.deleted) > 0 {
		cls["subscription-recreated"] = true
	}
	consumed := w.next
	events := append([]string(nil), w.events...)
	w.mu.Unlock()
	if len(orphan) > 0 {
		cls["subscription-unknown-to-the-client(Subscribe-call-failed)"] = true
	}
	if kicks > 0 {
		cls["publish-loop-restarted-by-an-extra-Subscribe"] = true
	}
	if stalled {
		cls[fmt.Sprintf("history-not-finished(no-PublishRequest-for-%v)", stallBound)] = true
	} else {
		cls["history-finished"] = true
	}
	cls[fmt.Sprintf("subs=%d", c.Subs)] = true
	if c.hasDrop() {
		cls["publish-timeout=2s"] = true
	} else {
		cls["publish-timeout=30s"] = true
	}
	nd, na, resent := 0, 0, false
	seen := map[ack]int{}
	for _, r := range reqs {
		if r.kind == "data" && r.good {
			nd++
		}
		na += len(r.acks)
		for _, a := range r.acks {
			seen[a]++
			if seen[a] > 1 {
				resent = true
			}
		}
	}
	if resent {
		cls["some-acknowledgement-sent-more-than-once(allowed-or-not-decided-by-oracle)"] = true
	}
	res.nontriv = nd > 0 && na > 0
	cls[fmt.Sprintf("steps-consumed=%d%%", 10*(10*consumed/len(c.Steps)))] = true
	for k := range cls {
		res.classes = append(res.classes, k)
	}
	sort.Strings(res.classes)

	fastMs := int64(0)
	if c.hasDrop() {
		fastMs = 1000 // publish timeout 2 s (+ 250 ms leniency of the client)
	}
	res.verdict = judgeAcks(reqs, deleted, orphan, knownAt, fastMs)
	if res.verdict != "" {
		res.obs.Verdict = res.verdict
		for _, r := range reqs {
			res.obs.Requests = append(res.obs.Requests, r.String())
		}
		if len(res.obs.Requests) > 150 {
			res.obs.Requests = res.obs.Requests[len(res.obs.Requests)-150:]
		}
		res.obs.Events = events
		// the verdict assumes that a response the server sent at once was not
		// overtaken by the client's publish timeout: not trusted if this process
		// did not get the CPU
		if c.hasDrop() && hb.Settle() > 500*time.Millisecond {
			res.starved = true
		}
	}
	if os.Getenv("VERIF_C26_DEV_TRACE") != "" {
		for _, r := range reqs {
			fmt.Println("   ", r.String())
		}
		fmt.Println(strings.Join(events, "\n"))
	}
	return res, nil
}

func decideAcks(c *AckCase, logf func(string, ...any)) (msg string, res ackResult, err error) {
	res, err = executeAcks(*c)
	if err != nil || res.verdict == "" {
		return "", res, err
	}
	first := res
	inconclusive := func(why string) (string, ackResult, error) {
		cj, _ := json.Marshal(c)
		oj, _ := json.Marshal(first.obs)
		fmt.Printf("C26 INCONCLUSIVE (%s): %s\n  observed: %s\n  case: %s\n", why, first.verdict, oj, cj)
		rec.Inconclusive()
		first.classes = append(first.classes, "inconclusive("+why+")")
		return "", first, nil
	}
	if res.starved {
		return inconclusive("process-starved")
	}
	obs := res.obs
	for i := 0; i < 2; i++ {
		r2, e2 := executeAcks(*c)
		if e2 != nil {
			logf("confirmation run %d: %v", i+1, e2)
			return inconclusive("confirmation-run-failed-to-set-up")
		}
		obs.Others = append(obs.Others, r2.verdict)
		if r2.verdict == "" || r2.starved {
			return inconclusive("confirmation-not-3/3")
		}
	}
	c.Observed = &obs
	return first.verdict + " (confirmed 3/3)", first, nil
}

func TestAcks(t *testing.T) {
	rec.Assume("(b) trusted base: pkg/script (gopcua's server-side channel API) as the scripted server and observer of every PublishRequest; the client keeps at most two PublishRequests outstanding (clauses (ii) and (iii) wait for two more requests on the same connection before they count a response as processed); histories without dropped requests use a publish timeout of 30 s, histories with dropped requests 2 s; every failure is re-executed (3/3) and a failure of a history with dropped requests is not trusted if the harness' heartbeats were more than 500 ms late")
	rapid.Check(t, func(rt *rapid.T) {
		c := genAckCase(rt)
		rec.Journal("TestAcks", c)
		msg, res, err := decideAcks(&c, func(f string, a ...any) { rt.Logf(f, a...) })
		rec.JournalDone("TestAcks")
		if errors.Is(err, errSetup) {
			rec.Class("case-discarded(set-up-failed-on-a-loaded-machine)")
			rt.Skip(err.Error())
		}
		if err != nil {
			t.Fatalf("infrastructure failure (not a violation): %v", err)
		}
		cc := c
		cc.Observed = nil
		b, _ := json.Marshal(cc)
		cl := make([]string, len(res.classes))
		for i, k := range res.classes {
			cl[i] = "b:" + k
		}
		rec.Case(res.nontriv, ev.Hash("acks", b), cl...)
		if res.nontriv && rec.WantSample() {
			rec.Sample(map[string]any{"test": "TestAcks", "case": cc})
		}
		if msg != "" {
			rec.Fail(rt, "TestAcks", c, "%s", msg)
		}
	})
}
