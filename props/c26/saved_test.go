package c26

// TestSavedCases runs the hand-minimised cases of testdata/replay/c26 (each one
// reproduced a repaired defect) in every tier, so that the defect is reported
// again if it ever returns - the random search meets these shapes only rarely.

import (
	"encoding/json"
	"os"
	"path/filepath"
	"sort"
	"testing"

	"verif/pkg/ev"
)

func TestSavedCases(t *testing.T) {
	root := os.Getenv("VERIF_ROOT")
	if root == "" {
		root = "../.."
	}
	files, _ := filepath.Glob(filepath.Join(root, "testdata", "replay", "c26", "*.json"))
	sort.Strings(files)
	if len(files) == 0 {
		t.Skip("no saved cases")
	}
	for _, f := range files {
		b, err := os.ReadFile(f)
		if err != nil {
			t.Fatalf("infrastructure: %v", err)
		}
		var rp ev.Replay
		if err := json.Unmarshal(b, &rp); err != nil {
			t.Fatalf("infrastructure: %s: %v", f, err)
		}
		name := filepath.Base(f)
		switch rp.Test {
		case "TestSurvival":
			var c SurvCase
			if err := json.Unmarshal(rp.Case, &c); err != nil {
				t.Fatalf("infrastructure: %s: %v", f, err)
			}
			c.Observed = nil
			msg, res, err := decideSurvival(&c, func(f string, a ...any) { t.Logf(f, a...) })
			if err != nil {
				t.Logf("%s: no verdict: %v", name, err)
				rec.Inconclusive()
				continue
			}
			rec.Case(true, ev.Hash("saved", name), append(res.classes, "saved-case:"+name)...)
			if msg != "" {
				rec.Fail(t, "TestSurvival", c, "saved case %s: %s", name, msg)
			}
		case "TestAcks":
			var c AckCase
			if err := json.Unmarshal(rp.Case, &c); err != nil {
				t.Fatalf("infrastructure: %s: %v", f, err)
			}
			c.Observed = nil
			msg, _, err := decideAcks(&c, func(f string, a ...any) { t.Logf(f, a...) })
			if err != nil {
				t.Logf("%s: no verdict: %v", name, err)
				rec.Inconclusive()
				continue
			}
			rec.Case(true, ev.Hash("saved", name), "saved-case:"+name)
			if msg != "" {
				rec.Fail(t, "TestAcks", c, "saved case %s: %s", name, msg)
			}
		}
	}
}
