// Package c32 decides property C32: server subscription and monitored item ids
// are unique and session-scoped.
//
// One in-process gopcua server (pkg/stack), three sessions (separate
// opcua.Clients, low-level Client.Send so that every id the server returns is
// visible), a rapid state machine over CreateSubscription, DeleteSubscriptions,
// CreateMonitoredItems, DeleteMonitoredItems and SetMonitoringMode with own,
// foreign, stale and never-issued ids, judged against a model
// {live subscription id -> owner, live monitored item id -> (subscription, owner)}.
//
// What is asserted (and nothing else):
//   - a subscription id returned by CreateSubscription is not the id of a
//     subscription that is still live in the model (of any session);
//   - a monitored item id returned by CreateMonitoredItems is distinct from every
//     monitored item id that is still live in the model, server-wide (the
//     property says "distinct from all ids still in use"; this server also looks
//     items up by id alone) and from the other ids of the same response;
//   - DeleteSubscriptions / DeleteMonitoredItems / SetMonitoringMode /
//     CreateMonitoredItems naming another session's live object do not report
//     Good for it, and the same requests naming an id the server never issued do
//     not report Good for it;
//   - the owner's objects stay alive: an owner's delete / SetMonitoringMode of a
//     model-live object reports Good, in particular in the final sweep in which
//     every owner deletes all of its model-live objects.
//
// Stale ids (objects deleted earlier) are sent too but nothing is asserted
// about their status: the server removes objects in the background.
package c32

import (
	"context"
	"encoding/json"
	"errors"
	"fmt"
	"os"
	"runtime/pprof"
	"strings"
	"sync"
	"testing"
	"time"

	"github.com/gopcua/opcua"
	"github.com/gopcua/opcua/ua"
	"pgregory.net/rapid"

	"verif/pkg/ev"
	"verif/pkg/stack"
)

func TestMain(m *testing.M) { ev.Main(m) }

var rec = ev.For("C32", "rapid state machine (t.Repeat) over CreateSubscription / DeleteSubscriptions / CreateMonitoredItems / DeleteMonitoredItems / SetMonitoringMode from 2-3 sessions of one in-process server, plus simultaneous CreateSubscription / CreateMonitoredItems requests from all sessions, and ModifySubscription / SetPublishingMode / ModifyMonitoredItems / SetTriggering aimed at foreign ids (answer must not be Good), targets drawn from {own, foreign, stale, never issued}; benign subscription parameters; non-trivial = the history created a subscription and a monitored item, contained a foreign or unknown operation that was answered, and the final owner sweep verified at least one object; distinct by hash of the executed operation list")

const testName = "TestIDs"

// neverBase: ids at or above this value are never issued by a server that
// numbers from small integers within one run; used for the "never issued" class.
const neverBase = 0x40000000

type tgt struct {
	Ref int    `json:"ref"`           // >= 0: k-th subscription / item created in this case; -1: raw id
	Raw uint32 `json:"raw,omitempty"` // raw id when Ref == -1
}

type opT struct {
	Op     string `json:"op"` // createSub deleteSubs createItems deleteItems setMode
	Sess   int    `json:"sess"`
	Sub    tgt    `json:"sub"`
	Subs   []tgt  `json:"subs,omitempty"`
	Items  []tgt  `json:"items,omitempty"`
	N      int    `json:"n,omitempty"`
	Mode   uint32 `json:"mode,omitempty"`
	Settle bool   `json:"settle,omitempty"`
	K      int    `json:"k,omitempty"` // parallelCreate: sessions 0..K-1 take part
	Svc    string `json:"svc,omitempty"` // otherSvc: modifySub setPublishingMode modifyItems setTriggering
}

type caseT struct {
	Sessions int   `json:"sessions"`
	Ops      []opT `json:"ops"`
}

// ---------------------------------------------------------------------------
// model

type subM struct {
	created bool
	id      uint32
	owner   int
	live    bool
}

type itemM struct {
	created bool
	id      uint32
	sub     uint32 // subscription id it was created in
	owner   int
	live    bool
}

type model struct {
	subs  []*subM
	items []*itemM
	// every id handed out in this environment (also by earlier cases)
	issuedSubs, issuedItems map[uint32]bool
}

func (m *model) liveSub(id uint32) *subM {
	for _, s := range m.subs {
		if s.created && s.live && s.id == id {
			return s
		}
	}
	return nil
}

func (m *model) liveItem(id uint32) *itemM {
	for _, it := range m.items {
		if it.created && it.live && it.id == id {
			return it
		}
	}
	return nil
}

func (m *model) killSub(s *subM) {
	s.live = false
	for _, it := range m.items {
		if it.created && it.live && it.sub == s.id {
			it.live = false
		}
	}
}

func (m *model) subID(t tgt) (uint32, bool) {
	if t.Ref < 0 {
		return t.Raw, true
	}
	if t.Ref >= len(m.subs) || !m.subs[t.Ref].created {
		return 0, false
	}
	return m.subs[t.Ref].id, true
}

func (m *model) itemID(t tgt) (uint32, bool) {
	if t.Ref < 0 {
		return t.Raw, true
	}
	if t.Ref >= len(m.items) || !m.items[t.Ref].created {
		return 0, false
	}
	return m.items[t.Ref].id, true
}

// class of a subscription id as seen by session s: own, foreign, stale, never, other
func (m *model) subClass(id uint32, s int) string {
	if x := m.liveSub(id); x != nil {
		if x.owner == s {
			return "own"
		}
		return "foreign"
	}
	if m.issuedSubs[id] {
		return "stale"
	}
	if id >= neverBase || id == 0 {
		return "never"
	}
	return "other"
}

// ---------------------------------------------------------------------------
// environment: one server, three sessions; replaced after a failing case

type envT struct {
	srv   *stack.Server
	cl    []*opcua.Client
	nodes []*ua.NodeID
	dirty bool
	cases int
	m     *model // carries issued ids across cases
}

var (
	envMu sync.Mutex
	env   *envT
)

const nClients = 3

func newEnv() (*envT, error) {
	srv, err := stack.StartServer(stack.ServerOpts{})
	if err != nil {
		return nil, err
	}
	e := &envT{srv: srv}
	for i := 0; i < 4; i++ {
		name := fmt.Sprintf("v%d", i)
		srv.AddVariable(name, int32(i))
		e.nodes = append(e.nodes, srv.NodeID(name))
	}
	for i := 0; i < nClients; i++ {
		c, err := stack.Connect(srv.URL, opcua.SecurityMode(ua.MessageSecurityModeNone), opcua.RequestTimeout(10*time.Second), opcua.AutoReconnect(false))
		if err != nil {
			e.close()
			return nil, fmt.Errorf("connect session %d: %w", i, err)
		}
		e.cl = append(e.cl, c)
	}
	e.m = &model{issuedSubs: map[uint32]bool{}, issuedItems: map[uint32]bool{}}
	return e, nil
}

func (e *envT) close() {
	for _, c := range e.cl {
		ctx, cancel := context.WithTimeout(context.Background(), 2*time.Second)
		_ = c.Close(ctx)
		cancel()
	}
	e.srv.Close()
}

func getEnv() (*envT, error) {
	envMu.Lock()
	defer envMu.Unlock()
	if env != nil && (env.dirty || env.cases >= 200) {
		env.close()
		env = nil
	}
	if env == nil {
		e, err := newEnv()
		if err != nil {
			return nil, err
		}
		env = e
	}
	env.cases++
	// a new case starts with nothing live; issued ids stay known
	env.m.subs, env.m.items = nil, nil
	return env, nil
}

// ---------------------------------------------------------------------------
// requests

type infraError struct{ err error }

func (e infraError) Error() string { return e.err.Error() }

// send returns (response, fault status, error). A ServiceFault is not an
// error here: it is a Bad answer to the whole request.
func (e *envT) send(sess int, req ua.Request) (ua.Response, ua.StatusCode, error) {
	ctx, cancel := context.WithTimeout(context.Background(), 15*time.Second)
	defer cancel()
	var resp ua.Response
	err := e.cl[sess].Send(ctx, req, func(v ua.Response) error { resp = v; return nil })
	if err != nil {
		var sc ua.StatusCode
		if errors.As(err, &sc) && sc != ua.StatusBadTimeout && sc != ua.StatusBadServerNotConnected {
			return nil, sc, nil
		}
		return nil, 0, infraError{fmt.Errorf("%T from session %d: %w", req, sess, err)}
	}
	if f, ok := resp.(*ua.ServiceFault); ok {
		return nil, f.ResponseHeader.ServiceResult, nil
	}
	return resp, ua.StatusOK, nil
}

func good(s ua.StatusCode) bool { return s&0xC0000000 == 0 }

func resultAt(rs []ua.StatusCode, i int) ua.StatusCode {
	if i < len(rs) {
		return rs[i]
	}
	return ua.StatusBadUnexpectedError // a missing result is not a Good result
}

// ---------------------------------------------------------------------------
// execution of one operation against server and model; returns a violation
// message or "".

type runT struct {
	e        *envT
	m        *model
	classes  map[string]int
	answered int // foreign / never operations that were answered
	verified int // objects verified alive by their owner
}

func (r *runT) class(format string, a ...any) { r.classes[fmt.Sprintf(format, a...)]++ }

func (r *runT) exec(op opT) (string, error) {
	m := r.m
	defer func() {
		if op.Settle {
			time.Sleep(2 * time.Millisecond)
		}
	}()
	switch op.Op {
	case "createSub":
		req := &ua.CreateSubscriptionRequest{RequestedPublishingInterval: 500 + float64(op.N)*250, RequestedLifetimeCount: 10000,
			RequestedMaxKeepAliveCount: 10 + uint32(op.N), MaxNotificationsPerPublish: 0, PublishingEnabled: true}
		resp, st, err := r.e.send(op.Sess, req)
		if err != nil {
			return "", err
		}
		entry := &subM{}
		m.subs = append(m.subs, entry)
		if resp == nil {
			r.class("createSub:fault:%v", st)
			return "", nil
		}
		cr, ok := resp.(*ua.CreateSubscriptionResponse)
		if !ok {
			return "", infraError{fmt.Errorf("CreateSubscription answered with %T", resp)}
		}
		id := cr.SubscriptionID
		if old := m.liveSub(id); old != nil {
			return fmt.Sprintf("CreateSubscription (session %d) returned subscription id %d, which is still in use by a live subscription of session %d", op.Sess, id, old.owner), nil
		}
		*entry = subM{created: true, id: id, owner: op.Sess, live: true}
		if m.issuedSubs[id] {
			r.class("createSub:id-reissued-after-delete")
		} else {
			r.class("createSub:id-fresh")
		}
		m.issuedSubs[id] = true
		return "", nil

	case "parallelCreate":
		// sessions 0..K-1 send CreateSubscription at the same moment, then (N > 0)
		// CreateMonitoredItems(N) on the subscription each of them got; every id
		// must differ from the others' and from every id still in use
		k := op.K
		if k < 2 {
			return "", nil
		}
		type out struct {
			resp ua.Response
			st   ua.StatusCode
			err  error
		}
		fire := func(reqs []ua.Request) []out {
			outs := make([]out, len(reqs))
			var wg sync.WaitGroup
			start := make(chan struct{})
			for i := range reqs {
				if reqs[i] == nil {
					continue
				}
				wg.Add(1)
				go func(i int) {
					defer wg.Done()
					<-start
					outs[i].resp, outs[i].st, outs[i].err = r.e.send(i, reqs[i])
				}(i)
			}
			close(start)
			wg.Wait()
			return outs
		}
		reqs := make([]ua.Request, k)
		for i := range reqs {
			reqs[i] = &ua.CreateSubscriptionRequest{RequestedPublishingInterval: 500, RequestedLifetimeCount: 10000,
				RequestedMaxKeepAliveCount: 10, MaxNotificationsPerPublish: 0, PublishingEnabled: true}
		}
		outs := fire(reqs)
		newSubs := make([]*subM, k)
		var firstErr error
		for i, o := range outs {
			entry := &subM{}
			m.subs = append(m.subs, entry)
			if o.err != nil {
				firstErr = o.err
				continue
			}
			cr, ok := o.resp.(*ua.CreateSubscriptionResponse)
			if !ok {
				r.class("parallelCreate:sub:fault:%v", o.st)
				continue
			}
			id := cr.SubscriptionID
			if old := m.liveSub(id); old != nil {
				return fmt.Sprintf("concurrent CreateSubscription requests of %d sessions: session %d got subscription id %d, which is in use by a live subscription of session %d", k, i, id, old.owner), nil
			}
			*entry = subM{created: true, id: id, owner: i, live: true}
			m.issuedSubs[id] = true
			newSubs[i] = entry
		}
		if firstErr != nil {
			return "", firstErr
		}
		r.class("parallelCreate:subs")
		if op.N <= 0 {
			return "", nil
		}
		reqs = make([]ua.Request, k)
		for i := range reqs {
			if newSubs[i] == nil {
				continue
			}
			req := &ua.CreateMonitoredItemsRequest{SubscriptionID: newSubs[i].id, TimestampsToReturn: ua.TimestampsToReturnBoth}
			for j := 0; j < op.N; j++ {
				req.ItemsToCreate = append(req.ItemsToCreate, &ua.MonitoredItemCreateRequest{
					ItemToMonitor:  &ua.ReadValueID{NodeID: r.e.nodes[(i*op.N+j)%len(r.e.nodes)], AttributeID: ua.AttributeIDValue, DataEncoding: &ua.QualifiedName{}},
					MonitoringMode: ua.MonitoringModeReporting,
					RequestedParameters: &ua.MonitoringParameters{ClientHandle: uint32(len(m.items) + i*op.N + j + 1), SamplingInterval: 500,
						Filter: ua.NewExtensionObject(nil), QueueSize: 1, DiscardOldest: true},
				})
			}
			reqs[i] = req
		}
		outs = fire(reqs)
		for i, o := range outs {
			if reqs[i] == nil {
				continue
			}
			if o.err != nil {
				firstErr = o.err
				continue
			}
			cr, ok := o.resp.(*ua.CreateMonitoredItemsResponse)
			if !ok {
				r.class("parallelCreate:items:fault:%v", o.st)
				continue
			}
			for j, res := range cr.Results {
				if j >= op.N || res == nil || !good(res.StatusCode) {
					continue
				}
				id := res.MonitoredItemID
				if old := m.liveItem(id); old != nil {
					return fmt.Sprintf("concurrent CreateMonitoredItems requests of %d sessions: session %d (subscription %d) got monitored item id %d, which is in use (subscription %d, session %d)", k, i, newSubs[i].id, id, old.sub, old.owner), nil
				}
				m.items = append(m.items, &itemM{created: true, id: id, sub: newSubs[i].id, owner: i, live: true})
				m.issuedItems[id] = true
			}
		}
		if firstErr != nil {
			return "", firstErr
		}
		r.class("parallelCreate:items")
		return "", nil

	case "otherSvc":
		// the remaining services that change a subscription or its monitoring,
		// aimed at a subscription (and items) of another session: whatever the
		// server supports of them, the answer for a foreign id must not be Good
		subID, ok := m.subID(op.Sub)
		if !ok {
			return "", nil
		}
		scl := m.subClass(subID, op.Sess)
		var ids []uint32
		var icl []string
		for _, t := range op.Items {
			if id, ok := m.itemID(t); ok {
				ids = append(ids, id)
				if it := m.liveItem(id); it != nil && it.owner != op.Sess {
					icl = append(icl, "foreign")
				} else {
					icl = append(icl, "other")
				}
			}
		}
		var req ua.Request
		switch op.Svc {
		case "modifySub":
			req = &ua.ModifySubscriptionRequest{SubscriptionID: subID, RequestedPublishingInterval: 60000, RequestedLifetimeCount: 3, RequestedMaxKeepAliveCount: 1}
		case "setPublishingMode":
			req = &ua.SetPublishingModeRequest{PublishingEnabled: false, SubscriptionIDs: []uint32{subID}}
		case "modifyItems":
			if len(ids) == 0 {
				return "", nil
			}
			mr := &ua.ModifyMonitoredItemsRequest{SubscriptionID: subID, TimestampsToReturn: ua.TimestampsToReturnNeither}
			for _, id := range ids {
				mr.ItemsToModify = append(mr.ItemsToModify, &ua.MonitoredItemModifyRequest{MonitoredItemID: id,
					RequestedParameters: &ua.MonitoringParameters{ClientHandle: 0xdead, SamplingInterval: 3600000, Filter: ua.NewExtensionObject(nil), QueueSize: 1, DiscardOldest: true}})
			}
			req = mr
		case "setTriggering":
			if len(ids) == 0 {
				return "", nil
			}
			req = &ua.SetTriggeringRequest{SubscriptionID: subID, TriggeringItemID: ids[0], LinksToAdd: ids, LinksToRemove: []uint32{}}
		default:
			return "", nil
		}
		r.class("otherSvc:%s:%s", op.Svc, scl)
		resp, st, err := r.e.send(op.Sess, req)
		if err != nil {
			return "", err
		}
		if resp == nil {
			r.class("otherSvc:%s:fault:%v", op.Svc, st)
			if scl == "foreign" {
				r.answered++
			}
			return "", nil
		}
		owner := func() int {
			if x := m.liveSub(subID); x != nil {
				return x.owner
			}
			return -1
		}
		var results []ua.StatusCode
		switch v := resp.(type) {
		case *ua.ModifySubscriptionResponse:
			if scl == "foreign" && good(v.ResponseHeader.ServiceResult) {
				return fmt.Sprintf("ModifySubscription by session %d was answered Good for subscription %d owned by session %d", op.Sess, subID, owner()), nil
			}
		case *ua.SetPublishingModeResponse:
			if scl == "foreign" && good(resultAt(v.Results, 0)) {
				return fmt.Sprintf("SetPublishingMode(false) by session %d reported Good for subscription %d owned by session %d", op.Sess, subID, owner()), nil
			}
		case *ua.ModifyMonitoredItemsResponse:
			for _, x := range v.Results {
				if x != nil {
					results = append(results, x.StatusCode)
				} else {
					results = append(results, ua.StatusBad)
				}
			}
		case *ua.SetTriggeringResponse:
			results = v.AddResults
		default:
			return "", infraError{fmt.Errorf("%T answered with %T", req, resp)}
		}
		for i, res := range results {
			if i >= len(ids) || !good(res) {
				continue
			}
			if scl == "foreign" {
				return fmt.Sprintf("%T by session %d on subscription %d owned by session %d reported Good for item %d", req, op.Sess, subID, owner(), ids[i]), nil
			}
			if icl[i] == "foreign" {
				it := m.liveItem(ids[i])
				return fmt.Sprintf("%T by session %d reported Good for monitored item %d, which belongs to subscription %d of session %d", req, op.Sess, ids[i], it.sub, it.owner), nil
			}
		}
		if scl == "foreign" {
			r.answered++
		}
		return "", nil

	case "deleteSubs":
		var ids []uint32
		seen := map[uint32]bool{}
		for _, t := range op.Subs {
			if id, ok := m.subID(t); ok && !seen[id] {
				seen[id] = true
				ids = append(ids, id)
			}
		}
		if len(ids) == 0 {
			return "", nil
		}
		cls := make([]string, len(ids))
		for i, id := range ids {
			cls[i] = m.subClass(id, op.Sess)
			r.class("deleteSubs:%s", cls[i])
		}
		resp, st, err := r.e.send(op.Sess, &ua.DeleteSubscriptionsRequest{SubscriptionIDs: ids})
		if err != nil {
			return "", err
		}
		var results []ua.StatusCode
		if resp != nil {
			dr, ok := resp.(*ua.DeleteSubscriptionsResponse)
			if !ok {
				return "", infraError{fmt.Errorf("DeleteSubscriptions answered with %T", resp)}
			}
			results = dr.Results
		} else {
			r.class("deleteSubs:fault:%v", st)
		}
		for i, id := range ids {
			res := resultAt(results, i)
			switch cls[i] {
			case "own":
				s := m.liveSub(id)
				m.killSub(s)
				if !good(res) {
					return fmt.Sprintf("session %d could not delete its own live subscription %d: %v (the subscription was not left alive)", op.Sess, id, res), nil
				}
				r.verified++
			case "foreign":
				r.answered++
				if good(res) {
					return fmt.Sprintf("DeleteSubscriptions by session %d reported Good for subscription %d owned by session %d", op.Sess, id, m.liveSub(id).owner), nil
				}
			case "never":
				r.answered++
				if good(res) {
					return fmt.Sprintf("DeleteSubscriptions by session %d reported Good for subscription id %d, which was never issued", op.Sess, id), nil
				}
			}
		}
		return "", nil

	case "createItems":
		subID, ok := m.subID(op.Sub)
		if !ok || op.N <= 0 {
			return "", nil
		}
		cl := m.subClass(subID, op.Sess)
		r.class("createItems:%s", cl)
		req := &ua.CreateMonitoredItemsRequest{SubscriptionID: subID, TimestampsToReturn: ua.TimestampsToReturnBoth}
		for i := 0; i < op.N; i++ {
			req.ItemsToCreate = append(req.ItemsToCreate, &ua.MonitoredItemCreateRequest{
				ItemToMonitor:  &ua.ReadValueID{NodeID: r.e.nodes[(len(m.items)+i)%len(r.e.nodes)], AttributeID: ua.AttributeIDValue, DataEncoding: &ua.QualifiedName{}},
				MonitoringMode: ua.MonitoringModeReporting,
				RequestedParameters: &ua.MonitoringParameters{ClientHandle: uint32(len(m.items) + i + 1), SamplingInterval: 500,
					Filter: ua.NewExtensionObject(nil), QueueSize: 1, DiscardOldest: true},
			})
		}
		resp, st, err := r.e.send(op.Sess, req)
		if err != nil {
			return "", err
		}
		entries := make([]*itemM, op.N)
		for i := range entries {
			entries[i] = &itemM{}
			m.items = append(m.items, entries[i])
		}
		if resp == nil {
			r.class("createItems:%s:fault:%v", cl, st)
			if cl == "foreign" || cl == "never" {
				r.answered++
			}
			return "", nil
		}
		cr, ok := resp.(*ua.CreateMonitoredItemsResponse)
		if !ok {
			return "", infraError{fmt.Errorf("CreateMonitoredItems answered with %T", resp)}
		}
		for i, res := range cr.Results {
			if i >= op.N || res == nil || !good(res.StatusCode) {
				continue
			}
			id := res.MonitoredItemID
			switch cl {
			case "foreign":
				return fmt.Sprintf("CreateMonitoredItems by session %d on subscription %d owned by session %d reported Good (item id %d)", op.Sess, subID, m.liveSub(subID).owner, id), nil
			case "own":
			default:
				// an item in a subscription the model does not know as live: not tracked
				continue
			}
			if old := m.liveItem(id); old != nil {
				return fmt.Sprintf("CreateMonitoredItems (session %d, subscription %d) returned monitored item id %d, which is still in use (subscription %d, session %d)", op.Sess, subID, id, old.sub, old.owner), nil
			}
			*entries[i] = itemM{created: true, id: id, sub: subID, owner: op.Sess, live: true}
			m.issuedItems[id] = true
		}
		if cl == "foreign" || cl == "never" {
			r.answered++
		}
		return "", nil

	case "deleteItems", "setMode":
		subID, ok := m.subID(op.Sub)
		if !ok {
			return "", nil
		}
		scl := m.subClass(subID, op.Sess)
		var ids []uint32
		seen := map[uint32]bool{}
		for _, t := range op.Items {
			if id, ok := m.itemID(t); ok && !seen[id] {
				seen[id] = true
				ids = append(ids, id)
			}
		}
		if len(ids) == 0 {
			return "", nil
		}
		// expectation per id
		exp := make([]string, len(ids)) // good, bad-foreign, bad-never, none
		for i, id := range ids {
			it := m.liveItem(id)
			switch {
			case it != nil && it.owner == op.Sess && it.sub == subID && scl == "own":
				exp[i] = "good"
			case it != nil && it.owner != op.Sess:
				exp[i] = "bad-foreign"
			case it == nil && !m.issuedItems[id] && (id >= neverBase || id == 0):
				exp[i] = "bad-never"
			default:
				exp[i] = "none"
			}
			r.class("%s:sub-%s:item-%s", op.Op, scl, exp[i])
		}
		var req ua.Request
		if op.Op == "deleteItems" {
			req = &ua.DeleteMonitoredItemsRequest{SubscriptionID: subID, MonitoredItemIDs: ids}
		} else {
			req = &ua.SetMonitoringModeRequest{SubscriptionID: subID, MonitoringMode: ua.MonitoringMode(op.Mode % 3), MonitoredItemIDs: ids}
		}
		resp, st, err := r.e.send(op.Sess, req)
		if err != nil {
			return "", err
		}
		var results []ua.StatusCode
		fault := resp == nil
		switch v := resp.(type) {
		case nil:
			r.class("%s:fault:%v", op.Op, st)
		case *ua.DeleteMonitoredItemsResponse:
			results = v.Results
		case *ua.SetMonitoringModeResponse:
			results = v.Results
		default:
			return "", infraError{fmt.Errorf("%s answered with %T", op.Op, resp)}
		}
		for i, id := range ids {
			res := resultAt(results, i)
			it := m.liveItem(id)
			switch exp[i] {
			case "good":
				if fault {
					// the whole request was refused: nothing was deleted; the final sweep decides
					continue
				}
				if op.Op == "deleteItems" {
					it.live = false
				}
				if !good(res) {
					it.live = false
					return fmt.Sprintf("%s by session %d on its own live monitored item %d (subscription %d) reported %v (the item was not left alive)", op.Op, op.Sess, id, subID, res), nil
				}
				r.verified++
			case "bad-foreign":
				r.answered++
				if good(res) {
					return fmt.Sprintf("%s by session %d (subscription id %d in the request) reported Good for monitored item %d owned by session %d", op.Op, op.Sess, subID, id, it.owner), nil
				}
			case "bad-never":
				r.answered++
				if good(res) {
					return fmt.Sprintf("%s by session %d reported Good for monitored item id %d, which was never issued", op.Op, op.Sess, id), nil
				}
			default:
				// own item addressed through another subscription id, or a stale id:
				// nothing asserted; if the server says it deleted a live item, believe it
				if it != nil && op.Op == "deleteItems" && !fault && good(res) {
					it.live = false
				}
			}
		}
		return "", nil
	}
	return "", infraError{fmt.Errorf("unknown op %q", op.Op)}
}

// sweep: every owner deletes its model-live objects and must get Good for each.
func (r *runT) sweep(sessions int) (string, error) {
	m := r.m
	for s := 0; s < sessions; s++ {
		for _, sub := range m.subs {
			if !sub.created || !sub.live || sub.owner != s {
				continue
			}
			var ids []uint32
			for _, it := range m.items {
				if it.created && it.live && it.sub == sub.id && it.owner == s {
					ids = append(ids, it.id)
				}
			}
			if len(ids) > 0 {
				resp, st, err := r.e.send(s, &ua.DeleteMonitoredItemsRequest{SubscriptionID: sub.id, MonitoredItemIDs: ids})
				if err != nil {
					return "", err
				}
				dr, _ := resp.(*ua.DeleteMonitoredItemsResponse)
				for i, id := range ids {
					m.liveItem(id).live = false
					res := st
					if dr != nil {
						res = resultAt(dr.Results, i)
					} else if good(res) {
						res = ua.StatusBadUnexpectedError
					}
					if !good(res) {
						return fmt.Sprintf("final sweep: session %d could not delete its model-live monitored item %d of subscription %d: %v", s, id, sub.id, res), nil
					}
					r.verified++
				}
			}
		}
		var ids []uint32
		for _, sub := range m.subs {
			if sub.created && sub.live && sub.owner == s {
				ids = append(ids, sub.id)
			}
		}
		if len(ids) == 0 {
			continue
		}
		resp, st, err := r.e.send(s, &ua.DeleteSubscriptionsRequest{SubscriptionIDs: ids})
		if err != nil {
			return "", err
		}
		dr, _ := resp.(*ua.DeleteSubscriptionsResponse)
		for i, id := range ids {
			m.killSub(m.liveSub(id))
			res := st
			if dr != nil {
				res = resultAt(dr.Results, i)
			} else if good(res) {
				res = ua.StatusBadUnexpectedError
			}
			if !good(res) {
				return fmt.Sprintf("final sweep: session %d could not delete its model-live subscription %d: %v", s, id, res), nil
			}
			r.verified++
		}
	}
	// let the server's background deletions finish before the next case
	time.Sleep(3 * time.Millisecond)
	return "", nil
}

// ---------------------------------------------------------------------------
// generator (draws one operation given the model state)

func drawSubTarget(t *rapid.T, m *model, sess int, kinds []string) (tgt, string, bool) {
	kind := rapid.SampledFrom(kinds).Draw(t, "subKind")
	var cand []int
	switch kind {
	case "own", "foreign":
		for i, s := range m.subs {
			if s.created && s.live && (s.owner == sess) == (kind == "own") {
				cand = append(cand, i)
			}
		}
	case "stale":
		for i, s := range m.subs {
			if s.created && !s.live {
				cand = append(cand, i)
			}
		}
	case "never":
		raw := uint32(0)
		if rapid.IntRange(0, 4).Draw(t, "neverZero") != 0 {
			raw = neverBase + rapid.Uint32Range(0, 1000).Draw(t, "neverID")
		}
		return tgt{Ref: -1, Raw: raw}, kind, true
	}
	if len(cand) == 0 {
		return tgt{}, kind, false
	}
	return tgt{Ref: cand[rapid.IntRange(0, len(cand)-1).Draw(t, "subRef")]}, kind, true
}

func drawItemTargets(t *rapid.T, m *model, sess int, subID uint32, kind string) []tgt {
	var cand []int
	switch kind {
	case "own":
		for i, it := range m.items {
			if it.created && it.live && it.owner == sess && it.sub == subID {
				cand = append(cand, i)
			}
		}
	case "foreign":
		for i, it := range m.items {
			if it.created && it.live && it.owner != sess {
				cand = append(cand, i)
			}
		}
	case "stale":
		for i, it := range m.items {
			if it.created && !it.live {
				cand = append(cand, i)
			}
		}
	case "never":
		raw := uint32(0)
		if rapid.IntRange(0, 4).Draw(t, "neverZero") != 0 {
			raw = neverBase + rapid.Uint32Range(0, 1000).Draw(t, "neverID")
		}
		return []tgt{{Ref: -1, Raw: raw}}
	}
	if len(cand) == 0 {
		return nil
	}
	n := rapid.IntRange(1, min(3, len(cand))).Draw(t, "nItems")
	start := rapid.IntRange(0, len(cand)-1).Draw(t, "itemStart")
	var out []tgt
	for i := 0; i < n; i++ {
		out = append(out, tgt{Ref: cand[(start+i)%len(cand)]})
	}
	return out
}

// ---------------------------------------------------------------------------

func finish(r *runT, c caseT) {
	nontrivial := r.classes["_createdSub"] > 0 && r.classes["_createdItem"] > 0 && r.answered > 0 && r.verified > 0
	var cls []string
	for k, n := range r.classes {
		if k[0] == '_' {
			continue
		}
		for i := 0; i < n; i++ {
			cls = append(cls, k)
		}
	}
	cls = append(cls, fmt.Sprintf("sessions:%d", c.Sessions), fmt.Sprintf("history:createdSub=%v,createdItem=%v,foreignOrNeverAnswered=%v,ownerVerified=%v",
		r.classes["_createdSub"] > 0, r.classes["_createdItem"] > 0, r.answered > 0, r.verified > 0), fmt.Sprintf("history:ops=%d0s", len(c.Ops)/10))
	b, _ := json.Marshal(c)
	rec.Case(nontrivial, ev.Hash(b), cls...)
	if nontrivial && rec.WantSample() {
		rec.Sample(c)
	}
}

// the in-process server's goroutines are dumped once when a request gets no
// answer (diagnosis only; such a case is not a C32 verdict)
var dumpOnce sync.Once

func TestIDs(t *testing.T) {
	rapid.Check(t, func(t *rapid.T) {
		e, err := getEnv()
		if err != nil {
			t.Fatalf("infrastructure: %v", err)
		}
		c := caseT{Sessions: rapid.IntRange(2, nClients).Draw(t, "sessions")}
		r := &runT{e: e, m: e.m, classes: map[string]int{}}
		step := func(op opT) {
			c.Ops = append(c.Ops, op)
			rec.Journal(testName, c)
			msg, err := r.exec(op)
			rec.JournalDone(testName)
			if err != nil {
				e.dirty = true
				dumpOnce.Do(func() { _ = pprof.Lookup("goroutine").WriteTo(os.Stdout, 1) })
				t.Fatalf("infrastructure (not a verdict): %v", err)
			}
			if msg != "" {
				e.dirty = true
				finish(r, c)
				rec.Fail(t, testName, c, "%s", msg)
			}
		}
		m := e.m
		// rapid's Repeat starts with (near) empty sequences in the first tests of a
		// run; repeat it until a drawn minimum number of operations was executed
		minOps := rapid.IntRange(6, 40).Draw(t, "minOps")
		actions := map[string]func(*rapid.T){
			"createSub": func(t *rapid.T) {
				op := opT{Op: "createSub", Sess: rapid.IntRange(0, c.Sessions-1).Draw(t, "sess"), N: rapid.IntRange(0, 3).Draw(t, "params"), Settle: rapid.Bool().Draw(t, "settle")}
				n := len(m.subs)
				step(op)
				if len(m.subs) > n && m.subs[n].created {
					r.classes["_createdSub"]++
				}
			},
			"parallelCreate": func(t *rapid.T) {
				op := opT{Op: "parallelCreate", K: c.Sessions, N: rapid.IntRange(0, 3).Draw(t, "nItems"), Settle: rapid.Bool().Draw(t, "settle")}
				ns, ni := len(m.subs), len(m.items)
				step(op)
				for _, s := range m.subs[ns:] {
					if s.created {
						r.classes["_createdSub"]++
					}
				}
				for _, it := range m.items[ni:] {
					if it.created {
						r.classes["_createdItem"]++
					}
				}
			},
			"otherSvc": func(t *rapid.T) {
				sess := rapid.IntRange(0, c.Sessions-1).Draw(t, "sess")
				svc := rapid.SampledFrom([]string{"modifySub", "setPublishingMode", "modifyItems", "setTriggering"}).Draw(t, "svc")
				shape := rapid.SampledFrom([]string{"foreign/foreign", "foreign/foreign", "own/foreign", "never/foreign", "own/own"}).Draw(t, "shape")
				subKind, itemKind, _ := strings.Cut(shape, "/")
				tg, _, ok := drawSubTarget(t, m, sess, []string{subKind})
				if !ok {
					t.Skip("no target")
				}
				subID, _ := m.subID(tg)
				op := opT{Op: "otherSvc", Svc: svc, Sess: sess, Sub: tg, Settle: rapid.Bool().Draw(t, "settle")}
				if svc == "modifyItems" || svc == "setTriggering" {
					op.Items = drawItemTargets(t, m, sess, subID, itemKind)
					if len(op.Items) == 0 {
						t.Skip("no target")
					}
				}
				step(op)
			},
			"deleteSubs": func(t *rapid.T) {
				sess := rapid.IntRange(0, c.Sessions-1).Draw(t, "sess")
				op := opT{Op: "deleteSubs", Sess: sess, Settle: rapid.Bool().Draw(t, "settle")}
				k := rapid.IntRange(1, 3).Draw(t, "nTargets")
				for i := 0; i < k; i++ {
					if tg, _, ok := drawSubTarget(t, m, sess, []string{"own", "own", "foreign", "foreign", "stale", "never"}); ok {
						op.Subs = append(op.Subs, tg)
					}
				}
				if len(op.Subs) == 0 {
					t.Skip("no target")
				}
				step(op)
			},
			"createItems": func(t *rapid.T) {
				sess := rapid.IntRange(0, c.Sessions-1).Draw(t, "sess")
				tg, _, ok := drawSubTarget(t, m, sess, []string{"own", "own", "own", "own", "foreign", "stale", "never"})
				if !ok {
					t.Skip("no target")
				}
				op := opT{Op: "createItems", Sess: sess, Sub: tg, N: rapid.IntRange(1, 3).Draw(t, "nItems"), Settle: rapid.Bool().Draw(t, "settle")}
				n := len(m.items)
				step(op)
				for _, it := range m.items[n:] {
					if it.created {
						r.classes["_createdItem"]++
					}
				}
			},
			"itemsOp": func(t *rapid.T) {
				sess := rapid.IntRange(0, c.Sessions-1).Draw(t, "sess")
				opName := rapid.SampledFrom([]string{"deleteItems", "deleteItems", "setMode"}).Draw(t, "itemOp")
				// shape of the request: which subscription id it names and which items
				shape := rapid.SampledFrom([]string{"own/own", "own/own", "own/own+foreign", "own/foreign", "foreign/foreign", "foreign/foreign", "never/foreign", "own/never", "own/stale", "never/never", "stale/stale"}).Draw(t, "shape")
				subKind, itemKind, _ := strings.Cut(shape, "/")
				tg, _, ok := drawSubTarget(t, m, sess, []string{subKind})
				if !ok {
					t.Skip("no target")
				}
				subID, _ := m.subID(tg)
				op := opT{Op: opName, Sess: sess, Sub: tg, Mode: uint32(rapid.IntRange(0, 2).Draw(t, "mode")), Settle: rapid.Bool().Draw(t, "settle")}
				switch itemKind {
				case "own+foreign":
					op.Items = append(drawItemTargets(t, m, sess, subID, "own"), drawItemTargets(t, m, sess, subID, "foreign")...)
					if rapid.Bool().Draw(t, "foreignFirst") {
						for i, j := 0, len(op.Items)-1; i < j; i, j = i+1, j-1 {
							op.Items[i], op.Items[j] = op.Items[j], op.Items[i]
						}
					}
				default:
					op.Items = drawItemTargets(t, m, sess, subID, itemKind)
				}
				if len(op.Items) == 0 {
					t.Skip("no target")
				}
				step(op)
			},
		}
		for round := 0; len(c.Ops) < minOps && round < 200; round++ {
			t.Repeat(actions)
		}
		rec.Journal(testName, c)
		msg, err := r.sweep(c.Sessions)
		rec.JournalDone(testName)
		if err != nil {
			e.dirty = true
			t.Fatalf("infrastructure (not a verdict): %v", err)
		}
		if msg != "" {
			e.dirty = true
			finish(r, c)
			rec.Fail(t, testName, c, "%s", msg)
		}
		finish(r, c)
	})
}

// TestReplay re-executes a saved operation list on a fresh server, without rapid.
func TestReplay(t *testing.T) {
	rp, err := ev.LoadReplay()
	if err != nil {
		t.Fatal(err)
	}
	if rp == nil {
		t.Skip("no VERIF_REPLAY")
	}
	var c caseT
	if err := json.Unmarshal(rp.Case, &c); err != nil {
		t.Fatal(err)
	}
	if c.Sessions < 2 || c.Sessions > nClients {
		c.Sessions = nClients
	}
	fmt.Println("REPLAYED structured")
	// timing matters (the server deletes in the background): a few attempts
	for attempt := 0; attempt < 5; attempt++ {
		e, err := newEnv()
		if err != nil {
			t.Fatalf("infrastructure: %v", err)
		}
		r := &runT{e: e, m: e.m, classes: map[string]int{}}
		for i, op := range c.Ops {
			if op.Sess < 0 || op.Sess >= c.Sessions {
				continue
			}
			if op.K > c.Sessions {
				op.K = c.Sessions
			}
			msg, err := r.exec(op)
			if err != nil {
				e.close()
				t.Fatalf("infrastructure (not a verdict): %v", err)
			}
			if msg != "" {
				e.close()
				t.Fatalf("property C32 violated at op %d: %s", i, msg)
			}
		}
		msg, err := r.sweep(c.Sessions)
		e.close()
		if err != nil {
			t.Fatalf("infrastructure (not a verdict): %v", err)
		}
		if msg != "" {
			t.Fatalf("property C32 violated: %s", msg)
		}
	}
}
