// Package c06 decides property C06: negotiated transport limits are honoured
// in both directions.
//
// A case is a client Acknowledge template (what uacp.Dialer.ClientACK puts into
// the Hello), a server Acknowledge (uacp.Listen), a security policy/mode and a
// list of messages described relative to the limits in force ("k chunks +- 1",
// "MaxMessageSize +- 1", "MaxChunkCount chunks +- 1", ...). The harness builds a
// gopcua client channel <-> gopcua server channel pair over loopback with a
// frame-recording tap in between (pkg/chanpair), sends every message through
// the public API (client request / server response) and judges what it sees.
//
// Oracle, written from Part 6 7.1.2.3 / 7.1.2.4 and from the property text. All
// limits are read *from the wire* (the Hello and Acknowledge frames the tap
// recorded), never from the library's state:
//
//	Hello.ReceiveBufferSize        largest chunk the client can receive
//	Hello.MaxMessageSize/ChunkCount limits for responses (0 = no limit)
//	Ack.ReceiveBufferSize          largest chunk the server can receive
//	Ack.MaxMessageSize/ChunkCount   limits for requests (0 = no limit)
//
//	(A) every client->server chunk on the wire is <= Ack.ReceiveBufferSize and
//	    every server->client chunk is <= Hello.ReceiveBufferSize;
//	(B) a message that is within the receiver's advertised limits, and whose
//	    chunks all respect (A), is delivered to the receiving application
//	    intact; for policy None a chunk of exactly the largest size the peer may
//	    send (min(sender's announced send buffer, receiver's advertised receive
//	    buffer)) written by the harness itself is accepted as well;
//	(C) a message whose body (the unencrypted TypeId + service structure) is
//	    larger than the receiver's MaxMessageSize, or which the sender splits
//	    into more chunks than the receiver's MaxChunkCount, makes the send call
//	    return an error and no chunk of it appears on the wire; a limit of 0 never
//	    causes a refusal. A refusal on account of the chunk count is accepted
//	    iff the same sender, same buffers, no limits (a twin pair) really puts
//	    more than MaxChunkCount chunks on the wire for the same message.
//
// The number of chunks and their sizes are what the tap saw; the body size is
// computed by encoding the message with the ua codec after the send call.
package c06

import (
	"context"
	"encoding/binary"
	"encoding/json"
	"errors"
	"fmt"
	"net"
	"os"
	"runtime"
	"strings"
	"sync"
	"testing"
	"time"

	"github.com/gopcua/opcua/ua"
	"github.com/gopcua/opcua/uacp"
	"github.com/gopcua/opcua/uasc"
	"pgregory.net/rapid"

	"verif/pkg/chanpair"
	"verif/pkg/ev"
	"verif/pkg/keys"
	"verif/pkg/netx"
)

func TestMain(m *testing.M) { ev.Main(m) }

var rec = ev.For("C06", "rapid-generated (client Hello template x server Acknowledge: receive/send buffers independently from {8192, 8193, 16384, 65535, 65536, 2^20, random}, MaxMessageSize from {0, tiny, default 2 MiB, large}, MaxChunkCount from {0, tiny 1-4, default 512, large}) x (policy None | Basic256Sha256 Sign | Basic256Sha256 / Aes128Sha256RsaOaep SignAndEncrypt) x (3-7 messages, each a client request or a server response whose body size is k*maxBody+-1, MaxMessageSize+-1, MaxChunkCount*maxBody+-1, an unlimited-probe beyond the library defaults, small, or - policy None - a harness-written chunk of exactly the largest permitted size); non-trivial = the four buffer values are not all equal or some message is within one chunk of a limit; distinct by hash of configuration and message list")

// ---------------------------------------------------------------------------
// case

type ackT struct {
	Recv uint32 `json:"recv"`
	Send uint32 `json:"send"`
	MMS  uint32 `json:"max_message_size"`
	MCC  uint32 `json:"max_chunk_count"`
}

type msgT struct {
	Dir  string `json:"dir"`  // "c2s" = client request, "s2c" = server response
	Kind string `json:"kind"` // chunk | mms | mcc | small | inject
	K    int    `json:"k"`    // chunk: number of full chunk bodies; mcc: chunks below the limit (0 or 1)
	D    int    `json:"d"`    // offset in bytes
}

type caseT struct {
	Policy  string `json:"policy"`
	Encrypt bool   `json:"encrypt"`
	Client  ackT   `json:"client"`
	Server  ackT   `json:"server"`
	Msgs    []msgT `json:"msgs"`
}

func (a ackT) ack() *uacp.Acknowledge {
	return &uacp.Acknowledge{ReceiveBufSize: a.Recv, SendBufSize: a.Send, MaxMessageSize: a.MMS, MaxChunkCount: a.MCC}
}

// ---------------------------------------------------------------------------
// generator

func genBuf(t *rapid.T, label string) uint32 {
	switch rapid.IntRange(0, 8).Draw(t, label+"Class") {
	case 0, 1:
		return 8192
	case 2:
		return 8193
	case 3:
		return 16384
	case 4, 5:
		return 65535
	case 6:
		return 65536
	case 7:
		return 1 << 20
	}
	return uint32(rapid.IntRange(8192, 1<<20).Draw(t, label))
}

func genMMS(t *rapid.T, label string) uint32 {
	switch rapid.IntRange(0, 6).Draw(t, label+"Class") {
	case 0, 1:
		return 0
	case 2, 3:
		return uint32(rapid.IntRange(1024, 200000).Draw(t, label)) // tiny (an OPN body must still fit)
	case 4:
		return uacp.DefaultMaxMessageSize
	case 5:
		return 64 << 20
	}
	return uint32(rapid.IntRange(200000, 3<<20).Draw(t, label))
}

func genMCC(t *rapid.T, label string) uint32 {
	switch rapid.IntRange(0, 6).Draw(t, label+"Class") {
	case 0, 1:
		return 0
	case 2, 3:
		return uint32(rapid.IntRange(1, 4).Draw(t, label))
	case 4:
		return uacp.DefaultMaxChunkCount
	case 5:
		return 100000
	}
	return uint32(rapid.IntRange(5, 40).Draw(t, label))
}

func genCase(t *rapid.T) caseT {
	var c caseT
	switch rapid.IntRange(0, 11).Draw(t, "policy") {
	case 0, 1, 2, 3, 4:
		c.Policy = ua.SecurityPolicyURINone
	case 5, 6:
		c.Policy = ua.SecurityPolicyURIBasic256Sha256
	case 7:
		c.Policy, c.Encrypt = ua.SecurityPolicyURIBasic256Sha256, true
	case 8:
		c.Policy, c.Encrypt = ua.SecurityPolicyURIAes128Sha256RsaOaep, true
	default:
		// the other policies (20-byte signatures, PSS) in both modes: the maximum
		// body size depends on signature length and block sizes
		c.Policy = rapid.SampledFrom([]string{ua.SecurityPolicyURIBasic128Rsa15, ua.SecurityPolicyURIBasic256, ua.SecurityPolicyURIAes256Sha256RsaPss, ua.SecurityPolicyURIAes128Sha256RsaOaep}).Draw(t, "otherPolicy")
		c.Encrypt = rapid.Bool().Draw(t, "otherEncrypt")
	}
	if rapid.IntRange(0, 9).Draw(t, "symmetric") == 0 {
		b := genBuf(t, "allBuf")
		c.Client.Recv, c.Client.Send, c.Server.Recv, c.Server.Send = b, b, b, b
	} else {
		c.Client.Recv = genBuf(t, "cRecv")
		c.Client.Send = genBuf(t, "cSend")
		c.Server.Recv = genBuf(t, "sRecv")
		c.Server.Send = genBuf(t, "sSend")
	}
	c.Client.MMS = genMMS(t, "cMMS")
	c.Client.MCC = genMCC(t, "cMCC")
	c.Server.MMS = genMMS(t, "sMMS")
	c.Server.MCC = genMCC(t, "sMCC")
	n := rapid.IntRange(3, 7).Draw(t, "nmsgs")
	for i := 0; i < n; i++ {
		var m msgT
		m.Dir = rapid.SampledFrom([]string{"c2s", "s2c"}).Draw(t, "dir")
		m.Kind = rapid.SampledFrom([]string{"chunk", "chunk", "mms", "mms", "mcc", "mcc", "small", "inject"}).Draw(t, "kind")
		m.D = rapid.SampledFrom([]int{-1, 0, 1, -1, 0, 1, -2, 2, -17, 23}).Draw(t, "d")
		switch m.Kind {
		case "chunk":
			m.K = rapid.IntRange(1, 4).Draw(t, "k")
		case "mcc":
			m.K = rapid.IntRange(0, 1).Draw(t, "below")
		case "small":
			m.D = rapid.IntRange(0, 300).Draw(t, "smallPad")
		case "inject":
			m.D = rapid.SampledFrom([]int{0, 0, 0, -1, -100}).Draw(t, "injectBelow")
		}
		c.Msgs = append(c.Msgs, m)
	}
	return c
}

// ---------------------------------------------------------------------------
// messages of an exact body size

func fill(n int, salt byte) []byte {
	b := make([]byte, n)
	for i := range b {
		b[i] = 'a' + byte((i+int(salt))%23)
	}
	return b
}

func bodySize(v any) int {
	b, err := ua.Encode(v)
	if err != nil {
		panic(fmt.Sprintf("infrastructure: encode %T: %v", v, err))
	}
	return 4 + len(b) // TypeId (four byte node id) + structure
}

func newRequest(pad int, salt byte) *ua.ReadRequest {
	return &ua.ReadRequest{
		RequestHeader:      &ua.RequestHeader{AuthenticationToken: ua.NewTwoByteNodeID(0), Timestamp: time.Unix(1700000000, 0), RequestHandle: 1, TimeoutHint: 1000},
		TimestampsToReturn: ua.TimestampsToReturnBoth,
		NodesToRead: []*ua.ReadValueID{{NodeID: ua.NewNumericNodeID(0, 2255), AttributeID: ua.AttributeIDValue,
			IndexRange: string(fill(pad, salt)), DataEncoding: &ua.QualifiedName{}}},
	}
}

var reqBase = bodySize(newRequest(1, 0)) - 1

// requestOfSize returns a request whose body is size bytes (or the smallest possible).
func requestOfSize(size int, salt byte) (*ua.ReadRequest, int) {
	pad := size - reqBase
	if pad < 1 {
		pad = 1
	}
	return newRequest(pad, salt), pad
}

func newResponse(handle uint32, pad int, salt byte) *ua.ReadResponse {
	return &ua.ReadResponse{
		ResponseHeader: &ua.ResponseHeader{Timestamp: time.Unix(1700000000, 0), RequestHandle: handle, ServiceDiagnostics: &ua.DiagnosticInfo{}, AdditionalHeader: ua.NewExtensionObject(nil), StringTable: []string{string(fill(pad, salt))}},
		Results:        []*ua.DataValue{{EncodingMask: ua.DataValueValue, Value: ua.MustVariant(int32(pad))}},
	}
}

// samePayload reports whether a delivered response carries the payload sent.
func samePayload(got ua.Response, want *ua.ReadResponse) (bool, string) {
	g, ok := got.(*ua.ReadResponse)
	if !ok || g.ResponseHeader == nil || len(g.ResponseHeader.StringTable) != 1 {
		return false, fmt.Sprintf("client got %T", got)
	}
	if g.ResponseHeader.StringTable[0] != want.ResponseHeader.StringTable[0] {
		return false, fmt.Sprintf("payload differs: got %d bytes want %d", len(g.ResponseHeader.StringTable[0]), len(want.ResponseHeader.StringTable[0]))
	}
	return true, ""
}

type cres struct {
	resp ua.Response
	err  error
}

// awaitClient waits for the client's request to return. An error of the
// client's dispatcher (e.g. a rejected chunk) ends the wait early: the
// request would only run into its time-out.
func awaitClient(p *chanpair.Pair, done <-chan cres) (cr cres, returned bool, dispErr error) {
	select {
	case cr = <-done:
		returned = true
	case dispErr = <-p.ClientErr:
		select {
		case cr = <-done:
			returned = true
		case <-time.After(500 * time.Millisecond):
		}
	case <-time.After(reqTO + 5*time.Second):
	}
	if returned && cr.err != nil && dispErr == nil {
		select {
		case dispErr = <-p.ClientErr:
		default:
		}
	}
	return
}

var respBase = bodySize(newResponse(1, 1, 0)) - 1

func responseOfSize(handle uint32, size int, salt byte) (*ua.ReadResponse, int) {
	pad := size - respBase
	if pad < 1 {
		pad = 1
	}
	return newResponse(handle, pad, salt), pad
}

// ---------------------------------------------------------------------------
// wire facts

type wireT struct {
	HelRecv, HelSend, HelMMS, HelMCC uint32
	AckRecv, AckSend, AckMMS, AckMCC uint32
}

func parseHandshake(frames []netx.Frame) (w wireT, ok bool) {
	var hel, ack bool
	for _, f := range frames {
		if f.Dir == netx.C2S && f.Type() == "HEL" && !hel && len(f.Data) >= 28 {
			hel = true
			w.HelRecv = binary.LittleEndian.Uint32(f.Data[12:])
			w.HelSend = binary.LittleEndian.Uint32(f.Data[16:])
			w.HelMMS = binary.LittleEndian.Uint32(f.Data[20:])
			w.HelMCC = binary.LittleEndian.Uint32(f.Data[24:])
		}
		if f.Dir == netx.S2C && f.Type() == "ACK" && !ack && len(f.Data) >= 28 {
			ack = true
			w.AckRecv = binary.LittleEndian.Uint32(f.Data[12:])
			w.AckSend = binary.LittleEndian.Uint32(f.Data[16:])
			w.AckMMS = binary.LittleEndian.Uint32(f.Data[20:])
			w.AckMCC = binary.LittleEndian.Uint32(f.Data[24:])
		}
	}
	return w, hel && ack
}

// ---------------------------------------------------------------------------
// verdicts

type failure struct {
	sig    string // sub-clause / direction / limit: the known-finding signature
	msg    string
	timing bool // the evidence is the absence of an event within a time bound
}

type runner struct {
	c       caseT
	p       *chanpair.Pair
	w       wireT
	classes []string
	near    bool // some message within one chunk of a limit
	salt    byte
}

const (
	recvWait = 60 * time.Second
	reqTO    = 60 * time.Second

	caseWatchdog = 20 * time.Minute
)

func sizeCap() int { return ev.Pick(5<<20, 12<<20) }

func (c caseT) options(server ackT) chanpair.Options {
	o := chanpair.Options{Policy: c.Policy, ClientACK: c.Client.ack(), ServerACK: server.ack(), Tap: true, RequestTimeout: reqTO}
	if c.Policy != ua.SecurityPolicyURINone {
		o.Mode = chanpair.ModeFor(c.Policy, c.Encrypt)
		ks := chanpair.KeySizes(c.Policy) // Basic128Rsa15 / Basic256 do not admit every key size
		bits := 2048
		if !containsInt(ks, bits) {
			bits = ks[0]
		}
		o.ClientKey = keys.Get("a", bits)
		o.ServerKey = keys.Get("b", bits)
	}
	return o
}

func containsInt(xs []int, x int) bool {
	for _, y := range xs {
		if y == x {
			return true
		}
	}
	return false
}

func (r *runner) class(format string, args ...any) {
	r.classes = append(r.classes, fmt.Sprintf(format, args...))
}

// msgFrames returns the MSG frames of a direction recorded after the first n0.
func msgFrames(p *chanpair.Pair, dir netx.Dir, n0 int) []netx.Frame {
	var out []netx.Frame
	n := 0
	for _, f := range p.Tap.Frames() {
		if f.Dir == dir && f.Type() == "MSG" {
			if n >= n0 {
				out = append(out, f)
			}
			n++
		}
	}
	return out
}

func countMSG(p *chanpair.Pair, dir netx.Dir) int { return len(msgFrames(p, dir, 0)) }

// settled waits until no new frame of the direction has been recorded for 400 ms.
func settled(p *chanpair.Pair, dir netx.Dir, n0 int) []netx.Frame {
	last, since := -1, time.Now()
	for start := time.Now(); time.Since(start) < 10*time.Second; {
		fs := msgFrames(p, dir, n0)
		if len(fs) != last {
			last, since = len(fs), time.Now()
		} else if time.Since(since) > 400*time.Millisecond {
			return fs
		}
		time.Sleep(10 * time.Millisecond)
	}
	return msgFrames(p, dir, n0)
}

type limitsT struct {
	dir       string
	buf       uint32 // receive buffer the receiver advertised
	mms, mcc  uint32 // limits the receiver advertised
	peerSend  uint32 // send buffer the sender announced
	senderCap uint32 // body bytes per chunk the sender's channel uses (targeting only)
}

func (r *runner) limits(dir string) limitsT {
	if dir == "c2s" {
		return limitsT{dir: dir, buf: r.w.AckRecv, mms: r.w.AckMMS, mcc: r.w.AckMCC, peerSend: r.w.HelSend, senderCap: r.p.Client.VerifActiveMaxBodySize()}
	}
	return limitsT{dir: dir, buf: r.w.HelRecv, mms: r.w.HelMMS, mcc: r.w.HelMCC, peerSend: r.w.AckSend, senderCap: r.p.Server.VerifActiveMaxBodySize()}
}

// target resolves a message description to a body size; ok=false = not applicable / too big.
func (r *runner) target(m msgT, l limitsT, base int) (size int, label string, ok bool) {
	cp := int(l.senderCap)
	if cp <= 0 || cp > 1<<21 {
		cp = 8000 // the sender's channel has an unusable chunk capacity: the sizes are then just sizes
	}
	switch m.Kind {
	case "small":
		return base + 1 + m.D, "small", true
	case "chunk":
		size, label = m.K*cp+m.D, "chunk-boundary"
	case "mms":
		if l.mms == 0 {
			size, label = uacp.DefaultMaxMessageSize+4096+m.D, "mms-unlimited-probe"
		} else {
			size, label = int(l.mms)+m.D, "mms"
		}
	case "mcc":
		if l.mcc == 0 {
			size, label = (uacp.DefaultMaxChunkCount+1)*cp+m.D, "mcc-unlimited-probe"
		} else {
			size, label = (int(l.mcc)-m.K)*cp+m.D, "mcc"
		}
	default:
		return 0, "", false
	}
	if size > sizeCap() {
		r.class("%s:%s:skipped-too-big", l.dir, label)
		return 0, label, false
	}
	if size < base+1 {
		size = base + 1
	}
	return size, label, true
}

// judge is the oracle for one message. sendErr is what the send call returned,
// frames are the chunks of this message seen on the wire, delivered/deliverErr
// describe what the receiving application got.
func (r *runner) judge(l limitsT, label string, size int, sendErr error, frames []netx.Frame, delivered bool, deliverNote string, timing bool, twin func() (int, error)) *failure {
	dir := l.dir
	maxFrame := 0
	for _, f := range frames {
		if len(f.Data) > maxFrame {
			maxFrame = len(f.Data)
		}
	}
	k := len(frames)
	overMMS := l.mms != 0 && uint64(size) > uint64(l.mms)
	overMCC := l.mcc != 0 && uint64(k) > uint64(l.mcc)
	desc := fmt.Sprintf("%s message '%s' body=%d bytes, receiver advertised buffer=%d MaxMessageSize=%d MaxChunkCount=%d; on the wire %d chunk(s), largest %d bytes; send error: %v", dir, label, size, l.buf, l.mms, l.mcc, k, maxFrame, sendErr)

	// (A) never a chunk larger than the receiver's advertised receive buffer
	if uint64(maxFrame) > uint64(l.buf) {
		r.class("%s:A:violated", dir)
		return &failure{sig: "A/" + dir + "/chunk>advertised-receive-buffer", msg: "(A) chunk larger than the advertised receive buffer: " + desc}
	}
	if k > 0 {
		r.class("%s:A:chunks-within-advertised-buffer", dir)
	}

	if sendErr == nil {
		// (C) an over-limit message must not be on the wire
		if overMMS {
			return &failure{sig: "C/" + dir + "/MaxMessageSize-not-enforced-by-sender", msg: "(C) message larger than the receiver's MaxMessageSize was put on the wire: " + desc}
		}
		if overMCC {
			return &failure{sig: "C/" + dir + "/MaxChunkCount-not-enforced-by-sender", msg: "(C) message with more chunks than the receiver's MaxChunkCount was put on the wire: " + desc}
		}
		// (B) within limits: must be delivered
		if !delivered {
			// input class of the rejected message (part of the known-finding signature)
			cause := "receiver-rejects-permitted-message"
			switch {
			case dir == "s2c" && uint64(maxFrame) > uint64(r.w.AckRecv):
				cause += "[chunk>Ack.ReceiveBufferSize]"
			case dir == "s2c" && ((r.w.AckMMS != 0 && uint64(size) > uint64(r.w.AckMMS)) || (r.w.AckMCC != 0 && uint64(k) > uint64(r.w.AckMCC))):
				cause += "[over-the-limits-of-the-Acknowledge]"
			case l.mms == 0 || (l.mcc == 0 && k > 1):
				cause += "[receiver-limit=0]"
			}
			return &failure{sig: "B/" + dir + "/" + cause, timing: timing, msg: "(B) message within all advertised limits was sent but not delivered intact (" + deliverNote + "): " + desc}
		}
		r.class("%s:%s:sent-and-delivered", dir, label)
		if l.mms != 0 && size == int(l.mms) {
			r.class("%s:body==MaxMessageSize:delivered", dir)
		}
		if l.mcc != 0 && k == int(l.mcc) {
			r.class("%s:chunks==MaxChunkCount:delivered", dir)
		}
		if l.mms == 0 && size > uacp.DefaultMaxMessageSize {
			r.class("%s:unlimited-MaxMessageSize:beyond-default-delivered", dir)
		}
		if l.mcc == 0 && k > uacp.DefaultMaxChunkCount {
			r.class("%s:unlimited-MaxChunkCount:beyond-default-delivered", dir)
		}
		if k > 1 {
			r.class("%s:multi-chunk-delivered", dir)
		}
		return nil
	}

	// the send call returned an error
	over, kt := overMMS, -1
	if !over && l.mcc != 0 {
		var err error
		if kt, err = twin(); err != nil {
			r.class("%s:%s:refusal-not-judged(twin failed)", dir, label)
			return nil
		}
		over = uint64(kt) > uint64(l.mcc)
	}
	if over {
		if k > 0 {
			return &failure{sig: "C/" + dir + "/refused-but-chunks-on-the-wire", msg: "(C) the send call returned an error but chunks of the over-limit message were put on the wire: " + desc}
		}
		if overMMS {
			r.class("%s:%s:refused-over-MaxMessageSize", dir, label)
			if size == int(l.mms)+1 {
				r.class("%s:body==MaxMessageSize+1:refused", dir)
			}
			return nil
		}
		r.class("%s:%s:refused-over-MaxChunkCount", dir, label)
		if kt == int(l.mcc)+1 {
			r.class("%s:chunks==MaxChunkCount+1:refused", dir)
		}
		return nil
	}
	// within the receiver's limits
	if k > 0 {
		// not a refusal: the transport failed while the message was being written
		var ne net.Error
		return &failure{sig: "B/" + dir + "/send-failed-midway", timing: errors.As(sendErr, &ne) && ne.Timeout(),
			msg: "(B) sending a message within all advertised limits failed after some chunks had been written: " + desc}
	}
	lim := fmt.Sprintf("it sends it in %d chunk(s) when unlimited", kt)
	if l.mcc == 0 {
		lim = "MaxChunkCount=0"
		if l.mms == 0 {
			lim = "no limits"
		}
	}
	return &failure{sig: "C/" + dir + "/refused-although-within-limits", msg: "(C) the sender refused a message the receiver's limits allow (" + lim + "): " + desc}
}

// ---------------------------------------------------------------------------
// client -> server

func (r *runner) nextSalt() byte { r.salt += 7; return r.salt }

// c2sSend sends a request of the given body size without waiting for a
// response and reports what happened on the wire and at the server.
func c2sSend(p *chanpair.Pair, req *ua.ReadRequest, wantPad int) (size int, sendErr error, frames []netx.Frame, delivered bool, note string, timing bool, got *uasc.MessageBody) {
	n0 := countMSG(p, netx.C2S)
	// the server application reads while the client writes (a message may be
	// larger than what the sockets buffer)
	recvCh := make(chan *uasc.MessageBody, 1)
	go func() { recvCh <- p.ServerReceive(recvWait + reqTO) }()
	sendCh := make(chan error, 1)
	go func() { sendCh <- p.Client.SendRequest(context.Background(), req, nil, nil) }()
	var m *uasc.MessageBody
	haveM := false
	select {
	case sendErr = <-sendCh:
	case m = <-recvCh:
		haveM = true
		if m == nil || m.Err != nil || m.Request() == nil {
			// the receiver gave up on the message; a sender that is still writing
			// would block until its write deadline
			select {
			case <-sendCh:
			case <-time.After(2 * time.Second):
				p.ServerConn.Close()
				p.ClientConn.Close() // the client's Write fails at once
				<-sendCh
			}
			sendErr = nil // the message was on the wire (at least partly) and the receiver rejected it
		} else {
			sendErr = <-sendCh
		}
	}
	size = bodySize(req)
	if sendErr != nil {
		// barrier: a small request behind it, picked up by the pending server Receive
		ping, _ := requestOfSize(0, 1)
		if err := p.Client.SendRequest(context.Background(), ping, nil, nil); err == nil {
			// the ping is the last frame of the direction; once the server has it,
			// everything the failed call may have written has passed the tap
			if !haveM {
				m = <-recvCh
			}
			var fs []netx.Frame
			if m != nil && m.Err == nil && m.Request() != nil {
				fs = msgFrames(p, netx.C2S, n0)
			} else {
				fs = settled(p, netx.C2S, n0)
			}
			if len(fs) > 0 {
				fs = fs[:len(fs)-1] // the ping
			}
			return size, sendErr, fs, false, "", false, nil
		}
		return size, sendErr, settled(p, netx.C2S, n0), false, "barrier request could not be sent", false, nil
	}
	if !haveM {
		m = <-recvCh
	}
	switch {
	case m == nil:
		return size, nil, settled(p, netx.C2S, n0), false, fmt.Sprintf("server Receive returned nothing within %v", recvWait+reqTO), true, nil
	case m.Err != nil:
		return size, nil, settled(p, netx.C2S, n0), false, fmt.Sprintf("server Receive returned error %q", m.Err), false, m
	}
	rr, ok := m.Request().(*ua.ReadRequest)
	if !ok || len(rr.NodesToRead) != 1 {
		return size, nil, settled(p, netx.C2S, n0), false, fmt.Sprintf("server Receive returned %T", m.Request()), false, m
	}
	frames = msgFrames(p, netx.C2S, n0)
	if rr.NodesToRead[0].IndexRange != req.NodesToRead[0].IndexRange {
		return size, nil, frames, false, fmt.Sprintf("payload differs: got %d bytes want %d", len(rr.NodesToRead[0].IndexRange), wantPad), false, m
	}
	return size, nil, frames, true, "", false, m
}

func (r *runner) twinCount(dir string, size int) func() (int, error) {
	return func() (int, error) {
		c := r.c
		srv := c.Server
		if dir == "c2s" {
			srv.MMS, srv.MCC = 0xffffffff, 0xffffffff
		} else {
			c.Client.MMS, c.Client.MCC = 0xffffffff, 0xffffffff
		}
		p, f, err := openPair(c, srv)
		if err != nil {
			return 0, err
		}
		if f != nil {
			return 0, fmt.Errorf("%s", f.msg)
		}
		defer closePair(p)
		if dir == "c2s" {
			req, pad := requestOfSize(size, 3)
			_, sendErr, frames, _, _, _, _ := c2sSend(p, req, pad)
			if sendErr != nil {
				return 0, sendErr
			}
			return len(frames), nil
		}
		_, sendErr, frames, _, _, _, ferr := s2cExchange(p, size, 3)
		if ferr != nil {
			return 0, fmt.Errorf("%s", ferr.msg)
		}
		if sendErr != nil {
			return 0, sendErr
		}
		return len(frames), nil
	}
}

func (r *runner) doC2S(m msgT) *failure {
	l := r.limits("c2s")
	size, label, ok := r.target(m, l, reqBase)
	if !ok {
		return nil
	}
	req, pad := requestOfSize(size, r.nextSalt())
	size, sendErr, frames, delivered, note, timing, _ := c2sSend(r.p, req, pad)
	r.noteNear(l, size, len(frames))
	return r.judge(l, label, size, sendErr, frames, delivered, note, timing, r.twinCount("c2s", size))
}

func (r *runner) noteNear(l limitsT, size, k int) {
	cp := int(l.senderCap)
	if cp <= 0 {
		return
	}
	if l.mms != 0 && abs(size-int(l.mms)) <= cp {
		r.near = true
	}
	if l.mcc != 0 && abs(size-int(l.mcc)*cp) <= cp {
		r.near = true
	}
	if d := size % cp; d <= 2 || cp-d <= 2 {
		r.near = true
	}
}

func abs(x int) int {
	if x < 0 {
		return -x
	}
	return x
}

// ---------------------------------------------------------------------------
// server -> client

// s2cExchange lets the client send a small request, the server answer with a
// response of the given body size, and reports what happened. ferr is a
// failure of the small request leg (judged as a c2s "small" message).
func s2cExchange(p *chanpair.Pair, size int, salt byte) (actual int, sendErr error, frames []netx.Frame, delivered bool, note string, timing bool, ferr *failure) {
	done := make(chan cres, 1)
	req, _ := requestOfSize(0, salt)
	go func() {
		var got ua.Response
		err := p.Client.SendRequest(context.Background(), req, nil, func(v ua.Response) error { got = v; return nil })
		done <- cres{got, err}
	}()
	m := p.ServerReceive(recvWait)
	if m == nil || m.Err != nil || m.Request() == nil {
		what := "nothing"
		tm := true
		if m != nil {
			what, tm = fmt.Sprintf("%v / %T", m.Err, m.Request()), false
		}
		return 0, nil, nil, false, "", false, &failure{sig: "B/c2s/receiver-rejects-permitted-message", timing: tm, msg: "(B) small request (" + fmt.Sprint(bodySize(req)) + " bytes) preceding a response was not delivered to the server: " + what}
	}
	rr, _ := m.Request().(*ua.ReadRequest)
	var handle uint32
	if rr != nil && rr.RequestHeader != nil {
		handle = rr.RequestHeader.RequestHandle
	}
	resp, _ := responseOfSize(handle, size, salt)
	actual = bodySize(resp)
	n0 := countMSG(p, netx.S2C)
	// the server writes in a goroutine of its own: if the client stops reading
	// (it rejected a chunk) a large response would block in Write for good
	sendCh := make(chan error, 1)
	go func() { sendCh <- p.Server.SendResponseWithContext(context.Background(), m.RequestID, resp) }()
	var (
		cr       cres
		returned bool
		dispErr  error
		sent     bool
	)
	select {
	case sendErr = <-sendCh:
		sent = true
	case dispErr = <-p.ClientErr:
	case cr = <-done:
		returned = true
	case <-time.After(reqTO + recvWait):
	}
	if !sent {
		select {
		case sendErr = <-sendCh:
		case <-time.After(2 * time.Second):
			p.ClientConn.Close()
			p.ServerConn.Close() // the server's Write fails at once
			sendErr = <-sendCh
		}
		if dispErr != nil || (returned && cr.err != nil) {
			sendErr = nil // the message was on the wire (at least partly) and the receiver rejected it
		} else if !returned {
			return actual, nil, settled(p, netx.S2C, n0), false, "the server's send call did not return", true, nil
		}
	}
	if sendErr != nil {
		// unblock the client with a small response, which is the barrier as well
		small, _ := responseOfSize(handle, 0, 1)
		if err := p.Server.SendResponseWithContext(context.Background(), m.RequestID, small); err == nil {
			var fs []netx.Frame
			cr, returned, _ := awaitClient(p, done)
			if returned && cr.err == nil {
				fs = msgFrames(p, netx.S2C, n0)
			} else {
				fs = settled(p, netx.S2C, n0)
			}
			if len(fs) > 0 {
				fs = fs[:len(fs)-1] // the small response
			}
			return actual, sendErr, fs, false, "", false, nil
		}
		return actual, sendErr, settled(p, netx.S2C, n0), false, "barrier response could not be sent", false, nil
	}
	if !returned && dispErr == nil {
		cr, returned, dispErr = awaitClient(p, done)
	} else if !returned {
		select {
		case cr = <-done:
			returned = true
		case <-time.After(500 * time.Millisecond):
		}
	}
	switch {
	case dispErr != nil:
		note := fmt.Sprintf("client dispatcher error %q", dispErr)
		if returned {
			note += fmt.Sprintf(", client request ended with %v", cr.err)
		}
		return actual, nil, settled(p, netx.S2C, n0), false, note, false, nil
	case !returned:
		return actual, nil, settled(p, netx.S2C, n0), false, "client request did not return", true, nil
	case cr.err != nil:
		return actual, nil, settled(p, netx.S2C, n0), false, fmt.Sprintf("client request ended with %q", cr.err), cr.err == ua.StatusBadTimeout, nil
	}
	frames = msgFrames(p, netx.S2C, n0)
	if ok, why := samePayload(cr.resp, resp); !ok {
		return actual, nil, frames, false, why, false, nil
	}
	return actual, nil, frames, true, "", false, nil
}

func (r *runner) doS2C(m msgT) *failure {
	l := r.limits("s2c")
	size, label, ok := r.target(m, l, respBase)
	if !ok {
		return nil
	}
	size, sendErr, frames, delivered, note, timing, ferr := s2cExchange(r.p, size, r.nextSalt())
	if ferr != nil {
		return ferr
	}
	r.noteNear(l, size, len(frames))
	return r.judge(l, label, size, sendErr, frames, delivered, note, timing, r.twinCount("s2c", size))
}

// ---------------------------------------------------------------------------
// (B) with a harness-written chunk of exactly the largest permitted size
// (policy None only: the chunk layout is header(12) + token id(4) + sequence
// header(8) + body)

func rawChunk(typ string, channelID, tokenID, seq, reqID uint32, body []byte) []byte {
	b := make([]byte, 24+len(body))
	copy(b, typ)
	binary.LittleEndian.PutUint32(b[4:], uint32(len(b)))
	binary.LittleEndian.PutUint32(b[8:], channelID)
	binary.LittleEndian.PutUint32(b[12:], tokenID)
	binary.LittleEndian.PutUint32(b[16:], seq)
	binary.LittleEndian.PutUint32(b[20:], reqID)
	copy(b[24:], body)
	return b
}

func encodeBody(typeID uint16, v any) []byte {
	t, err := ua.Encode(ua.NewFourByteExpandedNodeID(0, typeID))
	if err != nil {
		panic(err)
	}
	b, err := ua.Encode(v)
	if err != nil {
		panic(err)
	}
	return append(t, b...)
}

// lastSeq returns the sequence number of the last chunk of a direction
// (policy None: the sequence header is readable).
func lastSeq(p *chanpair.Pair, dir netx.Dir) uint32 {
	var s uint32
	for _, f := range p.Tap.Frames() {
		if f.Dir != dir {
			continue
		}
		switch {
		case f.Type() == "MSG" && len(f.Data) >= 24:
			s = binary.LittleEndian.Uint32(f.Data[16:])
		case f.Type() == "OPN":
			// header(12), then policy URI, sender certificate, receiver thumbprint (byte strings)
			pos := 12
			for i := 0; i < 3 && pos+4 <= len(f.Data); i++ {
				n := int32(binary.LittleEndian.Uint32(f.Data[pos:]))
				pos += 4
				if n > 0 {
					pos += int(n)
				}
			}
			if pos+4 <= len(f.Data) {
				s = binary.LittleEndian.Uint32(f.Data[pos:])
			}
		}
	}
	return s
}

func min32(a, b uint32) uint32 {
	if a < b {
		return a
	}
	return b
}

func (r *runner) doInject(m msgT) *failure {
	if r.c.Policy != ua.SecurityPolicyURINone {
		return nil
	}
	p := r.p
	if m.Dir == "c2s" {
		l := r.limits("c2s")
		chunk := int(min32(l.peerSend, l.buf)) + m.D // largest chunk a conforming client may send
		body := chunk - 24
		if (l.mms != 0 && body > int(l.mms)) || body < reqBase+1 {
			r.class("c2s:inject:not-applicable")
			return nil
		}
		req, _ := requestOfSize(body, r.nextSalt())
		raw := rawChunk("MSGF", p.Opts.ChannelID, p.Opts.TokenID, lastSeq(p, netx.C2S)+1, 0x7f000001, encodeBody(uint16(ua.ServiceTypeID(req)), req))
		if len(raw) != chunk {
			panic(fmt.Sprintf("infrastructure: raw chunk %d != %d", len(raw), chunk))
		}
		recvCh := make(chan *uasc.MessageBody, 1)
		go func() { recvCh <- p.ServerReceive(recvWait) }()
		if err := p.Tap.Inject(netx.C2S, raw); err != nil {
			panic(fmt.Sprintf("infrastructure: inject: %v", err))
		}
		got := <-recvCh
		desc := fmt.Sprintf("harness-written single-chunk request of %d bytes (client announced SendBufferSize=%d, server advertised ReceiveBufferSize=%d MaxMessageSize=%d)", chunk, l.peerSend, l.buf, l.mms)
		switch {
		case got == nil:
			return &failure{sig: "B/c2s/receiver-rejects-permitted-chunk", timing: true, msg: "(B) " + desc + " was not delivered within " + recvWait.String()}
		case got.Err != nil:
			return &failure{sig: "B/c2s/receiver-rejects-permitted-chunk", msg: "(B) " + desc + " was rejected: " + got.Err.Error()}
		}
		rr, ok := got.Request().(*ua.ReadRequest)
		if !ok || len(rr.NodesToRead) != 1 || rr.NodesToRead[0].IndexRange != req.NodesToRead[0].IndexRange {
			return &failure{sig: "B/c2s/receiver-rejects-permitted-chunk", msg: "(B) " + desc + " was delivered damaged"}
		}
		r.class("c2s:inject:largest-permitted-chunk%+d:delivered", m.D)
		return nil
	}
	// s2c: the client sends a small request, the harness answers in the server's place
	l := r.limits("s2c")
	chunk := int(min32(l.peerSend, l.buf)) + m.D
	body := chunk - 24
	if (l.mms != 0 && body > int(l.mms)) || body < respBase+1 {
		r.class("s2c:inject:not-applicable")
		return nil
	}
	done := make(chan cres, 1)
	req, _ := requestOfSize(0, r.nextSalt())
	go func() {
		var got ua.Response
		err := p.Client.SendRequest(context.Background(), req, nil, func(v ua.Response) error { got = v; return nil })
		done <- cres{got, err}
	}()
	sm := p.ServerReceive(recvWait)
	if sm == nil || sm.Err != nil || sm.Request() == nil {
		tm := sm == nil
		return &failure{sig: "B/c2s/receiver-rejects-permitted-message", timing: tm, msg: fmt.Sprintf("(B) small request preceding an injected response was not delivered to the server: %+v", sm)}
	}
	resp, _ := responseOfSize(sm.Request().Header().RequestHandle, body, r.salt)
	raw := rawChunk("MSGF", p.Opts.ChannelID, p.Opts.TokenID, lastSeq(p, netx.S2C)+1, sm.RequestID, encodeBody(uint16(ua.ServiceTypeID(resp)), resp))
	if len(raw) != chunk {
		panic(fmt.Sprintf("infrastructure: raw chunk %d != %d", len(raw), chunk))
	}
	if err := p.Tap.Inject(netx.S2C, raw); err != nil {
		panic(fmt.Sprintf("infrastructure: inject: %v", err))
	}
	desc := fmt.Sprintf("harness-written single-chunk response of %d bytes (server announced SendBufferSize=%d, client advertised ReceiveBufferSize=%d MaxMessageSize=%d)", chunk, l.peerSend, l.buf, l.mms)
	const sig = "B/s2c/receiver-rejects-permitted-chunk"
	cr, returned, dispErr := awaitClient(p, done)
	switch {
	case dispErr != nil:
		return &failure{sig: sig, msg: "(B) " + desc + " was rejected: client dispatcher error: " + dispErr.Error()}
	case !returned:
		return &failure{sig: sig, timing: true, msg: "(B) " + desc + ": the client request did not return"}
	case cr.err != nil:
		return &failure{sig: sig, timing: cr.err == ua.StatusBadTimeout, msg: "(B) " + desc + " was not delivered: " + cr.err.Error()}
	}
	if ok, why := samePayload(cr.resp, resp); !ok {
		return &failure{sig: sig, msg: "(B) " + desc + " was delivered damaged: " + why}
	}
	r.class("s2c:inject:largest-permitted-chunk%+d:delivered", m.D)
	return nil
}

// ---------------------------------------------------------------------------
// one case

// closePair tears a pair down with resets instead of orderly closes, so that
// thousands of pairs do not leave sockets in TIME_WAIT (ephemeral port exhaustion).
func closePair(p *chanpair.Pair) {
	if p.ClientConn != nil {
		p.ClientConn.SetLinger(0)
	}
	if p.ServerConn != nil {
		p.ServerConn.SetLinger(0)
	}
	p.Close()
}

// newPair retries while the host has no free port / socket (other checks run in parallel).
func newPair(o chanpair.Options) (p *chanpair.Pair, err error) {
	for i := 0; i < 120; i++ {
		p, err = chanpair.New(o)
		if err == nil {
			return p, nil
		}
		if !resourceError(err) {
			return nil, err
		}
		time.Sleep(time.Second)
	}
	return nil, err
}

// resourceError recognises failures of the host (ports, descriptors, scheduling), not of the library.
func resourceError(err error) bool {
	e := err.Error()
	for _, s := range []string{"address already in use", "cannot assign requested address", "too many open files",
		"accept timed out", "i/o timeout", "context deadline exceeded", "connection refused", "no buffer space"} {
		if strings.Contains(e, s) {
			return true
		}
	}
	return false
}

// openPair builds the pair and opens the channel itself, so that a refusal of
// the OPN exchange is reported with the error of the side that refused.
func openPair(c caseT, server ackT) (*chanpair.Pair, *failure, error) {
	o := c.options(server)
	o.NoOpen = true
	p, err := newPair(o)
	if err != nil {
		if e := err.Error(); !resourceError(err) && (strings.HasPrefix(e, "chanpair: dial:") || strings.HasPrefix(e, "chanpair: accept:")) {
			// every generated configuration is valid: the Hello/Acknowledge exchange must succeed
			return nil, &failure{sig: "B/open/hello-acknowledge-exchange-fails", msg: "(B) the Hello/Acknowledge exchange fails for a valid configuration (client " + fmt.Sprintf("%+v", c.Client) + ", server " + fmt.Sprintf("%+v", server) + "): " + e}, nil
		}
		return nil, nil, err
	}
	ctx, cancel := context.WithCancel(context.Background())
	defer cancel()
	srvDone := make(chan *uasc.MessageBody, 1)
	go func() { srvDone <- p.Server.Receive(ctx) }()
	cliDone := make(chan error, 1)
	go func() { cliDone <- p.Client.Open(ctx) }()
	sig := "B/open/valid-configuration-cannot-open-a-channel"
	if server.MMS == 0 {
		sig += "[server-MaxMessageSize=0]"
	}
	fail := func(timing bool, format string, args ...any) (*chanpair.Pair, *failure, error) {
		cancel()
		closePair(p)
		return nil, &failure{sig: sig, timing: timing, msg: "(B) a channel cannot be opened with a valid configuration (client " + fmt.Sprintf("%+v", c.Client) + ", server " + fmt.Sprintf("%+v", server) + "): " + fmt.Sprintf(format, args...)}, nil
	}
	var cliErr error
	cliReturned := false
	select {
	case m := <-srvDone:
		if m.Err != nil {
			return fail(false, "the server rejects the OpenSecureChannel request: %v", m.Err)
		}
	case cliErr = <-cliDone:
		cliReturned = true
		select {
		case m := <-srvDone:
			if m.Err != nil {
				return fail(false, "the server rejects the OpenSecureChannel request: %v", m.Err)
			}
		case <-time.After(recvWait):
			return fail(true, "client Open returned %v and the server did not finish the OPN exchange", cliErr)
		}
	case <-time.After(reqTO + recvWait):
		return fail(true, "neither side finished the OPN exchange")
	}
	if !cliReturned {
		select {
		case cliErr = <-cliDone:
		case e := <-p.ClientErr:
			return fail(false, "the client rejects the OpenSecureChannel response: %v", e)
		case <-time.After(reqTO + recvWait):
			return fail(true, "client Open did not return")
		}
	}
	if cliErr != nil {
		select {
		case e := <-p.ClientErr:
			return fail(false, "the client rejects the OpenSecureChannel response: %v (Open: %v)", e, cliErr)
		default:
		}
		return fail(cliErr == ua.StatusBadTimeout, "client Open failed: %v", cliErr)
	}
	return p, nil, nil
}

func bufClass(v uint32) string {
	switch v {
	case 8192, 8193, 16384, 65535, 65536, 1 << 20:
		return fmt.Sprint(v)
	}
	return "random"
}

func limClass(v uint32, def uint32) string {
	switch {
	case v == 0:
		return "0"
	case v == def:
		return "default"
	case v < def:
		return "below-default"
	}
	return "above-default"
}

func runOnce(c caseT) (fail *failure, nontrivial bool, classes []string, excluded bool) {
	r := &runner{c: c}
	pol := "None"
	if c.Policy != ua.SecurityPolicyURINone {
		pol = c.Policy[strings.LastIndex(c.Policy, "#")+1:]
		if c.Encrypt {
			pol += "/SignAndEncrypt"
		} else {
			pol += "/Sign"
		}
	}
	r.class("policy:%s", pol)
	allEq := c.Client.Recv == c.Client.Send && c.Client.Send == c.Server.Recv && c.Server.Recv == c.Server.Send
	if allEq {
		r.class("cfg:buffers-all-equal")
	} else {
		r.class("cfg:buffers-asymmetric")
	}
	if c.Server.Send > c.Client.Recv {
		r.class("cfg:server-send>client-recv")
	}
	if c.Client.Send > c.Server.Recv {
		r.class("cfg:client-send>server-recv")
	}
	if c.Server.Send > c.Server.Recv {
		r.class("cfg:server-send>server-recv")
	}
	r.class("cfg:client-MMS:%s", limClass(c.Client.MMS, uacp.DefaultMaxMessageSize))
	r.class("cfg:client-MCC:%s", limClass(c.Client.MCC, uacp.DefaultMaxChunkCount))
	r.class("cfg:server-MMS:%s", limClass(c.Server.MMS, uacp.DefaultMaxMessageSize))
	r.class("cfg:server-MCC:%s", limClass(c.Server.MCC, uacp.DefaultMaxChunkCount))
	for _, b := range []uint32{c.Client.Recv, c.Client.Send, c.Server.Recv, c.Server.Send} {
		r.class("cfg:buffer:%s", bufClass(b))
	}

	p, f, err := openPair(c, c.Server)
	if err != nil {
		panic("infrastructure: " + err.Error())
	}
	if f != nil {
		// all generated configurations are valid (buffers >= 8192, limits admit an OPN body)
		r.class("open-failed")
		if rec.Known(f.sig) {
			r.class("excluded:%s", f.sig)
			return nil, !allEq, r.classes, true
		}
		return f, !allEq, r.classes, false
	}
	defer closePair(p)
	r.p = p
	w, ok := parseHandshake(p.Tap.Frames())
	if !ok {
		panic("infrastructure: no HEL/ACK on the tap")
	}
	r.w = w
	if w.AckRecv > w.HelSend {
		r.class("wire:Ack.ReceiveBufferSize>Hello.SendBufferSize")
	}
	if w.AckSend > w.HelRecv {
		r.class("wire:Ack.SendBufferSize>Hello.ReceiveBufferSize")
	}

	for _, m := range c.Msgs {
		var f *failure
		switch {
		case m.Kind == "inject":
			f = r.doInject(m)
		case m.Dir == "c2s":
			f = r.doC2S(m)
		default:
			f = r.doS2C(m)
		}
		if f != nil {
			if rec.Known(f.sig) {
				r.class("excluded:%s", f.sig)
				return nil, !allEq || r.near, r.classes, true
			}
			return f, !allEq || r.near, r.classes, false
		}
		if m.Kind == "inject" {
			break // the injected chunk used a sequence number / request id of its own: end of the case
		}
	}
	return nil, !allEq || r.near, r.classes, false
}

var (
	inconclMu   sync.Mutex
	inconclMsgs []string
)

// noteInconclusive keeps the first few time-out verdicts that did not reproduce (evidence only).
func noteInconclusive(msg string) {
	inconclMu.Lock()
	defer inconclMu.Unlock()
	if len(inconclMsgs) < 5 {
		if len(msg) > 600 {
			msg = msg[:600]
		}
		inconclMsgs = append(inconclMsgs, msg)
		rec.Extra(fmt.Sprintf("inconclusive_timeouts_shard%d", shardIndex()), inconclMsgs)
	}
}

func shardIndex() int { i, _ := ev.Shard(); return i }

// check applies the timing rule: a failure whose only evidence is a time-out
// must reproduce three times.
func check(c caseT) (msg string, nontrivial bool, classes []string, inconclusive bool) {
	f, nt, classes, _ := runOnce(c)
	if f == nil {
		return "", nt, classes, false
	}
	if f.timing {
		for i := 0; i < 2; i++ {
			f2, _, _, _ := runOnce(c)
			if f2 == nil {
				noteInconclusive(f.sig + ": " + f.msg)
				return "", nt, classes, true
			}
			if !f2.timing {
				return f2.sig + ": " + f2.msg, nt, classes, false
			}
		}
		return f.sig + ": " + f.msg + " (reproduced 3 times)", nt, classes, false
	}
	return f.sig + ": " + f.msg, nt, classes, false
}

func TestLimits(t *testing.T) {
	rec.Assume("limits are read from the Hello / Acknowledge frames recorded by the tap; chunk counts and sizes are what the tap saw; body size = 4 + len(ua.Encode(message)) (trusts the ua codec for the length of a ReadRequest / ReadResponse)")
	rec.Assume("sender's chunk capacity (uasc.VerifActiveMaxBodySize) is used for choosing sizes only, never by the oracle; a refusal on account of MaxChunkCount is judged against the chunk count a twin pair without limits puts on the wire")
	rec.Assume("harness-written chunks (policy None only) follow Part 6 6.7.2: 12-byte header, token id, sequence header, body; absence of delivery within 60 s counts only if reproduced 3 times")
	rapid.Check(t, func(t *rapid.T) {
		c := genCase(t)
		b, _ := json.Marshal(c)
		type resT struct {
			msg     string
			nt      bool
			classes []string
			inconcl bool
		}
		resCh := make(chan resT, 1)
		go func() {
			defer func() {
				if p := recover(); p != nil { // infrastructure panics of the harness
					resCh <- resT{msg: fmt.Sprintf("HARNESS PANIC: %v", p)}
				}
			}()
			var r resT
			r.msg, r.nt, r.classes, r.inconcl = check(c)
			resCh <- r
		}()
		var msg string
		var nt, inconcl bool
		var classes []string
		select {
		case r := <-resCh:
			msg, nt, classes, inconcl = r.msg, r.nt, r.classes, r.inconcl
		case <-time.After(caseWatchdog):
			// never a verdict: dump what is blocked for whoever reads the log and move on
			buf := make([]byte, 1<<20)
			buf = buf[:runtime.Stack(buf, true)]
			fmt.Fprintf(os.Stderr, "C06 WATCHDOG: case did not finish within %v (inconclusive)\ncase: %s\n%s\n", caseWatchdog, b, buf)
			noteInconclusive("watchdog: case did not finish within " + caseWatchdog.String() + ": " + string(b))
			rec.Case(false, 0, "watchdog:case-abandoned")
			rec.Inconclusive()
			return
		}
		if strings.HasPrefix(msg, "HARNESS PANIC: ") {
			panic(msg)
		}
		rec.Case(nt, ev.Hash(b), classes...)
		if inconcl {
			rec.Inconclusive()
		}
		if nt && rec.WantSample() {
			rec.Sample(c)
		}
		if msg != "" {
			rec.Fail(t, "TestLimits", c, "%s", msg)
		}
	})
}

// TestReplay re-runs a saved case without rapid.
func TestReplay(t *testing.T) {
	rp, err := ev.LoadReplay()
	if err != nil {
		t.Fatal(err)
	}
	if rp == nil {
		t.Skip("no VERIF_REPLAY")
	}
	if rp.Test == "TestSharedListener" {
		var sc sharedCase
		if err := json.Unmarshal(rp.Case, &sc); err != nil {
			t.Fatal(err)
		}
		fmt.Println("REPLAYED structured")
		if msg, _ := runShared(sc); msg != "" {
			t.Fatalf("property C06 violated: %s", msg)
		}
		return
	}
	var c caseT
	if err := json.Unmarshal(rp.Case, &c); err != nil {
		t.Fatal(err)
	}
	fmt.Println("REPLAYED structured")
	msg, _, _, inconcl := check(c)
	if inconcl {
		t.Log("time-out did not reproduce 3 times: inconclusive")
	}
	if msg != "" {
		t.Fatalf("property C06 violated: %s", msg)
	}
}
