package c06

// TestSharedListener: several clients with different Hello values connect to
// ONE listener (as they do with a real server). The limits negotiated for a
// connection must depend on that connection's Hello and the listener's
// configuration only - not on the clients that connected before or after it:
// each side still accepts every chunk up to the size the other side may send.
// (Added after seeded change C06-A, which revised the listener's shared
// Acknowledge in place, was missed by the one-listener-per-case harness.)

import (
	"context"
	"encoding/binary"
	"encoding/json"
	"fmt"
	"net"
	"testing"
	"time"

	"github.com/gopcua/opcua/uacp"
	"pgregory.net/rapid"

	"verif/pkg/ev"
)

type sharedCase struct {
	Server  [2]uint32   `json:"server_recv_send"`
	Clients [][2]uint32 `json:"clients_recv_send"`
	Probe   int         `json:"probe_client"` // which client sends / receives the largest permitted frame afterwards
}

var bufMenu = []uint32{8192, 8193, 16384, 65535, 65536, 1 << 20}

func minU(a, b uint32) uint32 {
	if a < b {
		return a
	}
	return b
}

func runShared(c sharedCase) (msg string, infra bool) {
	ctx := context.Background()
	ln, err := uacp.Listen(ctx, "opc.tcp://127.0.0.1:0", &uacp.Acknowledge{ReceiveBufSize: c.Server[0], SendBufSize: c.Server[1], MaxChunkCount: 0, MaxMessageSize: 0})
	if err != nil {
		return "", true
	}
	defer ln.Close()
	type pair struct{ cl, sv *uacp.Conn }
	var pairs []pair
	defer func() {
		for _, p := range pairs {
			p.cl.Close()
			p.sv.Close()
		}
	}()
	for _, cb := range c.Clients {
		acc := make(chan *uacp.Conn, 1)
		go func() {
			sc, err := ln.Accept(ctx)
			if err != nil {
				acc <- nil
				return
			}
			acc <- sc
		}()
		d := &uacp.Dialer{Dialer: &net.Dialer{}, ClientACK: &uacp.Acknowledge{ReceiveBufSize: cb[0], SendBufSize: cb[1]}}
		dctx, cancel := context.WithTimeout(ctx, 20*time.Second)
		cl, err := d.Dial(dctx, "opc.tcp://"+ln.Addr().String())
		cancel()
		if err != nil {
			return "", true
		}
		var sv *uacp.Conn
		select {
		case sv = <-acc:
		case <-time.After(20 * time.Second):
		}
		if sv == nil {
			cl.Close()
			return "", true
		}
		pairs = append(pairs, pair{cl, sv})
	}
	// after ALL clients have connected: the probe client's connection still has its own limits
	p := pairs[c.Probe]
	cb := c.Clients[c.Probe]
	c2s := minU(cb[1], c.Server[0]) // largest chunk the client may send = what the server must accept
	s2c := minU(c.Server[1], cb[0]) // largest chunk the server may send = what the client must accept
	frame := func(n uint32) []byte {
		b := make([]byte, n)
		copy(b, "MSGF")
		binary.LittleEndian.PutUint32(b[4:], n)
		for i := 8; i < len(b); i++ {
			b[i] = byte(i * 7)
		}
		return b
	}
	type res struct {
		b   []byte
		err error
	}
	recv := func(conn *uacp.Conn) chan res {
		ch := make(chan res, 1)
		go func() { b, err := conn.Receive(); ch <- res{b, err} }()
		return ch
	}
	// client -> server
	rc := recv(p.sv)
	if _, err := p.cl.Write(frame(c2s)); err != nil {
		return "", true
	}
	select {
	case r := <-rc:
		if r.err != nil || uint32(len(r.b)) != c2s {
			return fmt.Sprintf("client #%d (Hello recv/send %d/%d, server %d/%d) may send chunks of %d bytes, but after %d clients had connected the server's connection rejected such a chunk: len=%d err=%v",
				c.Probe, cb[0], cb[1], c.Server[0], c.Server[1], c2s, len(c.Clients), len(r.b), r.err), false
		}
	case <-time.After(30 * time.Second):
		return "", true
	}
	// server -> client
	rc = recv(p.cl)
	if _, err := p.sv.Write(frame(s2c)); err != nil {
		return "", true
	}
	select {
	case r := <-rc:
		if r.err != nil || uint32(len(r.b)) != s2c {
			return fmt.Sprintf("the server may send client #%d chunks of %d bytes (Hello recv/send %d/%d, server %d/%d), but the client's connection rejected such a chunk: len=%d err=%v",
				c.Probe, s2c, cb[0], cb[1], c.Server[0], c.Server[1], len(r.b), r.err), false
		}
	case <-time.After(30 * time.Second):
		return "", true
	}
	// what the library itself believes it may send on this connection
	if got := p.sv.SendBufSize(); got > cb[0] {
		return fmt.Sprintf("the server's connection for client #%d believes it may send %d-byte chunks, the client's Hello allows %d", c.Probe, got, cb[0]), false
	}
	if got := p.cl.SendBufSize(); got > c.Server[0] {
		return fmt.Sprintf("client #%d believes it may send %d-byte chunks, the server's receive buffer is %d", c.Probe, got, c.Server[0]), false
	}
	return "", false
}

func TestSharedListener(t *testing.T) {
	rapid.Check(t, func(t *rapid.T) {
		var c sharedCase
		buf := rapid.SampledFrom(bufMenu)
		c.Server = [2]uint32{buf.Draw(t, "srecv"), buf.Draw(t, "ssend")}
		n := rapid.IntRange(2, 4).Draw(t, "nclients")
		for i := 0; i < n; i++ {
			c.Clients = append(c.Clients, [2]uint32{buf.Draw(t, "crecv"), buf.Draw(t, "csend")})
		}
		c.Probe = rapid.IntRange(0, n-1).Draw(t, "probe")
		msg, infra := runShared(c)
		if infra {
			rec.Inconclusive()
		}
		differ := false
		for _, cb := range c.Clients {
			if cb != c.Clients[c.Probe] {
				differ = true
			}
		}
		b, _ := json.Marshal(c)
		rec.Case(differ, ev.Hash("shared", b), "shared-listener", fmt.Sprintf("shared:clients-differ:%v", differ), fmt.Sprintf("shared:probe-not-last:%v", c.Probe != n-1))
		if differ && rec.WantSample() {
			rec.Sample(map[string]any{"kind": "shared-listener", "case": c})
		}
		if msg != "" {
			rec.Fail(t, "TestSharedListener", c, "%s", msg)
		}
	})
}
