package c13

// Authenticated hostile peers: a peer that holds a valid application
// certificate opens the channel properly (pkg/refcodec, the independent
// reference codec) and then sends chunks whose signature is VALID but whose
// protected region is malformed (padding size larger than the payload, payload
// shorter than the sequence header, nothing but a signature, ...). This reaches
// the code behind the signature check, which a keyless fuzzer never does.

import (
	"context"
	"crypto/aes"
	"crypto/cipher"
	"crypto/hmac"
	"encoding/binary"
	"encoding/hex"
	"fmt"
	"io"
	"net"
	"time"

	"github.com/gopcua/opcua/ua"
	"github.com/gopcua/opcua/uacp"
	"github.com/gopcua/opcua/uasc"
	"pgregory.net/rapid"

	"verif/pkg/chanpair"
	"verif/pkg/keys"
	"verif/pkg/refcodec"
)

// authT is a symmetric chunk that is signed (and encrypted) correctly with the
// session keys; Plain is the region between the security header and the
// signature, exactly as it will be signed.
type authT struct {
	MsgType   string `json:"msg_type"`
	ChunkType string `json:"chunk_type"`
	Plain     string `json:"plain"` // hex
}

func sigLenOf(policy string) int { return refcodec.PolicyByURI(policy).SymSignatureLen() }

// genAuth draws the protected region. encrypt: plain+signature must fill whole AES blocks.
func genAuth(t *rapid.T, policy string, encrypt, toServer bool) stepT {
	sig := sigLenOf(policy)
	seqhdr := func() []byte {
		return le32(le32(nil, rapid.SampledFrom([]uint32{5, 6, 100, 0, 0xffffffff}).Draw(t, "seq")), rapid.SampledFrom([]uint32{1, 2, 3, 9}).Draw(t, "req"))
	}
	// align pads p so that (len(p)+sig) is a multiple of 16, using the filler byte
	align := func(p []byte, filler byte) []byte {
		for (len(p)+sig)%16 != 0 {
			p = append(p, filler)
		}
		return p
	}
	var plain []byte
	var class string
	switch rapid.IntRange(0, 7).Draw(t, "auth") {
	case 0: // well-formed chunk (control): the channel must keep working
		body, _ := genBody(t, toServer)
		plain = append(seqhdr(), body...)
		if encrypt {
			n := (16 - (len(plain)+1+sig)%16) % 16
			for i := 0; i <= n; i++ {
				plain = append(plain, byte(n))
			}
		}
		class = "well-formed"
	case 1: // nothing but the signature
		if encrypt {
			plain = align(nil, rapid.SampledFrom([]byte{0, 1, 0xff}).Draw(t, "fill"))
		}
		class = "empty-protected-region"
	case 2: // shorter than the sequence header
		plain = fillBytes(rapid.IntRange(1, 7).Draw(t, "n"), rapid.Byte().Draw(t, "seed"))
		if encrypt {
			plain = align(plain, rapid.SampledFrom([]byte{0, 0xff}).Draw(t, "fill"))
		}
		class = "shorter-than-sequence-header"
	case 3, 4: // padding size byte announces more padding than there is
		plain = append(seqhdr(), fillBytes(rapid.IntRange(0, 40).Draw(t, "n"), rapid.Byte().Draw(t, "seed"))...)
		if encrypt {
			plain = align(plain, 0)
		}
		if len(plain) > 0 {
			plain[len(plain)-1] = rapid.SampledFrom([]byte{0xff, 0xfe, 0x80, byte(len(plain)), byte(len(plain) - 1), byte(len(plain) - 8)}).Draw(t, "padsize")
		}
		class = "padding-size-exceeds-payload"
	case 5: // padding eats the sequence header exactly / partly
		plain = seqhdr()
		if encrypt {
			plain = align(plain, 0)
		}
		plain[len(plain)-1] = byte(len(plain) - rapid.IntRange(0, 9).Draw(t, "keep"))
		class = "padding-into-sequence-header"
	case 6: // valid layout, body is an abort / garbage of any chunk type
		plain = append(seqhdr(), fillBytes(rapid.IntRange(0, 100).Draw(t, "n"), rapid.Byte().Draw(t, "seed"))...)
		if encrypt {
			n := (16 - (len(plain)+1+sig)%16) % 16
			for i := 0; i <= n; i++ {
				plain = append(plain, byte(n))
			}
		}
		class = "garbage-body"
	default: // whole blocks of one byte value
		n := 16 * rapid.IntRange(1, 4).Draw(t, "blocks")
		b := rapid.SampledFrom([]byte{0, 1, 15, 16, 0xff}).Draw(t, "fill")
		for i := 0; i < n; i++ {
			plain = append(plain, b)
		}
		if encrypt {
			plain = align(plain, b)
		}
		class = "constant-blocks"
	}
	a := &authT{MsgType: rapid.SampledFrom([]string{"MSG", "MSG", "MSG", "CLO"}).Draw(t, "mt"), ChunkType: string(rapid.SampledFrom([]byte{'F', 'F', 'C', 'A'}).Draw(t, "ct")), Plain: hex.EncodeToString(plain)}
	return stepT{Class: fmt.Sprintf("auth %s%s %s", a.MsgType, a.ChunkType, class), Auth: a}
}

// authFrame secures the region with the sender keys of the session.
func authFrame(s *refcodec.Session, a *authT) ([]byte, error) {
	plain, err := hex.DecodeString(a.Plain)
	if err != nil || len(a.MsgType) != 3 || len(a.ChunkType) != 1 {
		return nil, fmt.Errorf("malformed auth step")
	}
	p, k := s.Policy, s.SendKeys()
	sig := p.SymSignatureLen()
	b := append([]byte(a.MsgType), a.ChunkType[0])
	b = le32(b, 0)
	b = le32(b, s.ChannelID)
	b = le32(b, s.TokenID)
	b = append(b, plain...)
	binary.LittleEndian.PutUint32(b[4:], uint32(len(b)+sig))
	m := hmac.New(p.SymHash.New, k.Sign)
	m.Write(b)
	b = m.Sum(b)
	if s.Mode == refcodec.ModeSignAndEncrypt {
		if (len(b)-16)%16 != 0 {
			return nil, fmt.Errorf("malformed auth step: protected region + signature is not a whole number of blocks")
		}
		blk, err := aes.NewCipher(k.Enc)
		if err != nil {
			return nil, err
		}
		cipher.NewCBCEncrypter(blk, k.IV).CryptBlocks(b[16:], b[16:])
	}
	return b, nil
}

func nonceFor(p *refcodec.Policy, seed byte) []byte { return fillBytes(p.NonceLen, seed) }

func refMode(c caseT) refcodec.Mode {
	if c.Encrypt {
		return refcodec.ModeSignAndEncrypt
	}
	return refcodec.ModeSign
}

// runServerAuth: reference client with valid keys against a gopcua server channel.
func runServerAuth(c caseT) (o outcome, err error) {
	ctx, cancel := context.WithCancel(context.Background())
	defer cancel()
	ack := &uacp.Acknowledge{ReceiveBufSize: c.Buf, SendBufSize: c.Buf, MaxChunkCount: c.MaxChunks, MaxMessageSize: 1 << 20}
	ln, err := uacp.Listen(ctx, "opc.tcp://127.0.0.1:0", ack)
	if err != nil {
		return o, err
	}
	defer ln.Close()
	type acc struct {
		c   *uacp.Conn
		err error
	}
	accCh := make(chan acc, 1)
	go func() {
		conn, err := ln.Accept(ctx)
		accCh <- acc{conn, err}
	}()
	endpoint := "opc.tcp://" + ln.Addr().String()
	conn, err := net.DialTimeout("tcp", ln.Addr().String(), 10*time.Second)
	if err != nil {
		return o, err
	}
	defer conn.Close()
	ka, kb := keys.Get("a", 2048), keys.Get("b", 2048)
	pol := refcodec.PolicyByURI(c.Policy)
	sess := refcodec.NewClientSession(conn, pol, refMode(c), ka.Key, ka.Cert, kb.Cert)
	if _, err := sess.Hello(refcodec.Hello{ReceiveBufferSize: c.Buf, SendBufferSize: c.Buf, EndpointURL: endpoint}); err != nil {
		return o, fmt.Errorf("reference HEL: %v", err)
	}
	a := <-accCh
	if a.err != nil {
		return o, a.err
	}
	defer a.c.Close()
	errch := make(chan error, 16)
	sc, err := uasc.NewServerSecureChannel(endpoint, a.c, serverConfig(true), errch, channelID, 1, tokenID)
	if err != nil {
		return o, err
	}
	done := make(chan loopResult, 1)
	go func() { done <- receiveLoop(ctx, sc) }()
	if _, err := sess.OpenRequest(1, 1, false, nonceFor(pol, 3), 3600_000); err != nil {
		return o, fmt.Errorf("reference OPN: %v", err)
	}
	if _, _, err := sess.ReadOpenResponse(); err != nil {
		return o, fmt.Errorf("reference OPN response: %v", err)
	}
	go io.Copy(io.Discard, conn)
	wdone := make(chan error, 1)
	go func() {
		conn.SetWriteDeadline(time.Now().Add(30 * time.Second))
		wdone <- writeStepsAuth(conn, c.Steps, c.Buf, sess)
	}()
	var early *loopResult
	select {
	case e := <-wdone:
		if e != nil && e.Error() == "malformed auth step" {
			return o, e
		}
		conn.(*net.TCPConn).CloseWrite()
	case r := <-done:
		early = &r
		conn.Close()
		<-wdone
	}
	r, msg, sig, err := judgeLoop(done, early, "Receive on the server channel")
	if err != nil {
		return o, err
	}
	o.reached = r.calls > 1
	o.msg, o.sig = msg, sig
	if o.msg == "" {
		o.msg, o.sig, o.maxBytes, o.maxChunk = memOracle(c, sc, c.MaxChunks, c.Buf, 0)
	}
	o.classes = append(o.classes, fmt.Sprintf("server-auth results:%s", bucket(r.msgs-1)))
	return o, nil
}

// runClientAuth: a gopcua client opens a secured channel to a reference server
// that holds valid keys and then misbehaves.
func runClientAuth(c caseT) (o outcome, err error) {
	ln, err := net.Listen("tcp", "127.0.0.1:0")
	if err != nil {
		return o, err
	}
	defer ln.Close()
	endpoint := "opc.tcp://" + ln.Addr().String()
	ka, kb := keys.Get("a", 2048), keys.Get("b", 2048)
	_ = ka
	srv := make(chan error, 1)
	go func() {
		srv <- func() error {
			ln.(*net.TCPListener).SetDeadline(time.Now().Add(10 * time.Second))
			conn, err := ln.Accept()
			if err != nil {
				return err
			}
			defer conn.Close()
			sess := refcodec.NewServerSession(conn, kb.Key, kb.Cert, channelID, tokenID)
			if _, err := sess.AcceptHello(refcodec.Acknowledge{ReceiveBufferSize: c.Buf, SendBufferSize: c.Buf, MaxMessageSize: 1 << 20, MaxChunkCount: c.MaxChunks}); err != nil {
				return fmt.Errorf("HEL: %v", err)
			}
			req, ch, err := sess.ReadOpenRequest()
			if err != nil {
				return fmt.Errorf("OPN request: %v", err)
			}
			if _, err := sess.OpenResponse(ch.RequestID, 1, req.RequestHeader.RequestHandle, nonceFor(sess.Policy, 9), req.RequestedLifetime); err != nil {
				return fmt.Errorf("OPN response: %v", err)
			}
			go io.Copy(io.Discard, conn)
			conn.SetWriteDeadline(time.Now().Add(30 * time.Second))
			if err := writeStepsAuth(conn, c.Steps, c.Buf, sess); err != nil && err.Error() == "malformed auth step" {
				return err
			}
			conn.(*net.TCPConn).CloseWrite()
			time.Sleep(20 * time.Millisecond)
			return nil
		}()
	}()
	ctx, cancel := context.WithCancel(context.Background())
	defer cancel()
	d := &uacp.Dialer{ClientACK: &uacp.Acknowledge{ReceiveBufSize: 65535, SendBufSize: 65535}}
	dctx, dcancel := context.WithTimeout(ctx, 10*time.Second)
	defer dcancel()
	conn, err := d.Dial(dctx, endpoint)
	if err != nil {
		return o, fmt.Errorf("dial: %w", err)
	}
	defer conn.Close()
	errch := make(chan error, 16)
	cfg := clientConfig(c)
	cfg.RequestTimeout = returnBound + 10*time.Second
	sc, err := uasc.NewSecureChannel(endpoint, conn, cfg, errch)
	if err != nil {
		return o, err
	}
	opened := make(chan error, 1)
	go func() { opened <- sc.Open(ctx) }()
	var openErr error
	select {
	case openErr = <-opened:
	case <-time.After(returnBound):
		return o, errTimeout{fmt.Sprintf("Open did not return within %v", returnBound)}
	}
	if e := <-srv; e != nil {
		return o, fmt.Errorf("reference server: %v", e)
	}
	if openErr != nil {
		return o, fmt.Errorf("Open against the reference server failed: %v", openErr)
	}
	o.reached = true
	fresh := make(chan error, 1)
	go func() {
		fresh <- sc.SendRequest(ctx, &ua.ReadRequest{NodesToRead: []*ua.ReadValueID{}}, nil, func(ua.Response) error { return nil })
	}()
	select {
	case e := <-fresh:
		if e == ua.StatusBadTimeout {
			return o, errTimeout{"a SendRequest issued after the peer closed ran into its timeout: the dispatcher did not notice the closed connection"}
		}
	case <-time.After(returnBound):
		return o, errTimeout{fmt.Sprintf("a SendRequest issued after the peer closed did not return within %v", returnBound)}
	}
	o.msg, o.sig, o.maxBytes, o.maxChunk = memOracle(c, sc, c.MaxChunks, c.Buf, 0)
	done := make(chan struct{})
	go func() { sc.Close(); close(done) }()
	select {
	case <-done:
	case <-time.After(3 * time.Second):
	}
	return o, nil
}

var _ = chanpair.ModeFor
