package c13

// TestOPNResponseMidStream: on an open policy-None channel the peer answers an
// ordinary pending request (or a request id nobody waits for) with a
// well-formed OpenSecureChannelResponse that carries the next sequence number.
// Whatever the client makes of it, the receive path must stay alive: the
// pending call returns, and a request sent afterwards is answered by the
// genuine server. (The random streams of TestClient reach this only when the
// drawn request id and sequence number happen to fit; the revert of repair
// 1270c66 - dispatcher wedged for good - went unnoticed by them.)

import (
	"context"
	"encoding/json"
	"fmt"
	"testing"
	"time"

	"github.com/gopcua/opcua/ua"
	"pgregory.net/rapid"

	"verif/pkg/ev"
	"verif/pkg/netx"
	"verif/pkg/refnone"
)

type opnMidT struct {
	Buf       uint32 `json:"buf"`
	ForWhom   string `json:"for"` // pending | unknown-id
	Status    uint32 `json:"status"`
	ChannelID uint32 `json:"channel_id"` // in the security token of the response
	TokenID   uint32 `json:"token_id"`
	Nonce     int    `json:"nonce_len"`
	Repeat    int    `json:"repeat"` // how many such responses in a row
	// AsMSG: the OpenSecureChannelResponse travels as the body of an ordinary
	// symmetric MSG chunk (token of the channel) instead of an OPN chunk
	AsMSG bool `json:"as_msg_chunk,omitempty"`
}

func runOPNMid(c opnMidT) (msg string, infra error) {
	p, err := pairFor(caseT{Policy: "", Buf: c.Buf, MaxChunks: 16})
	if err != nil {
		return "", err
	}
	defer p.Close()
	defer closeClient(p)
	ctx, cancel := context.WithCancel(context.Background())
	defer cancel()
	go func() { // the dispatcher's error channel is written without blocking: drain it
		for {
			select {
			case <-p.ClientErr:
			case <-ctx.Done():
				return
			}
		}
	}()
	pend := make(chan error, 1)
	go func() {
		pend <- p.Client.SendRequest(ctx, &ua.ReadRequest{NodesToRead: []*ua.ReadValueID{}}, nil, func(ua.Response) error { return nil })
	}()
	m := p.ServerReceive(10 * time.Second)
	if m == nil || m.Err != nil || m.Request() == nil {
		return "", fmt.Errorf("the genuine server did not receive the pending request")
	}
	sent, _, ok := p.Server.VerifSequenceNumbers()
	if !ok {
		return "", fmt.Errorf("server channel has no active instance")
	}
	reqID := m.RequestID
	if c.ForWhom == "unknown-id" {
		reqID += 1000
	}
	for i := 0; i < c.Repeat; i++ {
		sent++
		body := opnResponseBody(m.Request().Header().RequestHandle, c.ChannelID, c.TokenID, make([]byte, c.Nonce), ua.StatusCode(c.Status))
		frame := refnone.OpenChunk(channelID, sent, reqID, body)
		if c.AsMSG {
			frame = refnone.SymChunk("MSG", 'F', channelID, tokenID, sent, reqID, body)
		}
		if err := p.Tap.Inject(netx.S2C, frame); err != nil {
			return "", fmt.Errorf("inject: %v", err)
		}
	}
	// the genuine server continues its numbering after the injected chunks
	p.Server.VerifSetSequenceNumber(sent)
	answer := func(r interface {
		Header() *ua.RequestHeader
	}, id uint32) error {
		return p.Server.SendResponseWithContext(ctx, id, &ua.ReadResponse{ResponseHeader: &ua.ResponseHeader{RequestHandle: r.Header().RequestHandle, Timestamp: time.Now(), ServiceDiagnostics: &ua.DiagnosticInfo{}, StringTable: []string{}, AdditionalHeader: ua.NewExtensionObject(nil)}, Results: []*ua.DataValue{}, DiagnosticInfos: []*ua.DiagnosticInfo{}})
	}
	if err := answer(m.Request(), m.RequestID); err != nil {
		return "", fmt.Errorf("genuine response: %v", err)
	}
	select {
	case <-pend:
	case <-time.After(returnBound):
		return fmt.Sprintf("the pending request did not return within %v after the peer had answered request id %d with %d OpenSecureChannelResponse chunk(s) (status %v) and then with the genuine response", returnBound, reqID, c.Repeat, ua.StatusCode(c.Status)), nil
	}
	// a fresh exchange: the dispatcher must still be reading
	fresh := make(chan error, 1)
	go func() {
		fresh <- p.Client.SendRequest(ctx, &ua.ReadRequest{NodesToRead: []*ua.ReadValueID{}}, nil, func(ua.Response) error { return nil })
	}()
	m2 := p.ServerReceive(10 * time.Second)
	if m2 == nil || m2.Err != nil || m2.Request() == nil {
		// the client may have closed the channel because of the hostile chunk: then the call must fail promptly
		select {
		case <-fresh:
			return "", nil
		case <-time.After(returnBound):
			return fmt.Sprintf("a request issued after the OpenSecureChannelResponse for request id %d neither reached the server nor returned within %v", reqID, returnBound), nil
		}
	}
	if err := answer(m2.Request(), m2.RequestID); err != nil {
		return "", fmt.Errorf("genuine response 2: %v", err)
	}
	select {
	case <-fresh:
	case <-time.After(returnBound):
		return fmt.Sprintf("after the peer had answered request id %d (%s) with %d OpenSecureChannelResponse chunk(s), a later request reached the server and was answered, but the call did not return within %v: the client no longer reads from the connection", reqID, c.ForWhom, c.Repeat, returnBound), nil
	}
	return "", nil
}

func TestOPNResponseMidStream(t *testing.T) {
	rapid.Check(t, func(t *rapid.T) {
		c := opnMidT{
			Buf:       rapid.SampledFrom([]uint32{8192, 65535}).Draw(t, "buf"),
			ForWhom:   rapid.SampledFrom([]string{"pending", "pending", "unknown-id"}).Draw(t, "for"),
			Status:    rapid.SampledFrom([]uint32{0, 0, uint32(ua.StatusBadSecurityChecksFailed), uint32(ua.StatusBadTimeout)}).Draw(t, "status"),
			ChannelID: rapid.SampledFrom([]uint32{channelID, 0, 9}).Draw(t, "ch"),
			TokenID:   rapid.SampledFrom([]uint32{tokenID, tokenID + 1, 0}).Draw(t, "tk"),
			Nonce:     rapid.SampledFrom([]int{0, 0, 1, 32}).Draw(t, "nonce"),
			Repeat:    rapid.IntRange(1, 3).Draw(t, "repeat"),
			AsMSG:     rapid.Bool().Draw(t, "asMSG"),
		}
		rec.Journal("TestOPNResponseMidStream", c)
		msg, infra := runOPNMid(c)
		rec.JournalDone("TestOPNResponseMidStream")
		b, _ := json.Marshal(c)
		if infra != nil {
			rec.Inconclusive()
			rec.Case(false, ev.Hash("opnmid", b), "opn-response-mid-stream:no-verdict")
			t.Logf("no verdict: %v", infra)
			return
		}
		rec.Case(true, ev.Hash("opnmid", b), "opn-response-mid-stream", "opn-response-mid-stream:for="+c.ForWhom, fmt.Sprintf("opn-response-mid-stream:status=%#x", c.Status), fmt.Sprintf("opn-response-mid-stream:as-MSG-chunk=%v", c.AsMSG))
		if rec.WantSample() {
			rec.Sample(map[string]any{"kind": "opn-response-mid-stream", "case": c})
		}
		if msg != "" {
			rec.Fail(t, "TestOPNResponseMidStream", c, "%s", msg)
		}
	})
}
