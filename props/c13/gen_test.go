package c13

import (
	"crypto/sha1"
	"encoding/binary"
	"encoding/hex"
	"fmt"
	"time"

	"github.com/gopcua/opcua/ua"
	"pgregory.net/rapid"

	"verif/pkg/ev"
	"verif/pkg/keys"
	"verif/pkg/refnone"
)

// Ids every target issues for its channel, so hostile frames can name the
// "correct" channel and token at generation time.
const (
	channelID = 4711
	tokenID   = 815
)

// stepT is one thing the hostile peer sends: a byte string (usually one frame
// built from the chunk grammar, possibly lying about its size) or a flood of
// well-formed intermediate chunks.
type stepT struct {
	Class string  `json:"class"`
	Hex   string  `json:"hex,omitempty"`
	Flood *floodT `json:"flood,omitempty"`
	Auth  *authT  `json:"auth,omitempty"`
}

// floodT: Count well-formed MSG 'C' chunks (correct channel / token, running
// sequence numbers) of DataLen body bytes spread round-robin over IDs request ids.
type floodT struct {
	Count   int `json:"count"`
	IDs     int `json:"ids"`
	DataLen int `json:"data_len"`
}

func le32(b []byte, v uint32) []byte { return binary.LittleEndian.AppendUint32(b, v) }

func lpBytes(b []byte, lenField uint32, d []byte) []byte { return append(le32(b, lenField), d...) }

// rawFrame: 8-byte UA-TCP header with an explicit size field + rest.
func rawFrame(typ string, chunk byte, size uint32, rest []byte) []byte {
	b := append([]byte(typ[:3]), chunk)
	b = le32(b, size)
	return append(b, rest...)
}

func setSize(f []byte, size uint32) []byte {
	if len(f) >= 8 {
		binary.LittleEndian.PutUint32(f[4:], size)
	}
	return f
}

func fillBytes(n int, seed byte) []byte {
	b := make([]byte, n)
	for i := range b {
		b[i] = seed + byte(i*31) + byte(i>>8)
	}
	return b
}

// ---------------------------------------------------------------------------
// service bodies

func reqHeader() *ua.RequestHeader {
	return &ua.RequestHeader{AuthenticationToken: ua.NewTwoByteNodeID(0), Timestamp: time.Unix(1_700_000_000, 0).UTC(), AdditionalHeader: ua.NewExtensionObject(nil)}
}

func respHeader() *ua.ResponseHeader {
	return &ua.ResponseHeader{Timestamp: time.Unix(1_700_000_000, 0).UTC(), ServiceDiagnostics: &ua.DiagnosticInfo{}, StringTable: []string{}, AdditionalHeader: ua.NewExtensionObject(nil)}
}

func mustBody(v any) []byte {
	b, err := refnone.ServiceBody(v)
	if err != nil {
		panic(err)
	}
	return b
}

func opnRequestBody(mode uint32, reqType uint32, version uint32, nonce []byte, authToken *ua.NodeID) []byte {
	h := reqHeader()
	if authToken != nil {
		h.AuthenticationToken = authToken
	}
	return mustBody(&ua.OpenSecureChannelRequest{RequestHeader: h, ClientProtocolVersion: version,
		RequestType: ua.SecurityTokenRequestType(reqType), SecurityMode: ua.MessageSecurityMode(mode), ClientNonce: nonce, RequestedLifetime: 3600_000})
}

func opnResponseBody(handle, chID, tokID uint32, nonce []byte, status ua.StatusCode) []byte {
	h := respHeader()
	h.RequestHandle = handle
	h.ServiceResult = status
	return mustBody(&ua.OpenSecureChannelResponse{ResponseHeader: h,
		SecurityToken: &ua.ChannelSecurityToken{ChannelID: chID, TokenID: tokID, CreatedAt: time.Now().UTC(), RevisedLifetime: 3600_000}, ServerNonce: nonce})
}

// genBody draws the bytes after the sequence header.
func genBody(t *rapid.T, toServer bool) ([]byte, string) {
	switch rapid.IntRange(0, 11).Draw(t, "body") {
	case 0:
		return nil, "empty"
	case 1:
		return fillBytes(rapid.IntRange(1, 64).Draw(t, "n"), rapid.Byte().Draw(t, "seed")), "garbage-short"
	case 2:
		return fillBytes(rapid.IntRange(65, 3000).Draw(t, "n"), rapid.Byte().Draw(t, "seed")), "garbage-long"
	case 3:
		// ends in a byte a receiver may take for a padding size
		n := rapid.IntRange(1, 40).Draw(t, "n")
		b := fillBytes(n, rapid.Byte().Draw(t, "seed"))
		b[n-1] = rapid.SampledFrom([]byte{0xff, 0x80, 0x10, 0x00}).Draw(t, "last")
		return b, "garbage-padding-byte"
	case 4:
		return refnone.AbortData(uint32(ua.StatusBadTCPMessageTooLarge), "x"), "abort-body"
	case 5:
		if toServer {
			return mustBody(&ua.ReadRequest{RequestHeader: reqHeader(), NodesToRead: []*ua.ReadValueID{{NodeID: ua.NewNumericNodeID(0, 2258), AttributeID: ua.AttributeIDValue, DataEncoding: &ua.QualifiedName{}}}}), "svc-read-request"
		}
		return mustBody(&ua.ReadResponse{ResponseHeader: respHeader(), Results: []*ua.DataValue{{EncodingMask: ua.DataValueValue, Value: ua.MustVariant(int32(7))}}, DiagnosticInfos: []*ua.DiagnosticInfo{}}), "svc-read-response"
	case 6:
		// a service of the wrong direction
		if toServer {
			return mustBody(&ua.ReadResponse{ResponseHeader: respHeader(), Results: []*ua.DataValue{}, DiagnosticInfos: []*ua.DiagnosticInfo{}}), "svc-wrong-direction"
		}
		return mustBody(&ua.ReadRequest{RequestHeader: reqHeader(), NodesToRead: []*ua.ReadValueID{}}), "svc-wrong-direction"
	case 7:
		mode := rapid.SampledFrom([]uint32{1, 1, 2, 3, 0, 4, 77}).Draw(t, "mode")
		rt := rapid.SampledFrom([]uint32{0, 0, 1, 9}).Draw(t, "rtype")
		ver := rapid.SampledFrom([]uint32{0, 0, 0, 1}).Draw(t, "ver")
		var tok *ua.NodeID
		if rapid.IntRange(0, 5).Draw(t, "tok") == 0 {
			tok = ua.NewNumericNodeID(0, 5)
		}
		nonce := fillBytes(rapid.SampledFrom([]int{0, 1, 16, 32, 33}).Draw(t, "nonce"), 3)
		return opnRequestBody(mode, rt, ver, nonce, tok), fmt.Sprintf("svc-opn-request(mode=%d)", mode)
	case 8:
		st := rapid.SampledFrom([]ua.StatusCode{ua.StatusOK, ua.StatusOK, ua.StatusBadSecurityChecksFailed}).Draw(t, "st")
		nonce := fillBytes(rapid.SampledFrom([]int{0, 1, 16, 32, 33}).Draw(t, "nonce"), 5)
		return opnResponseBody(uint32(rapid.IntRange(0, 3).Draw(t, "h")), rapid.SampledFrom([]uint32{channelID, 0, 9}).Draw(t, "ch"), rapid.SampledFrom([]uint32{tokenID, 0, 9}).Draw(t, "tk"), nonce, st), "svc-opn-response"
	case 9:
		return mustBody(&ua.CloseSecureChannelRequest{RequestHeader: reqHeader()}), "svc-close-request"
	case 10:
		// a valid service cut short
		b := mustBody(&ua.ReadRequest{RequestHeader: reqHeader(), NodesToRead: []*ua.ReadValueID{{NodeID: ua.NewStringNodeID(1, "abcdefghij"), AttributeID: ua.AttributeIDValue, DataEncoding: &ua.QualifiedName{}}}})
		return b[:rapid.IntRange(1, len(b)-1).Draw(t, "cut")], "svc-truncated"
	default:
		// unknown service type id
		return append([]byte{0x01, 0x00, 0xff, 0x7f}, fillBytes(rapid.IntRange(0, 50).Draw(t, "n"), 1)...), "svc-unknown-type"
	}
}

// sizeGames applies the size mutations of the grammar to a well-laid-out frame.
func sizeGames(t *rapid.T, f []byte, buf uint32, secHdr int) ([]byte, string) {
	switch rapid.IntRange(0, 13).Draw(t, "size") {
	case 0, 1, 2, 3, 4, 5:
		return f, "size-ok"
	case 6: // frame cut inside the 12-byte message header, size field consistent
		n := rapid.IntRange(8, 11).Draw(t, "cut")
		if n > len(f) {
			return f, "size-ok"
		}
		return setSize(append([]byte(nil), f[:n]...), uint32(n)), "cut<12"
	case 7: // cut inside the security header
		hi := 12 + secHdr - 1
		if hi > len(f) {
			hi = len(f)
		}
		if hi < 12 {
			return f, "size-ok"
		}
		n := rapid.IntRange(12, hi).Draw(t, "cut")
		return setSize(append([]byte(nil), f[:n]...), uint32(n)), "cut-in-security-header"
	case 8: // cut inside / right after the sequence header, or shorter than any signature
		lo := 12 + secHdr
		hi := lo + 70
		if hi > len(f) {
			hi = len(f)
		}
		if lo > hi {
			return f, "size-ok"
		}
		n := rapid.IntRange(lo, hi).Draw(t, "cut")
		return setSize(append([]byte(nil), f[:n]...), uint32(n)), "cut<signature"
	case 9: // size field smaller than the frame: the tail is read as the next frame
		if len(f) <= 9 {
			return f, "size-ok"
		}
		return setSize(append([]byte(nil), f...), uint32(rapid.IntRange(8, len(f)-1).Draw(t, "lie"))), "size-field-smaller"
	case 10: // size field larger than the frame (the peer then stalls or closes)
		return setSize(append([]byte(nil), f...), uint32(len(f)+rapid.IntRange(1, 5000).Draw(t, "lie"))), "size-field-larger"
	case 11:
		return setSize(append([]byte(nil), f...), rapid.SampledFrom([]uint32{0, 1, 7}).Draw(t, "tiny")), "size-field<8"
	case 12:
		return setSize(append([]byte(nil), f...), rapid.SampledFrom([]uint32{buf + 1, 0x7fffffff, 0xffffffff, 1 << 24}).Draw(t, "huge")), "size-field>buffer"
	default:
		return setSize(append([]byte(nil), f...), buf), "size-field=buffer"
	}
}

func genMsgType(t *rapid.T, usual string) string {
	switch rapid.IntRange(0, 9).Draw(t, "mtype") {
	case 0:
		return rapid.SampledFrom([]string{"MSG", "CLO", "OPN"}).Draw(t, "mt")
	case 1:
		return rapid.SampledFrom([]string{"ERR", "HEL", "ACK", "RHE", "XYZ", "msg", "\x00\x00\x00"}).Draw(t, "mt")
	}
	return usual
}

func genChunkType(t *rapid.T) byte {
	return rapid.SampledFrom([]byte{'F', 'F', 'F', 'F', 'C', 'C', 'A', 'A', 'X', 0, 'f'}).Draw(t, "ctype")
}

func genID(t *rapid.T, label string, correct uint32) uint32 {
	switch rapid.IntRange(0, 6).Draw(t, label) {
	case 0:
		return 0
	case 1:
		return rapid.Uint32().Draw(t, label+"v")
	case 2:
		return correct + 1
	}
	return correct
}

// genSym: MSG / CLO chunk grammar.
func genSym(t *rapid.T, toServer bool, buf uint32) stepT {
	mt := genMsgType(t, rapid.SampledFrom([]string{"MSG", "MSG", "MSG", "CLO"}).Draw(t, "usual"))
	ct := genChunkType(t)
	ch := genID(t, "chan", channelID)
	tk := genID(t, "tok", tokenID)
	seq := rapid.SampledFrom([]uint32{0, 1, 2, 100, 0xffffffff, 0xfffffc00}).Draw(t, "seq")
	req := rapid.SampledFrom([]uint32{1, 2, 2, 3, 4, 0, 0xffffffff, 77777}).Draw(t, "req")
	body, bclass := genBody(t, toServer)
	f := refnone.SymChunk(mt, ct, ch, tk, seq, req, body)
	f, sclass := sizeGames(t, f, buf, 4)
	return stepT{Class: fmt.Sprintf("sym %s%s %s %s", printable(mt), printable(string(ct)), bclass, sclass), Hex: hex.EncodeToString(f)}
}

func printable(s string) string {
	out := []byte(s)
	for i, c := range out {
		if c < 0x20 || c > 0x7e {
			out[i] = '?'
		}
	}
	return string(out)
}

const policyPrefix = "http://opcfoundation.org/UA/SecurityPolicy#"

// genAsym: OPN chunk grammar with fuzzed asymmetric security header.
func genAsym(t *rapid.T, toServer bool, buf uint32) stepT {
	mt := genMsgType(t, "OPN")
	ct := genChunkType(t)
	ch := genID(t, "chan", channelID)
	var sec []byte
	var pclass, cclass, tclass string
	// policy URI
	switch rapid.IntRange(0, 9).Draw(t, "policy") {
	case 0, 1:
		pclass = "None"
		sec = lpBytes(sec, uint32(len(refnone.PolicyNone)), []byte(refnone.PolicyNone))
	case 2, 3, 4:
		p := policyPrefix + rapid.SampledFrom([]string{"Basic256Sha256", "Basic256Sha256", "Basic128Rsa15", "Basic256", "Aes128_Sha256_RsaOaep", "Aes256_Sha256_RsaPss"}).Draw(t, "uri")
		pclass = "secured"
		sec = lpBytes(sec, uint32(len(p)), []byte(p))
	case 5:
		p := rapid.SampledFrom([]string{policyPrefix + "Nope", "x", policyPrefix, "http://opcfoundation.org/UA/SecurityPolicy#none"}).Draw(t, "uri")
		pclass = "unknown"
		sec = lpBytes(sec, uint32(len(p)), []byte(p))
	case 6:
		pclass = "empty"
		sec = le32(sec, 0)
	case 7:
		pclass = "null"
		sec = le32(sec, 0xffffffff)
	case 8:
		pclass = "64KiB"
		p := make([]byte, 65536)
		for i := range p {
			p[i] = 'A'
		}
		sec = lpBytes(sec, uint32(len(p)), p)
	default:
		pclass = "length-lies"
		sec = lpBytes(sec, rapid.SampledFrom([]uint32{0x7fffffff, 0xfffffffe, 100000, 60}).Draw(t, "plen"), []byte(refnone.PolicyNone))
	}
	// sender certificate
	real := keys.Get(rapid.SampledFrom([]string{"a", "b"}).Draw(t, "who"), 2048).Cert
	switch rapid.IntRange(0, 10).Draw(t, "cert") {
	case 0, 1:
		cclass = "null"
		sec = le32(sec, 0xffffffff)
	case 2:
		cclass = "empty"
		sec = le32(sec, 0)
	case 3:
		cclass = "garbage-der"
		g := fillBytes(rapid.IntRange(1, 2000).Draw(t, "n"), rapid.Byte().Draw(t, "seed"))
		if rapid.Bool().Draw(t, "seqhdr") {
			g[0] = 0x30 // looks like a DER SEQUENCE
			if len(g) > 3 {
				g[1], g[2], g[3] = 0x82, byte((len(g)-4)>>8), byte(len(g)-4)
			}
		}
		sec = lpBytes(sec, uint32(len(g)), g)
	case 4:
		cclass = "truncated-real"
		c := real[:rapid.IntRange(1, len(real)-1).Draw(t, "cut")]
		sec = lpBytes(sec, uint32(len(c)), c)
	case 5, 6:
		cclass = "real"
		sec = lpBytes(sec, uint32(len(real)), real)
	case 7:
		cclass = "real+junk"
		c := append(append([]byte(nil), real...), fillBytes(rapid.IntRange(1, 300).Draw(t, "n"), 9)...)
		sec = lpBytes(sec, uint32(len(c)), c)
	case 8:
		cclass = "real-chain"
		c := append(append([]byte(nil), real...), keys.Get("b", 1024).Cert...)
		sec = lpBytes(sec, uint32(len(c)), c)
	case 9:
		cclass = "real-odd-key-size"
		c := keys.Get("a", rapid.SampledFrom([]int{768, 1024, 5120}).Draw(t, "bits")).Cert
		sec = lpBytes(sec, uint32(len(c)), c)
	default:
		cclass = "length-lies"
		sec = lpBytes(sec, rapid.SampledFrom([]uint32{0x7fffffff, 0xfffffffe, 70000}).Draw(t, "clen"), real[:100])
	}
	// receiver thumbprint
	switch rapid.IntRange(0, 6).Draw(t, "thumb") {
	case 0, 1:
		tclass = "null"
		sec = le32(sec, 0xffffffff)
	case 2:
		tclass = "random20"
		sec = lpBytes(sec, 20, fillBytes(20, rapid.Byte().Draw(t, "seed")))
	case 3, 4:
		tclass = "sha1-of-fixture"
		s := sha1.Sum(keys.Get(rapid.SampledFrom([]string{"a", "b"}).Draw(t, "twho"), 2048).Cert)
		sec = lpBytes(sec, 20, s[:])
	case 5:
		tclass = "wrong-length"
		n := rapid.SampledFrom([]int{0, 1, 19, 21, 64}).Draw(t, "tn")
		sec = lpBytes(sec, uint32(n), fillBytes(n, 1))
	default:
		tclass = "length-lies"
		sec = lpBytes(sec, rapid.SampledFrom([]uint32{0x7fffffff, 0xfffffffe, 5000}).Draw(t, "tlen"), fillBytes(20, 1))
	}
	// rest: sequence header + body in the clear, or ciphertext-shaped noise
	var rest []byte
	var bclass string
	switch rapid.IntRange(0, 5).Draw(t, "rest") {
	case 0:
		bclass = "no-rest"
	case 1:
		n := rapid.SampledFrom([]int{1, 7, 8, 128, 256, 257, 512, 1024}).Draw(t, "n")
		rest, bclass = fillBytes(n, rapid.Byte().Draw(t, "seed")), "cipher-shaped-noise"
	default:
		seq := rapid.SampledFrom([]uint32{0, 1, 2, 0xffffffff}).Draw(t, "seq")
		req := rapid.SampledFrom([]uint32{1, 1, 2, 0, 77777}).Draw(t, "req")
		var body []byte
		body, bclass = genBody(t, toServer)
		rest = append(le32(le32(nil, seq), req), body...)
	}
	n := 12 + len(sec) + len(rest)
	f := append([]byte(mt[:3]), ct)
	f = le32(f, uint32(n))
	f = le32(f, ch)
	f = append(f, sec...)
	f = append(f, rest...)
	f, sclass := sizeGames(t, f, buf, len(sec))
	return stepT{Class: fmt.Sprintf("asym %s%s policy=%s cert=%s thumb=%s %s %s", printable(mt), printable(string(ct)), pclass, cclass, tclass, bclass, sclass), Hex: hex.EncodeToString(f)}
}

// genRaw: UA-TCP level noise.
func genRaw(t *rapid.T, buf uint32) stepT {
	switch rapid.IntRange(0, 5).Draw(t, "raw") {
	case 0:
		n := rapid.IntRange(1, 40).Draw(t, "n")
		return stepT{Class: "raw noise", Hex: hex.EncodeToString(fillBytes(n, rapid.Byte().Draw(t, "seed")))}
	case 1:
		return stepT{Class: "raw ERR frame", Hex: hex.EncodeToString(rawFrame("ERR", 'F', 16+1, append(le32(le32(nil, uint32(ua.StatusBadTCPInternalError)), 1), 'x')))}
	case 2:
		return stepT{Class: "raw ERR frame short", Hex: hex.EncodeToString(rawFrame("ERR", 'F', uint32(8+rapid.IntRange(0, 7).Draw(t, "n")), fillBytes(7, 0xff)))}
	case 3:
		return stepT{Class: "raw second HEL", Hex: hex.EncodeToString(refnone.Hello(refnone.Limits{RecvBuf: buf, SendBuf: buf}, "opc.tcp://x"))}
	case 4:
		return stepT{Class: "raw ACK", Hex: hex.EncodeToString(refnone.Ack(refnone.Limits{RecvBuf: 1, SendBuf: 1}))}
	default:
		return stepT{Class: "raw 8-byte frame", Hex: hex.EncodeToString(rawFrame(rapid.SampledFrom([]string{"MSG", "OPN", "CLO"}).Draw(t, "mt"), 'F', 8, nil))}
	}
}

// valid (under policy None) building blocks

func validOPNRequest(mode uint32, seq uint32) stepT {
	return stepT{Class: fmt.Sprintf("valid OPN request policy None mode=%d", mode),
		Hex: hex.EncodeToString(refnone.OpenChunk(0, seq, 1, opnRequestBody(mode, 0, 0, []byte{}, nil)))}
}

func validOPNResponse(reqID, seq uint32) stepT {
	return stepT{Class: "valid OPN response policy None",
		Hex: hex.EncodeToString(refnone.OpenChunk(channelID, seq, reqID, opnResponseBody(reqID, channelID, tokenID, []byte{}, ua.StatusOK)))}
}

func validMsg(toServer bool, seq, reqID uint32) stepT {
	var body []byte
	if toServer {
		body = mustBody(&ua.ReadRequest{RequestHeader: reqHeader(), NodesToRead: []*ua.ReadValueID{{NodeID: ua.NewNumericNodeID(0, 2258), AttributeID: ua.AttributeIDValue, DataEncoding: &ua.QualifiedName{}}}})
	} else {
		body = mustBody(&ua.ReadResponse{ResponseHeader: respHeader(), Results: []*ua.DataValue{{EncodingMask: ua.DataValueValue, Value: ua.MustVariant(int32(7))}}, DiagnosticInfos: []*ua.DiagnosticInfo{}})
	}
	return stepT{Class: "valid MSG (policy None layout)", Hex: hex.EncodeToString(refnone.SymChunk("MSG", 'F', channelID, tokenID, seq, reqID, body))}
}

func genFlood(t *rapid.T, buf, maxChunks uint32) stepT {
	limit := uint64(maxChunks) * uint64(buf)
	maxData := int(buf) - refnone.SymHeaderLen
	var f floodT
	switch rapid.IntRange(0, 3).Draw(t, "floodshape") {
	case 0: // one request id, more chunks than MaxChunkCount
		f.IDs = 1
		f.Count = int(maxChunks) + rapid.IntRange(1, 3*int(maxChunks)+8).Draw(t, "count")
		f.DataLen = rapid.SampledFrom([]int{0, 1, 100, maxData}).Draw(t, "dlen")
	case 1: // many ids, full-size chunks: bytes held exceed the limit quickly
		f.IDs = rapid.IntRange(2, 100000).Draw(t, "ids")
		f.DataLen = maxData
		f.Count = int(4*limit/uint64(maxData)) + rapid.IntRange(1, 200).Draw(t, "count")
	case 2: // many ids, tiny chunks: each pins a whole receive buffer
		f.IDs = rapid.IntRange(2, 100000).Draw(t, "ids")
		f.DataLen = rapid.IntRange(0, 16).Draw(t, "dlen")
		f.Count = rapid.IntRange(int(maxChunks)+1, ev.Pick(6000, 20000)).Draw(t, "count")
	default:
		f.IDs = rapid.IntRange(1, 100000).Draw(t, "ids")
		f.DataLen = rapid.IntRange(0, maxData).Draw(t, "dlen")
		f.Count = rapid.IntRange(1, ev.Pick(3000, 12000)).Draw(t, "count")
	}
	// an unbounded receiver pins one receive buffer per chunk: keep that below 64 MiB per case
	cap := ev.Pick(6000, 20000)
	if c := (64 << 20) / int(buf); c < cap {
		cap = c
	}
	if f.Count > cap {
		f.Count = cap
	}
	idc := "1"
	switch {
	case f.IDs >= 1000:
		idc = ">=1000"
	case f.IDs >= 10:
		idc = "10-999"
	case f.IDs > 1:
		idc = "2-9"
	}
	dlc := "mid"
	switch {
	case f.DataLen <= 16:
		dlc = "tiny"
	case f.DataLen == maxData:
		dlc = "max"
	}
	return stepT{Class: fmt.Sprintf("flood ids=%s data=%s", idc, dlc), Flood: &f}
}
