// Package c13 decides property C13: the channel receive path survives any
// peer byte stream.
//
// A hostile TCP peer sends streams built from a chunk grammar with every field
// fuzzed (and floods of well-formed intermediate chunks) to
//
//	server-raw     a gopcua server channel (RegisterConn-like Receive loop) that
//	               the hostile peer talks to directly after a valid HEL/ACK,
//	server-open    a gopcua server channel opened by a genuine gopcua client under
//	               None / Sign / SignAndEncrypt, hostile frames injected afterwards,
//	client-open    a gopcua client channel opened against a genuine gopcua server,
//	               hostile frames injected towards the client afterwards,
//	client-dial    a gopcua client channel whose Open() talks to a fake server that
//	               answers HEL with ACK and then sends the hostile stream.
//
// Oracle: no panic; Receive / Open / SendRequest return within a bound once the
// peer has closed; the memory held for incomplete messages stays within
// MaxChunkCount x ReceiveBufSize (+25 %).
package c13

import (
	"bufio"
	"context"
	"encoding/hex"
	"encoding/json"
	"fmt"
	"io"
	"net"
	"runtime"
	"runtime/debug"
	"strings"
	"testing"
	"time"

	"github.com/gopcua/opcua/ua"
	"github.com/gopcua/opcua/uacp"
	"github.com/gopcua/opcua/uapolicy"
	"github.com/gopcua/opcua/uasc"
	"pgregory.net/rapid"

	"verif/pkg/chanpair"
	"verif/pkg/ev"
	"verif/pkg/keys"
	"verif/pkg/netx"
	"verif/pkg/refcodec"
	"verif/pkg/refnone"
)

func TestMain(m *testing.M) { ev.Main(m) }

var rec = ev.For("C13", "hostile peer streams (1-6 steps from a chunk grammar: message type, chunk type, size games (< 12/16/24-byte headers, < signature, > buffer, lying size fields), channel / token ids, policy URIs (unknown, empty, null, 64 KiB), certificates (garbage DER, truncated / real / real+junk / chain / odd key sizes), thumbprints, OPN after open, CLO, MSG before OPN, valid OPN then garbage, OPN requests asking for any security mode; floods of well-formed 'C' chunks over 1..100000 request ids) against gopcua server and client channels in None / Sign / SignAndEncrypt; non-trivial = handshake passed and >= 1 hostile chunk reached readChunk; distinct by hash of the case")

type caseT struct {
	Target       string  `json:"target"` // server-raw | server-open | client-open | client-dial
	Policy       string  `json:"policy"` // "" = None
	Encrypt      bool    `json:"encrypt"`
	ServerHasKey bool    `json:"server_has_key"` // server-raw: the channel config carries certificate + key (as a server with secured endpoints)
	Buf          uint32  `json:"buf"`
	MaxChunks    uint32  `json:"max_chunks"`
	ReadOPN      bool    `json:"read_opn"` // client-dial: the fake server reads the client's OPN before it sends
	Pending      bool    `json:"pending"`  // client-open: a request is waiting for its response meanwhile
	Steps        []stepT `json:"steps"`
}

// returnBound: how long Receive / Open / SendRequest may take to return after the
// peer has closed. The property speaks of seconds; the machine is shared with
// other checks and a receiver may first have to drain a flood, and a 2.25 s wait
// was once missed three times in a row under load, so the wait is generous.
const returnBound = 20 * time.Second

// errTimeout marks a verdict that rests on a wait running out.
type errTimeout struct{ what string }

func (e errTimeout) Error() string { return e.what }

type outcome struct {
	msg      string // oracle failure ("" = held)
	sig      string // failure signature for known findings
	reached  bool   // the stream got past the handshake and a chunk reached readChunk
	classes  []string
	maxBytes int
	maxChunk int
}

// ---------------------------------------------------------------------------
// Generator

func genCase(t *rapid.T, targets []string) caseT {
	var c caseT
	c.Target = rapid.SampledFrom(targets).Draw(t, "target")
	c.Buf = rapid.SampledFrom([]uint32{8192, 8192, 16384, 65535}).Draw(t, "buf")
	c.MaxChunks = rapid.SampledFrom([]uint32{4, 8, 16, 64}).Draw(t, "maxChunks")
	toServer := strings.HasPrefix(c.Target, "server")
	if c.Target == "server-auth" || c.Target == "client-auth" {
		c.Policy = rapid.SampledFrom([]string{ua.SecurityPolicyURIBasic256Sha256, ua.SecurityPolicyURIBasic256Sha256, ua.SecurityPolicyURIBasic128Rsa15, ua.SecurityPolicyURIAes256Sha256RsaPss}).Draw(t, "policy")
		c.Encrypt = rapid.IntRange(0, 2).Draw(t, "encrypt") != 0
		n := rapid.IntRange(1, 4).Draw(t, "nsteps")
		for i := 0; i < n; i++ {
			if rapid.IntRange(0, 5).Draw(t, "keyless") == 0 {
				c.Steps = append(c.Steps, genHostile(t, toServer, c.Buf))
				continue
			}
			c.Steps = append(c.Steps, genAuth(t, c.Policy, c.Encrypt, toServer))
		}
		return c
	}
	switch c.Target {
	case "server-raw":
		c.ServerHasKey = rapid.Bool().Draw(t, "serverHasKey")
	case "server-open", "client-open", "client-dial":
		switch rapid.IntRange(0, 2).Draw(t, "sec") {
		case 1:
			c.Policy, c.Encrypt = ua.SecurityPolicyURIBasic256Sha256, false
		case 2:
			c.Policy, c.Encrypt = rapid.SampledFrom([]string{ua.SecurityPolicyURIBasic256Sha256, ua.SecurityPolicyURIBasic128Rsa15, ua.SecurityPolicyURIAes256Sha256RsaPss}).Draw(t, "policy"), true
			if c.Policy != ua.SecurityPolicyURIBasic256Sha256 {
				c.Encrypt = rapid.Bool().Draw(t, "encrypt")
			}
		}
	}
	if c.Target == "client-open" {
		c.Pending = rapid.Bool().Draw(t, "pending")
	}
	if c.Target == "client-dial" {
		c.ReadOPN = rapid.IntRange(0, 3).Draw(t, "readOPN") != 0
	}
	none := c.Policy == ""
	seq := uint32(1)
	// prefix: get the channel into an interesting state with valid traffic
	switch c.Target {
	case "server-raw":
		switch rapid.IntRange(0, 5).Draw(t, "prefix") {
		case 0: // MSG / anything before OPN
		case 1:
			c.Steps = append(c.Steps, validOPNRequest(rapid.SampledFrom([]uint32{2, 3, 3, 0, 77}).Draw(t, "mode"), seq))
			seq++
		default:
			c.Steps = append(c.Steps, validOPNRequest(1, seq))
			seq++
			if rapid.Bool().Draw(t, "validMsg") {
				c.Steps = append(c.Steps, validMsg(true, seq, 5))
				seq++
			}
		}
	case "client-dial":
		if none && c.ReadOPN && rapid.IntRange(0, 2).Draw(t, "prefix") != 0 {
			// the gopcua client's first request id is RequestIDSeed+1 = 1
			c.Steps = append(c.Steps, validOPNResponse(1, seq))
			seq++
		}
	}
	opened := len(c.Steps) > 0 || c.Target == "server-open" || c.Target == "client-open"
	// hostile part
	if none && opened && c.Buf <= 16384 && rapid.IntRange(0, 3).Draw(t, "flood?") == 0 {
		if rapid.Bool().Draw(t, "oneMore") {
			c.Steps = append(c.Steps, genHostile(t, toServer, c.Buf))
		}
		c.Steps = append(c.Steps, genFlood(t, c.Buf, c.MaxChunks))
		return c
	}
	n := rapid.IntRange(1, 4).Draw(t, "nsteps")
	for i := 0; i < n; i++ {
		if none && opened && rapid.IntRange(0, 4).Draw(t, "interleaveValid") == 0 {
			c.Steps = append(c.Steps, validMsg(toServer, seq+uint32(i), 2))
			continue
		}
		c.Steps = append(c.Steps, genHostile(t, toServer, c.Buf))
	}
	return c
}

func genHostile(t *rapid.T, toServer bool, buf uint32) stepT {
	switch rapid.IntRange(0, 9).Draw(t, "hostile") {
	case 0:
		return genRaw(t, buf)
	case 1, 2, 3, 4:
		return genAsym(t, toServer, buf)
	default:
		return genSym(t, toServer, buf)
	}
}

// ---------------------------------------------------------------------------
// Sending

// writeSteps writes the steps to w; a flood is generated on the fly.
func writeSteps(w io.Writer, steps []stepT, buf uint32) error {
	return writeStepsAuth(w, steps, buf, nil)
}

// writeStepsAuth: sess secures the auth steps (and the floods of a secured session).
func writeStepsAuth(w io.Writer, steps []stepT, buf uint32, sess *refcodec.Session) error {
	bw := bufio.NewWriterSize(w, 1<<16)
	seq := uint32(1000)
	for _, s := range steps {
		if s.Flood != nil {
			f := s.Flood
			if f.Count < 0 || f.Count > 200000 || f.IDs < 1 || f.DataLen < 0 || f.DataLen > int(buf)-refnone.SymHeaderLen {
				return fmt.Errorf("malformed flood")
			}
			data := fillBytes(f.DataLen, 7)
			for i := 0; i < f.Count; i++ {
				seq++
				if _, err := bw.Write(refnone.SymChunk("MSG", 'C', channelID, tokenID, seq, uint32(1+i%f.IDs), data)); err != nil {
					return err
				}
			}
			continue
		}
		if s.Auth != nil {
			if sess == nil {
				return fmt.Errorf("malformed auth step")
			}
			f, err := authFrame(sess, s.Auth)
			if err != nil {
				return fmt.Errorf("malformed auth step")
			}
			if _, err := bw.Write(f); err != nil {
				return err
			}
			continue
		}
		b, err := hex.DecodeString(s.Hex)
		if err != nil {
			return fmt.Errorf("malformed step: %v", err)
		}
		if _, err := bw.Write(b); err != nil {
			return err
		}
	}
	return bw.Flush()
}

func floodOf(c caseT) *floodT {
	for _, s := range c.Steps {
		if s.Flood != nil {
			return s.Flood
		}
	}
	return nil
}

func heapAlloc() uint64 {
	runtime.GC()
	runtime.GC()
	var ms runtime.MemStats
	runtime.ReadMemStats(&ms)
	return ms.HeapAlloc
}

// memOracle judges what the channel still holds after the stream was consumed.
func memOracle(c caseT, sc *uasc.SecureChannel, maxChunks, bufSize uint32, heapBefore uint64) (msg, sig string, bytes, chunks int) {
	ids, chunks, bytes := sc.VerifBufferedChunks()
	limit := uint64(maxChunks) * uint64(bufSize)
	if uint64(bytes) > limit+limit/4 {
		return fmt.Sprintf("the channel holds %d bytes in %d chunks of %d incomplete messages; negotiated MaxChunkCount %d x ReceiveBufSize %d = %d (+25%%)", bytes, chunks, ids, maxChunks, bufSize, limit), "buffered-bytes-unbounded-over-request-ids", bytes, chunks
	}
	if f := floodOf(c); f != nil && heapBefore > 0 {
		// cross-check independent of the hook: live heap after GC. Only judged when the
		// stream could have pinned far more than the limit, with a wide margin.
		after := heapAlloc()
		if uint64(f.Count)*uint64(bufSize) > 8*limit+(32<<20) && after > heapBefore && after-heapBefore > 4*limit+(16<<20) {
			return fmt.Sprintf("live heap grew by %d bytes while the channel buffers %d chunks of %d incomplete messages; negotiated MaxChunkCount %d x ReceiveBufSize %d = %d", after-heapBefore, chunks, ids, maxChunks, bufSize, limit), "buffered-memory-unbounded-over-request-ids", bytes, chunks
		}
		runtime.KeepAlive(sc)
	}
	return "", "", bytes, chunks
}

// ---------------------------------------------------------------------------
// Server kind: Receive is called from the harness goroutine, like RegisterConn's loop

type loopResult struct {
	panicVal any
	stack    string
	calls    int
	msgs     int
	lastErr  error
}

func receiveLoop(ctx context.Context, sc *uasc.SecureChannel) (r loopResult) {
	defer func() {
		if p := recover(); p != nil {
			r.panicVal = p
			r.stack = string(debug.Stack())
		}
	}()
	for {
		m := sc.Receive(ctx)
		r.calls++
		if m == nil {
			r.lastErr = fmt.Errorf("Receive returned nil")
			return
		}
		if m.Err != nil {
			// RegisterConn leaves its loop on the first error
			r.lastErr = m.Err
			return
		}
		r.msgs++
	}
}

func panicSite(stack string) string {
	// innermost gopcua frame below the panic
	lines := strings.Split(stack, "\n")
	for _, l := range lines {
		l = strings.TrimSpace(l)
		if strings.HasPrefix(l, "github.com/gopcua/opcua/") {
			if i := strings.LastIndex(l, "("); i > 0 {
				l = l[:i]
			}
			return strings.TrimPrefix(l, "github.com/gopcua/opcua/")
		}
	}
	return "?"
}

func judgeLoop(done <-chan loopResult, early *loopResult, what string) (loopResult, string, string, error) {
	var r loopResult
	if early != nil {
		r = *early
	} else {
		select {
		case r = <-done:
		case <-time.After(returnBound):
			return loopResult{}, "", "", errTimeout{fmt.Sprintf("%s did not return within %v after the peer closed the connection", what, returnBound)}
		}
	}
	if r.panicVal != nil {
		return r, fmt.Sprintf("%s panicked: %v at %s", what, r.panicVal, panicSite(r.stack)), "panic:" + panicSite(r.stack), nil
	}
	return r, "", "", nil
}

func serverConfig(hasKey bool) *uasc.Config {
	cfg := &uasc.Config{SecurityPolicyURI: ua.SecurityPolicyURINone, SecurityMode: ua.MessageSecurityModeNone, Lifetime: 3600_000}
	if hasKey {
		k := keys.Get("b", 2048)
		cfg.Certificate, cfg.LocalKey = k.Cert, k.Key
	}
	return cfg
}

func runServerRaw(c caseT) (o outcome, err error) {
	ctx, cancel := context.WithCancel(context.Background())
	defer cancel()
	ack := &uacp.Acknowledge{ReceiveBufSize: c.Buf, SendBufSize: c.Buf, MaxChunkCount: c.MaxChunks, MaxMessageSize: 1 << 20}
	ln, err := uacp.Listen(ctx, "opc.tcp://127.0.0.1:0", ack)
	if err != nil {
		return o, err
	}
	defer ln.Close()
	type acc struct {
		c   *uacp.Conn
		err error
	}
	accCh := make(chan acc, 1)
	go func() {
		conn, err := ln.Accept(ctx)
		accCh <- acc{conn, err}
	}()
	endpoint := "opc.tcp://" + ln.Addr().String()
	peer, err := refnone.Dial(ln.Addr().String(), endpoint, refnone.Limits{RecvBuf: c.Buf, SendBuf: c.Buf}, 10*time.Second)
	if err != nil {
		return o, err
	}
	defer peer.Close()
	a := <-accCh
	if a.err != nil {
		return o, a.err
	}
	defer a.c.Close()
	errch := make(chan error, 16)
	sc, err := uasc.NewServerSecureChannel(endpoint, a.c, serverConfig(c.ServerHasKey), errch, channelID, 1, tokenID)
	if err != nil {
		return o, err
	}
	var heap0 uint64
	if floodOf(c) != nil {
		heap0 = heapAlloc()
	}
	done := make(chan loopResult, 1)
	go func() { done <- receiveLoop(ctx, sc) }()
	// the hostile peer discards whatever the server sends
	go io.Copy(io.Discard, peer)
	// the server may leave its loop (first error) before the stream is written: then it
	// stops reading and the writer is cut off by closing the connection
	wdone := make(chan error, 1)
	go func() {
		peer.SetWriteDeadline(time.Now().Add(30 * time.Second))
		wdone <- writeSteps(peer, c.Steps, c.Buf)
	}()
	var early *loopResult
	select {
	case <-wdone:
		peer.Conn.(*net.TCPConn).CloseWrite()
	case r := <-done:
		early = &r
		peer.Close()
		<-wdone
	}
	r, msg, sig, err := judgeLoop(done, early, "Receive on the server channel")
	if err != nil {
		return o, err
	}
	o.reached = r.calls > 0
	o.msg, o.sig = msg, sig
	if o.msg == "" {
		o.msg, o.sig, o.maxBytes, o.maxChunk = memOracle(c, sc, c.MaxChunks, c.Buf, heap0)
	}
	o.classes = append(o.classes, fmt.Sprintf("server-raw results:%s", bucket(r.msgs)))
	return o, nil
}

func bucket(n int) string {
	switch {
	case n == 0:
		return "0"
	case n == 1:
		return "1"
	case n <= 4:
		return "2-4"
	}
	return ">4"
}

func pairFor(c caseT) (*chanpair.Pair, error) {
	ack := func() *uacp.Acknowledge {
		return &uacp.Acknowledge{ReceiveBufSize: c.Buf, SendBufSize: c.Buf, MaxChunkCount: c.MaxChunks, MaxMessageSize: 1 << 20}
	}
	ck, sk := keys.Get("a", 2048), keys.Get("b", 2048)
	return chanpair.New(chanpair.Options{Policy: c.Policy, Mode: chanpair.ModeFor(c.Policy, c.Encrypt), ClientKey: ck, ServerKey: sk,
		ClientACK: ack(), ServerACK: ack(), Tap: true, RequestTimeout: returnBound + 10*time.Second, ChannelID: channelID, TokenID: tokenID})
}

// tapWriter injects whole frames; bytes that do not form a frame are written raw.
type tapWriter struct {
	p   *chanpair.Pair
	dir netx.Dir
}

func (w tapWriter) Write(b []byte) (int, error) {
	if err := w.p.Tap.Inject(w.dir, b); err != nil {
		return 0, err
	}
	return len(b), nil
}

func runServerOpen(c caseT) (o outcome, err error) {
	p, err := pairFor(c)
	if err != nil {
		return o, err
	}
	defer p.Close()
	defer closeClient(p)
	ctx, cancel := context.WithCancel(context.Background())
	defer cancel()
	var heap0 uint64 // no heap cross-check here: the tap records every injected frame
	done := make(chan loopResult, 1)
	go func() { done <- receiveLoop(ctx, p.Server) }()
	wdone := make(chan error, 1)
	go func() { wdone <- writeSteps(tapWriter{p, netx.C2S}, c.Steps, c.Buf) }()
	var early *loopResult
	select {
	case <-wdone:
		// the peer closes
		p.ClientConn.Close()
	case r := <-done:
		early = &r
		p.Tap.Close() // unblocks the writer: the server no longer reads
		<-wdone
	}
	r, msg, sig, err := judgeLoop(done, early, "Receive on the server channel")
	if err != nil {
		return o, err
	}
	o.reached = r.calls > 0
	o.msg, o.sig = msg, sig
	if o.msg == "" {
		o.msg, o.sig, o.maxBytes, o.maxChunk = memOracle(c, p.Server, c.MaxChunks, c.Buf, heap0)
	}
	o.classes = append(o.classes, fmt.Sprintf("server-open results:%s", bucket(r.msgs)))
	return o, nil
}

func closeClient(p *chanpair.Pair) {
	// releases the renewal / expiration goroutines (and with them the channel)
	done := make(chan struct{})
	go func() { p.Client.Close(); close(done) }()
	select {
	case <-done:
	case <-time.After(3 * time.Second):
	}
}

// ---------------------------------------------------------------------------
// Client kind: the dispatcher goroutine calls Receive; a panic there ends the
// process, so the case is journaled first.

func runClientOpen(c caseT) (o outcome, err error) {
	p, err := pairFor(c)
	if err != nil {
		return o, err
	}
	defer p.Close()
	defer closeClient(p)
	ctx, cancel := context.WithCancel(context.Background())
	defer cancel()
	var heap0 uint64 // no heap cross-check here: the tap records every injected frame
	pend := make(chan error, 1)
	if c.Pending {
		go func() {
			pend <- p.Client.SendRequest(ctx, &ua.ReadRequest{NodesToRead: []*ua.ReadValueID{}}, nil, func(ua.Response) error { return nil })
		}()
		if m := p.ServerReceive(5 * time.Second); m == nil {
			return o, errTimeout{"the genuine server did not receive the pending request"}
		}
	}
	// the dispatcher's error channel is written without blocking: drain it all the time
	gone := make(chan struct{}) // closed when the dispatcher has reported the end of the connection
	go func() {
		for {
			select {
			case e := <-p.ClientErr:
				if e == io.EOF {
					close(gone)
					return
				}
			case <-ctx.Done():
				return
			}
		}
	}()
	wdone := make(chan error, 1)
	go func() { wdone <- writeSteps(tapWriter{p, netx.S2C}, c.Steps, c.Buf) }()
	select {
	case <-wdone:
	case <-gone: // the dispatcher gave up on the connection (framing error): it no longer reads
		p.Tap.Close()
		<-wdone
	case <-time.After(30 * time.Second):
		p.Tap.Close()
		<-wdone
	}
	// the peer closes (the tap forwards what is in flight, then the FIN)
	p.ServerConn.Close()
	closed := time.Now()
	if c.Pending {
		select {
		case <-pend:
		case <-time.After(returnBound):
			return o, errTimeout{fmt.Sprintf("SendRequest did not return within %v after the peer closed (%v ago)", returnBound, time.Since(closed))}
		}
	}
	// A request issued now must fail promptly. StatusBadTimeout cannot come from the
	// request timeout (longer than the bound).
	fresh := make(chan error, 1)
	go func() {
		fresh <- p.Client.SendRequest(ctx, &ua.ReadRequest{NodesToRead: []*ua.ReadValueID{}}, nil, func(ua.Response) error { return nil })
	}()
	select {
	case e := <-fresh:
		if e == ua.StatusBadTimeout {
			return o, errTimeout{"a SendRequest issued after the peer closed ran into its timeout: the dispatcher did not notice the closed connection"}
		}
	case <-time.After(returnBound):
		return o, errTimeout{fmt.Sprintf("a SendRequest issued after the peer closed did not return within %v", returnBound)}
	}
	o.reached = true
	// the client adopts the limits of the server's ACK
	o.msg, o.sig, o.maxBytes, o.maxChunk = memOracle(c, p.Client, c.MaxChunks, c.Buf, heap0)
	return o, nil
}

func clientConfig(c caseT) *uasc.Config {
	cfg := &uasc.Config{SecurityPolicyURI: ua.SecurityPolicyURINone, SecurityMode: ua.MessageSecurityModeNone, Lifetime: 3600_000, RequestTimeout: 3 * time.Second}
	if c.Policy != "" {
		ck, sk := keys.Get("a", 2048), keys.Get("b", 2048)
		cfg.SecurityPolicyURI = c.Policy
		cfg.SecurityMode = chanpair.ModeFor(c.Policy, c.Encrypt)
		cfg.Certificate, cfg.LocalKey = ck.Cert, ck.Key
		cfg.RemoteCertificate = sk.Cert
		cfg.Thumbprint = uapolicy.Thumbprint(sk.Cert)
	}
	return cfg
}

func runClientDial(c caseT) (o outcome, err error) {
	ln, err := refnone.Listen()
	if err != nil {
		return o, err
	}
	defer ln.Close()
	type srvRes struct {
		gotOPN bool
		err    error
		closed time.Time
	}
	srv := make(chan srvRes, 1)
	go func() {
		var r srvRes
		defer func() { srv <- r }()
		// the client adopts these limits as its own receive limits
		peer, err := ln.Accept(refnone.Limits{RecvBuf: c.Buf, SendBuf: c.Buf, MaxMsg: 1 << 20, MaxChunks: c.MaxChunks}, 10*time.Second)
		if err != nil {
			r.err = err
			return
		}
		defer peer.Close()
		if c.ReadOPN {
			peer.SetReadDeadline(time.Now().Add(5 * time.Second))
			f, err := refnone.ReadFrame(peer, 1<<20)
			if err != nil {
				r.err = fmt.Errorf("reading the client's OPN: %w", err)
				return
			}
			r.gotOPN = string(f[:3]) == "OPN"
			peer.SetReadDeadline(time.Time{})
		}
		go io.Copy(io.Discard, peer)
		// a client that gave up on the connection no longer reads: bound the write
		peer.SetWriteDeadline(time.Now().Add(30 * time.Second))
		_ = writeSteps(peer, c.Steps, c.Buf)
		peer.Conn.(*net.TCPConn).CloseWrite()
		r.closed = time.Now()
		// keep the socket until the client is done or the bound has passed
		time.Sleep(20 * time.Millisecond)
	}()
	ctx, cancel := context.WithCancel(context.Background())
	defer cancel()
	// The limits the client enforces on what it RECEIVES are the ones it announces
	// in its own Hello (the Acknowledge of the server bounds what the client may
	// send). Before the handshake repair 8ec36ac the client adopted the server's
	// values; the harness configures the client itself now.
	d := &uacp.Dialer{ClientACK: &uacp.Acknowledge{ReceiveBufSize: c.Buf, SendBufSize: c.Buf, MaxChunkCount: c.MaxChunks, MaxMessageSize: 1 << 20}}
	dctx, dcancel := context.WithTimeout(ctx, 10*time.Second)
	defer dcancel()
	conn, err := d.Dial(dctx, ln.Endpoint())
	if err != nil {
		return o, fmt.Errorf("dial: %w", err)
	}
	defer conn.Close()
	errch := make(chan error, 16)
	sc, err := uasc.NewSecureChannel(ln.Endpoint(), conn, clientConfig(c), errch)
	if err != nil {
		return o, err
	}
	var heap0 uint64
	if floodOf(c) != nil {
		heap0 = heapAlloc()
	}
	opened := make(chan error, 1)
	go func() { opened <- sc.Open(ctx) }()
	var openErr error
	select {
	case openErr = <-opened:
	case <-time.After(returnBound + 4*time.Second): // RequestTimeout 3 s + leniency is the longest legitimate wait
		return o, errTimeout{fmt.Sprintf("Open did not return within %v", returnBound+4*time.Second)}
	}
	r := <-srv
	if r.err != nil {
		return o, fmt.Errorf("fake server: %v", r.err)
	}
	o.reached = true
	if openErr == nil {
		o.classes = append(o.classes, "client-dial open:succeeded")
		// the stream continues after the OPN response; once the peer has closed, a request
		// must fail promptly (StatusBadTimeout = the receive path did not notice the end)
		fresh := make(chan error, 1)
		go func() {
			fresh <- sc.SendRequestWithTimeout(ctx, &ua.ReadRequest{NodesToRead: []*ua.ReadValueID{}}, nil, returnBound+10*time.Second, func(ua.Response) error { return nil })
		}()
		select {
		case e := <-fresh:
			if e == ua.StatusBadTimeout {
				return o, errTimeout{"a SendRequest issued after the peer closed ran into its timeout: the dispatcher did not notice the closed connection"}
			}
		case <-time.After(returnBound):
			return o, errTimeout{fmt.Sprintf("a SendRequest issued after the peer closed did not return within %v", returnBound)}
		}
	} else {
		o.classes = append(o.classes, "client-dial open:failed")
	}
	// ACK MaxChunkCount 0 would mean the default 512; the generator never sends 0
	o.msg, o.sig, o.maxBytes, o.maxChunk = memOracle(c, sc, c.MaxChunks, c.Buf, heap0)
	done := make(chan struct{})
	go func() { sc.Close(); close(done) }()
	select {
	case <-done:
	case <-time.After(3 * time.Second):
	}
	return o, nil
}

// ---------------------------------------------------------------------------

func validate(c caseT) error {
	switch c.Target {
	case "server-raw", "server-open", "client-open", "client-dial":
	case "server-auth", "client-auth":
		if refcodec.PolicyByURI(c.Policy) == nil || c.Policy == "" {
			return fmt.Errorf("target %s needs a secured policy", c.Target)
		}
	default:
		return fmt.Errorf("target %q", c.Target)
	}
	if c.Buf < 8192 || c.Buf > 65535 || c.MaxChunks == 0 || c.MaxChunks > 512 || len(c.Steps) == 0 || len(c.Steps) > 64 {
		return fmt.Errorf("limits / steps out of range")
	}
	return nil
}

// check runs a case; timing-only verdicts are confirmed three times.
func check(c caseT) (o outcome, err error) {
	if err := validate(c); err != nil {
		return o, fmt.Errorf("malformed case: %w", err)
	}
	for attempt := 0; ; attempt++ {
		switch c.Target {
		case "server-raw":
			o, err = runServerRaw(c)
		case "server-open":
			o, err = runServerOpen(c)
		case "client-open":
			o, err = runClientOpen(c)
		case "server-auth":
			o, err = runServerAuth(c)
		case "client-auth":
			o, err = runClientAuth(c)
		default:
			o, err = runClientDial(c)
		}
		if to, ok := err.(errTimeout); ok {
			if attempt < 2 {
				continue
			}
			o.msg, o.sig = "blocked (confirmed 3 times): "+to.what, "blocked"
			return o, nil
		}
		return o, err
	}
}

func classesOf(c caseT, o outcome) []string {
	mode := "None"
	if c.Policy != "" {
		mode = fmt.Sprint(chanpair.ModeFor(c.Policy, c.Encrypt))
		mode = strings.TrimPrefix(mode, "MessageSecurityMode") + "/" + strings.TrimPrefix(c.Policy, policyPrefix)
	}
	cl := []string{"target:" + c.Target, "target:" + c.Target + " " + mode}
	for _, s := range c.Steps {
		// first two words of the class: grammar family + message/chunk type, and the mutation words
		w := strings.Fields(s.Class)
		if len(w) >= 2 {
			switch w[0] {
			case "sym", "asym", "auth":
				mt, ct := "other", "other"
				if len(w[1]) == 4 {
					switch w[1][:3] {
					case "OPN", "MSG", "CLO":
						mt = w[1][:3]
					}
					switch w[1][3] {
					case 'F', 'C', 'A':
						ct = w[1][3:]
					}
				}
				cl = append(cl, "step:"+w[0]+" type="+mt, "step:"+w[0]+" chunk="+ct)
				if w[0] == "auth" && len(w) >= 3 {
					cl = append(cl, "field:auth-"+w[2])
				}
			default:
				cl = append(cl, "step:"+w[0]+" "+w[1])
			}
		}
		for _, x := range w[1:] {
			if strings.HasPrefix(x, "size-") || strings.HasPrefix(x, "cut") || strings.HasPrefix(x, "policy=") || strings.HasPrefix(x, "cert=") || strings.HasPrefix(x, "thumb=") || strings.HasPrefix(x, "svc-") || strings.HasPrefix(x, "ids=") || strings.HasPrefix(x, "data=") {
				cl = append(cl, "field:"+x)
			}
		}
		if strings.HasPrefix(s.Class, "valid OPN request") {
			cl = append(cl, "step:"+s.Class)
		}
	}
	if o.maxChunk > 0 {
		cl = append(cl, "buffered-chunks-at-end:>0")
	}
	return append(cl, o.classes...)
}

func sampleOf(c caseT) any {
	type st struct {
		Class string  `json:"class"`
		Bytes int     `json:"bytes,omitempty"`
		Flood *floodT `json:"flood,omitempty"`
	}
	var out struct {
		Target    string `json:"target"`
		Policy    string `json:"policy"`
		Encrypt   bool   `json:"encrypt"`
		Buf       uint32 `json:"buf"`
		MaxChunks uint32 `json:"max_chunks"`
		Steps     []st   `json:"steps"`
	}
	out.Target, out.Policy, out.Encrypt, out.Buf, out.MaxChunks = c.Target, c.Policy, c.Encrypt, c.Buf, c.MaxChunks
	for _, s := range c.Steps {
		out.Steps = append(out.Steps, st{s.Class, len(s.Hex) / 2, s.Flood})
	}
	return out
}

func property(t *rapid.T, name string, targets []string, journal bool) {
	c := genCase(t, targets)
	if journal {
		rec.Journal(name, c)
	}
	o, err := check(c)
	if journal {
		rec.JournalDone(name)
	}
	if err != nil {
		t.Fatalf("infrastructure: %v", err)
	}
	b, _ := json.Marshal(c)
	rec.Case(o.reached, ev.Hash(b), classesOf(c, o)...)
	if o.reached && rec.WantSample() {
		rec.Sample(sampleOf(c))
	}
	if o.msg != "" {
		if rec.Known(c.Target + ":" + o.sig) {
			return
		}
		rec.Fail(t, name, c, "%s", o.msg)
	}
}

// TestServer: hostile peers against gopcua server channels (panics are recovered
// in the harness goroutine, so rapid can shrink).
func TestServer(t *testing.T) {
	rec.Assume("server kind follows RegisterConn: the Receive loop ends at the first error; chanpair-opened channels use 2048-bit fixtures; limits come from the server's Acknowledge (the gopcua client adopts them)")
	rapid.Check(t, func(t *rapid.T) {
		property(t, "TestServer", []string{"server-raw", "server-raw", "server-raw", "server-open", "server-open", "server-auth"}, false)
	})
}

// TestClient: hostile peers against gopcua client channels. The dispatcher
// goroutine runs Receive, so a panic ends the process: each case is journaled.
func TestClient(t *testing.T) {
	rec.Assume("client kind: a panic in the dispatcher goroutine ends the test process; the journaled case is reported by the driver (no shrinking)")
	rapid.Check(t, func(t *rapid.T) { property(t, "TestClient", []string{"client-open", "client-open", "client-dial", "client-dial", "client-auth"}, true) })
}

// TestReplay re-runs a saved case without rapid.
func TestReplay(t *testing.T) {
	rp, err := ev.LoadReplay()
	if err != nil {
		t.Fatal(err)
	}
	if rp == nil {
		t.Skip("no VERIF_REPLAY")
	}
	if rp.Test == "TestOPNResponseMidStream" {
		var oc opnMidT
		if err := json.Unmarshal(rp.Case, &oc); err != nil {
			t.Fatal(err)
		}
		fmt.Println("REPLAYED structured")
		msg, infra := runOPNMid(oc)
		if infra != nil {
			t.Skipf("no verdict: %v", infra)
		}
		if msg != "" {
			t.Fatalf("property C13 violated: %s", msg)
		}
		return
	}
	var c caseT
	if err := json.Unmarshal(rp.Case, &c); err != nil {
		t.Fatal(err)
	}
	fmt.Println("REPLAYED structured")
	o, err := check(c)
	if err != nil {
		t.Fatalf("infrastructure: %v", err)
	}
	if o.msg != "" {
		t.Fatalf("property C13 violated: %s", o.msg)
	}
}
