// Package c38 decides property C38: a maximal chunk body always fits the
// negotiated chunk size.
//
// For every symmetric security policy (and None), every valid security mode and
// every chunk size >= 8192, gopcua computes a maximum body size
// (channelInstance.SetMaximumBodySize, reached through the verif hook
// uasc.VerifMaxBodySize) and secures chunks with signAndEncrypt (reached through
// uasc.VerifSymmetricChunk, which also lets a mirrored peer instance verify and
// decrypt the chunk).
//
// Oracle. What is asserted is what the property states, measured on the chunk
// the real code produces:
//
//   - for every body length 0 <= n <= maxBody the secured chunk is no longer than
//     the chunk size, its MessageSize field equals its length, the peer instance
//     recovers exactly the n body bytes, and in SignAndEncrypt mode the encrypted
//     region (everything after the 12+4 clear header bytes) is a whole number of
//     16-byte AES blocks;
//   - in SignAndEncrypt mode the chunk produced for maxBody+1 body bytes is longer
//     than the chunk size, and maxBody equals the value of an arithmetic model
//     written from Part 6 (this file, never calls gopcua):
//     chunk = 12 header + 4 token id + E, where E = 8 sequence header + body +
//     1 PaddingSize byte + padding + signature is padded up to a multiple of the
//     cipher block (16, AES-CBC); signature 20 bytes (HMAC-SHA1) or 32 bytes
//     (HMAC-SHA256).
//
// In Sign and None mode the property only demands "fits"; gopcua reserves the
// padding byte and the block rounding there too, which wastes a few bytes and
// is not a violation.
//
// Chunk sizes: every value of [8192, 8192+4096) (all residues of the cipher
// block, 256 times over) and 2^k + {-2..2} for k = 13..24 (quick tier: 13..22) are
// enumerated (TestResidues, split over shards); TestGenerated draws further sizes up to
// 2^24.
package c38

import (
	"bytes"
	"crypto/sha256"
	"encoding/binary"
	"encoding/hex"
	"encoding/json"
	"fmt"
	"strings"
	"testing"

	"github.com/gopcua/opcua/ua"
	"github.com/gopcua/opcua/uasc"
	"pgregory.net/rapid"

	"verif/pkg/ev"
)

func TestMain(m *testing.M) { ev.Main(m) }

// ---------------------------------------------------------------------------
// Arithmetic model (independent of gopcua)

const uriPrefix = "http://opcfoundation.org/UA/SecurityPolicy#"

const (
	modeNone    = 1
	modeSign    = 2
	modeEncrypt = 3
)

// polT is one row of the policy table, from the Part 7 profiles:
// SymmetricSignatureAlgorithm HMAC-SHA1 (160 bit) for Basic128Rsa15 and
// Basic256, HMAC-SHA2-256 for the other three; SymmetricEncryptionAlgorithm
// AES-CBC (block 16) for all five; SecureChannelNonceLength 16 / 32.
type polT struct {
	Frag  string
	Sig   int
	Nonce int
}

var table = []polT{
	{"None", 0, 0},
	{"Basic128Rsa15", 20, 16},
	{"Basic256", 20, 32},
	{"Basic256Sha256", 32, 32},
	{"Aes128_Sha256_RsaOaep", 32, 32},
	{"Aes256_Sha256_RsaPss", 32, 32},
}

func polByFrag(f string) *polT {
	for i := range table {
		if table[i].Frag == f {
			return &table[i]
		}
	}
	return nil
}

// comboT is a valid (policy, mode) combination: None x None, the five real
// policies x {Sign, SignAndEncrypt} (uasc.newSecureChannel rejects the rest).
type comboT struct {
	Pol  *polT
	Mode int
}

var combos = func() []comboT {
	var cs []comboT
	for i := range table {
		if table[i].Frag == "None" {
			cs = append(cs, comboT{&table[i], modeNone})
			continue
		}
		cs = append(cs, comboT{&table[i], modeSign}, comboT{&table[i], modeEncrypt})
	}
	return cs
}()

const (
	headerSize   = 12 // MessageType(3) ChunkType(1) MessageSize(4) SecureChannelId(4)
	tokenSize    = 4  // symmetric security header: TokenId
	seqSize      = 8  // SequenceNumber(4) RequestId(4)
	cipherBlock  = 16 // AES
	paddingSizeB = 1  // PaddingSize byte (no ExtraPaddingSize: symmetric keys are <= 2048 bit)
)

// refSize is the length of a conforming secured chunk with n body bytes.
func refSize(mode, sig, n int) int {
	switch mode {
	case modeNone:
		return headerSize + tokenSize + seqSize + n
	case modeSign:
		return headerSize + tokenSize + seqSize + n + sig
	default:
		e := seqSize + n + paddingSizeB + sig
		blocks := (e + cipherBlock - 1) / cipherBlock
		return headerSize + tokenSize + blocks*cipherBlock
	}
}

// refMax is the largest n with refSize(n) <= chunk (closed form; TestModel
// checks it against a search and every use re-checks the defining inequality).
func refMax(mode, sig, chunk int) int {
	var m int
	switch mode {
	case modeNone:
		m = chunk - headerSize - tokenSize - seqSize
	case modeSign:
		m = chunk - headerSize - tokenSize - seqSize - sig
	default:
		m = (chunk-headerSize-tokenSize)/cipherBlock*cipherBlock - seqSize - paddingSizeB - sig
	}
	if !(refSize(mode, sig, m) <= chunk && refSize(mode, sig, m+1) > chunk) {
		panic(fmt.Sprintf("INFRA: model inconsistent: mode %d sig %d chunk %d max %d", mode, sig, chunk, m))
	}
	return m
}

// TestModel checks the closed form against a downward search.
func TestModel(t *testing.T) {
	for _, sig := range []int{0, 20, 32} {
		for mode := modeNone; mode <= modeEncrypt; mode++ {
			for chunk := 8192; chunk < 8192+4096; chunk++ {
				n := chunk
				for refSize(mode, sig, n) > chunk {
					n--
				}
				if m := refMax(mode, sig, chunk); m != n {
					t.Fatalf("INFRA: model: mode %d sig %d chunk %d: closed form %d, search %d", mode, sig, chunk, m, n)
				}
			}
		}
	}
}

// ---------------------------------------------------------------------------
// Case and oracle

// caseT is one (policy, mode, chunk size, body) case. The body length is given
// relative to the maximum body size gopcua computes (so a replay keeps its
// meaning when that value changes): Kind "abs" = BodyAbs bytes, "max-1", "max",
// "max+1", "frac" = Frac/1e6 of the maximum.
type caseT struct {
	Policy      string `json:"policy"` // URI fragment
	Mode        int    `json:"mode"`   // 1 None, 2 Sign, 3 SignAndEncrypt
	Chunk       int    `json:"chunk_size"`
	Kind        string `json:"body_kind"`
	BodyAbs     int    `json:"body_abs,omitempty"`
	Frac        int    `json:"body_frac_ppm,omitempty"`
	Fill        int    `json:"fill"`
	LocalNonce  string `json:"local_nonce"` // hex
	RemoteNonce string `json:"remote_nonce"`
}

type infoT struct {
	MaxBody int
	Body    int
	Len     int
	Skipped bool
}

func chunkClass(chunk int) string {
	switch {
	case chunk < 8192+4096:
		return "chunk:[8192,12288)"
	case chunk <= 1<<16:
		return "chunk:<=2^16"
	case chunk <= 1<<20:
		return "chunk:<=2^20"
	default:
		return "chunk:<=2^24"
	}
}

func modeName(m int) string {
	return [...]string{"?", "None", "Sign", "SignAndEncrypt"}[m]
}

// check runs the real code on c and judges it; "" = the property holds.
func check(c caseT) (msg string, info infoT) {
	defer func() {
		if r := recover(); r != nil {
			msg = fmt.Sprintf("panic: %v", r)
			if s, ok := r.(string); ok && strings.HasPrefix(s, "INFRA:") {
				msg = s // the model's own consistency check, not gopcua
			}
		}
	}()
	pol := polByFrag(c.Policy)
	if pol == nil || c.Mode < modeNone || c.Mode > modeEncrypt || c.Chunk < 8192 {
		return "INFRA: malformed case", info
	}
	uri := uriPrefix + pol.Frag
	mode := ua.MessageSecurityMode(c.Mode)
	ln, _ := hex.DecodeString(c.LocalNonce)
	rn, _ := hex.DecodeString(c.RemoteNonce)
	fill := byte(c.Fill)

	mb32, err := uasc.VerifMaxBodySize(uri, mode, c.Chunk, ln, rn)
	if err != nil {
		return fmt.Sprintf("INFRA: VerifMaxBodySize: %v", err), info
	}
	mb := int(mb32)
	info.MaxBody = mb
	if mb < 1 || mb >= c.Chunk {
		return fmt.Sprintf("maximum body size %d is not a usable value for chunk size %d", mb32, c.Chunk), info
	}
	want := refMax(c.Mode, pol.Sig, c.Chunk)
	var n int
	switch c.Kind {
	case "abs":
		n = c.BodyAbs
	case "max-1":
		n = mb - 1
	case "max":
		n = mb
	case "max+1":
		n = mb + 1
	case "frac":
		n = int(int64(mb) * int64(c.Frac) / 1000000)
	default:
		return "INFRA: unknown body kind", info
	}
	if n < 0 || (n > mb && c.Kind != "max+1") || (c.Kind == "max+1" && c.Mode != modeEncrypt) {
		info.Skipped = true
		return "", info
	}
	info.Body = n

	res, err := uasc.VerifSymmetricChunk(uri, mode, c.Chunk, n, fill, ln, rn)

	if c.Kind == "max+1" {
		// one more body byte must no longer fit
		if err == nil && res != nil && res.ChunkLen <= c.Chunk {
			return fmt.Sprintf("maxBody=%d but a body of maxBody+1=%d bytes still fits: secured chunk is %d bytes <= chunk size %d (model: largest fitting body %d)",
				mb, n, res.ChunkLen, c.Chunk, want), info
		}
		if mb != want {
			return fmt.Sprintf("maxBody=%d differs from the arithmetic model %d for chunk size %d", mb, want, c.Chunk), info
		}
		if res != nil {
			info.Len = res.ChunkLen
		}
		return "", info
	}

	if err != nil {
		return fmt.Sprintf("securing a chunk with a body of %d bytes (maxBody %d) failed: %v", n, mb, err), info
	}
	info.Len = res.ChunkLen
	if res.ChunkLen != len(res.Chunk) {
		return "INFRA: hook reports inconsistent chunk length", info
	}
	if res.ChunkLen > c.Chunk {
		return fmt.Sprintf("body of %d bytes (maxBody %d) yields a secured chunk of %d bytes > chunk size %d (model: %d bytes, largest fitting body %d)",
			n, mb, res.ChunkLen, c.Chunk, refSize(c.Mode, pol.Sig, n), want), info
	}
	if int(res.SizeField) != res.ChunkLen {
		return fmt.Sprintf("MessageSize field %d != chunk length %d (body %d)", res.SizeField, res.ChunkLen, n), info
	}
	if c.Mode == modeEncrypt {
		enc := res.ChunkLen - headerSize - tokenSize
		if enc <= 0 || enc%cipherBlock != 0 {
			return fmt.Sprintf("encrypted region of %d bytes is not a whole number of %d-byte cipher blocks (body %d, chunk %d)", enc, cipherBlock, n, res.ChunkLen), info
		}
	}
	if res.PeerErr != nil {
		return fmt.Sprintf("peer instance rejects the chunk (body %d, chunk %d bytes): %v", n, res.ChunkLen, res.PeerErr), info
	}
	if len(res.Body) != n {
		return fmt.Sprintf("peer instance recovers %d body bytes, %d were put in", len(res.Body), n), info
	}
	// the hook fills the body with fill+byte(i), i the absolute offset in the
	// 24+n byte plain chunk
	exp := make([]byte, n)
	for j := range exp {
		exp[j] = fill + byte(24+j)
	}
	if !bytes.Equal(exp, res.Body) {
		j := 0
		for exp[j] == res.Body[j] {
			j++
		}
		return fmt.Sprintf("peer instance recovers a different body: byte %d is %d, want %d (body %d)", j, res.Body[j], exp[j], n), info
	}
	if c.Mode == modeEncrypt && c.Kind == "max" && mb != want {
		return fmt.Sprintf("maxBody=%d differs from the arithmetic model %d for chunk size %d", mb, want, c.Chunk), info
	}
	return "", info
}

var rec = ev.For("C38", "chunk sizes: every value of [8192,12288) and 2^k+{-2..2} (k=13..24) enumerated for all 11 valid policy x mode combinations, plus rapid-drawn sizes up to 2^24; bodies 0, 1, max-1, max, max+1 (SignAndEncrypt) and a drawn fraction of max; nonces drawn with the policy's length; plus TestWiring: real client/server channel pairs with drawn (asymmetric) buffer sizes and 0-2 renewals whose active instances must use the maximum body of the chunk size negotiated for their direction; non-trivial = secured mode (Sign / SignAndEncrypt) and body within 1 of the maximum body size (wiring: the four buffer sizes are not all equal); distinct by (policy, mode, chunk size, body)")

func record(c caseT, info infoT, src string) {
	if info.Skipped {
		rec.Class("skipped:body-kind-not-applicable")
		return
	}
	nt := c.Mode != modeNone && info.MaxBody > 0 && info.Body >= info.MaxBody-1
	kind := c.Kind
	if kind == "abs" {
		kind = fmt.Sprintf("%d", c.BodyAbs)
		if c.BodyAbs > 1 {
			kind = "2..64"
		}
	}
	rec.Case(nt, ev.Hash(c.Policy, c.Mode, c.Chunk, info.Body),
		"pm:"+c.Policy+"/"+modeName(c.Mode),
		"body:"+kind,
		src+":"+chunkClass(c.Chunk),
		fmt.Sprintf("residue16:%02d", (c.Chunk-headerSize-tokenSize)%cipherBlock))
	if nt && rec.WantSample() {
		rec.Sample(map[string]any{"case": c, "max_body": info.MaxBody, "body": info.Body, "secured_chunk_len": info.Len})
	}
}

// fail reports a violation; a broken harness (INFRA) fails without a replay
// file, which the driver reports as an infrastructure problem (exit 2).
func fail(t ev.TB, test string, c caseT, msg string) {
	if strings.HasPrefix(msg, "INFRA:") {
		t.Fatalf("%s (case %+v)", msg, c)
	}
	rec.Fail(t, test, c, "%s", msg)
}

var bodyKinds = []caseT{
	{Kind: "abs", BodyAbs: 0}, {Kind: "abs", BodyAbs: 1}, {Kind: "max-1"}, {Kind: "max"}, {Kind: "max+1"}, {Kind: "frac"},
}

// enumerated chunk sizes
func enumChunks() []int {
	var cs []int
	for c := 8192; c < 8192+4096; c++ {
		cs = append(cs, c)
	}
	// quick tier: up to 2^22 (TestGenerated still draws sizes up to 2^24)
	for k := 13; k <= ev.Pick(22, 24); k++ {
		for d := -2; d <= 2; d++ {
			if c := 1<<k + d; c >= 8192+4096 {
				cs = append(cs, c)
			}
		}
	}
	return cs
}

// TestResidues enumerates chunk sizes x combinations x body kinds; the shards
// partition the (chunk size, combination) pairs round-robin. Nonces, fill and
// the "frac" body are a deterministic function of (VERIF_SEED, case).
func TestResidues(t *testing.T) {
	sh, nsh := ev.Shard()
	chunks := enumChunks()
	idx := 0
	done := 0
	for _, chunk := range chunks {
		for _, cb := range combos {
			mine := idx%nsh == sh
			idx++
			if !mine {
				continue
			}
			h := sha256.Sum256([]byte(fmt.Sprintf("C38|%d|%s|%d|%d", ev.Seed(), cb.Pol.Frag, cb.Mode, chunk)))
			h2 := sha256.Sum256(h[:])
			ln := hex.EncodeToString(h[:cb.Pol.Nonce])
			rn := hex.EncodeToString(h2[:cb.Pol.Nonce])
			for _, bk := range bodyKinds {
				if chunk > 1<<20+2 && !ev.Thorough() && bk.Kind != "max" && bk.Kind != "max+1" {
					continue // quick tier: only the two deciding bodies for the 2..16 MiB chunk sizes
				}
				c := bk
				c.Policy, c.Mode, c.Chunk = cb.Pol.Frag, cb.Mode, chunk
				c.Fill = int(h2[31])
				c.LocalNonce, c.RemoteNonce = ln, rn
				if c.Kind == "frac" {
					c.Frac = int(binary.LittleEndian.Uint32(h2[24:]) % 1000000)
				}
				msg, info := check(c)
				record(c, info, "enum")
				if msg != "" {
					fail(t, "TestResidues", c, msg)
				}
			}
			done++
		}
	}
	rec.Extra("enumerated_chunk_size_x_combination_pairs", done)
	if sh == 0 {
		rec.Extra("enumerated_chunk_sizes", len(chunks))
	}
}

// uni draws an (almost) uniformly distributed value in [0,n). rapid's integer
// generators deliberately favour small values and the range bounds, which
// would skew categorical choices; two draws are mixed to flatten that.
func uni(t *rapid.T, label string, n int) int {
	a := rapid.Uint64().Draw(t, label)
	b := rapid.Uint64().Draw(t, label+"'")
	x := a*0x9E3779B97F4A7C15 ^ (b+0xBF58476D1CE4E5B9)*0x94D049BB133111EB
	x ^= x >> 30
	x *= 0xBF58476D1CE4E5B9
	x ^= x >> 27
	x *= 0x94D049BB133111EB
	x ^= x >> 31
	return int(x % uint64(n))
}

func genCase(t *rapid.T) caseT {
	cb := combos[uni(t, "combo", len(combos))]
	// magnitude of the chunk size: 2^k .. 2^(k+1); sizes above 2^20 are rare
	// (they cost ~10 ms per MiB) and rarer still in the quick tier
	var k int
	switch m := uni(t, "mag", 100); {
	case m < ev.Pick(70, 50):
		k = 13 + uni(t, "bits", 3) // 13..15
	case m < ev.Pick(98, 88):
		k = 16 + uni(t, "bits", 4) // 16..19
	default:
		k = 20 + uni(t, "bits", 4) // 20..23
	}
	var chunk int
	switch c := uni(t, "chunkClass", 10); {
	case c < 1: // the residue window again, with drawn nonces
		chunk = 8192 + uni(t, "chunk", 4096)
	case c < 3: // powers of two +- 2
		chunk = 1<<(k+1) + uni(t, "delta", 5) - 2
	case c < 6: // around a cipher block boundary
		chunk = headerSize + tokenSize + ((1<<k)/16+uni(t, "blocks", (1<<k)/16))*16 + uni(t, "off", 3) - 1
	default:
		chunk = 1<<k + uni(t, "chunk", 1<<k+1)
	}
	if chunk < 8192 {
		chunk = 8192
	}
	c := bodyKinds[uni(t, "bodyKind", len(bodyKinds))]
	if c.Kind == "max+1" && cb.Mode != modeEncrypt {
		c.Kind = "max"
	}
	if c.Kind == "frac" {
		c.Frac = uni(t, "frac", 1000000)
	}
	if c.Kind == "abs" && uni(t, "smallAbs", 2) == 0 {
		c.BodyAbs = uni(t, "bodyAbs", 65)
	}
	c.Policy, c.Mode, c.Chunk = cb.Pol.Frag, cb.Mode, chunk
	c.Fill = rapid.IntRange(0, 255).Draw(t, "fill")
	if cb.Pol.Nonce > 0 {
		c.LocalNonce = hex.EncodeToString(rapid.SliceOfN(rapid.Byte(), cb.Pol.Nonce, cb.Pol.Nonce).Draw(t, "localNonce"))
		c.RemoteNonce = hex.EncodeToString(rapid.SliceOfN(rapid.Byte(), cb.Pol.Nonce, cb.Pol.Nonce).Draw(t, "remoteNonce"))
	}
	return c
}

func TestGenerated(t *testing.T) {
	rec.Assume("arithmetic model of the Part 6 symmetric chunk layout written in props/c38 (self-tested by TestModel); the verif hook uasc.VerifSymmetricChunk builds the plain chunk exactly as EncodeChunks does (24 header bytes + body) and calls the unmodified SetMaximumBodySize / signAndEncrypt / verifyAndDecrypt")
	rapid.Check(t, func(t *rapid.T) {
		c := genCase(t)
		msg, info := check(c)
		record(c, info, "gen")
		if msg != "" {
			fail(t, "TestGenerated", c, msg)
		}
	})
}

// TestReplay re-runs a saved case without rapid.
func TestReplay(t *testing.T) {
	rp, err := ev.LoadReplay()
	if err != nil {
		t.Fatal(err)
	}
	if rp == nil {
		t.Skip("no VERIF_REPLAY")
	}
	if rp.Test == "TestWiring" {
		var w wiringT
		if err := json.Unmarshal(rp.Case, &w); err != nil {
			t.Fatal(err)
		}
		fmt.Println("REPLAYED structured")
		msg, infra := checkWiring(w)
		if infra != nil {
			t.Skipf("no verdict: %v", infra)
		}
		if msg != "" {
			t.Fatalf("property C38 violated: %s", msg)
		}
		return
	}
	var c caseT
	if err := json.Unmarshal(rp.Case, &c); err != nil {
		t.Fatal(err)
	}
	fmt.Println("REPLAYED structured")
	if msg, _ := check(c); msg != "" {
		t.Fatalf("property C38 violated: %s", msg)
	}
}
