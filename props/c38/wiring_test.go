package c38

// TestWiring: the maximum body size of the ACTIVE channel instances of a real
// client/server pair is the one that belongs to the chunk size negotiated for
// the direction they send in - after the first token and after renewals.
// (Added after seeded change C38-B: the function-level tests call
// SetMaximumBodySize with the right chunk size themselves, so a channel that
// feeds it the wrong buffer stayed invisible to C38; C06 saw it on the wire.)

import (
	"context"
	"encoding/json"
	"fmt"
	"testing"
	"time"

	"github.com/gopcua/opcua/ua"
	"github.com/gopcua/opcua/uacp"
	"pgregory.net/rapid"

	"verif/pkg/chanpair"
	"verif/pkg/ev"
	"verif/pkg/keys"
)

type wiringT struct {
	Policy   string    `json:"policy"`
	Mode     int       `json:"mode"`
	Client   [2]uint32 `json:"client_recv_send"`
	Server   [2]uint32 `json:"server_recv_send"`
	Renewals int       `json:"renewals"`
}

var wiringBufs = []uint32{8192, 8193, 9000, 12000, 16384, 65535, 1 << 17}

func checkWiring(c wiringT) (msg string, infra error) {
	pol := polByFrag(c.Policy)
	if pol == nil || c.Mode < modeNone || c.Mode > modeEncrypt || (pol.Frag == "None") != (c.Mode == modeNone) {
		return "", fmt.Errorf("malformed case")
	}
	uri := uriPrefix + pol.Frag
	ks := chanpair.KeySizes(uri)
	p, err := chanpair.New(chanpair.Options{Policy: uri, Mode: ua.MessageSecurityMode(c.Mode), ClientKey: keys.Get("a", ks[0]), ServerKey: keys.Get("b", ks[0]),
		ClientACK: &uacp.Acknowledge{ReceiveBufSize: c.Client[0], SendBufSize: c.Client[1]},
		ServerACK: &uacp.Acknowledge{ReceiveBufSize: c.Server[0], SendBufSize: c.Server[1]}, RequestTimeout: 20 * time.Second})
	if err != nil {
		return "", err
	}
	defer p.Close()
	ctx, cancel := context.WithTimeout(context.Background(), 60*time.Second)
	defer cancel()
	// independent of uacp's bookkeeping: Part 6, 7.1.2 - a side sends chunks no
	// larger than min(its own send buffer, the peer's receive buffer)
	minU := func(a, b uint32) int {
		if a < b {
			return int(a)
		}
		return int(b)
	}
	c2s := minU(c.Client[1], c.Server[0])
	s2c := minU(c.Server[1], c.Client[0])
	judge := func(when string) string {
		for _, e := range []struct {
			who   string
			got   int
			chunk int
		}{{"client", int(p.Client.VerifActiveMaxBodySize()), c2s}, {"server", int(p.Server.VerifActiveMaxBodySize()), s2c}} {
			if e.got <= 0 {
				continue // no active instance on that side (server before its first token): nothing to judge
			}
			if sz := refSize(c.Mode, pol.Sig, e.got); sz > e.chunk {
				return fmt.Sprintf("%s: the %s channel places up to %d body bytes into one chunk; secured that is %d bytes, the chunk size negotiated for its direction is %d (client recv/send %v, server recv/send %v)", when, e.who, e.got, sz, e.chunk, c.Client, c.Server)
			}
			if c.Mode == modeEncrypt && refSize(c.Mode, pol.Sig, e.got+1) <= e.chunk {
				return fmt.Sprintf("%s: the %s channel places only %d body bytes into one chunk although %d more would still fit into the negotiated chunk size %d (SignAndEncrypt)", when, e.who, e.got, refMax(c.Mode, pol.Sig, e.chunk)-e.got, e.chunk)
			}
		}
		return ""
	}
	// the application behind the server channel answers every request; renewals
	// are handled inside Receive
	go func() {
		for {
			m := p.Server.Receive(ctx)
			if m.Err != nil {
				return
			}
			if rr, ok := m.Request().(*ua.ReadRequest); ok {
				_ = p.Server.SendResponseWithContext(ctx, m.RequestID, &ua.ReadResponse{ResponseHeader: &ua.ResponseHeader{RequestHandle: rr.RequestHeader.RequestHandle, Timestamp: time.Now(), ServiceDiagnostics: &ua.DiagnosticInfo{}, StringTable: []string{}, AdditionalHeader: ua.NewExtensionObject(nil)}, Results: []*ua.DataValue{}, DiagnosticInfos: []*ua.DiagnosticInfo{}})
			}
		}
	}()
	exchange := func() error {
		return p.Client.SendRequest(ctx, &ua.ReadRequest{NodesToRead: []*ua.ReadValueID{}}, nil, func(ua.Response) error { return nil })
	}
	if err := exchange(); err != nil {
		return "", err
	}
	if m := judge("after the first token"); m != "" {
		return m, nil
	}
	for i := 1; i <= c.Renewals; i++ {
		if err := p.Client.Renew(ctx); err != nil {
			return "", fmt.Errorf("renewal #%d: %v", i, err)
		}
		if err := exchange(); err != nil {
			return "", err
		}
		if m := judge(fmt.Sprintf("after renewal #%d", i)); m != "" {
			return m, nil
		}
	}
	return "", nil
}

func TestWiring(t *testing.T) {
	rapid.Check(t, func(t *rapid.T) {
		cb := rapid.SampledFrom(combos).Draw(t, "combo")
		buf := rapid.SampledFrom(wiringBufs)
		c := wiringT{Policy: cb.Pol.Frag, Mode: cb.Mode,
			Client:   [2]uint32{buf.Draw(t, "crecv"), buf.Draw(t, "csend")},
			Server:   [2]uint32{buf.Draw(t, "srecv"), buf.Draw(t, "ssend")},
			Renewals: rapid.IntRange(0, 2).Draw(t, "renewals")}
		msg, infra := checkWiring(c)
		b, _ := json.Marshal(c)
		if infra != nil {
			rec.Inconclusive()
			rec.Case(false, ev.Hash("wiring", b), "wiring:no-verdict")
			t.Logf("no verdict: %v", infra)
			return
		}
		asym := c.Client[0] != c.Client[1] || c.Server[0] != c.Server[1] || c.Client[0] != c.Server[0]
		rec.Case(asym, ev.Hash("wiring", b), "wiring", fmt.Sprintf("wiring:asymmetric-buffers:%v", asym), fmt.Sprintf("wiring:renewals=%d", c.Renewals), "wiring:"+c.Policy)
		if asym && rec.WantSample() {
			rec.Sample(map[string]any{"kind": "wiring", "case": c})
		}
		if msg != "" {
			rec.Fail(t, "TestWiring", c, "%s", msg)
		}
	})
}
