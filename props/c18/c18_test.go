// Package c18 decides property C18: each request receives its own response,
// whatever the concurrency and ordering.
//
// 2-32 concurrent callers issue Read / Browse / Write requests carrying a
// unique marker over ONE gopcua client channel (an opcua.Client, so that
// safeAssign is in the path, or a raw uasc channel whose request id counter
// starts next to the 2^32 wrap). A scripted server (pkg/script) whose behaviour
// per request was drawn before the run answers now / later / after k other
// responses, drops, duplicates, sends unsolicited responses with unused request
// ids, answers with a ServiceFault, with a bad service result, or with a
// response of another registered type. Every response instance carries the
// marker of the request it answers and a serial number in
// ResponseHeader.StringTable. The oracle works on the history (what the server
// sent, what every caller got back).
package c18

import (
	"context"
	"encoding/json"
	"errors"
	"fmt"
	"os"
	"runtime"
	"sort"
	"strconv"
	"strings"
	"sync"
	"testing"
	"time"

	"github.com/gopcua/opcua"
	"github.com/gopcua/opcua/ua"
	"github.com/gopcua/opcua/uacp"
	"github.com/gopcua/opcua/uasc"
	"pgregory.net/rapid"

	"verif/pkg/ev"
	"verif/pkg/script"
	"verif/pkg/starve"
)

func TestMain(m *testing.M) {
	// diagnostics only: when did the client's dispatcher look up a handler?
	uasc.VerifSetPointFunc(func(name string) {
		if name == "dispatcher.afterPopHandler" {
			popMu.Lock()
			if len(pops) < 4096 {
				pops = append(pops, time.Now())
			}
			popMu.Unlock()
		}
	})
	ev.Main(m)
}

var (
	popMu sync.Mutex
	pops  []time.Time
)

// dispatcherTimeline describes the dispatcher activity since t0 (diagnostics
// for timing failures: was the dispatcher idle, i.e. nothing arrived, or busy?).
func dispatcherTimeline(t0 time.Time) string {
	popMu.Lock()
	defer popMu.Unlock()
	var b strings.Builder
	n := 0
	var prev time.Time
	var maxGap time.Duration
	var gapAt time.Duration
	for _, p := range pops {
		if p.Before(t0) {
			continue
		}
		if n > 0 && p.Sub(prev) > maxGap {
			maxGap, gapAt = p.Sub(prev), prev.Sub(t0)
		}
		prev = p
		n++
	}
	fmt.Fprintf(&b, "client dispatcher handled %d messages since the start of the run", n)
	if n > 1 {
		fmt.Fprintf(&b, ", longest pause %v beginning %v after the start, last message %v after the start", maxGap.Round(time.Millisecond), gapAt.Round(time.Millisecond), prev.Sub(t0).Round(time.Millisecond))
	}
	b.WriteString("; handled at ms:")
	k := 0
	for _, p := range pops {
		if p.Before(t0) {
			continue
		}
		if k++; k > 80 {
			b.WriteString(" ...")
			break
		}
		fmt.Fprintf(&b, " %d", p.Sub(t0).Milliseconds())
	}
	return b.String()
}

var rec = ev.For("C18", "rapid-drawn histories: 2-32 concurrent callers x 1-2(3) sequential Read/Browse/Write requests with unique markers over one client channel (opcua.Client with request id seed 0 or RandomRequestID, or raw uasc channel with RequestIDSeed 0 / random / next to the 2^32 wrap) against a scripted server whose per-request behaviour is drawn before the run (ok / duplicate / drop / late / ServiceFault / bad service result / other response type / a request structure (the request echoed, a ReadRequest, a CloseSessionRequest) sent as the answer; delay 0-100 ms; after k other responses; optional unsolicited response with an unused request id that collides in the low 16 bits, in bit 31, with 0 or with an already answered id); one case in ten is a 'wrap chain': 2-3 callers with chains of 1-4 sequential, mostly abandoned (late / dropped) requests over a raw channel whose id counter wraps among them; non-trivial = (at least 4 callers and (realised response order differs from arrival order or a drop / duplicate / mistyped response occurred)) or (a wrap chain in which a drop / late / duplicate response occurred); distinct by hash of the case")

// ---------------------------------------------------------------------------
// case

type Req struct {
	Kind    string `json:"kind"`   // read | browse | write
	Action  string `json:"action"` // ok | dup | drop | late | fault | badstatus | mistype
	Status  uint32 `json:"status,omitempty"`
	As      string `json:"as,omitempty"` // mistype: response type sent instead
	AfterK  int    `json:"after_k,omitempty"`
	DelayMs int    `json:"delay_ms,omitempty"`
	Unsol   string `json:"unsol,omitempty"` // "", hi16, hi31, far, zero, done
}

type Case struct {
	Mode      string  `json:"mode"` // client | raw
	Seed      string  `json:"seed"` // zero | random | wrap
	SeedVal   uint32  `json:"seed_val"`
	TimeoutMs int     `json:"timeout_ms"`
	Callers   [][]Req `json:"callers"`
}

var faultStatuses = []ua.StatusCode{ua.StatusBadNodeIDUnknown, ua.StatusBadTooManyOperations, ua.StatusBadUserAccessDenied, ua.StatusBadInternalError}

// genWrapChain: few callers with chains of sequential requests over a raw
// channel whose request id counter wraps somewhere among them; the requests are
// mostly abandoned (answered after the timeout, or never), so that the request
// sent right after an abandoned one is pending when the late answer arrives
// (added after seeded change C18-A: two consecutive requests got id 1).
func genWrapChain(t *rapid.T) Case {
	c := Case{Mode: "raw", Seed: "wrap"}
	c.TimeoutMs = rapid.SampledFrom([]int{450, 500, 600}).Draw(t, "timeoutMs")
	n := rapid.IntRange(2, 3).Draw(t, "n")
	total := 0
	for i := 0; i < n; i++ {
		l := rapid.IntRange(1, 4).Draw(t, "seqlen")
		if i == 0 && l < 2 {
			l = 2
		}
		var chain []Req
		for k := 0; k < l; k++ {
			r := Req{Kind: rapid.SampledFrom([]string{"read", "browse", "write"}).Draw(t, "kind")}
			r.Action = rapid.SampledFrom([]string{"late", "late", "drop", "drop", "ok", "dup"}).Draw(t, "action")
			if rapid.IntRange(0, 2).Draw(t, "when") == 0 {
				r.DelayMs = rapid.IntRange(1, 30).Draw(t, "delay")
			}
			chain = append(chain, r)
		}
		total += l
		c.Callers = append(c.Callers, chain)
	}
	c.SeedVal = uint32(0xFFFFFFFF) - uint32(rapid.IntRange(0, total).Draw(t, "wrapAt"))
	return c
}

func genCase(t *rapid.T) Case {
	if rapid.IntRange(0, 9).Draw(t, "wrapChain") == 0 {
		return genWrapChain(t)
	}
	var c Case
	c.Mode = rapid.SampledFrom([]string{"client", "client", "raw"}).Draw(t, "mode")
	if c.Mode == "client" {
		// the opcua package exposes only RandomRequestID (a 31 bit seed)
		c.Seed = rapid.SampledFrom([]string{"zero", "random"}).Draw(t, "seed")
	} else {
		c.Seed = rapid.SampledFrom([]string{"zero", "random", "wrap", "wrap"}).Draw(t, "seed")
	}
	c.TimeoutMs = rapid.SampledFrom([]int{400, 450, 500, 600}).Draw(t, "timeoutMs")
	var n int
	switch rapid.IntRange(0, 9).Draw(t, "size") {
	case 0:
		n = rapid.IntRange(2, 3).Draw(t, "n")
	case 1, 2, 3, 4:
		n = rapid.IntRange(4, 8).Draw(t, "n")
	case 5, 6, 7:
		n = rapid.IntRange(9, 16).Draw(t, "n")
	default:
		n = rapid.IntRange(17, 32).Draw(t, "n")
	}
	maxSeq := ev.Pick(2, 3)
	total := 0
	for i := 0; i < n; i++ {
		l := 1
		if rapid.IntRange(0, 3).Draw(t, "seq") == 0 {
			l = rapid.IntRange(2, maxSeq).Draw(t, "seqlen")
		}
		var chain []Req
		for k := 0; k < l; k++ {
			chain = append(chain, genReq(t, n))
		}
		total += l
		c.Callers = append(c.Callers, chain)
	}
	switch c.Seed {
	case "random":
		c.SeedVal = rapid.Uint32().Draw(t, "seedVal")
	case "wrap":
		// the counter crosses 2^32 -> 1 somewhere among the requests of the run
		// (one id is used by the OPN request first)
		c.SeedVal = uint32(0xFFFFFFFF) - uint32(rapid.IntRange(0, total).Draw(t, "wrapAt"))
	}
	return c
}

func genReq(t *rapid.T, n int) Req {
	var r Req
	r.Kind = rapid.SampledFrom([]string{"read", "browse", "write"}).Draw(t, "kind")
	a := rapid.IntRange(0, 99).Draw(t, "action")
	switch {
	case a < 52:
		r.Action = "ok"
	case a < 62:
		r.Action = "dup"
	case a < 70:
		r.Action = "drop"
	case a < 75:
		r.Action = "late"
	case a < 83:
		r.Action = "fault"
		r.Status = uint32(rapid.SampledFrom(faultStatuses).Draw(t, "status"))
	case a < 89:
		r.Action = "badstatus"
		r.Status = uint32(rapid.SampledFrom(faultStatuses).Draw(t, "status"))
	default:
		r.Action = "mistype"
		var others []string
		for _, k := range []string{"read", "browse", "write", "activate"} {
			if k != r.Kind {
				others = append(others, k)
			}
		}
		// a service message that is no response at all: the request itself, other requests
		others = append(others, "req-echo", "req-read", "req-closesession")
		r.As = rapid.SampledFrom(others).Draw(t, "as")
	}
	switch rapid.IntRange(0, 5).Draw(t, "when") {
	case 0, 1:
	case 2:
		r.DelayMs = rapid.IntRange(1, 5).Draw(t, "delay")
	case 3:
		r.DelayMs = rapid.IntRange(6, 100).Draw(t, "delay")
	default:
		r.AfterK = rapid.IntRange(1, n).Draw(t, "afterK")
		if rapid.Bool().Draw(t, "plusDelay") {
			r.DelayMs = rapid.IntRange(1, 20).Draw(t, "delay")
		}
	}
	if rapid.IntRange(0, 5).Draw(t, "unsol") == 0 {
		r.Unsol = rapid.SampledFrom([]string{"hi16", "hi31", "far", "zero", "done"}).Draw(t, "unsolKind")
	}
	return r
}

// ---------------------------------------------------------------------------
// scripted server side

const afterKCap = 80 * time.Millisecond

// a later-than verdict is only trusted if the heartbeat goroutines of the
// harness were never woken up later than this during the execution
const starvedLimit = 40 * time.Millisecond

type sentRec struct {
	J      int // request index (marker) the response claims to answer
	Serial int
	Kind   string    // resp | dup | unsol
	At     time.Time // when the response was built
	Done   time.Time // when the server's send returned without error (zero: not sent)
	ReqID  uint32
}

type world struct {
	c     Case
	reqs  []Req // flattened, index = marker
	start []time.Time

	mu       sync.Mutex
	arrival  []int
	arrAt    map[int]time.Time
	sent     []sentRec
	serial   int
	answered []uint32 // request ids that were answered already
	done     chan struct{}
}

func marker(j int) string { return "c18:" + strconv.Itoa(j) }

func markerOf(id *ua.NodeID) (int, bool) {
	if id == nil || id.Type() != ua.NodeIDTypeString {
		return 0, false
	}
	s := id.StringID()
	if !strings.HasPrefix(s, "c18:") {
		return 0, false
	}
	j, err := strconv.Atoi(s[4:])
	return j, err == nil
}

func requestMarker(req ua.Request) (int, bool) {
	switch r := req.(type) {
	case *ua.ReadRequest:
		if len(r.NodesToRead) == 1 && r.NodesToRead[0] != nil {
			return markerOf(r.NodesToRead[0].NodeID)
		}
	case *ua.BrowseRequest:
		if len(r.NodesToBrowse) == 1 && r.NodesToBrowse[0] != nil {
			return markerOf(r.NodesToBrowse[0].NodeID)
		}
	case *ua.WriteRequest:
		if len(r.NodesToWrite) == 1 && r.NodesToWrite[0] != nil {
			return markerOf(r.NodesToWrite[0].NodeID)
		}
	}
	return 0, false
}

// build makes a response of the given kind for the request, stamped with the
// marker and a fresh serial number.
func (w *world) build(conn *script.Conn, req ua.Request, kind string, status ua.StatusCode, j int, what string, reqID uint32) ua.Response {
	var like ua.Request
	switch kind {
	case "read":
		like = &ua.ReadRequest{RequestHeader: req.Header(), NodesToRead: []*ua.ReadValueID{{NodeID: ua.NewStringNodeID(1, marker(j))}}}
	case "browse":
		like = &ua.BrowseRequest{RequestHeader: req.Header(), NodesToBrowse: []*ua.BrowseDescription{{NodeID: ua.NewStringNodeID(1, marker(j))}}}
	case "write":
		like = &ua.WriteRequest{RequestHeader: req.Header(), NodesToWrite: []*ua.WriteValue{{NodeID: ua.NewStringNodeID(1, marker(j))}}}
	case "activate":
		like = &ua.ActivateSessionRequest{RequestHeader: req.Header()}
	}
	var resp ua.Response
	if kind == "fault" {
		resp = script.Fault(req, status)
	} else {
		resp = conn.Srv.Canonical(conn, like)
		resp.Header().ServiceResult = status
	}
	w.mu.Lock()
	w.serial++
	s := w.serial
	w.sent = append(w.sent, sentRec{J: j, Serial: s, Kind: what, At: time.Now(), ReqID: reqID})
	w.mu.Unlock()
	resp.Header().StringTable = []string{"c18", marker(j), strconv.Itoa(s)}
	return resp
}

// respond puts a response built by build on the wire and notes when that was done.
func (w *world) respond(conn *script.Conn, reqID uint32, resp ua.Response) {
	err := conn.Respond(reqID, resp)
	now := time.Now()
	serial, _ := strconv.Atoi(resp.Header().StringTable[2])
	w.mu.Lock()
	defer w.mu.Unlock()
	for i := range w.sent {
		if w.sent[i].Serial == serial && err == nil {
			w.sent[i].Done = now
		}
	}
}

// respondWithRequest answers the pending request id with a well-formed service
// message that is not a response at all: the request echoed back, or another
// request structure (added after seeded change C18-B).
func (w *world) respondWithRequest(conn *script.Conn, reqID uint32, req ua.Request, as string, j int) {
	var msg any = req
	switch as {
	case "req-read":
		msg = &ua.ReadRequest{RequestHeader: req.Header(), NodesToRead: []*ua.ReadValueID{{NodeID: ua.NewStringNodeID(1, marker(j))}}}
	case "req-closesession":
		msg = &ua.CloseSessionRequest{RequestHeader: req.Header()}
	}
	w.mu.Lock()
	w.serial++
	s := w.serial
	w.sent = append(w.sent, sentRec{J: j, Serial: s, Kind: "resp", At: time.Now(), ReqID: reqID})
	w.mu.Unlock()
	err := conn.SC.SendMsgWithContext(context.Background(), nil, reqID, msg)
	now := time.Now()
	w.mu.Lock()
	defer w.mu.Unlock()
	for i := range w.sent {
		if w.sent[i].Serial == s && err == nil {
			w.sent[i].Done = now
		}
	}
}

func (w *world) sentCount() int {
	w.mu.Lock()
	defer w.mu.Unlock()
	n := 0
	for _, s := range w.sent {
		if s.Kind != "unsol" {
			n++
		}
	}
	return n
}

func (w *world) handle(conn *script.Conn, req ua.Request, reqID uint32) bool {
	j, ok := requestMarker(req)
	if !ok || j < 0 || j >= len(w.reqs) {
		return false
	}
	now := time.Now()
	w.mu.Lock()
	w.arrival = append(w.arrival, j)
	w.arrAt[j] = now
	w.mu.Unlock()
	r := w.reqs[j]
	go func() {
		if r.AfterK > 0 {
			dl := time.Now().Add(afterKCap)
			for w.sentCount() < r.AfterK && time.Now().Before(dl) {
				time.Sleep(500 * time.Microsecond)
			}
		}
		if r.DelayMs > 0 {
			time.Sleep(time.Duration(r.DelayMs) * time.Millisecond)
		}
		if r.Action == "late" {
			select {
			case <-time.After(time.Duration(w.c.TimeoutMs)*time.Millisecond + 400*time.Millisecond):
			case <-w.done:
				return
			}
		}
		unsol := func() {
			if r.Unsol == "" {
				return
			}
			var id uint32
			switch r.Unsol {
			case "hi16":
				id = reqID + 0x10000
			case "hi31":
				id = reqID ^ 0x80000000
			case "far":
				id = reqID + 1000003
			case "zero":
				id = 0
			case "done":
				w.mu.Lock()
				if len(w.answered) > 0 {
					id = w.answered[0]
				} else {
					id = reqID + 0x20000
				}
				w.mu.Unlock()
			}
			w.respond(conn, id, w.build(conn, req, r.Kind, ua.StatusOK, j, "unsol", id))
		}
		// half of the unsolicited responses go out before the real one
		if j%2 == 0 {
			unsol()
		}
		switch r.Action {
		case "ok", "late":
			w.respond(conn, reqID, w.build(conn, req, r.Kind, ua.StatusOK, j, "resp", reqID))
		case "dup":
			w.respond(conn, reqID, w.build(conn, req, r.Kind, ua.StatusOK, j, "resp", reqID))
			w.respond(conn, reqID, w.build(conn, req, r.Kind, ua.StatusOK, j, "dup", reqID))
		case "drop":
		case "fault":
			w.respond(conn, reqID, w.build(conn, req, "fault", ua.StatusCode(r.Status), j, "resp", reqID))
		case "badstatus":
			w.respond(conn, reqID, w.build(conn, req, r.Kind, ua.StatusCode(r.Status), j, "resp", reqID))
		case "mistype":
			if strings.HasPrefix(r.As, "req-") {
				w.respondWithRequest(conn, reqID, req, r.As, j)
			} else {
				w.respond(conn, reqID, w.build(conn, req, r.As, ua.StatusOK, j, "resp", reqID))
			}
		}
		if r.Action != "drop" {
			w.mu.Lock()
			w.answered = append(w.answered, reqID)
			w.mu.Unlock()
		}
		if j%2 == 1 {
			unsol()
		}
	}()
	return true
}

// ---------------------------------------------------------------------------
// client side

type result struct {
	J       int
	Err     error
	Got     bool
	Marker  string
	Serial  int
	Type    string
	Start   time.Time
	End     time.Time
	Panic   string
	Hung    bool
	Skipped bool // an earlier request of this caller hung
}

type sender interface {
	call(ctx context.Context, kind string, j int) (ua.Response, error)
	pending() int
	close()
}

func readReq(j int) *ua.ReadRequest {
	return &ua.ReadRequest{TimestampsToReturn: ua.TimestampsToReturnNeither,
		NodesToRead: []*ua.ReadValueID{{NodeID: ua.NewStringNodeID(1, marker(j)), AttributeID: ua.AttributeIDValue, DataEncoding: &ua.QualifiedName{}}}}
}
func browseReq(j int) *ua.BrowseRequest {
	return &ua.BrowseRequest{View: &ua.ViewDescription{ViewID: ua.NewTwoByteNodeID(0)},
		NodesToBrowse: []*ua.BrowseDescription{{NodeID: ua.NewStringNodeID(1, marker(j)), BrowseDirection: ua.BrowseDirectionForward,
			ReferenceTypeID: ua.NewNumericNodeID(0, 31), IncludeSubtypes: true, ResultMask: 63}}}
}
func writeReq(j int) *ua.WriteRequest {
	return &ua.WriteRequest{NodesToWrite: []*ua.WriteValue{{NodeID: ua.NewStringNodeID(1, marker(j)), AttributeID: ua.AttributeIDValue,
		Value: &ua.DataValue{EncodingMask: ua.DataValueValue, Value: ua.MustVariant(int32(j))}}}}
}

type clientSender struct{ c *opcua.Client }

func (s *clientSender) call(ctx context.Context, kind string, j int) (ua.Response, error) {
	switch kind {
	case "read":
		r, err := s.c.Read(ctx, readReq(j))
		if r == nil {
			return nil, err
		}
		return r, err
	case "browse":
		r, err := s.c.Browse(ctx, browseReq(j))
		if r == nil {
			return nil, err
		}
		return r, err
	default:
		r, err := s.c.Write(ctx, writeReq(j))
		if r == nil {
			return nil, err
		}
		return r, err
	}
}
func (s *clientSender) pending() int {
	if sc := s.c.SecureChannel(); sc != nil {
		return sc.VerifPendingHandlers()
	}
	return -1
}
func (s *clientSender) close() {
	ctx, cancel := context.WithTimeout(context.Background(), 3*time.Second)
	defer cancel()
	_ = s.c.Close(ctx)
}

type rawSender struct {
	sc      *uasc.SecureChannel
	conn    *uacp.Conn
	timeout time.Duration
}

var errRawMistyped = errors.New("c18: raw handler got a response of another type")

func (s *rawSender) call(ctx context.Context, kind string, j int) (ua.Response, error) {
	var req ua.Request
	switch kind {
	case "read":
		req = readReq(j)
	case "browse":
		req = browseReq(j)
	default:
		req = writeReq(j)
	}
	var got ua.Response
	err := s.sc.SendRequestWithTimeout(ctx, req, nil, s.timeout, func(v ua.Response) error {
		ok := false
		switch kind {
		case "read":
			_, ok = v.(*ua.ReadResponse)
		case "browse":
			_, ok = v.(*ua.BrowseResponse)
		default:
			_, ok = v.(*ua.WriteResponse)
		}
		if !ok {
			return errRawMistyped
		}
		got = v
		return nil
	})
	return got, err
}
func (s *rawSender) pending() int { return s.sc.VerifPendingHandlers() }
func (s *rawSender) close() {
	s.conn.Close()
	go func() {
		defer func() { _ = recover() }()
		_ = s.sc.Close()
	}()
}

func connect(c Case, url string) (sender, error) {
	timeout := time.Duration(c.TimeoutMs) * time.Millisecond
	ctx, cancel := context.WithTimeout(context.Background(), 20*time.Second)
	defer cancel()
	if c.Mode == "client" {
		// AutoReconnect is off: with it, any ServiceFault makes the client tear
		// the channel down and reconnect, which is outside this property
		opts := []opcua.Option{opcua.SecurityMode(ua.MessageSecurityModeNone), opcua.RequestTimeout(timeout), opcua.AutoReconnect(false)}
		if c.Seed == "random" {
			opts = append(opts, opcua.RandomRequestID())
		}
		cl, err := opcua.NewClient(url, opts...)
		if err != nil {
			return nil, err
		}
		// Connect itself runs with a generous timeout budget: retry a few times
		// because its own requests use the short request timeout
		var cerr error
		for try := 0; try < 5; try++ {
			if cerr = cl.Connect(ctx); cerr == nil {
				return &clientSender{cl}, nil
			}
			cl, err = opcua.NewClient(url, opts...)
			if err != nil {
				return nil, err
			}
		}
		return nil, cerr
	}
	var lastErr error
	for try := 0; try < 5; try++ {
		conn, err := uacp.Dial(ctx, url)
		if err != nil {
			lastErr = err
			continue
		}
		errch := make(chan error, 64)
		go func() {
			for range errch {
			}
		}()
		cfg := &uasc.Config{SecurityPolicyURI: ua.SecurityPolicyURINone, SecurityMode: ua.MessageSecurityModeNone, Lifetime: 3600_000,
			RequestTimeout: timeout, RequestIDSeed: c.SeedVal}
		sc, err := uasc.NewSecureChannel(url, conn, cfg, errch)
		if err != nil {
			conn.Close()
			return nil, err
		}
		if err := sc.Open(ctx); err != nil {
			conn.Close()
			lastErr = err
			continue
		}
		return &rawSender{sc: sc, conn: conn, timeout: timeout}, nil
	}
	return nil, lastErr
}

// ---------------------------------------------------------------------------
// one execution of a case

type outcome struct {
	Infra      string // harness problem (not a verdict)
	Safety     string // violation that one observation proves
	Liveness   string // violation that depends on timing (re-executed before it counts)
	Nontrivial bool
	Classes    []string
	Counts     map[string]int64
	Starved    time.Duration // worst wake-up overshoot of this process during the run
}

func flatten(c Case) (reqs []Req, chains [][]int) {
	for _, ch := range c.Callers {
		var idx []int
		for _, r := range ch {
			idx = append(idx, len(reqs))
			reqs = append(reqs, r)
		}
		chains = append(chains, idx)
	}
	return
}

func stacks() string {
	buf := make([]byte, 1<<20)
	n := runtime.Stack(buf, true)
	s := string(buf[:n])
	if len(s) > 12000 {
		s = s[:12000] + "\n...(truncated)"
	}
	return s
}

func execute(c Case) (o outcome) {
	o.Counts = map[string]int64{}
	reqs, chains := flatten(c)
	if len(reqs) == 0 {
		o.Infra = "empty case"
		return
	}
	w := &world{c: c, reqs: reqs, start: make([]time.Time, len(reqs)), arrAt: map[int]time.Time{}, done: make(chan struct{})}
	defer close(w.done)
	srv, err := script.Start(script.Options{Handle: w.handle})
	if err != nil {
		o.Infra = "script.Start: " + err.Error()
		return
	}
	defer srv.Close()
	snd, err := connect(c, srv.URL)
	if err != nil {
		o.Infra = "connect: " + err.Error()
		return
	}
	defer snd.close()
	base := snd.pending()

	T := time.Duration(c.TimeoutMs) * time.Millisecond
	results := make([]result, len(reqs))
	for j := range results {
		results[j].J = j
		results[j].Skipped = true
	}
	var rmu sync.Mutex
	startGate := make(chan struct{})
	var wg sync.WaitGroup
	for _, chain := range chains {
		wg.Add(1)
		go func(chain []int) {
			defer wg.Done()
			<-startGate
			for _, j := range chain {
				r := result{J: j, Start: time.Now()}
				rmu.Lock()
				w.start[j] = r.Start
				rmu.Unlock()
				done := make(chan struct{})
				go func() {
					defer close(done)
					defer func() {
						if p := recover(); p != nil {
							r.Panic = fmt.Sprint(p)
						}
					}()
					resp, err := snd.call(context.Background(), reqs[j].Kind, j)
					r.Err = err
					if resp != nil && resp.Header() != nil {
						r.Got = true
						r.Type = fmt.Sprintf("%T", resp)
						if st := resp.Header().StringTable; len(st) == 3 && st[0] == "c18" {
							r.Marker = st[1]
							r.Serial, _ = strconv.Atoi(st[2])
						}
					}
				}()
				select {
				case <-done:
					r.End = time.Now()
				case <-time.After(T + 20*time.Second):
					// the call neither returned a response nor an error long after its
					// timeout; abandon this caller
					r = result{J: j, Start: r.Start, Hung: true, End: time.Now()}
					rmu.Lock()
					results[j] = r
					rmu.Unlock()
					return
				}
				rmu.Lock()
				results[j] = r
				rmu.Unlock()
			}
		}(chain)
	}
	hb := starve.Begin()
	popMu.Lock()
	pops = pops[:0]
	popMu.Unlock()
	runStart := time.Now()
	close(startGate)
	wg.Wait()
	o.Starved = hb.Settle()
	// let late responses and duplicates reach the client before the final look
	time.Sleep(5 * time.Millisecond)

	w.mu.Lock()
	sent := append([]sentRec(nil), w.sent...)
	arrival := append([]int(nil), w.arrival...)
	w.mu.Unlock()

	// ----- classes
	o.Classes = append(o.Classes, "mode:"+c.Mode, "seed:"+c.Seed)
	n := len(c.Callers)
	switch {
	case n < 4:
		o.Classes = append(o.Classes, "callers:2-3")
	case n <= 8:
		o.Classes = append(o.Classes, "callers:4-8")
	case n <= 16:
		o.Classes = append(o.Classes, "callers:9-16")
	default:
		o.Classes = append(o.Classes, "callers:17-32")
	}
	if len(reqs) > n {
		o.Classes = append(o.Classes, "has-sequential-requests")
	}
	// did the request ids cross the wrap? ids used: 1 (OPN) + len(reqs), starting at seed+1
	if c.Mode == "raw" && uint64(c.SeedVal)+uint64(len(reqs))+1 > 0xFFFFFFFF {
		o.Classes = append(o.Classes, "request-ids-cross-2^32")
		wrapped := false
		for _, s := range sent {
			if s.Kind == "resp" && s.ReqID < 0x1000 {
				wrapped = true
			}
		}
		if wrapped {
			o.Classes = append(o.Classes, "request-ids-cross-2^32:observed-on-wire")
		}
	}
	// realised response order vs arrival order
	var order []int
	seenJ := map[int]bool{}
	special := false
	for _, s := range sent {
		if s.Kind == "resp" && !seenJ[s.J] {
			seenJ[s.J] = true
			order = append(order, s.J)
		}
	}
	var arrAnswered []int
	for _, j := range arrival {
		if seenJ[j] {
			arrAnswered = append(arrAnswered, j)
		}
	}
	permuted := false
	for i := range order {
		if i < len(arrAnswered) && order[i] != arrAnswered[i] {
			permuted = true
		}
	}
	if permuted {
		o.Classes = append(o.Classes, "order:permuted")
	} else {
		o.Classes = append(o.Classes, "order:as-arrived")
	}
	for _, r := range reqs {
		o.Counts["req:"+r.Action]++
		o.Counts["req:kind-"+r.Kind]++
		if r.Unsol != "" {
			o.Counts["req:unsolicited-"+r.Unsol]++
		}
		if r.AfterK > 0 {
			o.Counts["req:after-k-others"]++
		}
		switch r.Action {
		case "drop", "dup", "mistype":
			special = true
		}
	}
	wrapChain := n < 4 && c.Seed == "wrap" && len(reqs) > n
	if wrapChain {
		o.Classes = append(o.Classes, "wrap-chain(few callers, sequential abandoned requests across the id wrap)")
	}
	o.Nontrivial = (n >= 4 && (permuted || special)) || (wrapChain && (special || o.Counts["req:late"] > 0))

	// ----- oracle
	kindOf := map[int]sentRec{}
	firstSent := map[int]time.Time{}
	for _, s := range sent {
		kindOf[s.Serial] = s
		if s.Kind == "resp" && !s.Done.IsZero() {
			if _, ok := firstSent[s.J]; !ok {
				firstSent[s.J] = s.Done
			}
		}
	}
	serialSeen := map[int]int{}
	var safety, liveness []string
	for j, r := range results {
		q := reqs[j]
		if r.Skipped {
			continue
		}
		if r.Hung {
			o.Counts["outcome:call-did-not-return"]++
			if _, ok := firstSent[j]; ok && (q.Action == "ok" || q.Action == "dup") {
				liveness = append(liveness, fmt.Sprintf("request %d (%s/%s): the call did not return within timeout+20 s although its response was sent\n%s", j, q.Kind, q.Action, stacks()))
			}
			continue
		}
		if r.Panic != "" {
			safety = append(safety, fmt.Sprintf("request %d (%s/%s as %s): the call panicked: %s", j, q.Kind, q.Action, q.As, r.Panic))
			continue
		}
		if r.Got {
			if r.Marker != marker(j) {
				safety = append(safety, fmt.Sprintf("request %d (%s) got the response carrying marker %q (serial %d), err=%v", j, q.Kind, r.Marker, r.Serial, r.Err))
			}
			if s, ok := kindOf[r.Serial]; ok && s.Kind == "unsol" {
				safety = append(safety, fmt.Sprintf("request %d (%s) got the unsolicited response serial %d sent with the unused request id %d", j, q.Kind, r.Serial, s.ReqID))
			}
			if prev, dup := serialSeen[r.Serial]; dup {
				safety = append(safety, fmt.Sprintf("response serial %d was handed to two callers (requests %d and %d)", r.Serial, prev, j))
			}
			serialSeen[r.Serial] = j
		}
		if r.Err == nil {
			switch {
			case !r.Got:
				safety = append(safety, fmt.Sprintf("request %d (%s/%s): the call returned neither a response nor an error", j, q.Kind, q.Action))
			case q.Action == "mistype":
				safety = append(safety, fmt.Sprintf("request %d (%s) was answered with a %s response and the call returned no error (got %s)", j, q.Kind, q.As, r.Type))
			case q.Action == "fault" || q.Action == "badstatus":
				safety = append(safety, fmt.Sprintf("request %d (%s) was answered with service result %v and the call returned no error", j, q.Kind, ua.StatusCode(q.Status)))
			case q.Action == "drop":
				safety = append(safety, fmt.Sprintf("request %d (%s) was never answered and the call returned no error", j, q.Kind))
			}
		}
		// what the caller saw, for the class table
		switch {
		case r.Err == nil:
			o.Counts["outcome:own-response"]++
		case errors.Is(r.Err, ua.StatusBadTimeout):
			o.Counts["outcome:timeout"]++
		case q.Status != 0 && errors.Is(r.Err, ua.StatusCode(q.Status)):
			o.Counts["outcome:error-carries-service-result"]++
		case isInvalidType(r.Err):
			o.Counts["outcome:invalid-response-type-error"]++
		default:
			o.Counts["outcome:other-error"]++
		}
		// liveness: the response was on the wire well before the timeout
		fs, wasSent := firstSent[j]
		inTime := wasSent && fs.Sub(r.Start) <= T-150*time.Millisecond
		if !inTime {
			if wasSent && q.Action != "late" {
				o.Counts["note:response-sent-too-late-to-judge"]++
			}
			continue
		}
		switch q.Action {
		case "ok", "dup":
			if r.Err != nil {
				liveness = append(liveness, fmt.Sprintf("request %d (%s/%s): its response (sent %v after the call started, timeout %v) did not reach the caller, which returned after %v: %v", j, q.Kind, q.Action, fs.Sub(r.Start).Round(time.Millisecond), T, r.End.Sub(r.Start).Round(time.Millisecond), r.Err))
			}
		case "fault", "badstatus":
			if r.Err != nil && !errors.Is(r.Err, ua.StatusCode(q.Status)) {
				liveness = append(liveness, fmt.Sprintf("request %d (%s/%s): answered with %v after %v but the call failed with %v", j, q.Kind, q.Action, ua.StatusCode(q.Status), fs.Sub(r.Start).Round(time.Millisecond), r.Err))
			}
		case "mistype":
			if r.Err != nil && errors.Is(r.Err, ua.StatusBadTimeout) {
				liveness = append(liveness, fmt.Sprintf("request %d (%s as %s): the mistyped response sent after %v was not reported, the call timed out", j, q.Kind, q.As, fs.Sub(r.Start).Round(time.Millisecond)))
			}
		}
	}
	_ = base
	sort.Strings(safety)
	if len(safety) > 0 {
		o.Safety = strings.Join(safety, "; ")
	}
	if len(liveness) > 0 {
		if o.Starved > starvedLimit {
			// this process did not get the CPU in time: later-than verdicts of this
			// execution are not trusted
			o.Counts["note:timing-verdict-dropped-process-starved"]++
		} else {
			o.Liveness = fmt.Sprintf("%s (worst wake-up overshoot of the harness during the run: %v; %s)", strings.Join(liveness, "; "), o.Starved.Round(time.Millisecond), dispatcherTimeline(runStart))
		}
	}
	return
}

func isInvalidType(err error) bool {
	var e opcua.InvalidResponseTypeError
	return errors.As(err, &e) || errors.Is(err, errRawMistyped)
}

// judge executes the case; a timing dependent failure only counts when it
// shows in three executions out of three (DESIGN 3.4).
func judge(c Case) (msg string, o outcome) {
	o = execute(c)
	if o.Infra != "" {
		return "", o
	}
	if o.Safety != "" {
		return o.Safety, o
	}
	if o.Liveness == "" {
		return "", o
	}
	first := o.Liveness
	for i := 0; i < 2; i++ {
		time.Sleep(150 * time.Millisecond)
		o2 := execute(c)
		if o2.Infra != "" {
			rec.Inconclusive()
			return "", o
		}
		if o2.Safety != "" {
			return o2.Safety, o
		}
		if o2.Liveness == "" {
			rec.Inconclusive()
			rec.Class("timing-failure-not-reproduced")
			b, _ := json.Marshal(c)
			fmt.Printf("C18 timing failure not reproduced (run %d held): %s\ncase: %s\n", i+2, first, b)
			return "", o
		}
	}
	return "3/3 executions: " + first, o
}

func record(c Case, o outcome) {
	b, _ := json.Marshal(c)
	rec.Case(o.Nontrivial, ev.Hash(b), o.Classes...)
	keys := make([]string, 0, len(o.Counts))
	for k := range o.Counts {
		keys = append(keys, k)
	}
	sort.Strings(keys)
	for _, k := range keys {
		rec.ClassN(k, o.Counts[k])
	}
}

func TestOwnResponse(t *testing.T) {
	rec.Assume("scripted server = gopcua's public server-side channel API (pkg/script); every response instance carries marker+serial in ResponseHeader.StringTable")
	rec.Assume("opcua.Client runs with AutoReconnect(false): with auto-reconnect any ServiceFault makes the client tear the channel down (dispatcher forwards every bad service result to the client's error channel), which is outside C18")
	rec.Assume("the opcua package only exposes RandomRequestID (31 bit); request id wrap-around is driven through a raw uasc client channel with Config.RequestIDSeed")
	rec.Assume("liveness verdicts (a response sent at least 150 ms before the request timeout must reach its caller; fault status carried) count only when 3 executions out of 3 fail; safety verdicts (foreign marker, serial seen twice, unsolicited response delivered, wrong type / fault / drop returned without error, panic) count on one observation")
	rapid.Check(t, func(t *rapid.T) {
		c := genCase(t)
		rec.Journal("TestOwnResponse", c)
		msg, o := judge(c)
		rec.JournalDone("TestOwnResponse")
		if o.Infra != "" {
			rec.Class("infra:" + strings.SplitN(o.Infra, ":", 2)[0])
			t.Skip(o.Infra)
		}
		record(c, o)
		if o.Nontrivial && rec.WantSample() {
			rec.Sample(c)
		}
		if msg != "" {
			rec.Fail(t, "TestOwnResponse", c, "%s", msg)
		}
	})
}

// TestReplay re-runs a saved case without rapid.
func TestReplay(t *testing.T) {
	rp, err := ev.LoadReplay()
	if err != nil {
		t.Fatal(err)
	}
	if rp == nil {
		t.Skip("no VERIF_REPLAY")
	}
	var c Case
	if err := json.Unmarshal(rp.Case, &c); err != nil {
		t.Fatal(err)
	}
	fmt.Println("REPLAYED structured")
	if n, _ := strconv.Atoi(os.Getenv("VERIF_C18_SOAK")); n > 0 {
		// development aid: how often does a single execution of this case fail?
		fails := 0
		for i := 0; i < n; i++ {
			o := execute(c)
			if o.Safety != "" || o.Liveness != "" {
				fails++
				fmt.Printf("soak %d: safety=%q liveness=%q\n", i, o.Safety, o.Liveness)
			}
		}
		fmt.Printf("soak: %d of %d executions failed\n", fails, n)
		return
	}
	msg, o := judge(c)
	if o.Infra != "" {
		t.Skipf("infrastructure: %s", o.Infra)
	}
	if msg != "" {
		t.Fatalf("property C18 violated: %s", msg)
	}
}
