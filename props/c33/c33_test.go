// Package c33 decides property C33: Browse returns exactly the matching
// references.
//
// Domain: the standard address space (namespace 0, imported nodeset) plus a
// generated NodeNameSpace per case (20-60 nodes of all node classes, references
// in both directions, reference types including custom subtypes of
// HasComponent / Organizes / NonHierarchicalReferences that live in the
// generated namespace, targets in the generated namespace, in namespace 0 and
// dangling). Queries: node x direction {Forward, Inverse, Both} x reference type
// {null, standard abstract and concrete types, custom types, unknown id, id of
// a node that is not a reference type} x includeSubtypes x node class mask.
//
// Oracle (metamorphic + reference):
//
//	base(n)     = Browse(n, Both, null reference type, includeSubtypes=true, mask 0, all result fields),
//	              sent in the same request as the filtered queries
//	children(t) = { r.target | r in base(t), r.type == HasSubtype, r.isForward }   (through the client)
//	closure(q)  = strict descendants of q over children()
//	expected(q) = { r in base(n) | direction ok
//	                           and (q null or r.type == q or (includeSubtypes and r.type in closure(q)))
//	                           and (mask == 0 or r.nodeClass & mask != 0) }
//
// compared with the filtered result as multisets of (reference type id,
// isForward, target id). For a reference type id that is not a reference type
// known to the server, an empty result or a Bad status is accepted as well.
// For generated nodes base(n) itself is compared with the references the case
// put on the node (reference model).
package c33

import (
	"context"
	"encoding/json"
	"fmt"
	"sort"
	"strings"
	"sync"
	"sync/atomic"
	"testing"
	"time"

	"github.com/gopcua/opcua"
	"github.com/gopcua/opcua/id"
	"github.com/gopcua/opcua/server"
	"github.com/gopcua/opcua/server/attrs"
	"github.com/gopcua/opcua/ua"
	"pgregory.net/rapid"

	"verif/pkg/ev"
	"verif/pkg/stack"
)

func TestMain(m *testing.M) { ev.Main(m) }

var rec = ev.For("C33", "browse queries (node x direction x reference type x includeSubtypes x class mask) against namespace 0, a server.MapNamespace and rapid-generated namespaces (20-60 nodes, up to four custom reference types whose node ids are numeric, string, GUID, opaque, or numeric ids equal to namespace-0 reference type ids); non-trivial = the unfiltered reference list of the node has at least 2 references and the expected result is a non-empty proper subset of it; distinct by hash of (node, unfiltered reference multiset, query)")

// ---------------------------------------------------------------------------
// case data

// refSpec is one reference put on a generated node.
type refSpec struct {
	Type    string `json:"type"`             // symbolic reference type (see typeID)
	Forward bool   `json:"forward"`          //
	TKind   string `json:"tkind"`            // gen | ns0 | missing
	TIdx    int    `json:"tidx,omitempty"`   // gen: node index
	TID     uint32 `json:"tid,omitempty"`    // ns0: numeric id; missing: numeric id in an unused namespace
	TClass  uint32 `json:"tclass,omitempty"` // missing: node class stored in the reference
	Mirror  bool   `json:"mirror,omitempty"` // gen targets: the target also gets the opposite reference
}

type nodeSpec struct {
	Class  uint32    `json:"class"`
	IDKind string    `json:"id_kind"` // i | s | g | b
	Refs   []refSpec `json:"refs"`
}

type nsSpec struct {
	Nodes  []nodeSpec `json:"nodes"`
	Custom []string   `json:"custom"` // which custom reference types exist: custA custB custA2 custN
	// CustomIDs: node ids of the custom reference types: "" / "numeric" =
	// (ns, 500+i); "string" / "guid" / "opaque" = non-numeric ids (IntID 0 for
	// all of them); "collide" = numeric ids that equal ns0 reference type ids
	// (custA = (ns,47) like HasComponent, custB = (ns,35), custA2 = (ns,33), custN = (ns,32))
	CustomIDs string `json:"custom_ids,omitempty"`
	Link   string     `json:"link"`   // reference type from ns0 Objects to the generated Objects folder
}

type query struct {
	NKind string `json:"nkind"`          // gen | ns0 | genobjects | custom
	NIdx  int    `json:"nidx,omitempty"` // gen
	NID   uint32 `json:"nid,omitempty"`  // ns0
	NName string `json:"nname,omitempty"`
	Dir   uint32 `json:"dir"`  // 0 forward 1 inverse 2 both
	Type  string `json:"type"` // symbolic
	Sub   bool   `json:"sub"`
	Mask  uint32 `json:"mask"`
}

type caseT struct {
	NS      nsSpec  `json:"ns"`
	Queries []query `json:"queries"`
}

// standard reference types used by generator and queries
var stdTypes = map[string]uint32{
	"References": id.References, "NonHierarchical": id.NonHierarchicalReferences, "Hierarchical": id.HierarchicalReferences,
	"HasChild": id.HasChild, "Organizes": id.Organizes, "HasEventSource": id.HasEventSource, "HasModellingRule": id.HasModellingRule,
	"HasEncoding": id.HasEncoding, "HasDescription": id.HasDescription, "HasTypeDefinition": id.HasTypeDefinition,
	"GeneratesEvent": id.GeneratesEvent, "Aggregates": id.Aggregates, "HasSubtype": id.HasSubtype, "HasProperty": id.HasProperty,
	"HasComponent": id.HasComponent, "HasNotifier": id.HasNotifier, "HasOrderedComponent": id.HasOrderedComponent,
}

// concrete types that generated references may carry
var refTypeNames = []string{"Organizes", "Organizes", "HasComponent", "HasComponent", "HasProperty", "HasTypeDefinition", "HasSubtype",
	"HasOrderedComponent", "HasEventSource", "HasNotifier", "GeneratesEvent", "HasModellingRule", "HasDescription"}

var customParents = map[string]string{"custA": "HasComponent", "custB": "Organizes", "custA2": "custA", "custN": "NonHierarchical"}
var customOrder = []string{"custA", "custB", "custA2", "custN"}

var queryTypeNames = []string{"null", "References", "Hierarchical", "NonHierarchical", "HasChild", "Aggregates", "Organizes", "HasComponent",
	"HasProperty", "HasSubtype", "HasTypeDefinition", "HasEventSource", "HasOrderedComponent", "custA", "custB", "custA2", "custN",
	"unknown-ns0", "unknown-gen", "unknown-string", "notreftype-objects", "notreftype-gen"}

var classes = []uint32{1, 2, 4, 8, 16, 32, 64, 128}

// superType steers the query generator only (the oracle derives the hierarchy from the server's own HasSubtype references).
var superType = map[string]string{"custA2": "custA", "custA": "HasComponent", "custB": "Organizes", "custN": "NonHierarchical",
	"HasOrderedComponent": "HasComponent", "HasComponent": "Aggregates", "HasProperty": "Aggregates", "Aggregates": "HasChild",
	"HasSubtype": "HasChild", "HasChild": "Hierarchical", "Organizes": "Hierarchical", "HasNotifier": "HasEventSource",
	"HasEventSource": "Hierarchical", "Hierarchical": "References", "NonHierarchical": "References", "HasTypeDefinition": "NonHierarchical",
	"GeneratesEvent": "NonHierarchical", "HasModellingRule": "NonHierarchical", "HasDescription": "NonHierarchical"}

var ns0Targets = []uint32{id.BaseObjectType, id.FolderType, id.BaseDataVariableType, id.PropertyType, id.ObjectsFolder, id.Server, id.BaseEventType, id.ModellingRule_Mandatory}

// ---------------------------------------------------------------------------
// generators

func genMask(t *rapid.T) uint32 {
	switch rapid.IntRange(0, 9).Draw(t, "maskkind") {
	case 0, 1, 2:
		return 0
	case 3, 4:
		return rapid.SampledFrom(classes).Draw(t, "maskbit")
	case 5, 6:
		return uint32(rapid.IntRange(1, 255).Draw(t, "maskunion"))
	case 7:
		return 0xff
	case 8:
		return rapid.SampledFrom([]uint32{0x100, 0xffffffff, 0x80000001, 3, 1 | 2 | 4}).Draw(t, "maskodd")
	}
	return uint32(rapid.SampledFrom(classes).Draw(t, "maskbit2") | rapid.SampledFrom(classes).Draw(t, "maskbit3"))
}

func genQueryParams(t *rapid.T, q *query) {
	q.Dir = uint32(rapid.IntRange(0, 2).Draw(t, "dir"))
	q.Type = rapid.SampledFrom(queryTypeNames).Draw(t, "qtype")
	q.Sub = rapid.Bool().Draw(t, "sub")
	q.Mask = genMask(t)
}

func genNS(t *rapid.T) nsSpec {
	var s nsSpec
	for _, c := range customOrder {
		if rapid.IntRange(0, 3).Draw(t, "has-"+c) > 0 {
			if p := customParents[c]; strings.HasPrefix(p, "cust") && !contains(s.Custom, p) {
				continue
			}
			s.Custom = append(s.Custom, c)
		}
	}
	s.CustomIDs = rapid.SampledFrom([]string{"numeric", "numeric", "string", "string", "guid", "opaque", "collide", "collide"}).Draw(t, "customIDs")
	s.Link = rapid.SampledFrom([]string{"Organizes", "HasComponent"}).Draw(t, "link")
	n := rapid.IntRange(20, 60).Draw(t, "nodes")
	types := append([]string{}, refTypeNames...)
	for _, c := range s.Custom {
		types = append(types, c, c)
	}
	for i := 0; i < n; i++ {
		nd := nodeSpec{Class: rapid.SampledFrom(classes).Draw(t, "class"), IDKind: rapid.SampledFrom([]string{"i", "i", "s", "g", "b"}).Draw(t, "idkind")}
		nr := rapid.IntRange(0, 6).Draw(t, "nrefs")
		for j := 0; j < nr; j++ {
			r := refSpec{Type: rapid.SampledFrom(types).Draw(t, "rtype"), Forward: rapid.IntRange(0, 3).Draw(t, "fwd") > 0}
			switch k := rapid.IntRange(0, 9).Draw(t, "tkind"); {
			case k < 7:
				r.TKind = "gen"
				r.TIdx = rapid.IntRange(0, n-1).Draw(t, "tidx")
				r.Mirror = rapid.Bool().Draw(t, "mirror")
			case k < 9:
				r.TKind = "ns0"
				r.TID = rapid.SampledFrom(ns0Targets).Draw(t, "tns0")
			default:
				r.TKind = "missing"
				r.TID = uint32(rapid.IntRange(1, 50).Draw(t, "tmissing"))
				r.TClass = rapid.SampledFrom(append([]uint32{0}, classes...)).Draw(t, "tclass")
			}
			if r.Type == "HasSubtype" {
				// keep the HasSubtype graph acyclic: forward only to a higher index of the generated namespace
				if r.TKind != "gen" || i == n-1 {
					r.Type = "Organizes"
				} else {
					r.Forward = true
					r.TIdx = rapid.IntRange(i+1, n-1).Draw(t, "subidx")
				}
			}
			nd.Refs = append(nd.Refs, r)
		}
		s.Nodes = append(s.Nodes, nd)
	}
	return s
}

func genCase(t *rapid.T, ns0 []uint32) caseT {
	nNS0 := len(ns0)
	var c caseT
	c.NS = genNS(t)
	for i, nd := range c.NS.Nodes {
		k := rapid.IntRange(1, 3).Draw(t, "qpernode")
		for j := 0; j < k; j++ {
			q := query{NKind: "gen", NIdx: i}
			genQueryParams(t, &q)
			// half of the time ask for a type one of the node's references has, or one of its supertypes
			if len(nd.Refs) > 0 && rapid.Bool().Draw(t, "type-from-refs") {
				ty := nd.Refs[rapid.IntRange(0, len(nd.Refs)-1).Draw(t, "refpick")].Type
				for up := rapid.IntRange(0, 3).Draw(t, "up"); up > 0 && superType[ty] != ""; up-- {
					ty = superType[ty]
				}
				q.Type = ty
			}
			c.Queries = append(c.Queries, q)
		}
	}
	for j := 0; j < 4; j++ {
		q := query{NKind: "genobjects"}
		genQueryParams(t, &q)
		c.Queries = append(c.Queries, q)
	}
	for _, cu := range c.NS.Custom {
		q := query{NKind: "custom", NName: cu}
		genQueryParams(t, &q)
		c.Queries = append(c.Queries, q)
	}
	// namespace 0: nodes whose references the case changed, and a sample of all others
	for _, nid := range []uint32{id.ObjectsFolder, id.HasComponent, id.Organizes, id.NonHierarchicalReferences} {
		q := query{NKind: "ns0", NID: nid}
		genQueryParams(t, &q)
		c.Queries = append(c.Queries, q)
	}
	for j := 0; j < 12; j++ {
		q := query{NKind: "ns0", NID: uint32(rapid.IntRange(0, nNS0-1).Draw(t, "ns0idx"))}
		q.NID = ns0[q.NID]
		k := rapid.IntRange(1, 3).Draw(t, "qperns0")
		for x := 0; x < k; x++ {
			qq := q
			genQueryParams(t, &qq)
			c.Queries = append(c.Queries, qq)
		}
	}
	return c
}

func contains(xs []string, s string) bool {
	for _, x := range xs {
		if x == s {
			return true
		}
	}
	return false
}

// ---------------------------------------------------------------------------
// fixture

type fixture struct {
	srv   *stack.Server
	cli   *opcua.Client
	ns0   []uint32 // numeric ids of all namespace-0 nodes
	mapNS uint16   // index of an added server.MapNamespace with three keys
}

var (
	fixOnce sync.Once
	fix     fixture
	fixErr  error
	nsNo    atomic.Uint64
)

// resetFixture drops the server so that the next case starts a fresh one. Every
// case adds reference types below HasComponent / Organizes / NonHierarchicalReferences
// of namespace 0 (the server API cannot remove them); the server walks the whole
// subtype tree once per reference of a browsed node, so an ever growing tree only
// slows the campaign down.
func resetFixture() {
	old := fix
	fix = fixture{}
	fixOnce = sync.Once{}
	go func() {
		if old.cli != nil {
			ctx, cancel := context.WithTimeout(context.Background(), 10*time.Second)
			defer cancel()
			_ = old.cli.Close(ctx)
		}
		if old.srv != nil {
			old.srv.Close()
		}
	}()
}

func getFixture() (*fixture, error) {
	fixOnce.Do(func() {
		fix.srv, fixErr = stack.StartServer(stack.ServerOpts{})
		if fixErr != nil {
			return
		}
		// the other kind of added namespace the server package offers
		mns := server.NewMapNamespace(fix.srv.S, "c33map")
		mns.Mu.Lock()
		mns.Data["alpha"], mns.Data["beta"], mns.Data["gamma"] = int32(1), "two", 3.0
		mns.Mu.Unlock()
		fix.mapNS = mns.ID()
		fix.cli, fixErr = stack.Connect(fix.srv.URL, opcua.SecurityMode(ua.MessageSecurityModeNone), opcua.RequestTimeout(120*time.Second))
		if fixErr != nil {
			return
		}
		for i := uint32(1); i < 1<<16; i++ {
			if fix.srv.S.Node(ua.NewNumericNodeID(0, i)) != nil {
				fix.ns0 = append(fix.ns0, i)
			}
		}
		if len(fix.ns0) < 100 {
			fixErr = fmt.Errorf("only %d namespace-0 nodes found", len(fix.ns0))
		}
	})
	return &fix, fixErr
}

// world is the generated namespace of one case.
type world struct {
	f      *fixture
	spec   nsSpec
	ns     *server.NodeNameSpace
	ids    []*ua.NodeID          // generated nodes
	custom map[string]*ua.NodeID // custom reference types
	model  map[string][]string   // node id -> reference keys the case put on it (generated nodes only)
}

func genNodeID(ns uint16, kind string, i int) *ua.NodeID {
	switch kind {
	case "s":
		return ua.NewStringNodeID(ns, fmt.Sprintf("n%d", i))
	case "g":
		return ua.NewGUIDNodeID(ns, fmt.Sprintf("%08X-0000-4000-8000-%012X", ns, i))
	case "b":
		return ua.NewByteStringNodeID(ns, []byte(fmt.Sprintf("n/%d", i)))
	}
	return ua.NewNumericNodeID(ns, uint32(1000+i))
}

func (w *world) typeID(name string) *ua.NodeID {
	if v, ok := stdTypes[name]; ok {
		return ua.NewNumericNodeID(0, v)
	}
	if v, ok := w.custom[name]; ok {
		return v
	}
	switch name {
	case "null":
		return ua.NewTwoByteNodeID(0)
	case "unknown-ns0":
		return ua.NewNumericNodeID(0, 999_999)
	case "unknown-gen":
		return ua.NewNumericNodeID(w.ns.ID(), 999_999)
	case "unknown-string":
		return ua.NewStringNodeID(w.ns.ID(), "no such reference type")
	case "notreftype-objects":
		return ua.NewNumericNodeID(0, id.ObjectsFolder)
	case "notreftype-gen":
		return w.ids[0]
	}
	if strings.HasPrefix(name, "cust") {
		// custom type that does not exist in this case
		return ua.NewNumericNodeID(w.ns.ID(), 800_000+uint32(len(name)))
	}
	return nil
}

// knownRefType reports whether the symbolic type is a reference type node of the server in this case.
func (w *world) knownRefType(name string) bool {
	if _, ok := stdTypes[name]; ok {
		return true
	}
	_, ok := w.custom[name]
	return ok
}

func refKey(t *ua.NodeID, fwd bool, target *ua.ExpandedNodeID) string {
	tk := "<nil>"
	if target != nil && target.NodeID != nil {
		tk = fmt.Sprintf("%s/%s/%d", target.NodeID.String(), target.NamespaceURI, target.ServerIndex)
	}
	ts := "<nil>"
	if t != nil {
		ts = t.String()
	}
	return fmt.Sprintf("%s %v %s", ts, fwd, tk)
}

func desc(target *ua.NodeID, name string, class uint32, typ *ua.NodeID, fwd bool) *ua.ReferenceDescription {
	return &ua.ReferenceDescription{
		ReferenceTypeID: typ,
		IsForward:       fwd,
		NodeID:          ua.NewExpandedNodeID(target, "", 0),
		BrowseName:      &ua.QualifiedName{NamespaceIndex: target.Namespace(), Name: name},
		DisplayName:     &ua.LocalizedText{EncodingMask: ua.LocalizedTextText, Text: name},
		NodeClass:       ua.NodeClass(class),
		TypeDefinition:  ua.NewTwoByteExpandedNodeID(0),
	}
}

func copyID(n *ua.NodeID) *ua.NodeID {
	c, err := ua.ParseNodeID(n.String())
	if err != nil {
		panic(err)
	}
	return c
}

// build creates the generated namespace on the shared server.
func build(f *fixture, spec nsSpec) (*world, error) {
	w := &world{f: f, spec: spec, custom: map[string]*ua.NodeID{}, model: map[string][]string{}}
	no := nsNo.Add(1)
	w.ns = server.NewNodeNameSpace(f.srv.S, fmt.Sprintf("urn:verif:c33:%d:%d", time.Now().UnixNano(), no))
	nsi := w.ns.ID()
	if nsi == 0 {
		return nil, fmt.Errorf("namespace was not registered")
	}
	n := len(spec.Nodes)
	if n == 0 {
		return nil, fmt.Errorf("malformed case: no nodes")
	}
	w.ids = make([]*ua.NodeID, n)
	for i, nd := range spec.Nodes {
		w.ids[i] = genNodeID(nsi, nd.IDKind, i)
	}
	for ci, c := range spec.Custom {
		if _, ok := customParents[c]; !ok {
			return nil, fmt.Errorf("malformed case: custom type %q", c)
		}
		switch spec.CustomIDs {
		case "", "numeric":
			w.custom[c] = ua.NewNumericNodeID(nsi, uint32(500+ci))
		case "string":
			w.custom[c] = ua.NewStringNodeID(nsi, "RefType."+c)
		case "guid":
			w.custom[c] = ua.NewGUIDNodeID(nsi, fmt.Sprintf("%08X-AAAA-4000-8000-%012X", nsi, 500+ci))
		case "opaque":
			w.custom[c] = ua.NewByteStringNodeID(nsi, []byte("reftype/"+c))
		case "collide":
			w.custom[c] = ua.NewNumericNodeID(nsi, map[string]uint32{"custA": id.HasComponent, "custB": id.Organizes, "custA2": id.HierarchicalReferences, "custN": id.NonHierarchicalReferences}[c])
		default:
			return nil, fmt.Errorf("malformed case: custom id kind %q", spec.CustomIDs)
		}
	}
	// reference lists of the generated nodes
	refs := make([][]*ua.ReferenceDescription, n)
	add := func(i int, typ *ua.NodeID, fwd bool, target *ua.NodeID, name string, class uint32) {
		refs[i] = append(refs[i], desc(copyID(target), name, class, copyID(typ), fwd))
		k := w.ids[i].String()
		w.model[k] = append(w.model[k], refKey(typ, fwd, ua.NewExpandedNodeID(copyID(target), "", 0)))
	}
	for i, nd := range spec.Nodes {
		for _, r := range nd.Refs {
			typ := w.typeID(r.Type)
			if typ == nil || !w.knownRefType(r.Type) {
				return nil, fmt.Errorf("malformed case: reference type %q", r.Type)
			}
			switch r.TKind {
			case "gen":
				if r.TIdx < 0 || r.TIdx >= n {
					return nil, fmt.Errorf("malformed case: target index")
				}
				if r.Type == "HasSubtype" && !(r.Forward && r.TIdx > i) {
					return nil, fmt.Errorf("malformed case: HasSubtype must point forward to a higher index")
				}
				add(i, typ, r.Forward, w.ids[r.TIdx], fmt.Sprintf("n%d", r.TIdx), spec.Nodes[r.TIdx].Class)
				if r.Mirror {
					add(r.TIdx, typ, !r.Forward, w.ids[i], fmt.Sprintf("n%d", i), nd.Class)
				}
			case "ns0":
				tn := f.srv.S.Node(ua.NewNumericNodeID(0, r.TID))
				if tn == nil {
					return nil, fmt.Errorf("malformed case: ns0 target %d", r.TID)
				}
				add(i, typ, r.Forward, ua.NewNumericNodeID(0, r.TID), tn.BrowseName().Name, uint32(tn.NodeClass()))
			case "missing":
				add(i, typ, r.Forward, ua.NewNumericNodeID(nsi+1000, r.TID), "missing", r.TClass)
			default:
				return nil, fmt.Errorf("malformed case: target kind %q", r.TKind)
			}
		}
	}
	nodes := make([]*server.Node, n)
	for i, nd := range spec.Nodes {
		am := map[ua.AttributeID]*ua.DataValue{
			ua.AttributeIDBrowseName: server.DataValueFromValue(attrs.BrowseName(fmt.Sprintf("n%d", i))),
			ua.AttributeIDNodeClass:  server.DataValueFromValue(uint32(nd.Class)),
		}
		var vf server.ValueFunc
		if nd.Class == uint32(ua.NodeClassVariable) {
			dv := server.DataValueFromValue(int32(i))
			vf = func() *ua.DataValue { return dv }
		}
		nodes[i] = server.NewNode(w.ids[i], am, refs[i], vf)
		w.ns.AddNode(nodes[i])
	}
	// custom reference types: a ReferenceType node in the generated namespace, wired below its parent
	for _, c := range spec.Custom {
		p := customParents[c]
		pid := w.typeID(p)
		if pid == nil || !w.knownRefType(p) {
			return nil, fmt.Errorf("malformed case: parent of %s missing", c)
		}
		pn := f.srv.S.Node(pid)
		if pn == nil {
			return nil, fmt.Errorf("parent reference type node %v not found", pid)
		}
		cn := server.NewNode(w.custom[c], map[ua.AttributeID]*ua.DataValue{
			ua.AttributeIDBrowseName: server.DataValueFromValue(attrs.BrowseName(c)),
			ua.AttributeIDNodeClass:  server.DataValueFromValue(uint32(ua.NodeClassReferenceType)),
		}, nil, nil)
		w.ns.AddNode(cn)
		pn.AddRef(cn, server.RefType(id.HasSubtype), true)
		cn.AddRef(pn, server.RefType(id.HasSubtype), false)
	}
	// link the namespace below the server's Objects folder, and the generated nodes below its own Objects folder
	root, err := f.srv.S.Namespace(0)
	if err != nil {
		return nil, err
	}
	link := server.RefType(stdTypes[spec.Link])
	if spec.Link != "Organizes" && spec.Link != "HasComponent" {
		return nil, fmt.Errorf("malformed case: link %q", spec.Link)
	}
	root.Objects().AddRef(w.ns.Objects(), link, true)
	w.ns.Objects().AddRef(root.Objects(), link, false)
	for i := range nodes {
		if i%3 == 0 {
			w.ns.Objects().AddRef(nodes[i], server.RefType(id.Organizes), true)
		}
	}
	return w, nil
}

func (w *world) queryNode(q query) (*ua.NodeID, error) {
	switch q.NKind {
	case "gen":
		if q.NIdx < 0 || q.NIdx >= len(w.ids) {
			return nil, fmt.Errorf("malformed case: query node index")
		}
		return w.ids[q.NIdx], nil
	case "ns0":
		return ua.NewNumericNodeID(0, q.NID), nil
	case "genobjects":
		return ua.NewNumericNodeID(w.ns.ID(), id.ObjectsFolder), nil
	case "mapobjects":
		return ua.NewNumericNodeID(w.f.mapNS, id.ObjectsFolder), nil
	case "maproot":
		return ua.NewNumericNodeID(w.f.mapNS, id.RootFolder), nil
	case "custom":
		if v, ok := w.custom[q.NName]; ok {
			return v, nil
		}
		return nil, fmt.Errorf("malformed case: custom node %q", q.NName)
	}
	return nil, fmt.Errorf("malformed case: node kind %q", q.NKind)
}

// ---------------------------------------------------------------------------
// browsing through the client

type browser struct {
	cli      *opcua.Client
	children map[string][]string // reference type id -> direct subtypes (HasSubtype forward targets), memoized
}

const allFields = uint32(ua.BrowseResultMaskAll)

var hasSubtypeKey = ua.NewNumericNodeID(0, id.HasSubtype).String()

func baseDesc(n *ua.NodeID) *ua.BrowseDescription {
	return &ua.BrowseDescription{NodeID: n, BrowseDirection: ua.BrowseDirectionBoth, ReferenceTypeID: ua.NewTwoByteNodeID(0), IncludeSubtypes: true, NodeClassMask: 0, ResultMask: allFields}
}

// browse sends one Browse request and follows continuation points.
func (b *browser) browse(ctx context.Context, descs []*ua.BrowseDescription) ([]*ua.BrowseResult, error) {
	req := &ua.BrowseRequest{View: &ua.ViewDescription{ViewID: ua.NewTwoByteNodeID(0)}, RequestedMaxReferencesPerNode: 0, NodesToBrowse: descs}
	resp, err := b.cli.Browse(ctx, req)
	if err != nil {
		return nil, err
	}
	if len(resp.Results) != len(descs) {
		return nil, fmt.Errorf("browse: %d results for %d descriptions", len(resp.Results), len(descs))
	}
	for _, r := range resp.Results {
		for len(r.ContinuationPoint) > 0 {
			nr, err := b.cli.BrowseNext(ctx, &ua.BrowseNextRequest{ContinuationPoints: [][]byte{r.ContinuationPoint}})
			if err != nil {
				return nil, fmt.Errorf("browse next: %w", err)
			}
			if len(nr.Results) != 1 {
				return nil, fmt.Errorf("browse next: %d results", len(nr.Results))
			}
			r.References = append(r.References, nr.Results[0].References...)
			r.ContinuationPoint = nr.Results[0].ContinuationPoint
			if nr.Results[0].StatusCode != ua.StatusOK {
				r.StatusCode = nr.Results[0].StatusCode
				break
			}
		}
	}
	return resp.Results, nil
}

// closure returns the strict descendants of the reference type q.
func (b *browser) closure(ctx context.Context, q *ua.NodeID) (map[string]bool, error) {
	out := map[string]bool{}
	level := []string{q.String()}
	for depth := 0; len(level) > 0; depth++ {
		if depth > 64 {
			return nil, fmt.Errorf("subtype hierarchy deeper than 64 (cycle?)")
		}
		var need []string
		for _, k := range level {
			if _, ok := b.children[k]; !ok {
				need = append(need, k)
			}
		}
		if len(need) > 0 {
			descs := make([]*ua.BrowseDescription, len(need))
			for i, k := range need {
				n, err := ua.ParseNodeID(k)
				if err != nil {
					return nil, err
				}
				descs[i] = baseDesc(n)
			}
			res, err := b.browse(ctx, descs)
			if err != nil {
				return nil, err
			}
			for i, k := range need {
				kids := []string{}
				if res[i].StatusCode == ua.StatusOK {
					for _, r := range res[i].References {
						if r.ReferenceTypeID != nil && r.ReferenceTypeID.String() == hasSubtypeKey && r.IsForward && r.NodeID != nil && r.NodeID.NodeID != nil {
							kids = append(kids, r.NodeID.NodeID.String())
						}
					}
				}
				b.children[k] = kids
			}
		}
		var next []string
		for _, k := range level {
			for _, kid := range b.children[k] {
				if !out[kid] {
					out[kid] = true
					next = append(next, kid)
				}
			}
		}
		level = next
	}
	return out, nil
}

type verdict struct {
	msg   string
	infra string
}

func keysOf(refs []*ua.ReferenceDescription) []string {
	out := make([]string, len(refs))
	for i, r := range refs {
		out[i] = refKey(r.ReferenceTypeID, r.IsForward, r.NodeID)
	}
	sort.Strings(out)
	return out
}

func diffMultiset(want, got []string) (missing, extra []string) {
	cnt := map[string]int{}
	for _, k := range want {
		cnt[k]++
	}
	for _, k := range got {
		cnt[k]--
	}
	ks := make([]string, 0, len(cnt))
	for k := range cnt {
		ks = append(ks, k)
	}
	sort.Strings(ks)
	for _, k := range ks {
		for c := cnt[k]; c > 0; c-- {
			missing = append(missing, k)
		}
		for c := cnt[k]; c < 0; c++ {
			extra = append(extra, k)
		}
	}
	return
}

func short(xs []string) string {
	if len(xs) > 4 {
		return fmt.Sprintf("%v ... (%d)", xs[:4], len(xs))
	}
	return fmt.Sprint(xs)
}

func dirName(d uint32) string { return [...]string{"Forward", "Inverse", "Both"}[d%3] }

func maskClass(m uint32) string {
	switch {
	case m == 0:
		return "mask:0"
	case m == 0xff:
		return "mask:0xff"
	case m&(m-1) == 0 && m <= 128:
		return "mask:single-bit"
	case m > 0xff:
		return "mask:beyond-8-bits"
	}
	return "mask:union"
}

// runGroup browses one node: the unfiltered base and the filtered queries in one
// request, and judges every query. journal names the test for crash attribution.
func runGroup(ctx context.Context, b *browser, w *world, test string, journalCase func(qs []query) any, node *ua.NodeID, qs []query) verdict {
	descs := []*ua.BrowseDescription{baseDesc(node)}
	type qinfo struct {
		typ     *ua.NodeID
		closure map[string]bool
	}
	infos := make([]qinfo, len(qs))
	for i, q := range qs {
		if q.Dir > 2 {
			return verdict{infra: "malformed case: direction"}
		}
		typ := w.typeID(q.Type)
		if typ == nil {
			return verdict{infra: "malformed case: query type " + q.Type}
		}
		infos[i].typ = typ
		if q.Type != "null" {
			cl, err := b.closure(ctx, typ)
			if err != nil {
				return verdict{infra: "closure: " + err.Error()}
			}
			infos[i].closure = cl
		}
		descs = append(descs, &ua.BrowseDescription{NodeID: node, BrowseDirection: ua.BrowseDirection(q.Dir), ReferenceTypeID: typ,
			IncludeSubtypes: q.Sub, NodeClassMask: q.Mask, ResultMask: allFields})
	}
	rec.Journal(test, journalCase(qs))
	res, err := b.browse(ctx, descs)
	rec.JournalDone(test)
	if err != nil {
		// ua.StatusBadTimeout is produced by the client when no answer arrived in time: not an answer of the server
		if sc, ok := err.(ua.StatusCode); ok && sc != ua.StatusBadTimeout {
			return verdict{msg: fmt.Sprintf("browse of %v with %d descriptions was answered with the service fault %v", node, len(descs), sc)}
		}
		return verdict{infra: "browse: " + err.Error()}
	}
	base := res[0]
	if base.StatusCode != ua.StatusOK {
		rec.Case(false, 0, "node:base-not-good")
		return verdict{}
	}
	baseKeys := keysOf(base.References)
	if model, ok := w.modelFor(node); ok {
		want := append([]string{}, model...)
		sort.Strings(want)
		if miss, extra := diffMultiset(want, baseKeys); len(miss)+len(extra) > 0 {
			return verdict{msg: fmt.Sprintf("unfiltered browse of generated node %v: missing %s, unexpected %s (node has %d references)", node, short(miss), short(extra), len(want))}
		}
		rec.Class("base:checked-against-model")
	}
	baseHash := strings.Join(baseKeys, "\n")
	for i, q := range qs {
		r := res[i+1]
		var want []string
		for _, ref := range base.References {
			if q.Dir == 0 && !ref.IsForward || q.Dir == 1 && ref.IsForward {
				continue
			}
			if q.Type != "null" {
				tk := ref.ReferenceTypeID.String()
				if tk != infos[i].typ.String() && !(q.Sub && infos[i].closure[tk]) {
					continue
				}
			}
			if q.Mask != 0 && uint32(ref.NodeClass)&q.Mask == 0 {
				continue
			}
			want = append(want, refKey(ref.ReferenceTypeID, ref.IsForward, ref.NodeID))
		}
		sort.Strings(want)
		got := keysOf(r.References)
		known := q.Type == "null" || w.knownRefType(q.Type)
		nontrivial := len(base.References) >= 2 && len(want) > 0 && len(want) < len(base.References)
		cls := []string{"dir:" + dirName(q.Dir), "type:" + q.Type, fmt.Sprintf("subtypes:%v", q.Sub), maskClass(q.Mask), "node:" + nodeClassOf(w, node)}
		switch {
		case len(want) == 0:
			cls = append(cls, "expected:empty")
		case len(want) == len(base.References):
			cls = append(cls, "expected:all")
		default:
			cls = append(cls, "expected:proper-subset")
		}
		if q.Type != "null" && q.Sub && len(infos[i].closure) > 0 {
			viaSub := 0
			for _, ref := range base.References {
				if infos[i].closure[ref.ReferenceTypeID.String()] {
					viaSub++
				}
			}
			if viaSub > 0 {
				cls = append(cls, "match:via-subtype")
			}
		}
		if q.Type != "null" && !q.Sub && len(infos[i].closure) > 0 {
			for _, ref := range base.References {
				if infos[i].closure[ref.ReferenceTypeID.String()] {
					cls = append(cls, "subtype-refs-present-but-not-requested")
					break
				}
			}
		}
		rec.Case(nontrivial, ev.Hash(node.String(), baseHash, fmt.Sprintf("%d|%s|%v|%d", q.Dir, infos[i].typ.String(), q.Sub, q.Mask)), cls...)
		if nontrivial && rec.WantSample() {
			rec.Sample(map[string]any{"node": node.String(), "query": q, "base_refs": len(base.References), "expected_refs": len(want)})
		}
		if !known && (r.StatusCode&0x80000000 != 0 || len(got) == 0) {
			// not a reference type of this server: Bad status or nothing
			rec.Class("unknown-type:" + map[bool]string{true: "bad-status", false: "empty"}[r.StatusCode&0x80000000 != 0])
			continue
		}
		miss, extra := diffMultiset(want, got)
		if len(miss)+len(extra) > 0 {
			return verdict{msg: fmt.Sprintf("Browse(%v, %s, type=%s(%v), includeSubtypes=%v, mask=%#x) status %v: missing %s, unexpected %s (unfiltered: %d references, expected %d, got %d)",
				node, dirName(q.Dir), q.Type, infos[i].typ, q.Sub, q.Mask, r.StatusCode, short(miss), short(extra), len(base.References), len(want), len(got))}
		}
		if r.StatusCode != ua.StatusOK {
			rec.Class("result:empty-with-status-not-good")
		}
	}
	return verdict{}
}

func (w *world) modelFor(n *ua.NodeID) ([]string, bool) {
	k := n.String()
	for _, gid := range w.ids {
		if gid.String() == k {
			return w.model[k], true
		}
	}
	return nil, false
}

func nodeClassOf(w *world, n *ua.NodeID) string {
	sn := w.f.srv.S.Node(n)
	if sn == nil {
		return "unknown"
	}
	ns := "gen"
	if n.Namespace() == 0 {
		ns = "ns0"
	}
	return ns + ":" + strings.TrimPrefix(sn.NodeClass().String(), "NodeClass")
}

// runCase builds the namespace of the case and runs its queries grouped by node.
func runCase(c caseT, test string) verdict {
	f, err := getFixture()
	if err != nil {
		return verdict{infra: "fixture: " + err.Error()}
	}
	w, err := build(f, c.NS)
	if err != nil {
		return verdict{infra: err.Error()}
	}
	b := &browser{cli: f.cli, children: map[string][]string{}}
	ctx, cancel := context.WithTimeout(context.Background(), 5*time.Minute)
	defer cancel()
	// group consecutive queries of the same node (at most 6 per request)
	for i := 0; i < len(c.Queries); {
		node, err := w.queryNode(c.Queries[i])
		if err != nil {
			return verdict{infra: err.Error()}
		}
		j := i + 1
		for j < len(c.Queries) && j-i < 6 {
			n2, err := w.queryNode(c.Queries[j])
			if err != nil {
				return verdict{infra: err.Error()}
			}
			if n2.String() != node.String() {
				break
			}
			j++
		}
		v := runGroup(ctx, b, w, test, func(qs []query) any { return caseT{NS: c.NS, Queries: qs} }, node, c.Queries[i:j])
		if v.msg != "" || v.infra != "" {
			if v.msg != "" {
				// reduce the failing case to the group that failed
				failing = &caseT{NS: c.NS, Queries: c.Queries[i:j]}
			}
			return v
		}
		i = j
	}
	return verdict{}
}

// failing is the reduced form of the last failing case (namespace + the query group that failed).
var failing *caseT

// ---------------------------------------------------------------------------

func TestBrowseGenerated(t *testing.T) {
	rec.Assume("the unfiltered browse (Both, null type, mask 0) is the reference list of the node; for generated nodes it is additionally compared with the references the case created")
	rec.Assume("the node class used for the mask is the NodeClass field of the unfiltered result; subtype closure from HasSubtype forward references of the unfiltered browse of the type nodes")
	f, err := getFixture()
	if err != nil {
		t.Fatalf("infrastructure: %v", err)
	}
	ns0 := append([]uint32{}, f.ns0...) // the same for every server instance (imported nodeset)
	ncases := 0
	rapid.Check(t, func(t *rapid.T) {
		if ncases++; ncases%40 == 0 {
			resetFixture()
		}
		c := genCase(t, ns0)
		failing = nil
		v := runCase(c, "TestBrowseGenerated")
		if v.infra != "" {
			t.Fatalf("infrastructure (not a violation): %s", v.infra)
		}
		rec.Class("cases:generated-namespaces")
		rec.ClassN("generated-nodes", int64(len(c.NS.Nodes)))
		for _, cu := range c.NS.Custom {
			rec.Class("custom-type:" + cu)
		}
		if v.msg != "" {
			fc := c
			if failing != nil {
				fc = *failing
			}
			rec.Fail(t, "TestBrowseGenerated", fc, "%s", v.msg)
		}
	})
}

// TestBrowseNS0 enumerates namespace 0: every node in the thorough tier, every
// 6th node (offset by the seed) plus the well-known hubs in the quick tier;
// per node all directions x 12 reference types x includeSubtypes, the class mask
// cycling through a fixed list.
func TestBrowseNS0(t *testing.T) {
	f, err := getFixture()
	if err != nil {
		t.Fatalf("infrastructure: %v", err)
	}
	// a small fixed namespace so that the custom types exist
	spec := nsSpec{Custom: []string{"custA", "custB", "custA2", "custN"}, Link: "Organizes", Nodes: []nodeSpec{
		{Class: 1, IDKind: "i", Refs: []refSpec{{Type: "custA", Forward: true, TKind: "gen", TIdx: 1, Mirror: true}, {Type: "HasTypeDefinition", Forward: true, TKind: "ns0", TID: id.FolderType}}},
		{Class: 2, IDKind: "s", Refs: []refSpec{{Type: "custA2", Forward: true, TKind: "gen", TIdx: 2, Mirror: true}, {Type: "custN", Forward: false, TKind: "gen", TIdx: 0}}},
		{Class: 4, IDKind: "g", Refs: []refSpec{{Type: "custB", Forward: false, TKind: "gen", TIdx: 0, Mirror: true}}},
	}}
	w, err := build(f, spec)
	if err != nil {
		t.Fatalf("infrastructure: %v", err)
	}
	b := &browser{cli: f.cli, children: map[string][]string{}}
	ctx, cancel := context.WithTimeout(context.Background(), 50*time.Minute)
	defer cancel()
	types := []string{"null", "References", "Hierarchical", "NonHierarchical", "HasChild", "Aggregates", "Organizes", "HasComponent", "HasProperty", "HasSubtype", "HasTypeDefinition", "custA", "unknown-ns0"}
	masks := []uint32{0, 0, 1, 2, 4, 8, 16, 32, 64, 128, 0xff, 1 | 2, 8 | 16 | 32 | 64, 1 | 4, 2 | 64, 0x100}
	hubs := map[uint32]bool{id.RootFolder: true, id.ObjectsFolder: true, id.TypesFolder: true, id.ViewsFolder: true, id.Server: true, id.References: true,
		id.HierarchicalReferences: true, id.HasComponent: true, id.Organizes: true, id.BaseObjectType: true, id.BaseVariableType: true, id.BaseDataType: true,
		id.BaseEventType: true, id.ServerType: true, id.FolderType: true, id.Number: true, id.Server_ServerStatus: true}
	step, off := 6, int(ev.Seed()%6)
	if ev.Thorough() {
		step, off = 1, 0
	}
	type target struct {
		node  *ua.NodeID
		proto query
	}
	nodes := []target{}
	for i, nid := range f.ns0 {
		if hubs[nid] || (i+off)%step == 0 {
			nodes = append(nodes, target{ua.NewNumericNodeID(0, nid), query{NKind: "ns0", NID: nid}})
		}
	}
	nNS0 := len(nodes)
	for gi, g := range w.ids {
		nodes = append(nodes, target{g, query{NKind: "gen", NIdx: gi}})
	}
	nodes = append(nodes, target{ua.NewNumericNodeID(w.ns.ID(), id.ObjectsFolder), query{NKind: "genobjects"}})
	nodes = append(nodes, target{ua.NewNumericNodeID(f.mapNS, id.ObjectsFolder), query{NKind: "mapobjects"}}, target{ua.NewNumericNodeID(f.mapNS, id.RootFolder), query{NKind: "maproot"}})
	x := int(ev.Seed())
	for _, tg := range nodes {
		node := tg.node
		var qs []query
		for d := uint32(0); d < 3; d++ {
			for _, ty := range types {
				for _, sub := range []bool{true, false} {
					x++
					q := tg.proto
					q.Dir, q.Type, q.Sub, q.Mask = d, ty, sub, masks[x%len(masks)]
					qs = append(qs, q)
				}
			}
		}
		for i := 0; i < len(qs); i += 6 {
			j := i + 6
			if j > len(qs) {
				j = len(qs)
			}
			v := runGroup(ctx, b, w, "TestBrowseNS0", func(g []query) any { return caseT{NS: spec, Queries: g} }, node, qs[i:j])
			if v.infra != "" {
				t.Fatalf("infrastructure (not a violation): %s", v.infra)
			}
			if v.msg != "" {
				rec.Fail(t, "TestBrowseNS0", caseT{NS: spec, Queries: qs[i:j]}, "%s", v.msg)
			}
		}
	}
	rec.Extra("ns0_nodes_total", float64(len(f.ns0)))
	rec.Extra("ns0_nodes_browsed", float64(nNS0))
}

// TestReplay re-runs a saved case (namespace + queries) without rapid.
func TestReplay(t *testing.T) {
	rp, err := ev.LoadReplay()
	if err != nil {
		t.Fatal(err)
	}
	if rp == nil {
		t.Skip("no VERIF_REPLAY")
	}
	var c caseT
	if err := json.Unmarshal(rp.Case, &c); err != nil {
		t.Fatal(err)
	}
	fmt.Println("REPLAYED structured")
	v := runCase(c, "TestReplay")
	if v.infra != "" {
		t.Fatalf("infrastructure: %s", v.infra)
	}
	if v.msg != "" {
		t.Fatalf("property C33 violated: %s", v.msg)
	}
}
