package c29

// The server under attack (in this process: a panic in any of its goroutines
// ends the process, which the journal attributes), the canary client and the
// victim session whose ids the attackers aim at.

import (
	"context"
	"fmt"
	"strings"
	"sync"
	"time"

	"github.com/gopcua/opcua"
	"github.com/gopcua/opcua/server"
	"github.com/gopcua/opcua/ua"

	"verif/pkg/stack"
)

type envT struct {
	srv    *stack.Server
	addr   string
	mapNS  *server.MapNamespace
	canary *opcua.Client
	node   *ua.NodeID // the variable the canary reads
	cases  int
	dirty  bool
}

var (
	envMu sync.Mutex
	env   *envT
)

const casesPerServer = 40

func newEnv() (*envT, error) {
	srv, err := stack.StartServer(stack.ServerOpts{})
	if err != nil {
		return nil, err
	}
	e := &envT{srv: srv, addr: strings.TrimPrefix(srv.URL, "opc.tcp://")}
	srv.AddVariable("canary", int32(42))
	for i := 0; i < 4; i++ {
		srv.AddVariable(fmt.Sprintf("v%d", i), float64(i))
	}
	srv.AddVariable("text", "some text")
	e.node = srv.NodeID("canary")
	e.mapNS = server.NewMapNamespace(srv.S, "urn:verif:map")
	e.mapNS.Mu.Lock()
	e.mapNS.Data["k1"] = int32(1)
	e.mapNS.Data["k2"] = "two"
	e.mapNS.Data["k3"] = 3.0
	e.mapNS.Mu.Unlock()
	c, err := stack.Connect(srv.URL, opcua.SecurityMode(ua.MessageSecurityModeNone), opcua.RequestTimeout(10*time.Second), opcua.AutoReconnect(false))
	if err != nil {
		srv.Close()
		return nil, fmt.Errorf("canary connect: %w", err)
	}
	e.canary = c
	return e, nil
}

func (e *envT) close() {
	// old servers are torn down in the background: Server.Close waits up to
	// 10 s for connections the server never closes
	go func() {
		ctx, cancel := context.WithTimeout(context.Background(), 2*time.Second)
		_ = e.canary.Close(ctx)
		cancel()
		e.srv.Close()
	}()
}

func getEnv() (*envT, error) {
	envMu.Lock()
	defer envMu.Unlock()
	if env != nil && (env.dirty || env.cases >= casesPerServer) {
		env.close()
		env = nil
	}
	if env == nil {
		e, err := newEnv()
		if err != nil {
			return nil, err
		}
		env = e
	}
	env.cases++
	return env, nil
}

// canaryBound is the property's bound on the canary round trip.
const canaryBound = 2 * time.Second

// canaryRead reads the canary variable through the long-lived canary client.
func (e *envT) canaryRead() (time.Duration, error) {
	ctx, cancel := context.WithTimeout(context.Background(), 4*time.Second)
	defer cancel()
	t0 := time.Now()
	_, err := stack.ReadValue(ctx, e.canary, e.node)
	return time.Since(t0), err
}

// freshRead: a new client (TCP connect, HEL/ACK, OPN, one Read) must be served too.
func (e *envT) freshRead() (time.Duration, error) {
	t0 := time.Now()
	done := make(chan error, 1)
	go func() {
		a, err := dialAtt(e.addr, e.srv.URL)
		if err != nil {
			done <- fmt.Errorf("connect: %w", err)
			return
		}
		defer a.close(false)
		v, err := a.call(&ua.ReadRequest{TimestampsToReturn: ua.TimestampsToReturnNeither,
			NodesToRead: []*ua.ReadValueID{{NodeID: e.node, AttributeID: ua.AttributeIDValue, DataEncoding: &ua.QualifiedName{}}}}, nil, 3*time.Second)
		if err != nil {
			done <- fmt.Errorf("read: %w", err)
			return
		}
		if _, ok := v.(*ua.ReadResponse); !ok {
			done <- fmt.Errorf("read answered with %T", v)
			return
		}
		done <- nil
	}()
	select {
	case err := <-done:
		return time.Since(t0), err
	case <-time.After(4 * time.Second):
		return time.Since(t0), fmt.Errorf("a new client was not served within 4 s")
	}
}

// watcher reads the canary every ~100 ms while a case runs.
type watcher struct {
	e     *envT
	stop  chan struct{}
	done  chan struct{}
	mu    sync.Mutex
	max   time.Duration
	err   error
	reads int
}

func (e *envT) watch() *watcher {
	w := &watcher{e: e, stop: make(chan struct{}), done: make(chan struct{})}
	go func() {
		defer close(w.done)
		for {
			d, err := e.canaryRead()
			w.mu.Lock()
			w.reads++
			if d > w.max {
				w.max = d
			}
			if err != nil && w.err == nil {
				w.err = err
			}
			w.mu.Unlock()
			select {
			case <-w.stop:
				return
			case <-time.After(100 * time.Millisecond):
			}
		}
	}()
	return w
}

func (w *watcher) finish() (time.Duration, int, error) {
	close(w.stop)
	<-w.done
	return w.max, w.reads, w.err
}
