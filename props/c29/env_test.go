package c29

// The server under attack runs in a child process of the test binary
// (TestServerHost): a panic in any server goroutine ends that child, which the
// parent observes directly and attributes to the case it is executing; work an
// earlier case left behind in the server (goroutines, tickers, queues) is gone
// as soon as the host is replaced, so it cannot disturb the timing of later
// cases or of confirmation runs.

import (
	"bufio"
	"context"
	"fmt"
	"io"
	"os"
	"os/exec"
	"strings"
	"sync"
	"syscall"
	"testing"
	"time"

	"github.com/gopcua/opcua"
	"github.com/gopcua/opcua/server"
	"github.com/gopcua/opcua/ua"

	"verif/pkg/stack"
)

const hostEnv = "VERIF_C29_HOST"

// TestServerHost is the child: it serves until its stdin is closed.
func TestServerHost(t *testing.T) {
	mode := os.Getenv(hostEnv)
	if mode == "" {
		t.Skip("only runs as the server host child of the C29 tests")
	}
	srv, err := stack.StartServer(stack.ServerOpts{})
	if err != nil {
		fmt.Printf("C29-HOST-FAILED %v\n", err)
		return
	}
	srv.AddVariable("canary", int32(42))
	for i := 0; i < 4; i++ {
		srv.AddVariable(fmt.Sprintf("v%d", i), float64(i))
	}
	srv.AddVariable("text", "some text")
	if strings.Contains(mode, "big") {
		srv.AddVariable("big", strings.Repeat("x", 60000))
	}
	m := server.NewMapNamespace(srv.S, "urn:verif:map")
	m.Mu.Lock()
	m.Data["k1"] = int32(1)
	m.Data["k2"] = "two"
	m.Data["k3"] = 3.0
	m.Mu.Unlock()
	fmt.Printf("C29-HOST-READY %s\n", srv.URL)
	os.Stdout.Sync()
	// the parent holds the write end of stdin; when it goes away, so do we
	io.Copy(io.Discard, os.Stdin)
	os.Exit(0)
}

type envT struct {
	cmd    *exec.Cmd
	stdin  io.WriteCloser
	url    string
	addr   string
	canary *opcua.Client
	node   *ua.NodeID // the variable the canary reads
	cases  int
	dirty  bool

	exited chan struct{}
	mu     sync.Mutex
	stderr []string // last lines of the child's output (panic message, stack)
	hist   []caseT  // every case executed on this host
}

var (
	envMu sync.Mutex
	env   *envT
)

const casesPerServer = 30

func newEnv(mode string) (*envT, error) {
	if mode == "" {
		mode = "1"
	}
	cmd := exec.Command(os.Args[0], "-test.run", "^TestServerHost$", "-test.v", "-test.timeout", "0")
	cmd.Env = append(os.Environ(), hostEnv+"="+mode, "VERIF_PART_DIR=", "VERIF_JOURNAL_DIR=", "VERIF_REPLAY=", "GOTRACEBACK=all")
	cmd.SysProcAttr = &syscall.SysProcAttr{Pdeathsig: syscall.SIGKILL}
	stdin, err := cmd.StdinPipe()
	if err != nil {
		return nil, err
	}
	out, err := cmd.StdoutPipe()
	if err != nil {
		return nil, err
	}
	cmd.Stderr = cmd.Stdout
	if err := cmd.Start(); err != nil {
		return nil, err
	}
	e := &envT{cmd: cmd, stdin: stdin, exited: make(chan struct{}), node: ua.NewStringNodeID(nsTest, "canary")}
	ready := make(chan string, 1)
	go func() {
		sc := bufio.NewScanner(out)
		sc.Buffer(make([]byte, 1<<20), 1<<20)
		for sc.Scan() {
			line := sc.Text()
			if strings.HasPrefix(line, "C29-HOST-READY ") {
				ready <- strings.TrimPrefix(line, "C29-HOST-READY ")
				continue
			}
			e.mu.Lock()
			if len(e.stderr) < 4000 {
				e.stderr = append(e.stderr, line)
			}
			e.mu.Unlock()
		}
		cmd.Wait()
		close(e.exited)
	}()
	select {
	case e.url = <-ready:
	case <-e.exited:
		return nil, fmt.Errorf("server host exited before it was ready: %s", e.crashText())
	case <-time.After(60 * time.Second):
		e.kill()
		return nil, fmt.Errorf("server host not ready within 60 s")
	}
	e.addr = strings.TrimPrefix(e.url, "opc.tcp://")
	c, err := stack.Connect(e.url, opcua.SecurityMode(ua.MessageSecurityModeNone), opcua.RequestTimeout(10*time.Second), opcua.AutoReconnect(false))
	if err != nil {
		e.kill()
		return nil, fmt.Errorf("canary connect: %w", err)
	}
	e.canary = c
	return e, nil
}

func (e *envT) kill() {
	e.stdin.Close()
	if e.cmd.Process != nil {
		e.cmd.Process.Kill()
	}
}

func (e *envT) close() {
	go func() {
		if e.canary != nil {
			ctx, cancel := context.WithTimeout(context.Background(), time.Second)
			_ = e.canary.Close(ctx)
			cancel()
		}
		e.kill()
	}()
}

// dead reports whether the server process has ended.
func (e *envT) dead() bool {
	select {
	case <-e.exited:
		return true
	default:
		return false
	}
}

// crashText extracts the reason of the child's death from its output.
func (e *envT) crashText() string {
	e.mu.Lock()
	defer e.mu.Unlock()
	for i, l := range e.stderr {
		if strings.HasPrefix(l, "panic:") || strings.HasPrefix(l, "fatal error:") {
			out := l
			// the first frames name the failure site
			n := 0
			for _, f := range e.stderr[i+1:] {
				if strings.Contains(f, "gopcua/opcua/") && !strings.HasPrefix(f, "\t") {
					out += " | " + strings.TrimSpace(f)
					if n++; n >= 3 {
						break
					}
				}
			}
			return out
		}
	}
	if len(e.stderr) > 0 {
		return "server process ended: " + e.stderr[len(e.stderr)-1]
	}
	return "server process ended without output"
}

func getEnv() (*envT, error) {
	envMu.Lock()
	defer envMu.Unlock()
	if env != nil && (env.dirty || env.dead() || env.cases >= casesPerServer) {
		env.close()
		env = nil
	}
	if env == nil {
		e, err := newEnv("")
		if err != nil {
			return nil, err
		}
		env = e
	}
	env.cases++
	return env, nil
}

// canaryBound is the property's bound on the canary round trip.
const canaryBound = 2 * time.Second

// canaryRead reads the canary variable through the long-lived canary client.
func (e *envT) canaryRead() (time.Duration, error) {
	ctx, cancel := context.WithTimeout(context.Background(), 4*time.Second)
	defer cancel()
	t0 := time.Now()
	_, err := stack.ReadValue(ctx, e.canary, e.node)
	return time.Since(t0), err
}

// freshRead: a new client (TCP connect, HEL/ACK, OPN, CreateSession, ActivateSession, one Read) must be served too.
func (e *envT) freshRead() (time.Duration, error) {
	t0 := time.Now()
	done := make(chan error, 1)
	go func() {
		a, err := dialAtt(e.addr, e.url)
		if err != nil {
			done <- fmt.Errorf("connect: %w", err)
			return
		}
		defer a.close(false)
		if err := a.openSession(e.url); err != nil {
			done <- err
			return
		}
		v, err := a.call(&ua.ReadRequest{TimestampsToReturn: ua.TimestampsToReturnNeither,
			NodesToRead: []*ua.ReadValueID{{NodeID: e.node, AttributeID: ua.AttributeIDValue, DataEncoding: &ua.QualifiedName{}}}}, a.token, 3*time.Second)
		if err != nil {
			done <- fmt.Errorf("read: %w", err)
			return
		}
		if _, ok := v.(*ua.ReadResponse); !ok {
			done <- fmt.Errorf("read answered with %T", v)
			return
		}
		done <- nil
	}()
	select {
	case err := <-done:
		return time.Since(t0), err
	case <-time.After(4 * time.Second):
		return time.Since(t0), fmt.Errorf("a new client was not served within 4 s")
	}
}

// watcher reads the canary every ~100 ms while a case runs.
type watcher struct {
	e     *envT
	stop  chan struct{}
	done  chan struct{}
	mu    sync.Mutex
	max   time.Duration
	err   error
	reads int
}

func (e *envT) watch() *watcher {
	w := &watcher{e: e, stop: make(chan struct{}), done: make(chan struct{})}
	go func() {
		defer close(w.done)
		for {
			d, err := e.canaryRead()
			w.mu.Lock()
			w.reads++
			if d > w.max {
				w.max = d
			}
			if err != nil && w.err == nil {
				w.err = err
			}
			w.mu.Unlock()
			select {
			case <-w.stop:
				return
			case <-time.After(100 * time.Millisecond):
			}
		}
	}()
	return w
}

func (w *watcher) finish() (time.Duration, int, error) {
	close(w.stop)
	<-w.done
	return w.max, w.reads, w.err
}
