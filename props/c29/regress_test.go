package c29

// Hand-written minimal cases of the defects C29 found (testdata/*.json, the
// replay format). TestMakeRegressionCases regenerates them; TestRegressionCases
// runs them in every tier.

import (
	"encoding/hex"
	"encoding/json"
	"os"
	"path/filepath"
	"sort"
	"testing"

	"github.com/gopcua/opcua/id"
	"github.com/gopcua/opcua/ua"

	"verif/pkg/ev"
)

func mkStep(conn int, token string, req ua.Request) stepT {
	tid, rest, err := encodeReq(req)
	if err != nil {
		panic(err)
	}
	return stepT{Conn: conn, Kind: "req", Type: typeName(req), TypeID: tid, Token: token, Hex: hex.EncodeToString(rest), Desc: "hand-written"}
}

func typeName(v any) string {
	for _, ti := range requestTypes {
		if ua.ServiceTypeID(v) == uint16(ti.ID) {
			return ti.Name
		}
	}
	return "?"
}

func regressionCases() map[string]caseT {
	sess := []connT{{Session: true, Sub: true}}
	nosess := []connT{{}}
	rv := func(n *ua.NodeID) *ua.ReadValueID {
		return &ua.ReadValueID{NodeID: n, AttributeID: ua.AttributeIDValue, DataEncoding: &ua.QualifiedName{}}
	}
	return map[string]caseT{
		"publishing-interval-zero":             {Conns: sess, Steps: []stepT{mkStep(0, "valid", &ua.CreateSubscriptionRequest{RequestedPublishingInterval: 0, RequestedLifetimeCount: 100, RequestedMaxKeepAliveCount: 10, PublishingEnabled: true})}},
		"publishing-interval-half-millisecond": {Conns: sess, Steps: []stepT{mkStep(0, "valid", &ua.CreateSubscriptionRequest{RequestedPublishingInterval: 0.5, RequestedLifetimeCount: 100, RequestedMaxKeepAliveCount: 10, PublishingEnabled: true})}},
		"delete-monitored-items-unknown-id":    {Conns: sess, Steps: []stepT{mkStep(0, "valid", &ua.DeleteMonitoredItemsRequest{SubscriptionID: phSub, MonitoredItemIDs: []uint32{999999}})}},
		"set-monitoring-mode-unknown-id":       {Conns: sess, Steps: []stepT{mkStep(0, "valid", &ua.SetMonitoringModeRequest{SubscriptionID: phSub, MonitoringMode: ua.MonitoringModeReporting, MonitoredItemIDs: []uint32{999999}})}},
		"create-subscription-without-session":  {Conns: nosess, Steps: []stepT{mkStep(0, "null", &ua.CreateSubscriptionRequest{RequestedPublishingInterval: 10, RequestedLifetimeCount: 100, RequestedMaxKeepAliveCount: 0, PublishingEnabled: true})}},
		"delete-subscriptions-without-session": {Conns: nosess, Steps: []stepT{mkStep(0, "null", &ua.DeleteSubscriptionsRequest{SubscriptionIDs: []uint32{phVictimSub}})}},
		"create-monitored-items-without-session": {Conns: nosess, Steps: []stepT{mkStep(0, "null", &ua.CreateMonitoredItemsRequest{SubscriptionID: phVictimSub, ItemsToCreate: []*ua.MonitoredItemCreateRequest{{ItemToMonitor: rv(ua.NewStringNodeID(nsTest, "v0")), MonitoringMode: ua.MonitoringModeReporting,
			RequestedParameters: &ua.MonitoringParameters{ClientHandle: 1, SamplingInterval: 100, Filter: ua.NewExtensionObject(nil), QueueSize: 1}}}})}},
		"browse-hierarchical-without-subtypes": {Conns: sess, Steps: []stepT{mkStep(0, "valid", &ua.BrowseRequest{View: &ua.ViewDescription{ViewID: ua.NewTwoByteNodeID(0)}, NodesToBrowse: []*ua.BrowseDescription{{NodeID: ua.NewNumericNodeID(0, id.ObjectsFolder),
			BrowseDirection: ua.BrowseDirectionForward, ReferenceTypeID: ua.NewNumericNodeID(0, id.HierarchicalReferences), IncludeSubtypes: false, ResultMask: 63}}})}},
		"write-datatype-then-browse": {Conns: sess, Steps: []stepT{
			mkStep(0, "valid", &ua.WriteRequest{NodesToWrite: []*ua.WriteValue{{NodeID: ua.NewStringNodeID(nsTest, "v0"), AttributeID: ua.AttributeIDDataType, Value: &ua.DataValue{EncodingMask: ua.DataValueValue, Value: ua.MustVariant(int32(7))}}}}),
			mkStep(0, "valid", &ua.BrowseRequest{View: &ua.ViewDescription{ViewID: ua.NewTwoByteNodeID(0)}, NodesToBrowse: []*ua.BrowseDescription{{NodeID: ua.NewNumericNodeID(nsTest, id.ObjectsFolder),
				BrowseDirection: ua.BrowseDirectionBoth, ReferenceTypeID: ua.NewTwoByteNodeID(0), IncludeSubtypes: true, ResultMask: 63}}}),
		}},
		// 10^4 items of ONE node in one request: every item used to start its own initial
		// update, each of which reported to all 10^4 items with the service lock held
		"create-monitored-items-10k-one-node": {Conns: sess, Steps: []stepT{mkStep(0, "valid", func() *ua.CreateMonitoredItemsRequest {
			r := &ua.CreateMonitoredItemsRequest{SubscriptionID: phSub}
			for i := 0; i < 10000; i++ {
				r.ItemsToCreate = append(r.ItemsToCreate, &ua.MonitoredItemCreateRequest{ItemToMonitor: rv(ua.NewStringNodeID(nsTest, "v0")), MonitoringMode: ua.MonitoringModeReporting,
					RequestedParameters: &ua.MonitoringParameters{ClientHandle: uint32(i + 1), SamplingInterval: 100, Filter: ua.NewExtensionObject(nil), QueueSize: 1}})
			}
			return r
		}())}},
		"silent-connection":  {Conns: nosess, Steps: []stepT{{Kind: "storm", Storm: &stormT{N: 1, Stages: []string{"hold-silent"}, Hold: 2600}, Desc: "hold-silent"}}},
		"reset-before-hello": {Conns: nosess, Steps: []stepT{{Kind: "storm", Storm: &stormT{N: 1, Stages: []string{"connect-rst"}}, Desc: "abort"}}},
	}
}

func TestMakeRegressionCases(t *testing.T) {
	dir := os.Getenv("VERIF_C29_MAKE")
	if dir == "" {
		t.Skip("set VERIF_C29_MAKE=<dir> to (re)write the regression cases")
	}
	for name, c := range regressionCases() {
		b, _ := json.MarshalIndent(c, " ", " ")
		rp := ev.Replay{Property: "C29", Test: testName, Message: "hand-written regression case: " + name, Case: b}
		out, _ := json.MarshalIndent(rp, "", " ")
		if err := os.WriteFile(filepath.Join(dir, name+".json"), out, 0o644); err != nil {
			t.Fatal(err)
		}
	}
}

// TestRegressionCases runs every hand-written case once through the oracle.
func TestRegressionCases(t *testing.T) {
	cases := regressionCases()
	var names []string
	for name := range cases {
		names = append(names, name)
	}
	sort.Strings(names)
	for _, name := range names {
		c := cases[name]
		rec.Journal("TestRegressionCases", c)
		msg, o, rc, infra := judge(c)
		rec.JournalDone("TestRegressionCases")
		if infra != nil {
			t.Fatalf("infrastructure (not a verdict): %v", infra)
		}
		if o != nil {
			o.class("regression:%s", name)
		}
		record(c, o)
		if msg != "" {
			rec.Fail(t, testName, rc, "regression case %s: %s", name, msg)
		}
	}
}
