// Package c29 decides property C29: no client can crash or hang the server.
//
// The gopcua server runs inside the test process (pkg/stack), so a panic in
// any server goroutine ends the process: every case is journalled before it is
// executed (ev.Journal) and the driver attributes the death to it.
//
// A case is 1-4 attacker connections (raw UA-TCP / UASC under policy None,
// pkg/refnone; with or without a session; optionally with a benign
// subscription) and 1-8 steps: a request of any registered request type with
// hostile field values and an authentication token of a drawn kind, a raw
// fuzzed chunk after a valid HEL / OPN, or a connect / abort storm. A victim
// session with a subscription and a monitored item provides the foreign ids.
//
// Oracle: the process is alive; the canary client's Read round trip stays
// below 2 s during the case and after the attackers have gone; a new client
// (connect, HEL/ACK, OPN, session, Read) is served within 2 s afterwards. A slow or
// failed canary is confirmed by repeating the case twice on fresh servers;
// only 3/3 is a violation.
package c29

import (
	"encoding/binary"
	"encoding/hex"
	"encoding/json"
	"fmt"
	"net"
	"sort"
	"strings"
	"sync"
	"testing"
	"time"

	"github.com/gopcua/opcua/ua"
	"pgregory.net/rapid"

	"verif/pkg/ev"
	"verif/pkg/refnone"
)

func TestMain(m *testing.M) { ev.Main(m) }

var rec = ev.For("C29", "1-4 attacker connections (raw policy-None channels, with / without session) sending 1-8 steps: requests of every registered request type (targeted hostile generators for the implemented services: zero / negative / NaN / Inf / sub-millisecond / huge intervals, unknown, foreign and own ids, empty to 10^5-element arrays, absent parts; reflection-generated values for all other types), token in {valid, null, unknown (numeric, string, guid, opaque), another session's}, raw fuzzed chunks after HEL/OPN, connect/abort storms and silent connections; canary Read every 100 ms; non-trivial = at least 3 distinct request types were answered by their handlers; distinct by hash of the case")

const testName = "TestAttack"

type connT struct {
	Session bool `json:"session"`
	Sub     bool `json:"sub"`
}

type stepT struct {
	Conn   int     `json:"conn"`
	Kind   string  `json:"kind"` // req | raw | storm
	Type   string  `json:"type,omitempty"`
	TypeID uint16  `json:"type_id,omitempty"`
	Token  string  `json:"token,omitempty"`
	Hex    string  `json:"hex,omitempty"` // req: encoded request fields after the header (run-time ids as placeholders); raw: chunk body
	Raw    *rawT   `json:"raw,omitempty"`
	Storm  *stormT `json:"storm,omitempty"`
	Desc   string  `json:"desc,omitempty"`
	Burst  int     `json:"burst,omitempty"` // req: this many further copies are written before the attacker reads
}

type caseT struct {
	Conns    []connT `json:"conns"`
	Steps    []stepT `json:"steps"`
	Parallel bool    `json:"parallel,omitempty"`
	Reset    bool    `json:"reset,omitempty"`
}

type outcome struct {
	msg      string // candidate violation ("" = held)
	crashed  bool   // the server process ended during the case
	maxRTT   time.Duration
	control  time.Duration // largest round trip of the control canary (unattacked server) during the case
	noisy    bool          // the control server was slow too: the machine, not the attack
	infra    error
	mu       sync.Mutex
	classes  []string
	handlers map[string]bool
}

func (o *outcome) class(format string, a ...any) {
	o.mu.Lock()
	o.classes = append(o.classes, fmt.Sprintf(format, a...))
	o.mu.Unlock()
}

func (o *outcome) candidate(format string, a ...any) {
	o.mu.Lock()
	if o.msg == "" {
		o.msg = fmt.Sprintf(format, a...)
	}
	o.mu.Unlock()
}

// ---------------------------------------------------------------------------

type runT struct {
	e      *envT
	c      caseT
	conns  []*attConn
	victim *attConn
	mu     sync.Mutex // guards conns and the id lists of the connections (parallel cases)
	o      *outcome
}

// resolve replaces id placeholders by the ids known at this moment.
func (r *runT) resolve(b []byte) []byte {
	r.mu.Lock()
	defer r.mu.Unlock()
	out := append([]byte{}, b...)
	for i := 0; i+4 <= len(out); i++ {
		v := binary.LittleEndian.Uint32(out[i:])
		hi := v & 0xffff0000
		if hi != phSub && hi != phItem {
			continue
		}
		conn, idx := int(v>>8)&0xff, int(v&0xff)
		var list []uint32
		switch {
		case conn == 0xf0 && r.victim != nil:
			if hi == phSub {
				list = r.victim.subs
			} else {
				list = r.victim.items
			}
		case conn < len(r.conns) && r.conns[conn] != nil:
			if hi == phSub {
				list = r.conns[conn].subs
			} else {
				list = r.conns[conn].items
			}
		}
		if idx < len(list) {
			binary.LittleEndian.PutUint32(out[i:], list[idx])
			i += 3
		}
	}
	return out
}

func (r *runT) token(kind string, a *attConn) *ua.NodeID {
	switch kind {
	case "valid":
		return a.token
	case "other":
		if r.victim != nil {
			return r.victim.token
		}
	case "unknown":
		return ua.NewNumericNodeID(0, 0x7ffffffe)
	case "unknown-string":
		return ua.NewStringNodeID(1, "token")
	case "unknown-guid":
		return ua.NewGUIDNodeID(0, "01234567-89AB-CDEF-0123-456789ABCDEF")
	case "unknown-opaque":
		return ua.NewByteStringNodeID(0, []byte{0xde, 0xad, 0xbe, 0xef})
	}
	return nil
}

// conn returns the live connection of slot i, dialling a new one (without
// session) if the server or an earlier step closed it.
func (r *runT) conn(i int) (*attConn, error) {
	r.mu.Lock()
	defer r.mu.Unlock()
	if i < 0 || i >= len(r.conns) {
		i = 0
	}
	if a := r.conns[i]; a != nil && !a.dead {
		return a, nil
	}
	a, err := dialAtt(r.e.addr, r.e.url)
	if err != nil {
		return nil, err
	}
	if old := r.conns[i]; old != nil {
		a.subs, a.items, a.token = old.subs, old.items, old.token
	}
	r.conns[i] = a
	r.o.class("conn:redialled")
	return a, nil
}

var (
	phaseMu sync.Mutex
	phases  = map[string]time.Duration{}
)

func phase(name string, t0 time.Time) {
	phaseMu.Lock()
	phases[name] += time.Since(t0)
	phaseMu.Unlock()
}

func (r *runT) step(s stepT) {
	o := r.o
	defer phase("step:"+s.Kind+":"+s.Type, time.Now())
	switch s.Kind {
	case "req":
		a, err := r.conn(s.Conn)
		if err != nil {
			// the server refuses or ignores new connections: the final checks decide
			o.class("req:cannot-connect")
			return
		}
		rest, _ := hex.DecodeString(s.Hex)
		sess := "without-session"
		if a.token != nil {
			sess = "with-session"
		}
		o.class("req:%s", s.Type)
		o.class("token:%s,%s", s.Token, sess)
		if s.Desc != "" {
			o.class("gen:%s", s.Desc)
		}
		rid, err := a.sendBody(buildBody(s.TypeID, r.token(s.Token, a), a.reqID+1, r.resolve(rest)))
		if err != nil {
			o.class("outcome:write-failed")
			return
		}
		if s.Burst > 0 {
			o.class("burst:%s x%d", s.Type, s.Burst+1)
			for i := 0; i < s.Burst && i < 400; i++ {
				if rid, err = a.sendBody(buildBody(s.TypeID, r.token(s.Token, a), a.reqID+1, r.resolve(rest))); err != nil {
					o.class("outcome:write-failed")
					return
				}
			}
		}
		wait := 600 * time.Millisecond
		switch {
		case s.Type == "PublishRequest":
			wait = 100 * time.Millisecond // queued by the server, answered only when there is something to publish
		case len(rest) > 50000:
			wait = 2500 * time.Millisecond
		}
		v, err := a.recv(rid, wait)
		switch {
		case err == errNoResponse:
			o.class("outcome:no-response:%s", s.Type)
			if s.Type != "PublishRequest" {
				a.close(false)
			}
		case err != nil:
			o.class("outcome:connection-closed")
		default:
			reached := true
			if f, ok := v.(*ua.ServiceFault); ok {
				// a request refused for its token before dispatch did not reach its handler
				st := f.ResponseHeader.ServiceResult
				if (st == ua.StatusBadSessionIDInvalid || st == ua.StatusBadSessionNotActivated) && s.Type != "ActivateSessionRequest" && s.Type != "CloseSessionRequest" {
					reached = false
				}
			}
			if reached {
				o.mu.Lock()
				o.handlers[s.Type] = true
				o.mu.Unlock()
			}
			if f, ok := v.(*ua.ServiceFault); ok {
				o.class("outcome:fault:%s", statusName(f.ResponseHeader.ServiceResult))
			} else {
				o.class("outcome:response")
				r.mu.Lock()
				a.learn(v)
				r.mu.Unlock()
			}
		}
	case "raw":
		a, err := r.conn(s.Conn)
		if err != nil {
			o.class("raw:cannot-connect")
			return
		}
		body, _ := hex.DecodeString(s.Hex)
		raw := s.Raw
		if raw == nil {
			raw = &rawT{MsgType: "MSG", Chunk: "F", Size: "exact", Chan: "valid", Tok: "valid", Seq: "next"}
		}
		chanID, tok := a.ch.ChannelID, a.ch.TokenID
		switch raw.Chan {
		case "zero":
			chanID = 0
		case "plus1":
			chanID++
		case "random":
			chanID = 0x5eed5eed
		}
		switch raw.Tok {
		case "zero":
			tok = 0
		case "plus1":
			tok++
		}
		var seq uint32
		switch raw.Seq {
		case "next":
			seq = a.ch.Seq.Next()
		case "repeat":
			seq = a.ch.Seq.Peek() - 1
		case "max":
			seq = 0xffffffff
		}
		mt := (raw.MsgType + "   ")[:3]
		ct := byte('F')
		if len(raw.Chunk) > 0 {
			ct = raw.Chunk[0]
		}
		f := refnone.SymChunk(mt, ct, chanID, tok, seq, raw.ReqID, body)
		switch raw.Size {
		case "short":
			binary.LittleEndian.PutUint32(f[4:], uint32(len(f)-4))
		case "long":
			binary.LittleEndian.PutUint32(f[4:], uint32(len(f)+4))
		case "zero":
			binary.LittleEndian.PutUint32(f[4:], 0)
		case "seven":
			binary.LittleEndian.PutUint32(f[4:], 7)
		case "huge":
			binary.LittleEndian.PutUint32(f[4:], 0x7fffffff)
		case "hdr8", "hdr9", "hdr11", "hdr12", "hdr15":
			// a complete frame that ends inside (or right behind) the 12-byte message header
			n := map[string]int{"hdr8": 8, "hdr9": 9, "hdr11": 11, "hdr12": 12, "hdr15": 15}[raw.Size]
			if n < len(f) {
				f = f[:n]
			}
			binary.LittleEndian.PutUint32(f[4:], uint32(len(f)))
		}
		o.class("raw:type=%s", strings.ToUpper(mt))
		o.class("raw:chunk=%q", string(rune(ct)))
		o.class("raw:size=%s", raw.Size)
		if s.Desc != "" {
			o.class("raw:body=%s", strings.SplitN(s.Desc, ":", 2)[0])
		}
		a.ch.SetWriteDeadline(time.Now().Add(5 * time.Second))
		_, werr := a.ch.Write(f)
		if werr == nil {
			if _, err := a.recv(raw.ReqID, 150*time.Millisecond); err == nil {
				o.class("raw:answered")
			}
		}
		a.close(false)
	case "storm":
		if s.Storm != nil {
			r.storm(s.Storm)
		}
	}
}

func statusName(s ua.StatusCode) string {
	n := s.Error()
	if i := strings.Index(n, "Status"); i >= 0 {
		n = n[i:]
		if j := strings.IndexAny(n, " ("); j > 0 {
			n = n[:j]
		}
		return n
	}
	return fmt.Sprintf("0x%08X", uint32(s))
}

// storm opens and aborts connections at drawn stages of the handshake.
func (r *runT) storm(s *stormT) {
	o := r.o
	n := s.N
	if n < 1 {
		n = 1
	}
	if n > 500 {
		n = 500
	}
	if len(s.Stages) == 0 {
		s.Stages = []string{"connect"}
	}
	hold := strings.HasPrefix(s.Stages[0], "hold")
	sem := make(chan struct{}, 16)
	var wg sync.WaitGroup
	for i := 0; i < n; i++ {
		stage := s.Stages[i%len(s.Stages)]
		wg.Add(1)
		sem <- struct{}{}
		go func() {
			defer wg.Done()
			defer func() { <-sem }()
			r.abortAt(stage, time.Duration(s.Hold)*time.Millisecond)
		}()
		o.class("storm:%s", stage)
	}
	if hold {
		// while a client sits silently in the handshake, another client must be served
		time.Sleep(100 * time.Millisecond)
		d, err := r.e.freshRead()
		switch {
		case err != nil:
			o.candidate("while %d connection(s) were held open at stage %q, a new client was not served: %v", n, s.Stages[0], err)
		case d >= canaryBound:
			o.candidate("while %d connection(s) were held open at stage %q, a new client needed %v to connect and read", n, s.Stages[0], d)
		}
	}
	wg.Wait()
}

func (r *runT) abortAt(stage string, hold time.Duration) {
	rst := strings.HasSuffix(stage, "-rst")
	base := strings.TrimPrefix(strings.TrimSuffix(stage, "-rst"), "hold-")
	var c net.Conn
	finish := func() {
		if c == nil {
			return
		}
		if hold > 0 && strings.HasPrefix(stage, "hold") {
			time.Sleep(hold)
		}
		if rst {
			if tc, ok := c.(*net.TCPConn); ok {
				tc.SetLinger(0)
			}
		}
		c.Close()
	}
	switch base {
	case "connect", "silent", "hel-partial":
		var err error
		c, err = net.DialTimeout("tcp", r.e.addr, 3*time.Second)
		if err != nil {
			return
		}
		if base == "hel-partial" {
			c.SetWriteDeadline(time.Now().Add(2 * time.Second))
			c.Write(refnone.Hello(refnone.DefaultLimits, r.e.url)[:5])
		}
		finish()
	case "hel", "after-hel", "opn-partial":
		rc, err := refnone.Dial(r.e.addr, r.e.url, refnone.DefaultLimits, 3*time.Second)
		if err != nil {
			return
		}
		c = rc.Conn
		if base == "opn-partial" {
			body, _ := refnone.OpenRequestBody(1, 3600_000)
			c.SetWriteDeadline(time.Now().Add(2 * time.Second))
			c.Write(refnone.OpenChunk(0, 1, 1, body)[:20])
		}
		finish()
	case "opn", "session":
		a, err := dialAtt(r.e.addr, r.e.url)
		if err != nil {
			return
		}
		c = a.ch.Conn.Conn
		if base == "session" {
			a.call(&ua.CreateSessionRequest{ClientDescription: &ua.ApplicationDescription{ApplicationName: &ua.LocalizedText{}}, EndpointURL: r.e.url, RequestedSessionTimeout: 1000}, nil, 2*time.Second)
		}
		finish()
	}
}

// probe makes damage planted by the case show up within the case: every node
// of the pools is read and browsed, a variable is written (which notifies the
// monitored items), through a new connection.
func (r *runT) probe() {
	a, err := dialAtt(r.e.addr, r.e.url)
	if err != nil {
		return // the final checks report a server that no longer accepts clients
	}
	defer a.close(false)
	if err := a.openSession(r.e.url); err != nil {
		return
	}
	var rv []*ua.ReadValueID
	var bd []*ua.BrowseDescription
	for _, n := range knownNodes {
		for _, at := range []ua.AttributeID{ua.AttributeIDValue, ua.AttributeIDNodeClass, ua.AttributeIDBrowseName, ua.AttributeIDDisplayName, ua.AttributeIDAccessLevel, ua.AttributeIDUserAccessLevel, ua.AttributeIDDataType} {
			rv = append(rv, &ua.ReadValueID{NodeID: n, AttributeID: at, DataEncoding: &ua.QualifiedName{}})
		}
		bd = append(bd, &ua.BrowseDescription{NodeID: n, BrowseDirection: ua.BrowseDirectionBoth, ReferenceTypeID: ua.NewTwoByteNodeID(0), IncludeSubtypes: true, ResultMask: 63})
	}
	a.call(&ua.ReadRequest{TimestampsToReturn: ua.TimestampsToReturnBoth, NodesToRead: rv}, a.token, 3*time.Second)
	a.call(&ua.BrowseRequest{View: &ua.ViewDescription{ViewID: ua.NewTwoByteNodeID(0)}, NodesToBrowse: bd}, a.token, 3*time.Second)
	for _, name := range []string{"v0", "v1", "canary"} {
		a.call(&ua.WriteRequest{NodesToWrite: []*ua.WriteValue{{NodeID: ua.NewStringNodeID(nsTest, name), AttributeID: ua.AttributeIDValue,
			Value: &ua.DataValue{EncodingMask: ua.DataValueValue, Value: ua.MustVariant(int32(r.e.cases))}}}}, a.token, 3*time.Second)
	}
	a.call(&ua.WriteRequest{NodesToWrite: []*ua.WriteValue{{NodeID: ua.NewStringNodeID(nsMap, "k1"), AttributeID: ua.AttributeIDValue,
		Value: &ua.DataValue{EncodingMask: ua.DataValueValue, Value: ua.MustVariant(int32(r.e.cases))}}}}, a.token, 3*time.Second)
}

// runCase executes a case against e and judges it.
func runCase(e *envT, c caseT) *outcome {
	o := &outcome{handlers: map[string]bool{}}
	r := &runT{e: e, c: c, o: o}
	if len(c.Conns) == 0 {
		c.Conns = []connT{{}}
	}
	if len(c.Conns) > 8 {
		c.Conns = c.Conns[:8]
	}
	tSetup := time.Now()
	// victim session: the foreign ids
	v, err := dialAtt(e.addr, e.url)
	if err == nil {
		if err = v.openSession(e.url); err == nil {
			err = v.benignSub(ua.NewStringNodeID(nsTest, "v1"))
		}
	}
	e.hist = append(e.hist, c)
	if err != nil {
		if e.dead() {
			o.crashed = true
			o.msg = "the server process ended: " + e.crashText()
			return o
		}
		o.infra = fmt.Errorf("victim session: %w", err)
		return o
	}
	r.victim = v
	o.handlers["CreateSessionRequest"], o.handlers["ActivateSessionRequest"] = true, true
	for i, spec := range c.Conns {
		a, err := dialAtt(e.addr, e.url)
		if err == nil && spec.Session {
			if err = a.openSession(e.url); err == nil && spec.Sub {
				err = a.benignSub(ua.NewStringNodeID(nsTest, "v0"))
			}
		}
		if err != nil {
			if e.dead() {
				o.crashed = true
				o.msg = "the server process ended: " + e.crashText()
				return o
			}
			o.infra = fmt.Errorf("attacker connection %d: %w", i, err)
			return o
		}
		r.conns = append(r.conns, a)
		o.class("conn:session=%v,sub=%v", spec.Session, spec.Session && spec.Sub)
	}
	phase("setup", tSetup)
	w := e.watch()
	var cw *watcher
	if ctl := controlEnv(); ctl != nil && ctl != e {
		cw = ctl.watch()
	}
	if c.Parallel && len(r.conns) > 1 {
		o.class("case:parallel")
		var wg sync.WaitGroup
		groups := map[int][]stepT{}
		for _, s := range c.Steps {
			k := s.Conn
			if s.Kind == "storm" {
				k = -1
			}
			groups[k] = append(groups[k], s)
		}
		for _, g := range groups {
			wg.Add(1)
			go func(g []stepT) {
				defer wg.Done()
				for _, s := range g {
					r.step(s)
				}
			}(g)
		}
		wg.Wait()
	} else {
		for _, s := range c.Steps {
			r.step(s)
		}
	}
	tEnd := time.Now()
	for _, a := range r.conns {
		a.close(c.Reset)
	}
	time.Sleep(5 * time.Millisecond)
	r.probe()
	phase("probe", tEnd)
	tEnd = time.Now()
	max, reads, werr := w.finish()
	// the attackers have gone
	d1, err1 := e.canaryRead()
	d2, err2 := e.freshRead()
	// tidy up what the victim created (ignored if the attackers destroyed it)
	if len(v.subs) > 0 {
		v.call(&ua.DeleteSubscriptionsRequest{SubscriptionIDs: v.subs}, v.token, time.Second)
	}
	v.close(false)
	phase("final-checks", tEnd)
	if cw != nil {
		cmax, _, cerr := cw.finish()
		o.control = cmax
		// an identical server that nobody attacks must have been answering promptly
		// all the time, otherwise a slow canary says nothing about the attack
		o.noisy = cerr != nil || cmax >= controlBound
	}
	time.Sleep(2 * time.Millisecond)
	if e.dead() {
		o.crashed = true
		o.msg = "the server process ended: " + e.crashText()
		return o
	}
	switch {
	case werr != nil:
		o.candidate("canary read failed while the attackers were active: %v", werr)
	case max >= canaryBound:
		o.candidate("canary round trip reached %v while the attackers were active (%d reads)", max, reads)
	case err1 != nil:
		o.candidate("canary read failed after the attackers had gone: %v", err1)
	case d1 >= canaryBound:
		o.candidate("canary round trip was %v after the attackers had gone", d1)
	case err2 != nil:
		o.candidate("a new client was not served after the attackers had gone: %v", err2)
	case d2 >= canaryBound:
		o.candidate("a new client needed %v to connect and read after the attackers had gone", d2)
	}
	o.class("conns:%d", len(c.Conns))
	o.class("handlers:%d", len(o.handlers))
	o.maxRTT = max
	if d1 > o.maxRTT {
		o.maxRTT = d1
	}
	if d2 > o.maxRTT {
		o.maxRTT = d2
	}
	return o
}

// judge runs the case on the shared server host. A candidate violation is
// repeated twice, each time on a fresh server process; only 3/3 counts.
// A server crash that does not reproduce with the case alone is reported with
// the whole history of its host (every case that server had executed).
func judge(c caseT) (msg string, o *outcome, replayCase any, infra error) {
	envMu.Lock()
	if env != nil && !env.dirty && env.dead() {
		// the server died after its last case had been judged (a delayed effect)
		env.dirty = true
		hist := append([]caseT{}, env.hist...)
		text := env.crashText()
		envMu.Unlock()
		return "the server process ended between two cases: " + text + fmt.Sprintf(" (the replay holds all %d cases this server had executed)", len(hist)),
			&outcome{handlers: map[string]bool{}, crashed: true}, historyT{History: hist}, nil
	}
	envMu.Unlock()
	tEnv := time.Now()
	e, err := getEnv()
	phase("server-host-start", tEnv)
	if err != nil {
		return "", nil, nil, err
	}
	o = runCase(e, c)
	if o.infra != nil {
		e.dirty = true
		return "", o, nil, o.infra
	}
	if o.msg == "" {
		return "", o, nil, nil
	}
	e.dirty = true
	if o.noisy && !o.crashed {
		rec.Inconclusive()
		o.class("verdict:inconclusive-machine-loaded")
		fmt.Printf("INCONCLUSIVE (the unattacked control server needed %v as well): %s\n", o.control.Round(time.Millisecond), o.msg)
		return "", o, nil, nil
	}
	defer phase("confirmation", time.Now())
	first := o.msg
	hist := append([]caseT{}, e.hist...)
	need := 2
	if o.crashed {
		need = 1
	}
	for i := 0; i < need; i++ {
		fe, err := newEnv("")
		if err != nil {
			return "", o, nil, err
		}
		o2 := runCase(fe, c)
		fe.close()
		if o2.infra == nil && o2.msg != "" && o2.crashed == o.crashed && (o2.crashed || !o2.noisy) {
			continue
		}
		if o.crashed {
			// the server did die: the history of that server is the failing input
			o.class("verdict:crash-needs-history")
			return first + fmt.Sprintf(" (not reproduced by the last case alone; the replay holds all %d cases this server had executed)", len(hist)), o, historyT{History: hist}, nil
		}
		rec.Inconclusive()
		o.class("verdict:inconclusive")
		b, _ := json.Marshal(summary(c))
		fmt.Printf("INCONCLUSIVE (not reproduced on a fresh server, attempt %d): %s\n  case: %s\n", i+2, first, b)
		return "", o, nil, nil
	}
	if o.crashed {
		return first + " (reproduced on a fresh server)", o, c, nil
	}
	return first + " (reproduced 3/3, twice on a fresh server)", o, c, nil
}

// controlBound: the control canary (same machine, same moment, unattacked
// server) must stay below this for a timing verdict to count.
const controlBound = 500 * time.Millisecond

var (
	ctlMu sync.Mutex
	ctl   *envT
)

// controlEnv returns the long-lived unattacked server of this process.
func controlEnv() *envT {
	ctlMu.Lock()
	defer ctlMu.Unlock()
	if ctl != nil && ctl.dead() {
		ctl = nil
	}
	if ctl == nil {
		e, err := newEnv("")
		if err != nil {
			return nil
		}
		ctl = e
	}
	return ctl
}

// historyT is the replay form of a crash that needs the earlier cases too.
type historyT struct {
	History []caseT `json:"history"`
}

func genCase(t *rapid.T) caseT {
	var c caseT
	nconn := rapid.IntRange(1, 4).Draw(t, "conns")
	for i := 0; i < nconn; i++ {
		sess := rapid.IntRange(0, 9).Draw(t, "session") < 7
		c.Conns = append(c.Conns, connT{Session: sess, Sub: sess && rapid.Bool().Draw(t, "sub")})
	}
	nsteps := rapid.IntRange(1, 8).Draw(t, "steps")
	for i := 0; i < nsteps; i++ {
		conn := rapid.IntRange(0, nconn-1).Draw(t, "conn")
		switch k := rapid.IntRange(0, 24).Draw(t, "stepKind"); {
		case k < 20:
			if s, ok := genRequest(t, conn, nconn); ok {
				c.Steps = append(c.Steps, s)
			}
		case k < 23:
			c.Steps = append(c.Steps, genRaw(t, conn))
		default:
			c.Steps = append(c.Steps, genStorm(t))
		}
	}
	c.Parallel = nconn > 1 && rapid.IntRange(0, 2).Draw(t, "parallel") == 0
	c.Reset = rapid.Bool().Draw(t, "reset")
	return c
}

func record(c caseT, o *outcome) {
	if o == nil {
		return
	}
	sort.Strings(o.classes)
	b, _ := json.Marshal(c)
	nt := len(o.handlers) >= 3
	rec.Case(nt, ev.Hash(b), o.classes...)
	if nt && rec.WantSample() {
		rec.Sample(summary(c))
	}
}

// summary is the case without the (possibly megabyte-sized) bodies.
func summary(c caseT) any {
	type st struct {
		Conn  int    `json:"conn"`
		Kind  string `json:"kind"`
		Type  string `json:"type,omitempty"`
		Token string `json:"token,omitempty"`
		Bytes int    `json:"bytes"`
		Desc  string `json:"desc,omitempty"`
	}
	var steps []st
	for _, s := range c.Steps {
		steps = append(steps, st{s.Conn, s.Kind, s.Type, s.Token, len(s.Hex) / 2, s.Desc})
	}
	return map[string]any{"conns": c.Conns, "parallel": c.Parallel, "steps": steps}
}

func TestAttack(t *testing.T) {
	defer func() {
		phaseMu.Lock()
		defer phaseMu.Unlock()
		var ks []string
		for k := range phases {
			ks = append(ks, k)
		}
		sort.Slice(ks, func(i, j int) bool { return phases[ks[i]] > phases[ks[j]] })
		for i, k := range ks {
			if i < 12 {
				fmt.Printf("time spent in %-40s %v\n", k, phases[k].Round(time.Millisecond))
			}
		}
	}()
	rapid.Check(t, func(t *rapid.T) {
		tGen := time.Now()
		c := genCase(t)
		phase("generate", tGen)
		if len(c.Steps) == 0 {
			t.Skip("no step")
		}
		rec.Journal(testName, c)
		msg, o, rc, infra := judge(c)
		rec.JournalDone(testName)
		if infra != nil {
			t.Fatalf("infrastructure (not a verdict): %v", infra)
		}
		record(c, o)
		if msg != "" {
			rec.Fail(t, testName, rc, "%s", msg)
		}
	})
}

// TestReplay re-sends a journalled / saved case without rapid. A case that
// killed the process kills this one too (the driver reports that).
func TestReplay(t *testing.T) {
	rp, err := ev.LoadReplay()
	if err != nil {
		t.Fatal(err)
	}
	if rp == nil {
		t.Skip("no VERIF_REPLAY")
	}
	if rp.Test == nonReaderTest {
		fmt.Println("REPLAYED structured")
		if msg := nonReader(t); msg != "" {
			t.Fatalf("property C29 violated: %s", msg)
		}
		return
	}
	var h historyT
	_ = json.Unmarshal(rp.Case, &h)
	if len(h.History) == 0 {
		var c caseT
		if err := json.Unmarshal(rp.Case, &c); err != nil {
			t.Fatal(err)
		}
		h.History = []caseT{c}
	}
	fmt.Println("REPLAYED structured")
	for i := 0; i < 3; i++ {
		e, err := newEnv("")
		if err != nil {
			t.Fatalf("infrastructure: %v", err)
		}
		var o *outcome
		for _, c := range h.History {
			o = runCase(e, c)
			if o.infra != nil || o.msg != "" {
				break
			}
		}
		e.close()
		if o.infra != nil {
			t.Fatalf("infrastructure (not a verdict): %v", o.infra)
		}
		if o.crashed {
			t.Fatalf("property C29 violated: %s", o.msg)
		}
		fmt.Printf("attempt %d: largest canary / new-client round trip %v (control server %v)\n", i+1, o.maxRTT.Round(time.Millisecond), o.control.Round(time.Millisecond))
		if o.msg != "" && o.noisy {
			fmt.Println("the unattacked control server was slow as well: machine too loaded, attempt not counted")
			o.msg = ""
		}
		if o.msg == "" {
			if i > 0 {
				fmt.Println("not reproduced on repetition: inconclusive, property held")
			}
			return
		}
		fmt.Printf("attempt %d: %s\n", i+1, o.msg)
	}
	t.Fatalf("property C29 violated (3/3)")
}
