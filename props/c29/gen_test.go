package c29

// Generators: hostile requests of every registered request type, raw chunks,
// connect/abort storms.

import (
	"encoding/hex"
	"math"
	"reflect"
	"strings"

	"github.com/gopcua/opcua/id"
	"github.com/gopcua/opcua/ua"
	"pgregory.net/rapid"

	"verif/pkg/ev"
	"verif/pkg/gen"
	"verif/pkg/hostile"
)

// ---------------------------------------------------------------------------
// placeholders for ids that only exist at run time; resolved just before a
// request is sent (see resolve in c29_test.go)

const (
	phSub        = 0xA5A50000 // | conn<<8 | index : subscription created by connection conn
	phItem       = 0xA5A60000 // | conn<<8 | index : monitored item created by connection conn
	phVictimSub  = 0xA5A5F000
	phVictimItem = 0xA5A6F000
)

const (
	nsTest = 1 // pkg/stack's node namespace
	nsMap  = 2 // the MapNamespace added by the C29 environment
)

var requestTypes = func() []gen.TypeInfo {
	var out []gen.TypeInfo
	for _, ti := range gen.Universe() {
		if ti.Kind == "service" && strings.HasSuffix(ti.Name, "Request") {
			out = append(out, ti)
		}
	}
	return out
}()

var hostileFloats = []float64{0, math.Copysign(0, -1), -1, -1e300, math.NaN(), math.Inf(1), math.Inf(-1), 1e-9, 0.5, 1, 10, 10, 100, 500, 1e18, 1e300, math.MaxFloat64, 9.3e15}

var hostileCounts = []uint32{0, 0, 1, 1, 2, 3, 10, 100, 10000, math.MaxInt32, math.MaxUint32}

type gctx struct {
	t     *rapid.T
	conn  int
	nconn int
}

func (g gctx) f64() float64 {
	if rapid.IntRange(0, 9).Draw(g.t, "f64gen") == 0 {
		return gen.Float64(g.t)
	}
	return rapid.SampledFrom(hostileFloats).Draw(g.t, "f64")
}

func (g gctx) u32() uint32 { return rapid.SampledFrom(hostileCounts).Draw(g.t, "u32") }

// size draws an array length; the large ones are rare because each costs the
// server (and the harness) tens of milliseconds.
func (g gctx) size() int {
	switch k := rapid.IntRange(0, 99).Draw(g.t, "sizeClass"); {
	case k < 8:
		return 0
	case k < 45:
		return 1
	case k < 70:
		return rapid.IntRange(2, 3).Draw(g.t, "sizeSmall")
	case k < 82:
		return 33
	case k < 90:
		return 1000
	case k < 97:
		return 10000
	default:
		return 100000
	}
}

func sizeClass(n int) string {
	switch {
	case n == 0:
		return "0"
	case n <= 3:
		return "1-3"
	case n < 1000:
		return "4-999"
	case n < 10000:
		return "10^3"
	case n < 100000:
		return "10^4"
	}
	return "10^5"
}

var knownNodes = []*ua.NodeID{
	ua.NewStringNodeID(nsTest, "canary"), ua.NewStringNodeID(nsTest, "canary"), ua.NewStringNodeID(nsTest, "v0"), ua.NewStringNodeID(nsTest, "v1"), ua.NewStringNodeID(nsTest, "text"),
	ua.NewNumericNodeID(nsTest, id.ObjectsFolder),
	ua.NewNumericNodeID(0, id.RootFolder), ua.NewNumericNodeID(0, id.ObjectsFolder), ua.NewNumericNodeID(0, id.ObjectsFolder), ua.NewNumericNodeID(0, id.TypesFolder),
	ua.NewNumericNodeID(0, id.Server), ua.NewNumericNodeID(0, id.Server_ServerStatus), ua.NewNumericNodeID(0, id.Server_ServerStatus_CurrentTime),
	ua.NewNumericNodeID(0, id.Server_NamespaceArray), ua.NewNumericNodeID(0, id.HierarchicalReferences), ua.NewNumericNodeID(0, id.References), ua.NewNumericNodeID(0, id.BaseObjectType),
	ua.NewNumericNodeID(0, id.Server_ServerCapabilities), ua.NewTwoByteNodeID(uint8(id.ObjectsFolder)),
	ua.NewStringNodeID(nsMap, "k1"), ua.NewStringNodeID(nsMap, "k2"), ua.NewStringNodeID(nsMap, "k3"), ua.NewNumericNodeID(nsMap, id.ObjectsFolder), ua.NewNumericNodeID(nsMap, id.RootFolder),
}

var unknownNodes = []*ua.NodeID{
	ua.NewStringNodeID(nsTest, "nope"), ua.NewNumericNodeID(0, 999999), ua.NewNumericNodeID(7, 1), ua.NewStringNodeID(65535, "x"), ua.NewNumericNodeID(nsMap, 12345),
	ua.NewStringNodeID(nsMap, "nokey"), ua.NewStringNodeID(nsMap, ""), ua.NewTwoByteNodeID(0), ua.NewGUIDNodeID(nsTest, "AAAAAAAA-BBBB-CCCC-DDDD-EEEEEEEEEEEE"),
	ua.NewByteStringNodeID(nsMap, []byte{1, 2, 3}), ua.NewByteStringNodeID(0, nil), ua.NewNumericNodeID(3, 85),
}

// node draws a node id: known, unknown, generated, or absent (nil pointer: the
// encoder then writes nothing for it).
func (g gctx) node() *ua.NodeID {
	switch k := rapid.IntRange(0, 19).Draw(g.t, "nodeKind"); {
	case k < 11:
		return rapid.SampledFrom(knownNodes).Draw(g.t, "known")
	case k < 16:
		return rapid.SampledFrom(unknownNodes).Draw(g.t, "unknown")
	case k < 19:
		return gen.NodeID(g.t)
	}
	return nil
}

var refTypes = []*ua.NodeID{
	ua.NewTwoByteNodeID(0), ua.NewNumericNodeID(0, 0), ua.NewNumericNodeID(0, id.HierarchicalReferences), ua.NewNumericNodeID(0, id.HierarchicalReferences), ua.NewNumericNodeID(0, id.References),
	ua.NewNumericNodeID(0, id.HasComponent), ua.NewNumericNodeID(0, id.Organizes), ua.NewNumericNodeID(0, id.HasSubtype), ua.NewNumericNodeID(0, id.NonHierarchicalReferences),
	ua.NewNumericNodeID(0, id.HasChild), ua.NewNumericNodeID(0, id.Aggregates), ua.NewNumericNodeID(0, id.HasTypeDefinition), ua.NewNumericNodeID(0, 999999), ua.NewNumericNodeID(nsTest, 33), ua.NewStringNodeID(0, "x"),
}

func (g gctx) attr() ua.AttributeID {
	switch k := rapid.IntRange(0, 9).Draw(g.t, "attrKind"); {
	case k < 5:
		return ua.AttributeIDValue
	case k < 8:
		return ua.AttributeID(rapid.IntRange(1, 27).Draw(g.t, "attr"))
	}
	return ua.AttributeID(rapid.SampledFrom([]uint32{0, 28, 9999, math.MaxUint32}).Draw(g.t, "attrBad"))
}

func (g gctx) subID() uint32 {
	switch k := rapid.IntRange(0, 19).Draw(g.t, "subKind"); {
	case k < 8: // a subscription of this connection
		return phSub | uint32(g.conn)<<8 | uint32(rapid.IntRange(0, 2).Draw(g.t, "subIdx"))
	case k < 11: // of another attacker connection
		return phSub | uint32(rapid.IntRange(0, g.nconn-1).Draw(g.t, "subConn"))<<8 | uint32(rapid.IntRange(0, 1).Draw(g.t, "subIdx"))
	case k < 15:
		return phVictimSub
	}
	return rapid.SampledFrom([]uint32{0, 1, 2, 3, 999999, math.MaxUint32, math.MaxInt32}).Draw(g.t, "subRaw")
}

func (g gctx) itemID() uint32 {
	switch k := rapid.IntRange(0, 19).Draw(g.t, "itemKind"); {
	case k < 8:
		return phItem | uint32(g.conn)<<8 | uint32(rapid.IntRange(0, 3).Draw(g.t, "itemIdx"))
	case k < 11:
		return phItem | uint32(rapid.IntRange(0, g.nconn-1).Draw(g.t, "itemConn"))<<8 | uint32(rapid.IntRange(0, 1).Draw(g.t, "itemIdx"))
	case k < 15:
		return phVictimItem
	}
	return rapid.SampledFrom([]uint32{0, 1, 2, 3, 999999, math.MaxUint32}).Draw(g.t, "itemRaw")
}

// repeat builds a slice of n elements by cycling over 1..3 drawn templates.
func repeat[T any](g gctx, n int, one func() T) []T {
	if n == 0 {
		if rapid.Bool().Draw(g.t, "nilSlice") {
			return nil
		}
		return []T{}
	}
	k := n
	if k > 3 {
		k = 3
	}
	tpl := make([]T, k)
	for i := range tpl {
		tpl[i] = one()
	}
	out := make([]T, n)
	for i := range out {
		out[i] = tpl[i%k]
	}
	return out
}

func (g gctx) readValueID() *ua.ReadValueID {
	if rapid.IntRange(0, 29).Draw(g.t, "absentRVID") == 0 {
		return nil
	}
	r := &ua.ReadValueID{NodeID: g.node(), AttributeID: g.attr(), DataEncoding: &ua.QualifiedName{}}
	switch rapid.IntRange(0, 9).Draw(g.t, "rvidExtra") {
	case 0:
		r.IndexRange = rapid.SampledFrom([]string{"0", "1:2", "5:1", "-1", "a", "0:4294967296", ",", "1,2:3"}).Draw(g.t, "range")
	case 1:
		r.DataEncoding = &ua.QualifiedName{NamespaceIndex: 7, Name: "Default XML"}
	case 2:
		r.DataEncoding = nil
	}
	return r
}

func (g gctx) monParams() *ua.MonitoringParameters {
	if rapid.IntRange(0, 29).Draw(g.t, "absentParams") == 0 {
		return nil
	}
	p := &ua.MonitoringParameters{ClientHandle: g.u32(), SamplingInterval: g.f64(), QueueSize: g.u32(), DiscardOldest: rapid.Bool().Draw(g.t, "discard")}
	switch rapid.IntRange(0, 5).Draw(g.t, "filter") {
	case 0:
		p.Filter = nil
	case 1:
		p.Filter = ua.NewExtensionObject(nil)
	case 2:
		p.Filter = ua.NewExtensionObject(&ua.DataChangeFilter{Trigger: ua.DataChangeTrigger(g.u32()), DeadbandType: g.u32(), DeadbandValue: g.f64()})
	case 3:
		p.Filter = ua.NewExtensionObject(&ua.EventFilter{})
	default:
		p.Filter = gen.Default.ExtensionObject(g.t, 1)
	}
	return p
}

// targeted generators for the services the server implements (and their
// siblings that take the same ids)
var targeted = map[string]func(g gctx) (ua.Request, string){
	"ReadRequest": func(g gctx) (ua.Request, string) {
		n := g.size()
		return &ua.ReadRequest{MaxAge: g.f64(), TimestampsToReturn: ua.TimestampsToReturn(rapid.IntRange(0, 5).Draw(g.t, "ttr")),
			NodesToRead: repeat(g, n, g.readValueID)}, "n=" + sizeClass(n)
	},
	"WriteRequest": func(g gctx) (ua.Request, string) {
		n := g.size()
		if n > 10000 {
			n = 10000
		}
		return &ua.WriteRequest{NodesToWrite: repeat(g, n, func() *ua.WriteValue {
			w := &ua.WriteValue{NodeID: g.node(), AttributeID: g.attr(), Value: gen.Default.DataValue(g.t, 1)}
			switch rapid.IntRange(0, 9).Draw(g.t, "wvKind") {
			case 0:
				w.Value = &ua.DataValue{} // no value, no status: "absent optional parts"
			case 1:
				w.AttributeID = rapid.SampledFrom([]ua.AttributeID{ua.AttributeIDAccessLevel, ua.AttributeIDUserAccessLevel, ua.AttributeIDNodeClass, ua.AttributeIDBrowseName, ua.AttributeIDDataType}).Draw(g.t, "wvAttr")
			case 2:
				w.AttributeID = rapid.SampledFrom([]ua.AttributeID{ua.AttributeIDAccessLevel, ua.AttributeIDUserAccessLevel}).Draw(g.t, "wvAttr")
				w.Value = &ua.DataValue{EncodingMask: ua.DataValueValue, Value: ua.MustVariant(rapid.Uint8().Draw(g.t, "level"))}
			}
			return w
		})}, "n=" + sizeClass(n)
	},
	"BrowseRequest": func(g gctx) (ua.Request, string) {
		n := g.size()
		if n > 10000 {
			n = 10000
		}
		if n > 1000 && ev.HasOpen("C29", "KF-C29-3") {
			// listed finding: a Browse of 10^4 nodes keeps the only dispatcher busy
			// for seconds; the class is excluded by construction while it is open
			rec.Excluded("KF-C29-3")
			n = 1000
		}
		r := &ua.BrowseRequest{RequestedMaxReferencesPerNode: g.u32(), NodesToBrowse: repeat(g, n, func() *ua.BrowseDescription {
			return &ua.BrowseDescription{NodeID: g.node(), BrowseDirection: ua.BrowseDirection(rapid.SampledFrom([]uint32{0, 1, 2, 3, 99}).Draw(g.t, "dir")),
				ReferenceTypeID: rapid.SampledFrom(refTypes).Draw(g.t, "refType"), IncludeSubtypes: rapid.Bool().Draw(g.t, "subtypes"),
				NodeClassMask: rapid.SampledFrom([]uint32{0, 0, 0xff, 1, 2, math.MaxUint32}).Draw(g.t, "ncMask"), ResultMask: rapid.SampledFrom([]uint32{0, 63, 63, math.MaxUint32}).Draw(g.t, "resMask")}
		})}
		if rapid.IntRange(0, 9).Draw(g.t, "view") != 0 {
			r.View = &ua.ViewDescription{ViewID: rapid.SampledFrom([]*ua.NodeID{ua.NewTwoByteNodeID(0), ua.NewNumericNodeID(0, 999), nil}).Draw(g.t, "viewID")}
		}
		return r, "n=" + sizeClass(n)
	},
	"CreateSubscriptionRequest": func(g gctx) (ua.Request, string) {
		iv := g.f64()
		cl := "interval>0"
		switch {
		case math.IsNaN(iv):
			cl = "interval=NaN"
		case math.IsInf(iv, 0):
			cl = "interval=Inf"
		case iv <= 0:
			cl = "interval<=0"
		case iv < 1:
			cl = "interval<1ms"
		case iv > 1e15:
			cl = "interval-huge"
		}
		return &ua.CreateSubscriptionRequest{RequestedPublishingInterval: iv, RequestedLifetimeCount: g.u32(), RequestedMaxKeepAliveCount: g.u32(),
			MaxNotificationsPerPublish: g.u32(), PublishingEnabled: rapid.Bool().Draw(g.t, "enabled"), Priority: rapid.Uint8().Draw(g.t, "prio")}, cl
	},
	"ModifySubscriptionRequest": func(g gctx) (ua.Request, string) {
		return &ua.ModifySubscriptionRequest{SubscriptionID: g.subID(), RequestedPublishingInterval: g.f64(), RequestedLifetimeCount: g.u32(), RequestedMaxKeepAliveCount: g.u32(), MaxNotificationsPerPublish: g.u32()}, ""
	},
	"SetPublishingModeRequest": func(g gctx) (ua.Request, string) {
		n := g.size()
		return &ua.SetPublishingModeRequest{PublishingEnabled: rapid.Bool().Draw(g.t, "enabled"), SubscriptionIDs: repeat(g, n, g.subID)}, "n=" + sizeClass(n)
	},
	"TransferSubscriptionsRequest": func(g gctx) (ua.Request, string) {
		n := g.size()
		return &ua.TransferSubscriptionsRequest{SubscriptionIDs: repeat(g, n, g.subID), SendInitialValues: rapid.Bool().Draw(g.t, "initial")}, "n=" + sizeClass(n)
	},
	"RepublishRequest": func(g gctx) (ua.Request, string) {
		return &ua.RepublishRequest{SubscriptionID: g.subID(), RetransmitSequenceNumber: g.u32()}, ""
	},
	"DeleteSubscriptionsRequest": func(g gctx) (ua.Request, string) {
		n := g.size()
		return &ua.DeleteSubscriptionsRequest{SubscriptionIDs: repeat(g, n, g.subID)}, "n=" + sizeClass(n)
	},
	"PublishRequest": func(g gctx) (ua.Request, string) {
		n := g.size()
		if n > 10000 {
			n = 10000
		}
		return &ua.PublishRequest{SubscriptionAcknowledgements: repeat(g, n, func() *ua.SubscriptionAcknowledgement {
			return &ua.SubscriptionAcknowledgement{SubscriptionID: g.subID(), SequenceNumber: g.u32()}
		})}, "n=" + sizeClass(n)
	},
	"CreateMonitoredItemsRequest": func(g gctx) (ua.Request, string) {
		n := g.size()
		if n > 10000 {
			n = 10000
		}
		return &ua.CreateMonitoredItemsRequest{SubscriptionID: g.subID(), TimestampsToReturn: ua.TimestampsToReturn(rapid.IntRange(0, 5).Draw(g.t, "ttr")),
			ItemsToCreate: repeat(g, n, func() *ua.MonitoredItemCreateRequest {
				return &ua.MonitoredItemCreateRequest{ItemToMonitor: g.readValueID(), MonitoringMode: ua.MonitoringMode(rapid.IntRange(0, 3).Draw(g.t, "mode")), RequestedParameters: g.monParams()}
			})}, "n=" + sizeClass(n)
	},
	"ModifyMonitoredItemsRequest": func(g gctx) (ua.Request, string) {
		n := g.size()
		if n > 10000 {
			n = 10000
		}
		return &ua.ModifyMonitoredItemsRequest{SubscriptionID: g.subID(), ItemsToModify: repeat(g, n, func() *ua.MonitoredItemModifyRequest {
			return &ua.MonitoredItemModifyRequest{MonitoredItemID: g.itemID(), RequestedParameters: g.monParams()}
		})}, "n=" + sizeClass(n)
	},
	"SetMonitoringModeRequest": func(g gctx) (ua.Request, string) {
		n := g.size()
		return &ua.SetMonitoringModeRequest{SubscriptionID: g.subID(), MonitoringMode: ua.MonitoringMode(rapid.IntRange(0, 3).Draw(g.t, "mode")), MonitoredItemIDs: repeat(g, n, g.itemID)}, "n=" + sizeClass(n)
	},
	"SetTriggeringRequest": func(g gctx) (ua.Request, string) {
		n := g.size()
		return &ua.SetTriggeringRequest{SubscriptionID: g.subID(), TriggeringItemID: g.itemID(), LinksToAdd: repeat(g, n, g.itemID), LinksToRemove: repeat(g, g.size()%4, g.itemID)}, "n=" + sizeClass(n)
	},
	"DeleteMonitoredItemsRequest": func(g gctx) (ua.Request, string) {
		n := g.size()
		return &ua.DeleteMonitoredItemsRequest{SubscriptionID: g.subID(), MonitoredItemIDs: repeat(g, n, g.itemID)}, "n=" + sizeClass(n)
	},
	"CreateSessionRequest": func(g gctx) (ua.Request, string) {
		r := &ua.CreateSessionRequest{
			ClientDescription: &ua.ApplicationDescription{ApplicationURI: gen.String(g.t), ApplicationName: gen.LocalizedText(g.t), ApplicationType: ua.ApplicationType(g.u32()), DiscoveryURLs: repeat(g, g.size()%1001, func() string { return gen.String(g.t) })},
			ServerURI:         gen.String(g.t), EndpointURL: rapid.SampledFrom([]string{"", "opc.tcp://127.0.0.1:4840", "opc.tcp://127.0.0.1:4840/", "x", "\x00"}).Draw(g.t, "url"),
			SessionName: gen.String(g.t), ClientNonce: gen.Bytes(g.t), ClientCertificate: gen.Bytes(g.t), RequestedSessionTimeout: g.f64(), MaxResponseMessageSize: g.u32(),
		}
		switch rapid.IntRange(0, 5).Draw(g.t, "csKind") {
		case 0:
			r.ClientDescription = nil
		case 1:
			r.ClientNonce = make([]byte, rapid.SampledFrom([]int{1, 31, 32, 33, 10000}).Draw(g.t, "nonceLen"))
		case 2:
			r.ClientDescription.ApplicationName = nil
		}
		return r, ""
	},
	"ActivateSessionRequest": func(g gctx) (ua.Request, string) {
		r := &ua.ActivateSessionRequest{ClientSignature: &ua.SignatureData{Algorithm: gen.String(g.t), Signature: gen.Bytes(g.t)}, LocaleIDs: repeat(g, g.size()%1001, func() string { return gen.String(g.t) }),
			UserTokenSignature: &ua.SignatureData{Algorithm: gen.String(g.t), Signature: gen.Bytes(g.t)}}
		switch rapid.IntRange(0, 7).Draw(g.t, "identity") {
		case 0:
			r.UserIdentityToken = nil
		case 1:
			r.UserIdentityToken = ua.NewExtensionObject(nil)
		case 2:
			r.UserIdentityToken = ua.NewExtensionObject(&ua.AnonymousIdentityToken{PolicyID: gen.String(g.t)})
		case 3:
			r.UserIdentityToken = ua.NewExtensionObject(&ua.UserNameIdentityToken{PolicyID: gen.String(g.t), UserName: gen.String(g.t), Password: gen.Bytes(g.t), EncryptionAlgorithm: gen.String(g.t)})
		case 4:
			r.UserIdentityToken = ua.NewExtensionObject(&ua.X509IdentityToken{PolicyID: gen.String(g.t), CertificateData: gen.Bytes(g.t)})
		case 5:
			r.UserIdentityToken = ua.NewExtensionObject(&ua.IssuedIdentityToken{PolicyID: gen.String(g.t), TokenData: gen.Bytes(g.t), EncryptionAlgorithm: gen.String(g.t)})
		default:
			r.UserIdentityToken = gen.Default.ExtensionObject(g.t, 1)
		}
		switch rapid.IntRange(0, 9).Draw(g.t, "asKind") {
		case 0:
			r.ClientSignature = nil
		case 1:
			r.UserTokenSignature = nil
		}
		return r, ""
	},
	"CloseSessionRequest": func(g gctx) (ua.Request, string) {
		return &ua.CloseSessionRequest{DeleteSubscriptions: rapid.Bool().Draw(g.t, "delSubs")}, ""
	},
	"GetEndpointsRequest": func(g gctx) (ua.Request, string) {
		n := g.size()
		return &ua.GetEndpointsRequest{EndpointURL: rapid.SampledFrom([]string{"", "opc.tcp://127.0.0.1:4840", "OPC.TCP://LOCALHOST", "\xff"}).Draw(g.t, "url"),
			LocaleIDs: repeat(g, n%1001, func() string { return gen.String(g.t) }), ProfileURIs: repeat(g, n, func() string { return gen.String(g.t) })}, "n=" + sizeClass(n)
	},
}

// implemented lists the request types with real handler bodies; they are drawn
// more often than the ones the server answers with BadServiceUnsupported.
var implemented = []string{"ReadRequest", "WriteRequest", "BrowseRequest", "CreateSubscriptionRequest", "DeleteSubscriptionsRequest", "PublishRequest",
	"CreateMonitoredItemsRequest", "SetMonitoringModeRequest", "DeleteMonitoredItemsRequest", "CreateSessionRequest", "ActivateSessionRequest", "CloseSessionRequest", "GetEndpointsRequest", "FindServersRequest"}

// inflate replicates the elements of the first non-empty top-level slice field.
func inflate(v any, n int) {
	s := reflect.ValueOf(v).Elem()
	for i := 0; i < s.NumField(); i++ {
		f := s.Field(i)
		if f.Kind() == reflect.Slice && f.Type().Elem().Kind() != reflect.Uint8 && f.Len() > 0 && f.CanSet() {
			out := reflect.MakeSlice(f.Type(), n, n)
			for j := 0; j < n; j++ {
				out.Index(j).Set(f.Index(j % f.Len()))
			}
			f.Set(out)
			return
		}
	}
}

var tokenKinds = []string{"valid", "valid", "valid", "valid", "valid", "valid", "valid", "valid", "null", "unknown", "other", "other", "other", "unknown-string", "unknown-guid", "unknown-opaque"}

// genRequest draws one request step for connection conn.
func genRequest(t *rapid.T, conn, nconn int) (stepT, bool) {
	g := gctx{t: t, conn: conn, nconn: nconn}
	var name string
	switch k := rapid.IntRange(0, 9).Draw(t, "typeClass"); {
	case k < 6:
		name = rapid.SampledFrom(implemented).Draw(t, "implemented")
	default:
		name = requestTypes[rapid.IntRange(0, len(requestTypes)-1).Draw(t, "anyType")].Name
	}
	var req ua.Request
	desc := ""
	if f, ok := targeted[name]; ok && rapid.IntRange(0, 9).Draw(t, "targeted") != 0 {
		req, desc = f(g)
		desc = "targeted," + desc
	} else {
		var ti gen.TypeInfo
		for _, x := range requestTypes {
			if x.Name == name {
				ti = x
			}
		}
		v, ok := gen.Default.Value(t, ti.Type).(ua.Request)
		if !ok {
			return stepT{}, false
		}
		req, desc = v, "generic"
		if rapid.IntRange(0, 14).Draw(t, "inflate") == 0 {
			n := rapid.SampledFrom([]int{1000, 10000}).Draw(t, "inflateN")
			inflate(req, n)
			desc = "generic,inflated=" + sizeClass(n)
		}
	}
	id, rest, err := encodeReq(req)
	if err != nil || len(rest) > 1900<<10 {
		return stepT{}, false
	}
	st := stepT{Conn: conn, Kind: "req", Type: name, TypeID: id, Token: rapid.SampledFrom(tokenKinds).Draw(t, "token"), Hex: hex.EncodeToString(rest), Desc: desc}
	// a burst: the same request written many times back to back before the
	// attacker reads anything (it reads afterwards: this is a reading client)
	if len(rest) < 2000 && rapid.IntRange(0, 5).Draw(t, "burst") == 0 {
		st.Burst = rapid.SampledFrom([]int{2, 50, 101, 150, 300}).Draw(t, "burstN")
	}
	return st, true
}

// ---------------------------------------------------------------------------
// raw chunks after a valid HEL / OPN

type rawT struct {
	MsgType string `json:"msg_type"`
	Chunk   string `json:"chunk"`
	Size    string `json:"size"` // exact | short | long | zero | seven | huge
	Chan    string `json:"chan"` // valid | zero | plus1 | random
	Tok     string `json:"tok"`  // valid | zero | plus1
	Seq     string `json:"seq"`  // next | zero | repeat | max
	ReqID   uint32 `json:"req_id"`
}

var responseTypes = func() []gen.TypeInfo {
	var out []gen.TypeInfo
	for _, ti := range gen.Universe() {
		if ti.Kind == "service" && !strings.HasSuffix(ti.Name, "Request") {
			out = append(out, ti)
		}
	}
	return out
}()

func genRaw(t *rapid.T, conn int) stepT {
	r := &rawT{
		MsgType: rapid.SampledFrom([]string{"MSG", "MSG", "MSG", "MSG", "OPN", "CLO", "HEL", "ACK", "ERR", "RHE", "XXX", "msg"}).Draw(t, "msgType"),
		Chunk:   rapid.SampledFrom([]string{"F", "F", "F", "C", "A", "X", "\x00"}).Draw(t, "chunk"),
		Size:    rapid.SampledFrom([]string{"exact", "exact", "exact", "short", "long", "zero", "seven", "huge", "hdr8", "hdr9", "hdr11", "hdr12", "hdr15"}).Draw(t, "size"),
		Chan:    rapid.SampledFrom([]string{"valid", "valid", "valid", "zero", "plus1", "random"}).Draw(t, "chan"),
		Tok:     rapid.SampledFrom([]string{"valid", "valid", "valid", "zero", "plus1"}).Draw(t, "tok"),
		Seq:     rapid.SampledFrom([]string{"next", "next", "next", "zero", "repeat", "max"}).Draw(t, "seq"),
		ReqID:   rapid.SampledFrom([]uint32{0, 1, 2, 77, math.MaxUint32}).Draw(t, "reqID"),
	}
	var body []byte
	desc := ""
	switch rapid.IntRange(0, 6).Draw(t, "bodyKind") {
	case 0: // noise
		body = rapid.SliceOfN(rapid.Byte(), 0, 64).Draw(t, "noise")
		desc = "noise"
	case 1: // a response type sent to the server
		ti := responseTypes[rapid.IntRange(0, len(responseTypes)-1).Draw(t, "respType")]
		v := gen.Default.Value(t, ti.Type)
		b, _ := func() (b []byte, err error) {
			defer func() { _ = recover() }()
			return ua.Encode(v)
		}()
		body = append([]byte{1, 0, byte(ti.ID), byte(ti.ID >> 8)}, b...)
		desc = "response:" + ti.Name
	case 2: // unknown / non-service type id with some bytes
		tid := rapid.SampledFrom([]uint16{0, 1, 12, 296, 9999, 65535}).Draw(t, "typeID")
		body = append([]byte{1, 0, byte(tid), byte(tid >> 8)}, rapid.SliceOfN(rapid.Byte(), 0, 40).Draw(t, "tail")...)
		desc = "unknown-type"
	default: // a request body, mutated or truncated
		st, ok := genRequest(t, conn, 1)
		if !ok {
			body = []byte{1, 0, 0x77, 0x02}
			desc = "bare-type-id"
			break
		}
		rest, _ := hex.DecodeString(st.Hex)
		full := buildBody(st.TypeID, nil, 1, rest)
		if len(full) > 4096 {
			full = full[:4096]
		}
		switch rapid.IntRange(0, 2).Draw(t, "mutKind") {
		case 0:
			full, _ = hostile.Mutate(t, full)
			desc = "mutated:" + st.Type
		case 1:
			full = full[:rapid.IntRange(0, len(full)).Draw(t, "cut")]
			desc = "truncated:" + st.Type
		default:
			desc = "valid:" + st.Type
		}
		body = full
	}
	return stepT{Conn: conn, Kind: "raw", Raw: r, Hex: hex.EncodeToString(body), Desc: desc}
}

// ---------------------------------------------------------------------------
// connect / abort storms

type stormT struct {
	N      int      `json:"n"`
	Stages []string `json:"stages"`  // cycled over the N connections
	Hold   int      `json:"hold_ms"` // "hold": keep a silent connection open this long
}

var stormStages = []string{"connect", "connect-rst", "hel-partial", "hel-partial-rst", "hel", "hel-rst", "opn-partial", "opn", "opn-rst", "session", "session-rst"}

func genStorm(t *rapid.T) stepT {
	s := &stormT{N: rapid.SampledFrom([]int{1, 5, 20, 60, 200}).Draw(t, "stormN")}
	k := rapid.IntRange(1, 4).Draw(t, "nStages")
	for i := 0; i < k; i++ {
		s.Stages = append(s.Stages, rapid.SampledFrom(stormStages).Draw(t, "stage"))
	}
	desc := "abort"
	if rapid.IntRange(0, 19).Draw(t, "hold") == 0 {
		// a client that connects and then says nothing for a while
		s.Hold = 2600
		s.N = rapid.SampledFrom([]int{1, 3}).Draw(t, "holdN")
		s.Stages = []string{rapid.SampledFrom([]string{"hold-silent", "hold-hel-partial", "hold-after-hel", "hold-opn-partial"}).Draw(t, "holdStage")}
		desc = s.Stages[0]
	}
	return stepT{Kind: "storm", Storm: s, Desc: desc}
}
