package c29

import (
	"fmt"
	"os"
	"runtime/pprof"
	"strings"
	"testing"
	"time"

	"github.com/gopcua/opcua/ua"
)

func TestDbgA(t *testing.T) {
	e, err := newEnv()
	if err != nil {
		t.Fatal(err)
	}
	e.srv.AddVariable("big", strings.Repeat("x", 60000))
	a, _ := dialSmallWindow(e.addr, e.srv.URL, 4096)
	var rv []*ua.ReadValueID
	for i := 0; i < 30; i++ {
		rv = append(rv, &ua.ReadValueID{NodeID: ua.NewStringNodeID(nsTest, "big"), AttributeID: ua.AttributeIDValue, DataEncoding: &ua.QualifiedName{}})
	}
	id, rest, _ := encodeReq(&ua.ReadRequest{NodesToRead: rv})
	for i := 0; i < 40; i++ {
		_, err := a.sendBody(buildBody(id, nil, uint32(i+2), rest))
		if err != nil {
			fmt.Println("send", i, err)
		}
	}
	time.Sleep(500 * time.Millisecond)
	pprof.Lookup("goroutine").WriteTo(os.Stdout, 1)
	for i := 0; i < 3; i++ {
		d, err := e.canaryRead()
		fmt.Println("canary", d, err)
		time.Sleep(200 * time.Millisecond)
	}
}
