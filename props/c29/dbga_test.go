package c29

import (
	"fmt"
	"strings"
	"testing"
	"time"

	"github.com/gopcua/opcua/ua"
)

func TestDbgA(t *testing.T) {
	e, err := newEnv()
	if err != nil {
		t.Fatal(err)
	}
	e.srv.AddVariable("big", strings.Repeat("x", 60000))
	a, _ := dialAtt(e.addr, e.srv.URL)
	var rv []*ua.ReadValueID
	for i := 0; i < 30; i++ {
		rv = append(rv, &ua.ReadValueID{NodeID: ua.NewStringNodeID(nsTest, "big"), AttributeID: ua.AttributeIDValue, DataEncoding: &ua.QualifiedName{}})
	}
	id, rest, _ := encodeReq(&ua.ReadRequest{NodesToRead: rv})
	for i := 0; i < 40; i++ {
		_, err := a.sendBody(buildBody(id, nil, uint32(i+2), rest))
		if err != nil {
			fmt.Println("send", i, err)
		}
	}
	for i := 0; i < 8; i++ {
		d, err := e.canaryRead()
		fmt.Println("canary", d, err)
		time.Sleep(200 * time.Millisecond)
	}
}
