package c29

import (
	"fmt"
	"strings"
	"testing"
	"time"

	"github.com/gopcua/opcua/ua"
)

func TestDbgA(t *testing.T) {
	e, err := newEnv()
	if err != nil {
		t.Fatal(err)
	}
	e.srv.AddVariable("big", strings.Repeat("x", 60000))
	a, _ := dialAtt(e.addr, e.srv.URL)
	var rv []*ua.ReadValueID
	for i := 0; i < 30; i++ {
		rv = append(rv, &ua.ReadValueID{NodeID: ua.NewStringNodeID(nsTest, "big"), AttributeID: ua.AttributeIDValue, DataEncoding: &ua.QualifiedName{}})
	}
	v, err := a.call(&ua.ReadRequest{NodesToRead: rv}, nil, 3*time.Second)
	fmt.Printf("%T %v\n", v, err)
	if rr, ok := v.(*ua.ReadResponse); ok {
		fmt.Println(len(rr.Results), rr.Results[0].Status, len(fmt.Sprint(rr.Results[0].Value.Value())))
	}
}
