package c29

// Attacker connections: raw UA-TCP + UASC under SecurityPolicy#None written by
// hand (pkg/refnone), so that every byte of every request is under the control
// of the generator and no gopcua client code sits between the case and the
// server.

import (
	"encoding/binary"
	"errors"
	"fmt"
	"net"
	"time"

	"github.com/gopcua/opcua/ua"

	"verif/pkg/refnone"
)

type attConn struct {
	ch    *refnone.Channel
	reqID uint32
	token *ua.NodeID // authentication token of this connection's session (nil: none)
	subs  []uint32   // subscription ids returned to this connection
	items []uint32   // monitored item ids returned to this connection
	dead  bool
}

var errNoResponse = errors.New("no response within the wait")

func dialAtt(addr, url string) (*attConn, error) {
	c, err := refnone.Dial(addr, url, refnone.DefaultLimits, 3*time.Second)
	if err != nil {
		return nil, err
	}
	ch, err := refnone.OpenAsClient(c, refnone.NewSeq(1, 0, 0), 1, 3*time.Second)
	if err != nil {
		c.Close()
		return nil, err
	}
	return &attConn{ch: ch, reqID: 1}, nil
}

func (a *attConn) close(reset bool) {
	if a == nil || a.ch == nil {
		return
	}
	a.dead = true
	if reset {
		if tc, ok := a.ch.Conn.Conn.(*net.TCPConn); ok {
			tc.SetLinger(0)
		}
	}
	a.ch.Close()
}

// chunkMax is the body size per chunk the server's ACK allows.
func (a *attConn) chunkMax() int {
	n := int(a.ch.Peer.RecvBuf)
	if n < 8192 || n > 1<<20 {
		n = 8192
	}
	return n - refnone.SymHeaderLen
}

// sendBody sends one message (type id + body), chunked as the ACK requires.
func (a *attConn) sendBody(body []byte) (uint32, error) {
	if a.dead {
		return 0, errors.New("connection is dead")
	}
	a.reqID++
	id := a.reqID
	max := a.chunkMax()
	a.ch.SetWriteDeadline(time.Now().Add(10 * time.Second))
	defer a.ch.SetWriteDeadline(time.Time{})
	var out []byte
	for len(body) > max {
		out = append(out, refnone.SymChunk("MSG", 'C', a.ch.ChannelID, a.ch.TokenID, a.ch.Seq.Next(), id, body[:max])...)
		body = body[max:]
	}
	out = append(out, refnone.SymChunk("MSG", 'F', a.ch.ChannelID, a.ch.TokenID, a.ch.Seq.Next(), id, body)...)
	if _, err := a.ch.Write(out); err != nil {
		a.close(false)
		return id, err
	}
	return id, nil
}

// recv reads frames until the final chunk of the response to reqID arrived.
// Responses to other request ids (late Publish responses) are dropped.
func (a *attConn) recv(reqID uint32, wait time.Duration) (any, error) {
	if a.dead {
		return nil, errors.New("connection is dead")
	}
	deadline := time.Now().Add(wait)
	var data []byte
	for {
		a.ch.SetReadDeadline(deadline)
		f, err := refnone.ReadFrame(a.ch, 1<<24)
		if err != nil {
			var ne net.Error
			if errors.As(err, &ne) && ne.Timeout() {
				return nil, errNoResponse
			}
			a.close(false)
			return nil, fmt.Errorf("connection closed by the server: %w", err)
		}
		if string(f[:3]) == "ERR" {
			a.close(false)
			code := uint32(0)
			if len(f) >= 12 {
				code = binary.LittleEndian.Uint32(f[8:])
			}
			return nil, fmt.Errorf("server sent ERR %v", ua.StatusCode(code))
		}
		ch, err := refnone.ParseChunk(f)
		if err != nil {
			a.close(false)
			return nil, fmt.Errorf("unparsable frame from the server: %w", err)
		}
		if ch.MsgType == "OPN" {
			// answer to an OpenSecureChannelRequest sent inside the sequence
			return "OPN-response", nil
		}
		if ch.ReqID != reqID {
			continue
		}
		switch ch.ChunkType {
		case 'C':
			data = append(data, ch.Data...)
			continue
		case 'A':
			return nil, fmt.Errorf("server aborted the response")
		}
		data = append(data, ch.Data...)
		_, v, err := ua.DecodeService(data)
		if err != nil {
			return nil, fmt.Errorf("undecodable response: %w", err)
		}
		return v, nil
	}
}

// encodeReq returns the type id and the encoding of the request fields that
// follow the request header.
func encodeReq(req ua.Request) (id uint16, rest []byte, err error) {
	defer func() {
		if r := recover(); r != nil {
			err = fmt.Errorf("encoder panicked: %v", r)
		}
	}()
	id = ua.ServiceTypeID(req)
	if id == 0 {
		return 0, nil, fmt.Errorf("%T is not a registered service", req)
	}
	hdr := &ua.RequestHeader{AuthenticationToken: ua.NewTwoByteNodeID(0), AdditionalHeader: ua.NewExtensionObject(nil)}
	req.SetHeader(hdr)
	full, err := ua.Encode(req)
	if err != nil {
		return 0, nil, err
	}
	hb, err := ua.Encode(hdr)
	if err != nil {
		return 0, nil, err
	}
	if len(full) < len(hb) || string(full[:len(hb)]) != string(hb) {
		return 0, nil, fmt.Errorf("%T: the header is not a prefix of the encoding", req)
	}
	return id, full[len(hb):], nil
}

// buildBody = type id + header carrying the token + the recorded rest.
func buildBody(typeID uint16, token *ua.NodeID, handle uint32, rest []byte) []byte {
	if token == nil {
		token = ua.NewTwoByteNodeID(0)
	}
	hdr := &ua.RequestHeader{AuthenticationToken: token, Timestamp: time.Now(), RequestHandle: handle, TimeoutHint: 2000, AdditionalHeader: ua.NewExtensionObject(nil)}
	hb, _ := ua.Encode(hdr)
	b := append([]byte{}, refnone.TypeIDPrefix(typeID)...)
	b = append(b, hb...)
	return append(b, rest...)
}

// call sends a request built from Go values and waits for its response.
func (a *attConn) call(req ua.Request, token *ua.NodeID, wait time.Duration) (any, error) {
	id, rest, err := encodeReq(req)
	if err != nil {
		return nil, err
	}
	rid, err := a.sendBody(buildBody(id, token, a.reqID+1, rest))
	if err != nil {
		return nil, err
	}
	return a.recv(rid, wait)
}

// openSession runs CreateSession + ActivateSession (anonymous).
func (a *attConn) openSession(url string) error {
	nonce := make([]byte, 32)
	for i := range nonce {
		nonce[i] = byte(i + 1)
	}
	v, err := a.call(&ua.CreateSessionRequest{
		ClientDescription: &ua.ApplicationDescription{ApplicationURI: "urn:verif:attacker", ApplicationName: &ua.LocalizedText{EncodingMask: ua.LocalizedTextText, Text: "attacker"},
			ApplicationType: ua.ApplicationTypeClient},
		EndpointURL: url, SessionName: "attacker", ClientNonce: nonce, RequestedSessionTimeout: 60000,
	}, nil, 3*time.Second)
	if err != nil {
		return fmt.Errorf("CreateSession: %w", err)
	}
	cr, ok := v.(*ua.CreateSessionResponse)
	if !ok {
		return fmt.Errorf("CreateSession answered with %T", v)
	}
	a.token = cr.AuthenticationToken
	v, err = a.call(&ua.ActivateSessionRequest{
		ClientSignature:    &ua.SignatureData{},
		UserIdentityToken:  ua.NewExtensionObject(&ua.AnonymousIdentityToken{PolicyID: "anonymous_none"}),
		UserTokenSignature: &ua.SignatureData{},
	}, a.token, 3*time.Second)
	if err != nil {
		return fmt.Errorf("ActivateSession: %w", err)
	}
	if _, ok := v.(*ua.ActivateSessionResponse); !ok {
		return fmt.Errorf("ActivateSession answered with %T", v)
	}
	return nil
}

// benignSub creates a slow subscription with one monitored item on node.
func (a *attConn) benignSub(node *ua.NodeID) error {
	v, err := a.call(&ua.CreateSubscriptionRequest{RequestedPublishingInterval: 1000, RequestedLifetimeCount: 10000, RequestedMaxKeepAliveCount: 100, PublishingEnabled: true}, a.token, 5*time.Second)
	if err != nil {
		return fmt.Errorf("CreateSubscription: %w", err)
	}
	cs, ok := v.(*ua.CreateSubscriptionResponse)
	if !ok {
		return fmt.Errorf("CreateSubscription answered with %T", v)
	}
	a.subs = append(a.subs, cs.SubscriptionID)
	v, err = a.call(&ua.CreateMonitoredItemsRequest{SubscriptionID: cs.SubscriptionID, TimestampsToReturn: ua.TimestampsToReturnBoth,
		ItemsToCreate: []*ua.MonitoredItemCreateRequest{{
			ItemToMonitor:       &ua.ReadValueID{NodeID: node, AttributeID: ua.AttributeIDValue, DataEncoding: &ua.QualifiedName{}},
			MonitoringMode:      ua.MonitoringModeReporting,
			RequestedParameters: &ua.MonitoringParameters{ClientHandle: 1, SamplingInterval: 1000, Filter: ua.NewExtensionObject(nil), QueueSize: 1, DiscardOldest: true},
		}}}, a.token, 5*time.Second)
	if err != nil {
		return fmt.Errorf("CreateMonitoredItems: %w", err)
	}
	cm, ok := v.(*ua.CreateMonitoredItemsResponse)
	if !ok {
		return fmt.Errorf("CreateMonitoredItems answered with %T", v)
	}
	for _, r := range cm.Results {
		if r != nil && r.StatusCode == ua.StatusOK {
			a.items = append(a.items, r.MonitoredItemID)
		}
	}
	return nil
}

// learn records ids the server handed to this connection.
func (a *attConn) learn(v any) {
	switch r := v.(type) {
	case *ua.CreateSubscriptionResponse:
		a.subs = append(a.subs, r.SubscriptionID)
	case *ua.CreateMonitoredItemsResponse:
		for _, x := range r.Results {
			if x != nil && x.StatusCode == ua.StatusOK && len(a.items) < 64 {
				a.items = append(a.items, x.MonitoredItemID)
			}
		}
	case *ua.CreateSessionResponse:
		// a session created inside the sequence: later "valid" tokens use it
		if a.token == nil {
			a.token = r.AuthenticationToken
		}
	}
}
