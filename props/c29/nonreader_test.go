package c29

// TestNonReader: the structural part of C29. A client that stops reading its
// socket must not stop the server from answering other clients.
//
//	A  the client (small receive buffer) sends requests with large responses and never reads: the
//	   single dispatcher goroutine blocks in the response write
//	   (Server.handleService -> SecureChannel.SendResponseWithContext -> TCP write
//	   without deadline).
//	B  the client (small receive buffer) subscribes at 10 ms to a variable,
//	   keeps the publish queue full and never reads: the subscription goroutine
//	   blocks in its write, its notification queue (100) fills, and the next
//	   Write of that variable by ANY client blocks the dispatcher in
//	   MonitoredItemService.ChangeNotification.
//
// Both are listed as open known findings (no small repair: the server has one
// dispatcher and no write deadlines); when listed, a reproduction is counted as
// excluded, otherwise it is a violation. The attack generator of TestAttack
// excludes the class by construction: its attackers always read (or close).

import (
	"context"
	"fmt"
	"net"
	"strings"
	"syscall"
	"testing"
	"time"

	"github.com/gopcua/opcua/ua"

	"verif/pkg/ev"
	"verif/pkg/refnone"
	"verif/pkg/stack"
)

const nonReaderTest = "TestNonReader"

const (
	sigNonReaderA = "nonreading-client:response-write-blocks-dispatcher"
	sigNonReaderB = "nonreading-client:full-notify-queue-blocks-dispatcher"
)

// dialSmallWindow is dialAtt with a tiny receive buffer on the client socket.
func dialSmallWindow(addr, url string, rcvbuf int) (*attConn, error) {
	d := net.Dialer{Timeout: 5 * time.Second, Control: func(network, address string, c syscall.RawConn) error {
		return c.Control(func(fd uintptr) { _ = syscall.SetsockoptInt(int(fd), syscall.SOL_SOCKET, syscall.SO_RCVBUF, rcvbuf) })
	}}
	c, err := d.Dial("tcp", addr)
	if err != nil {
		return nil, err
	}
	c.SetDeadline(time.Now().Add(5 * time.Second))
	if _, err := c.Write(refnone.Hello(refnone.DefaultLimits, url)); err != nil {
		c.Close()
		return nil, err
	}
	f, err := refnone.ReadFrame(c, 1<<16)
	if err != nil || string(f[:4]) != "ACKF" {
		c.Close()
		return nil, fmt.Errorf("no ACK: %v", err)
	}
	c.SetDeadline(time.Time{})
	rc := &refnone.Conn{Conn: c, Peer: refnone.Limits{RecvBuf: 65535, SendBuf: 65535}}
	ch, err := refnone.OpenAsClient(rc, refnone.NewSeq(1, 0, 0), 1, 5*time.Second)
	if err != nil {
		c.Close()
		return nil, err
	}
	return &attConn{ch: ch, reqID: 1}, nil
}

// starved: three consecutive canary reads each needing >= 2 s (or failing).
func starved(e *envT) (bool, string) {
	last := ""
	for i := 0; i < 3; i++ {
		ctx, cancel := context.WithTimeout(context.Background(), 3*time.Second)
		t0 := time.Now()
		_, err := stack.ReadValue(ctx, e.canary, e.node)
		cancel()
		d := time.Since(t0)
		if err == nil && d < canaryBound {
			return false, ""
		}
		last = fmt.Sprintf("canary read took %v (err %v)", d.Round(time.Millisecond), err)
	}
	// an unattacked server on the same machine must be answering promptly right now
	if ctl := controlEnv(); ctl != nil {
		if d, err := ctl.canaryRead(); err != nil || d >= controlBound {
			return false, ""
		}
	}
	return true, last
}

func recovered(e *envT) bool {
	deadline := time.Now().Add(20 * time.Second)
	for time.Now().Before(deadline) {
		if d, err := e.freshRead(); err == nil && d < canaryBound {
			return true
		}
		time.Sleep(200 * time.Millisecond)
	}
	return false
}

func variantA() (bool, string, error) {
	e, err := newEnv("big")
	if err != nil {
		return false, "", err
	}
	defer e.close()
	// a fixed small receive buffer: otherwise the kernel grows the client's
	// receive buffer up to tcp_rmem[2] (32 MB here) before the server's write blocks
	a, err := dialSmallWindow(e.addr, e.url, 4096)
	if err != nil {
		return false, "", err
	}
	if err := a.openSession(e.url); err != nil {
		return false, "", err
	}
	var rv []*ua.ReadValueID
	for i := 0; i < 30; i++ {
		rv = append(rv, &ua.ReadValueID{NodeID: ua.NewStringNodeID(nsTest, "big"), AttributeID: ua.AttributeIDValue, DataEncoding: &ua.QualifiedName{}})
	}
	id, rest, err := encodeReq(&ua.ReadRequest{NodesToRead: rv})
	if err != nil {
		return false, "", err
	}
	// 40 x 1.8 MB of responses, none of them read
	for i := 0; i < 40; i++ {
		if _, err := a.sendBody(buildBody(id, a.token, uint32(i+2), rest)); err != nil {
			break
		}
	}
	time.Sleep(300 * time.Millisecond)
	st, detail := starved(e)
	a.close(true)
	if st && !recovered(e) {
		detail += "; the server did not recover within 20 s after the client had closed its socket"
	}
	return st, detail, nil
}

func variantB() (bool, string, error) {
	e, err := newEnv("")
	if err != nil {
		return false, "", err
	}
	defer e.close()
	a, err := dialSmallWindow(e.addr, e.url, 2048)
	if err != nil {
		return false, "", err
	}
	if err := a.openSession(e.url); err != nil {
		return false, "", err
	}
	v, err := a.call(&ua.CreateSubscriptionRequest{RequestedPublishingInterval: 10, RequestedLifetimeCount: 100000, RequestedMaxKeepAliveCount: 1, PublishingEnabled: true}, a.token, 5*time.Second)
	if err != nil {
		return false, "", err
	}
	sub := v.(*ua.CreateSubscriptionResponse).SubscriptionID
	node := ua.NewStringNodeID(nsTest, "v0")
	var items []*ua.MonitoredItemCreateRequest
	for i := 0; i < 200; i++ {
		items = append(items, &ua.MonitoredItemCreateRequest{ItemToMonitor: &ua.ReadValueID{NodeID: node, AttributeID: ua.AttributeIDValue, DataEncoding: &ua.QualifiedName{}},
			MonitoringMode: ua.MonitoringModeReporting, RequestedParameters: &ua.MonitoringParameters{ClientHandle: uint32(i + 1), SamplingInterval: 10, Filter: ua.NewExtensionObject(nil), QueueSize: 1}})
	}
	if _, err := a.call(&ua.CreateMonitoredItemsRequest{SubscriptionID: sub, TimestampsToReturn: ua.TimestampsToReturnBoth, ItemsToCreate: items}, a.token, 5*time.Second); err != nil {
		return false, "", err
	}
	// from here on the client never reads; it keeps the publish queue full
	pid, prest, _ := encodeReq(&ua.PublishRequest{SubscriptionAcknowledgements: []*ua.SubscriptionAcknowledgement{}})
	stop := make(chan struct{})
	defer close(stop)
	go func() {
		for {
			for i := 0; i < 50; i++ {
				if _, err := a.sendBody(buildBody(pid, a.token, 7, prest)); err != nil {
					return
				}
			}
			select {
			case <-stop:
				return
			case <-time.After(100 * time.Millisecond):
			}
		}
	}()
	// another client keeps writing the monitored variable (each write notifies 200 items)
	deadline := time.Now().Add(25 * time.Second)
	for i := 0; time.Now().Before(deadline); i++ {
		ctx, cancel := context.WithTimeout(context.Background(), 3*time.Second)
		t0 := time.Now()
		_, err := stack.WriteValue(ctx, e.canary, node, float64(i))
		cancel()
		if err != nil || time.Since(t0) >= canaryBound {
			st, detail := starved(e)
			a.close(true)
			if st && !recovered(e) {
				detail += "; the server did not recover within 20 s after the client had closed its socket"
			}
			return st, detail, nil
		}
		time.Sleep(5 * time.Millisecond)
	}
	a.close(true)
	return false, "", nil
}

// nonReader runs both variants and returns a violation message or "".
func nonReader(t *testing.T) string {
	msg := ""
	for _, v := range []struct {
		name, sig, what string
		run             func() (bool, string, error)
	}{
		{"A", sigNonReaderA, "a client that requested 70 MB of responses and does not read them stopped the server from answering other clients", variantA},
		{"B", sigNonReaderB, "a client subscribed at 10 ms that does not read its socket stopped the server from answering other clients once its notification queue was full", variantB},
	} {
		st, detail, err := v.run()
		switch {
		case err != nil:
			t.Logf("variant %s: infrastructure: %v", v.name, err)
			rec.Case(false, ev.Hash("nonreader", v.name, "infra"), "nonreader:"+v.name+":infrastructure")
		case !st:
			rec.Case(true, ev.Hash("nonreader", v.name, "served"), "nonreader:"+v.name+":other-clients-served")
		default:
			rec.Case(true, ev.Hash("nonreader", v.name, "starved"), "nonreader:"+v.name+":other-clients-starved")
			t.Logf("variant %s: %s: %s", v.name, v.what, detail)
			// The open findings KF-C29-1/2 describe starvation WHILE the client holds
			// its socket open. A server that stays blocked after that client has
			// closed its socket is a different failure and is never suppressed.
			if strings.Contains(detail, "did not recover") {
				rec.Class("nonreader:" + v.name + ":no-recovery-after-client-closed")
				if msg == "" || !strings.Contains(msg, "did not recover") {
					msg = fmt.Sprintf("%s and stayed blocked after that client was gone (%s) [signature %s-no-recovery]", v.what, detail, v.sig)
				}
			} else if !rec.Known(v.sig) && msg == "" {
				msg = fmt.Sprintf("%s (%s) [signature %s]", v.what, detail, v.sig)
			}
		}
	}
	return msg
}

func TestNonReader(t *testing.T) {
	if msg := nonReader(t); msg != "" {
		rec.Fail(t, nonReaderTest, map[string]string{"scenario": "nonreader"}, "%s", msg)
	}
}
