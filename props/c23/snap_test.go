package c23

// Deep structural snapshot used as the C23 oracle.
//
// snapshot(root) walks a value by reflection, including unexported fields (read
// through reflect.NewAt + unsafe, never written), follows pointers and
// interfaces BY CONTENT, and returns an ordered list of (path, leaf value)
// entries. Two snapshots are equal iff the observable content is equal; pointer
// identity is not part of the snapshot (two different objects with equal content
// compare equal, one object shared by two owners is expanded twice).
//
// Determinism / soundness rules:
//   - map entries are emitted in the order of their key's own snapshot text;
//   - cycles are cut where a pointer/map/slice already on the current path is
//     met again ("<cycle>"), so the walk terminates on any graph;
//   - everything declared in package sync or sync/atomic is skipped (state of
//     locks, Once, atomic boxes is not configuration);
//   - time.Time is reduced to its instant (UnixNano; zero time separately),
//     *time.Location is opaque (the local zone is loaded lazily by the runtime);
//   - chan: nil-ness and capacity only; func: nil-ness only. With ident=true
//     (used only when the SAME object is compared with its own earlier
//     snapshot) the address of the chan / func value is added, because for a
//     callback the identity is the content;
//   - slices of plain numbers longer than 16 are emitted as length + SHA-256
//     prefix; nil and empty slices/maps are distinguished ("nil" vs "len=0").

import (
	"crypto/sha256"
	"fmt"
	"math"
	"reflect"
	"sort"
	"strconv"
	"strings"
	"time"
	"unsafe"
)

type entry struct{ Path, Val string }

// Snap is an ordered content snapshot.
type Snap []entry

const maxDepth = 64

var (
	timeType = reflect.TypeOf(time.Time{})
	locType  = reflect.TypeOf((*time.Location)(nil))
)

type onPath struct {
	p uintptr
	t reflect.Type
}

type walker struct {
	out   []entry
	path  map[onPath]bool
	ident bool
}

func snapshot(root any, ident bool) Snap {
	w := &walker{path: map[onPath]bool{}, ident: ident}
	v := reflect.ValueOf(root)
	w.walk("", v, 0)
	return w.out
}

func (w *walker) leaf(path, val string) { w.out = append(w.out, entry{path, val}) }

// readable returns a value with the same content that carries no read-only
// flag, so that unexported fields below it can be inspected.
func readable(v reflect.Value) reflect.Value {
	if !v.IsValid() {
		return v
	}
	if v.CanAddr() {
		return reflect.NewAt(v.Type(), unsafe.Pointer(v.UnsafeAddr())).Elem()
	}
	if v.CanInterface() {
		nv := reflect.New(v.Type()).Elem()
		nv.Set(v)
		return nv
	}
	panic(fmt.Sprintf("c23 snapshot: value of type %s is neither addressable nor exported-reachable", v.Type()))
}

func isPlainNumber(k reflect.Kind) bool {
	switch k {
	case reflect.Int, reflect.Int8, reflect.Int16, reflect.Int32, reflect.Int64,
		reflect.Uint, reflect.Uint8, reflect.Uint16, reflect.Uint32, reflect.Uint64, reflect.Uintptr:
		return true
	}
	return false
}

func (w *walker) walk(path string, v reflect.Value, depth int) {
	if !v.IsValid() {
		w.leaf(path, "<invalid>")
		return
	}
	if depth > maxDepth {
		w.leaf(path, "<depth-limit>")
		return
	}
	v = readable(v)
	t := v.Type()
	switch v.Kind() {
	case reflect.Bool:
		w.leaf(path, strconv.FormatBool(v.Bool()))
	case reflect.Int, reflect.Int8, reflect.Int16, reflect.Int32, reflect.Int64:
		w.leaf(path, strconv.FormatInt(v.Int(), 10))
	case reflect.Uint, reflect.Uint8, reflect.Uint16, reflect.Uint32, reflect.Uint64, reflect.Uintptr:
		w.leaf(path, strconv.FormatUint(v.Uint(), 10))
	case reflect.Float32, reflect.Float64:
		w.leaf(path, "f"+strconv.FormatUint(math.Float64bits(v.Float()), 16))
	case reflect.Complex64, reflect.Complex128:
		c := v.Complex()
		w.leaf(path, "c"+strconv.FormatUint(math.Float64bits(real(c)), 16)+","+strconv.FormatUint(math.Float64bits(imag(c)), 16))
	case reflect.String:
		w.leaf(path, strconv.Quote(v.String()))
	case reflect.Pointer:
		if v.IsNil() {
			w.leaf(path, "nil")
			return
		}
		if t == locType {
			w.leaf(path, "<*time.Location>")
			return
		}
		key := onPath{v.Pointer(), t}
		if w.path[key] {
			w.leaf(path, "<cycle>")
			return
		}
		w.path[key] = true
		w.leaf(path, "&"+t.Elem().String())
		w.walk(path, v.Elem(), depth+1)
		delete(w.path, key)
	case reflect.Interface:
		if v.IsNil() {
			w.leaf(path, "nil-interface")
			return
		}
		e := v.Elem()
		w.leaf(path, "iface:"+e.Type().String())
		w.walk(path, e, depth+1)
	case reflect.Struct:
		if t == timeType {
			tm := v.Interface().(time.Time)
			if tm.IsZero() {
				w.leaf(path, "time:zero")
			} else {
				w.leaf(path, "time:"+strconv.FormatInt(tm.Unix(), 10)+"."+strconv.Itoa(tm.Nanosecond()))
			}
			return
		}
		if pp := t.PkgPath(); pp == "sync" || pp == "sync/atomic" || strings.HasPrefix(pp, "internal/sync") {
			w.leaf(path, "<skipped:"+t.String()+">")
			return
		}
		if t.NumField() == 0 {
			w.leaf(path, "{}")
			return
		}
		for i := 0; i < t.NumField(); i++ {
			w.walk(path+"."+t.Field(i).Name, v.Field(i), depth+1)
		}
	case reflect.Array:
		if isPlainNumber(t.Elem().Kind()) {
			w.leaf(path, numbers(v))
			return
		}
		for i := 0; i < v.Len(); i++ {
			w.walk(path+"["+strconv.Itoa(i)+"]", v.Index(i), depth+1)
		}
	case reflect.Slice:
		if v.IsNil() {
			w.leaf(path, "nil-slice")
			return
		}
		if isPlainNumber(t.Elem().Kind()) {
			w.leaf(path, numbers(v))
			return
		}
		w.leaf(path, "len="+strconv.Itoa(v.Len()))
		if v.Len() == 0 {
			return
		}
		key := onPath{v.Pointer(), t}
		if w.path[key] {
			w.leaf(path, "<cycle>")
			return
		}
		w.path[key] = true
		for i := 0; i < v.Len(); i++ {
			w.walk(path+"["+strconv.Itoa(i)+"]", v.Index(i), depth+1)
		}
		delete(w.path, key)
	case reflect.Map:
		if v.IsNil() {
			w.leaf(path, "nil-map")
			return
		}
		w.leaf(path, "len="+strconv.Itoa(v.Len()))
		if v.Len() == 0 {
			return
		}
		key := onPath{v.Pointer(), t}
		if w.path[key] {
			w.leaf(path, "<cycle>")
			return
		}
		w.path[key] = true
		type kv struct {
			ks string
			k  reflect.Value
		}
		var kvs []kv
		it := v.MapRange()
		for it.Next() {
			k := it.Key()
			kw := &walker{path: map[onPath]bool{}, ident: w.ident}
			kw.walk("", k, depth+1)
			var sb strings.Builder
			for _, e := range kw.out {
				sb.WriteString(e.Path)
				sb.WriteByte('=')
				sb.WriteString(e.Val)
				sb.WriteByte(';')
			}
			kvs = append(kvs, kv{sb.String(), k})
		}
		sort.SliceStable(kvs, func(i, j int) bool { return kvs[i].ks < kvs[j].ks })
		for _, e := range kvs {
			w.walk(path+"{"+e.ks+"}", v.MapIndex(e.k), depth+1)
		}
		delete(w.path, key)
	case reflect.Chan:
		if v.IsNil() {
			w.leaf(path, "nil-chan")
			return
		}
		s := "chan cap=" + strconv.Itoa(v.Cap())
		if w.ident {
			s += " @" + strconv.FormatUint(uint64(v.Pointer()), 16)
		}
		w.leaf(path, s)
	case reflect.Func:
		if v.IsNil() {
			w.leaf(path, "nil-func")
			return
		}
		s := "func"
		if w.ident {
			// a func value is one word: the address of its closure object
			s += " @" + strconv.FormatUint(uint64(*(*uintptr)(unsafe.Pointer(v.UnsafeAddr()))), 16)
		}
		w.leaf(path, s)
	case reflect.UnsafePointer:
		if v.IsNil() {
			w.leaf(path, "nil-unsafe-pointer")
		} else {
			w.leaf(path, "unsafe-pointer")
		}
	default:
		panic(fmt.Sprintf("c23 snapshot: unhandled kind %s at %s", v.Kind(), path))
	}
}

// numbers renders a slice/array of plain numbers.
func numbers(v reflect.Value) string {
	n := v.Len()
	if n <= 16 {
		var sb strings.Builder
		sb.WriteString("len=" + strconv.Itoa(n) + " [")
		for i := 0; i < n; i++ {
			if i > 0 {
				sb.WriteByte(' ')
			}
			e := v.Index(i)
			if e.CanInt() {
				sb.WriteString(strconv.FormatInt(e.Int(), 10))
			} else {
				sb.WriteString(strconv.FormatUint(e.Uint(), 10))
			}
		}
		sb.WriteByte(']')
		return sb.String()
	}
	h := sha256.New()
	var b [8]byte
	for i := 0; i < n; i++ {
		e := v.Index(i)
		var x uint64
		if e.CanInt() {
			x = uint64(e.Int())
		} else {
			x = e.Uint()
		}
		for j := 0; j < 8; j++ {
			b[j] = byte(x >> (8 * j))
		}
		h.Write(b[:])
	}
	return "len=" + strconv.Itoa(n) + " sha256=" + fmt.Sprintf("%x", h.Sum(nil)[:12])
}

// diff returns a description of the first difference between two snapshots
// ("" if they are equal).
func diff(before, after Snap) string {
	n := len(before)
	if len(after) < n {
		n = len(after)
	}
	for i := 0; i < n; i++ {
		if before[i] != after[i] {
			if before[i].Path == after[i].Path {
				return fmt.Sprintf("%s: %s -> %s", before[i].Path, clip(before[i].Val), clip(after[i].Val))
			}
			return fmt.Sprintf("structure changed at %s=%s (now %s=%s)", before[i].Path, clip(before[i].Val), after[i].Path, clip(after[i].Val))
		}
	}
	if len(before) != len(after) {
		if len(after) > n {
			return fmt.Sprintf("structure grew: new entry %s=%s", after[n].Path, clip(after[n].Val))
		}
		return fmt.Sprintf("structure shrank: lost entry %s=%s", before[n].Path, clip(before[n].Val))
	}
	return ""
}

func clip(s string) string {
	if len(s) > 80 {
		return s[:77] + "..."
	}
	return s
}

// field returns the (readable) field name of the struct pointed to by ptr; it
// panics when the field does not exist, so that a renamed field in the code
// under test surfaces as an infrastructure failure, never as a silent pass.
func field(ptr any, name string) reflect.Value {
	v := reflect.ValueOf(ptr)
	if v.Kind() != reflect.Pointer || v.IsNil() || v.Elem().Kind() != reflect.Struct {
		panic(fmt.Sprintf("c23: field(%T, %q): not a pointer to struct", ptr, name))
	}
	f := v.Elem().FieldByName(name)
	if !f.IsValid() {
		panic(fmt.Sprintf("c23: %s has no field %q any more: the check must be adapted", v.Elem().Type(), name))
	}
	return readable(f)
}
