// Package c23 decides property C23: client options affect only the client they
// are applied to.
//
// A case is a program of 2-12 opcua.NewClient / opcua.ApplyConfig calls, each
// with a drawn list of Option constructors (all 35 of config.go, with drawn
// arguments), interleaved with constructions without options. The oracle is a
// deep content snapshot (snap_test.go) of the package-level defaults and of
// every configuration built so far:
//
//	(a) after every construction the defaults have the content they had before
//	    the program started (= at process start in a clean process);
//	(b) after every construction every earlier client / config has the content
//	    it had right after its own construction;
//	(c) every construction without options yields the content of the pristine
//	    no-option construction made at process start.
//
// Optionally (drawn) the program ends with a default client dialling a local
// listener; the Hello it puts on the wire must carry the pristine limits.
// No option performs network I/O; Connect is never called.
package c23

import (
	"context"
	"runtime/debug"
	"crypto/rsa"
	"crypto/x509"
	"encoding/binary"
	"encoding/hex"
	"encoding/json"
	"encoding/pem"
	"fmt"
	"go/ast"
	"go/parser"
	"go/token"
	"io"
	"log"
	"math"
	"net"
	"os"
	"os/exec"
	"path/filepath"
	"reflect"
	"sort"
	"strconv"
	"strings"
	"sync"
	"sync/atomic"
	"testing"
	"time"

	"github.com/gopcua/opcua"
	"github.com/gopcua/opcua/ua"
	"github.com/gopcua/opcua/uacp"
	"pgregory.net/rapid"

	"verif/pkg/ev"
	"verif/pkg/keys"
)

func TestMain(m *testing.M) {
	// several options report ignored settings through the standard logger
	log.SetOutput(io.Discard)
	initPristine()
	ev.Main(m)
}

var rec = ev.For("C23", "rapid-generated programs of 2-12 NewClient/ApplyConfig calls, each with 0-6 (thorough 0-10) Option constructors drawn from all 35 of config.go with drawn arguments (fixture keys/certificates, temp files, fresh user dialers, endpoints with token policies), about a third of the constructions without options; a quarter of the NewClient constructions also dial a local UACP listener once (Acknowledge with drawn buffer sizes and limits; Hello/Acknowledge completes, then the listener closes); non-trivial = a construction with options is followed by a construction without options; distinct by hash of the program")

// ---------------------------------------------------------------------------
// case data (plain JSON, replayable)

type dialerT struct {
	// fresh: own net.Dialer and own Acknowledge; default: opcua.DefaultDialer();
	// empty: &uacp.Dialer{}; no-ack / no-netdialer: one part nil (documented defaults)
	Kind      string    `json:"kind"`
	TimeoutNS int64     `json:"timeout_ns,omitempty"`
	KeepNS    int64     `json:"keepalive_ns,omitempty"`
	ACK       [4]uint32 `json:"ack,omitempty"` // ReceiveBufSize, SendBufSize, MaxChunkCount, MaxMessageSize
}

type tokenPolicyT struct {
	PolicyID  string `json:"policy_id"`
	TokenType int    `json:"token_type"`
	PolicyURI string `json:"policy_uri,omitempty"`
}

type endpointT struct {
	PolicyURI string         `json:"policy_uri"`
	Mode      int            `json:"mode"`
	Cert      string         `json:"server_cert"` // symbolic bytes, see bytesOf
	Tokens    []tokenPolicyT `json:"tokens,omitempty"`
	AuthType  int            `json:"auth_type"`
}

type optT struct {
	Name     string     `json:"opt"`
	S        string     `json:"s,omitempty"`
	S2       string     `json:"s2,omitempty"`
	SS       []string   `json:"ss,omitempty"`
	N        int64      `json:"n,omitempty"` // duration in ns, uint32 or enum
	B        bool       `json:"b,omitempty"`
	Bytes    string     `json:"bytes,omitempty"` // symbolic: nil | empty | hex:.. | cert:a1024 | chain:a1024+b1024
	Key      string     `json:"key,omitempty"`   // symbolic: nil | a1024 ...
	File     string     `json:"file,omitempty"`  // symbolic: "" | missing | garbage | a1024:cert-der ...
	Dialer   *dialerT   `json:"dialer,omitempty"`
	Endpoint *endpointT `json:"endpoint,omitempty"`
}

type stepT struct {
	Ctor     string `json:"ctor"` // NewClient | ApplyConfig
	Endpoint string `json:"endpoint_url,omitempty"`
	Opts     []optT `json:"opts"`
	// Connect (NewClient only): the client is built for a local UACP listener
	// that answers the Hello with this Acknowledge {ReceiveBufSize, SendBufSize,
	// MaxChunkCount, MaxMessageSize} and then closes the connection; the
	// client dials it once (Hello/Acknowledge happens, OpenSecureChannel fails).
	Connect *[4]uint32 `json:"connect_to_listener_with_ack,omitempty"`
}

type caseT struct {
	Steps []stepT `json:"program"`
	Wire  bool    `json:"wire_check,omitempty"`
}

// ---------------------------------------------------------------------------
// symbolic arguments -> real arguments

func pairOf(sym string) (*keys.Pair, error) {
	if len(sym) < 2 || (sym[0] != 'a' && sym[0] != 'b') {
		return nil, fmt.Errorf("bad fixture name %q", sym)
	}
	bits, err := strconv.Atoi(sym[1:])
	if err != nil {
		return nil, fmt.Errorf("bad fixture name %q", sym)
	}
	ok := false
	for _, s := range keys.Sizes {
		if s == bits {
			ok = true
		}
	}
	if !ok {
		return nil, fmt.Errorf("no fixture %q", sym)
	}
	return keys.Get(sym[:1], bits), nil
}

func keyOf(sym string) (*rsa.PrivateKey, error) {
	if sym == "nil" || sym == "" {
		return nil, nil
	}
	p, err := pairOf(sym)
	if err != nil {
		return nil, err
	}
	return p.Key, nil // the same key object may be handed to several clients (allowed sharing)
}

// bytesOf returns a FRESH byte slice per call, so that no two constructions
// share caller-owned mutable bytes.
func bytesOf(sym string) ([]byte, error) {
	switch {
	case sym == "nil" || sym == "":
		return nil, nil
	case sym == "empty":
		return []byte{}, nil
	case strings.HasPrefix(sym, "hex:"):
		return hex.DecodeString(sym[4:])
	case strings.HasPrefix(sym, "cert:"):
		p, err := pairOf(sym[5:])
		if err != nil {
			return nil, err
		}
		return append([]byte(nil), p.Cert...), nil
	case strings.HasPrefix(sym, "chain:"):
		var out []byte
		for _, s := range strings.Split(sym[6:], "+") {
			p, err := pairOf(s)
			if err != nil {
				return nil, err
			}
			out = append(out, p.Cert...)
		}
		return out, nil
	}
	return nil, fmt.Errorf("bad bytes argument %q", sym)
}

var (
	fileMu    sync.Mutex
	fileDir   string
	fileCache = map[string]string{}
)

// useTempDir makes the files of file-based options live in a directory owned by
// the running test.
func useTempDir(t *testing.T) {
	fileMu.Lock()
	defer fileMu.Unlock()
	fileDir = t.TempDir()
	fileCache = map[string]string{}
}

var fileKinds = []string{"cert-der", "cert-pem", "chain-pem", "key-pem", "key-der", "key-pkcs8-pem", "key-pkcs8-der"}

// fileOf maps a symbolic file name to a real path, creating the file on first use.
func fileOf(sym string) (string, error) {
	fileMu.Lock()
	defer fileMu.Unlock()
	if sym == "" {
		return "", nil
	}
	if fileDir == "" {
		return "", fmt.Errorf("no temp dir")
	}
	if p, ok := fileCache[sym]; ok {
		return p, nil
	}
	var content []byte
	switch sym {
	case "missing":
		p := filepath.Join(fileDir, "does-not-exist.pem")
		fileCache[sym] = p
		return p, nil
	case "garbage":
		content = []byte("this is neither PEM nor DER \x00\x01\x02")
	default:
		who, kind, ok := strings.Cut(sym, ":")
		if !ok {
			return "", fmt.Errorf("bad file argument %q", sym)
		}
		p, err := pairOf(who)
		if err != nil {
			return "", err
		}
		switch kind {
		case "cert-der":
			content = p.Cert
		case "cert-pem":
			content = p.CertPEM
		case "chain-pem":
			other := "b"
			if p.Who == "b" {
				other = "a"
			}
			content = append(append([]byte(nil), p.CertPEM...), keys.Get(other, p.Bits).CertPEM...)
		case "key-pem":
			content = p.KeyPEM
		case "key-der":
			content = x509.MarshalPKCS1PrivateKey(p.Key)
		case "key-pkcs8-pem", "key-pkcs8-der":
			der, err := x509.MarshalPKCS8PrivateKey(p.Key)
			if err != nil {
				return "", err
			}
			content = der
			if kind == "key-pkcs8-pem" {
				content = pem.EncodeToMemory(&pem.Block{Type: "PRIVATE KEY", Bytes: der})
			}
		default:
			return "", fmt.Errorf("bad file kind %q", sym)
		}
	}
	path := filepath.Join(fileDir, strings.NewReplacer(":", "_").Replace(sym))
	if err := os.WriteFile(path, content, 0o600); err != nil {
		return "", err
	}
	fileCache[sym] = path
	return path, nil
}

func dialerOf(d *dialerT) (*uacp.Dialer, error) {
	if d == nil {
		return nil, fmt.Errorf("Dialer option without dialer description")
	}
	nd := &net.Dialer{Timeout: time.Duration(d.TimeoutNS), KeepAlive: time.Duration(d.KeepNS)}
	ack := &uacp.Acknowledge{ReceiveBufSize: d.ACK[0], SendBufSize: d.ACK[1], MaxChunkCount: d.ACK[2], MaxMessageSize: d.ACK[3]}
	switch d.Kind {
	case "fresh":
		return &uacp.Dialer{Dialer: nd, ClientACK: ack}, nil
	case "default":
		return opcua.DefaultDialer(), nil
	case "empty":
		return &uacp.Dialer{}, nil
	case "no-ack":
		return &uacp.Dialer{Dialer: nd}, nil
	case "no-netdialer":
		return &uacp.Dialer{ClientACK: ack}, nil
	}
	return nil, fmt.Errorf("bad dialer kind %q", d.Kind)
}

func endpointOf(e *endpointT) (*ua.EndpointDescription, error) {
	if e == nil {
		return nil, fmt.Errorf("SecurityFromEndpoint without endpoint description")
	}
	cert, err := bytesOf(e.Cert)
	if err != nil {
		return nil, err
	}
	ep := &ua.EndpointDescription{
		EndpointURL:       "opc.tcp://server.invalid:4840",
		SecurityPolicyURI: e.PolicyURI,
		SecurityMode:      ua.MessageSecurityMode(e.Mode),
		ServerCertificate: cert,
	}
	for _, tp := range e.Tokens {
		ep.UserIdentityTokens = append(ep.UserIdentityTokens, &ua.UserTokenPolicy{
			PolicyID: tp.PolicyID, TokenType: ua.UserTokenType(tp.TokenType), SecurityPolicyURI: tp.PolicyURI})
	}
	return ep, nil
}

// ---------------------------------------------------------------------------
// the option table: every Option constructor of /repo/config.go

type spec struct {
	name string
	gen  func(t *rapid.T, o *optT)
	mk   func(o optT) (opcua.Option, error)
}

func genStr(t *rapid.T, label string) string {
	if rapid.IntRange(0, 3).Draw(t, label+"-free") == 0 {
		return rapid.StringN(0, 12, 32).Draw(t, label)
	}
	return rapid.SampledFrom([]string{"", "x", "urn:verif:app", "urn:gopcua:client", "urn:gopcua", "gopcua - OPC UA implementation in Go", "en-us", "de", "Ünï ✓", "Anonymous"}).Draw(t, label)
}

func genDur(t *rapid.T, label string) int64 {
	if rapid.IntRange(0, 3).Draw(t, label+"-free") == 0 {
		return rapid.Int64().Draw(t, label)
	}
	return rapid.SampledFrom([]int64{0, 1, int64(time.Millisecond), int64(time.Second), int64(5 * time.Second), int64(10 * time.Second),
		int64(20 * time.Minute), int64(time.Hour), -int64(time.Second), math.MaxInt64}).Draw(t, label)
}

func genU32(t *rapid.T, label string) int64 {
	if rapid.IntRange(0, 3).Draw(t, label+"-free") == 0 {
		return int64(rapid.Uint32().Draw(t, label))
	}
	return rapid.SampledFrom([]int64{0, 1, 5, 8192, 0xffff, 0x10000, 512, 2 * 1024 * 1024, math.MaxUint32}).Draw(t, label)
}

func genFixture(t *rapid.T, label string) string {
	who := rapid.SampledFrom([]string{"a", "b"}).Draw(t, label+"-who")
	sizes := ev.Pick([]int{1024, 2048}, keys.Sizes)
	return who + strconv.Itoa(rapid.SampledFrom(sizes).Draw(t, label+"-bits"))
}

func genBytes(t *rapid.T, label string, certLike bool) string {
	k := rapid.IntRange(0, 9).Draw(t, label+"-kind")
	switch {
	case k == 0:
		return "nil"
	case k == 1:
		return "empty"
	case k == 2 || (!certLike && k < 6):
		return "hex:" + hex.EncodeToString(rapid.SliceOfN(rapid.Byte(), 1, 24).Draw(t, label))
	case k == 3:
		return "chain:" + genFixture(t, label+"-c1") + "+" + genFixture(t, label+"-c2")
	}
	return "cert:" + genFixture(t, label)
}

func genKey(t *rapid.T, label string) string {
	if rapid.IntRange(0, 7).Draw(t, label+"-nil") == 0 {
		return "nil"
	}
	return genFixture(t, label)
}

func genFile(t *rapid.T, label string, want string) string {
	k := rapid.IntRange(0, 11).Draw(t, label+"-kind")
	switch k {
	case 0:
		return ""
	case 1:
		return "missing"
	case 2:
		return "garbage"
	case 3: // any kind, including the wrong one for this option
		return genFixture(t, label) + ":" + rapid.SampledFrom(fileKinds).Draw(t, label+"-any")
	}
	var right []string
	for _, fk := range fileKinds {
		if strings.HasPrefix(fk, want) || (want == "cert" && fk == "chain-pem") {
			right = append(right, fk)
		}
	}
	return genFixture(t, label) + ":" + rapid.SampledFrom(right).Draw(t, label+"-fk")
}

var policyURIs = []string{"", "None", "Basic128Rsa15", "Basic256", "Basic256Sha256", "Aes128Sha256RsaOaep", "Aes256Sha256RsaPss",
	"http://opcfoundation.org/UA/SecurityPolicy#None", "http://opcfoundation.org/UA/SecurityPolicy#Basic256Sha256", "Vendor"}

func strOpt(name string, f func(string) opcua.Option) spec {
	return spec{name, func(t *rapid.T, o *optT) { o.S = genStr(t, "s") }, func(o optT) (opcua.Option, error) { return f(o.S), nil }}
}
func durOpt(name string, f func(time.Duration) opcua.Option) spec {
	return spec{name, func(t *rapid.T, o *optT) { o.N = genDur(t, "d") }, func(o optT) (opcua.Option, error) { return f(time.Duration(o.N)), nil }}
}
func u32Opt(name string, f func(uint32) opcua.Option) spec {
	return spec{name, func(t *rapid.T, o *optT) { o.N = genU32(t, "n") }, func(o optT) (opcua.Option, error) { return f(uint32(o.N)), nil }}
}
func bytesOpt(name string, certLike bool, f func([]byte) opcua.Option) spec {
	return spec{name, func(t *rapid.T, o *optT) { o.Bytes = genBytes(t, "bytes", certLike) }, func(o optT) (opcua.Option, error) {
		b, err := bytesOf(o.Bytes)
		if err != nil {
			return nil, err
		}
		return f(b), nil
	}}
}
func keyOpt(name string, f func(*rsa.PrivateKey) opcua.Option) spec {
	return spec{name, func(t *rapid.T, o *optT) { o.Key = genKey(t, "key") }, func(o optT) (opcua.Option, error) {
		k, err := keyOf(o.Key)
		if err != nil {
			return nil, err
		}
		return f(k), nil
	}}
}
func fileOpt(name, want string, f func(string) opcua.Option) spec {
	return spec{name, func(t *rapid.T, o *optT) { o.File = genFile(t, "file", want) }, func(o optT) (opcua.Option, error) {
		p, err := fileOf(o.File)
		if err != nil {
			return nil, err
		}
		return f(p), nil
	}}
}
func nullOpt(name string, f func() opcua.Option) spec {
	return spec{name, func(t *rapid.T, o *optT) {}, func(o optT) (opcua.Option, error) { return f(), nil }}
}

var specs = []spec{
	strOpt("ApplicationName", opcua.ApplicationName),
	strOpt("ApplicationURI", opcua.ApplicationURI),
	{"AutoReconnect", func(t *rapid.T, o *optT) { o.B = rapid.Bool().Draw(t, "b") }, func(o optT) (opcua.Option, error) { return opcua.AutoReconnect(o.B), nil }},
	durOpt("ReconnectInterval", opcua.ReconnectInterval),
	durOpt("Lifetime", opcua.Lifetime),
	{"Locales", func(t *rapid.T, o *optT) {
		n := rapid.IntRange(0, 3).Draw(t, "nloc")
		for i := 0; i < n; i++ {
			o.SS = append(o.SS, genStr(t, "loc"))
		}
	}, func(o optT) (opcua.Option, error) { return opcua.Locales(append([]string(nil), o.SS...)...), nil }},
	strOpt("ProductURI", opcua.ProductURI),
	nullOpt("RandomRequestID", opcua.RandomRequestID),
	bytesOpt("RemoteCertificate", true, opcua.RemoteCertificate),
	fileOpt("RemoteCertificateFile", "cert", opcua.RemoteCertificateFile),
	{"SecurityMode", func(t *rapid.T, o *optT) { o.N = int64(rapid.IntRange(0, 4).Draw(t, "mode")) }, func(o optT) (opcua.Option, error) {
		return opcua.SecurityMode(ua.MessageSecurityMode(o.N)), nil
	}},
	{"SecurityModeString", func(t *rapid.T, o *optT) {
		o.S = rapid.SampledFrom([]string{"None", "Sign", "SignAndEncrypt", "Invalid", "", "bogus"}).Draw(t, "modestr")
	}, func(o optT) (opcua.Option, error) { return opcua.SecurityModeString(o.S), nil }},
	{"SecurityPolicy", func(t *rapid.T, o *optT) { o.S = rapid.SampledFrom(policyURIs).Draw(t, "policy") }, func(o optT) (opcua.Option, error) {
		return opcua.SecurityPolicy(o.S), nil
	}},
	strOpt("SessionName", opcua.SessionName),
	durOpt("SessionTimeout", opcua.SessionTimeout),
	keyOpt("PrivateKey", opcua.PrivateKey),
	fileOpt("PrivateKeyFile", "key", opcua.PrivateKeyFile),
	bytesOpt("Certificate", true, opcua.Certificate),
	fileOpt("CertificateFile", "cert", opcua.CertificateFile),
	{"SecurityFromEndpoint", func(t *rapid.T, o *optT) {
		e := &endpointT{
			PolicyURI: rapid.SampledFrom(policyURIs).Draw(t, "ep-policy"),
			Mode:      rapid.IntRange(0, 3).Draw(t, "ep-mode"),
			Cert:      genBytes(t, "ep-cert", true),
			AuthType:  rapid.IntRange(0, 3).Draw(t, "ep-auth"),
		}
		n := rapid.IntRange(0, 3).Draw(t, "ep-ntok")
		for i := 0; i < n; i++ {
			e.Tokens = append(e.Tokens, tokenPolicyT{
				PolicyID:  rapid.SampledFrom([]string{"", "Anonymous", "username_basic256", "cert", "issued"}).Draw(t, "tok-id"),
				TokenType: rapid.IntRange(0, 3).Draw(t, "tok-type"),
				PolicyURI: rapid.SampledFrom([]string{"", "http://opcfoundation.org/UA/SecurityPolicy#Basic256Sha256"}).Draw(t, "tok-uri"),
			})
		}
		o.Endpoint = e
	}, func(o optT) (opcua.Option, error) {
		ep, err := endpointOf(o.Endpoint)
		if err != nil {
			return nil, err
		}
		return opcua.SecurityFromEndpoint(ep, ua.UserTokenType(o.Endpoint.AuthType)), nil
	}},
	strOpt("AuthPolicyID", opcua.AuthPolicyID),
	nullOpt("AuthAnonymous", opcua.AuthAnonymous),
	{"AuthUsername", func(t *rapid.T, o *optT) { o.S, o.S2 = genStr(t, "user"), genStr(t, "pass") }, func(o optT) (opcua.Option, error) {
		return opcua.AuthUsername(o.S, o.S2), nil
	}},
	bytesOpt("AuthCertificate", true, opcua.AuthCertificate),
	keyOpt("AuthPrivateKey", opcua.AuthPrivateKey),
	bytesOpt("AuthIssuedToken", false, opcua.AuthIssuedToken),
	durOpt("RequestTimeout", opcua.RequestTimeout),
	{"Dialer", func(t *rapid.T, o *optT) {
		d := &dialerT{Kind: rapid.SampledFrom([]string{"fresh", "fresh", "fresh", "default", "default", "empty", "no-ack", "no-netdialer"}).Draw(t, "dialer-kind")}
		if d.Kind == "fresh" || d.Kind == "no-ack" {
			d.TimeoutNS, d.KeepNS = genDur(t, "dl-timeout"), genDur(t, "dl-keep")
		}
		if d.Kind == "fresh" || d.Kind == "no-netdialer" {
			for i := range d.ACK {
				d.ACK[i] = uint32(genU32(t, "dl-ack"))
			}
		}
		o.Dialer = d
	}, func(o optT) (opcua.Option, error) {
		d, err := dialerOf(o.Dialer)
		if err != nil {
			return nil, err
		}
		return opcua.Dialer(d), nil
	}},
	durOpt("DialTimeout", opcua.DialTimeout),
	u32Opt("MaxMessageSize", opcua.MaxMessageSize),
	u32Opt("MaxChunkCount", opcua.MaxChunkCount),
	u32Opt("ReceiveBufferSize", opcua.ReceiveBufferSize),
	u32Opt("SendBufferSize", opcua.SendBufferSize),
	{"StateChangedCh", func(t *rapid.T, o *optT) { o.N = int64(rapid.IntRange(-1, 2).Draw(t, "chcap")) }, func(o optT) (opcua.Option, error) {
		if o.N < 0 {
			return opcua.StateChangedCh(nil), nil
		}
		return opcua.StateChangedCh(make(chan opcua.ConnState, int(o.N))), nil
	}},
	{"StateChangedFunc", func(t *rapid.T, o *optT) { o.B = rapid.Bool().Draw(t, "nonnil") }, func(o optT) (opcua.Option, error) {
		if !o.B {
			return opcua.StateChangedFunc(nil), nil
		}
		n := new(int) // a fresh closure per construction
		return opcua.StateChangedFunc(func(opcua.ConnState) { *n++ }), nil
	}},
}

var specByName = func() map[string]*spec {
	m := map[string]*spec{}
	for i := range specs {
		m[specs[i].name] = &specs[i]
	}
	return m
}()

// the options that write through cfg.dialer.Dialer / cfg.dialer.ClientACK: they
// would dereference nil after a user dialer that leaves that part to its
// documented default (a crash that is not C23's subject), so the generator
// does not place them after such a dialer.
var needsNetDialer = map[string]bool{"DialTimeout": true}
var needsACK = map[string]bool{"MaxMessageSize": true, "MaxChunkCount": true, "ReceiveBufferSize": true, "SendBufferSize": true}

// themes raise the chance that two constructions of one program touch the same
// sub-object of the configuration (the place where a shared default would show).
var themes = map[string][]string{
	"limits":      {"MaxMessageSize", "MaxChunkCount", "ReceiveBufferSize", "SendBufferSize", "DialTimeout", "Dialer", "ApplicationName", "Locales"},
	"auth":        {"AuthAnonymous", "AuthUsername", "AuthCertificate", "AuthPrivateKey", "AuthIssuedToken", "AuthPolicyID", "SecurityFromEndpoint", "SessionName"},
	"description": {"ApplicationName", "ApplicationURI", "ProductURI", "Locales", "Certificate", "CertificateFile", "SessionTimeout", "SecurityPolicy"},
}

func optGen(theme string) *rapid.Generator[optT] {
	var names []string
	for _, sp := range specs {
		names = append(names, sp.name)
	}
	if theme != "" {
		names = themes[theme]
	}
	return rapid.Custom(func(t *rapid.T) optT {
		o := optT{Name: rapid.SampledFrom(names).Draw(t, "opt")}
		specByName[o.Name].gen(t, &o)
		return o
	})
}

var optGens = []*rapid.Generator[optT]{optGen(""), optGen(""), optGen(""), optGen("limits"), optGen("auth"), optGen("description")}

// dropNilDereferences removes the options that would write through the nil part
// of a user dialer placed earlier in the same construction.
func dropNilDereferences(opts []optT) []optT {
	out := make([]optT, 0, len(opts))
	netNil, ackNil := false, false
	for _, o := range opts {
		if (netNil && needsNetDialer[o.Name]) || (ackNil && needsACK[o.Name]) {
			continue
		}
		if o.Name == "Dialer" && o.Dialer != nil {
			netNil = o.Dialer.Kind == "empty" || o.Dialer.Kind == "no-netdialer"
			ackNil = o.Dialer.Kind == "empty" || o.Dialer.Kind == "no-ack"
		}
		out = append(out, o)
	}
	return out
}

// slices are drawn with rapid.SliceOfN so that the shrinker can delete any
// construction and any option, not only the last ones.
var stepGen = rapid.Custom(func(t *rapid.T) stepT {
	var s stepT
	s.Ctor = rapid.SampledFrom([]string{"NewClient", "NewClient", "ApplyConfig"}).Draw(t, "ctor")
	if s.Ctor == "NewClient" {
		s.Endpoint = rapid.SampledFrom([]string{"opc.tcp://localhost:4840", "opc.tcp://plc.invalid:4841/ua", ""}).Draw(t, "endpoint")
	}
	s.Opts = []optT{}
	if s.Ctor == "NewClient" && rapid.IntRange(0, 3).Draw(t, "connect") == 0 {
		bufs := rapid.SampledFrom([]uint32{8192, 8192, 16384, 65535, 1 << 20})
		lim := rapid.SampledFrom([]uint32{0, 0, 1, 5, 4096, 1 << 20})
		s.Connect = &[4]uint32{bufs.Draw(t, "lnRecv"), bufs.Draw(t, "lnSend"), lim.Draw(t, "lnChunks"), lim.Draw(t, "lnMsg")}
	}
	if rapid.IntRange(0, 2).Draw(t, "plain") == 0 {
		return s // construction without options
	}
	g := optGens[rapid.IntRange(0, len(optGens)-1).Draw(t, "theme")]
	s.Opts = dropNilDereferences(rapid.SliceOfN(g, 1, ev.Pick(6, 10)).Draw(t, "opts"))
	return s
})

func genCase(t *rapid.T) caseT {
	var c caseT
	c.Steps = rapid.SliceOfN(stepGen, 2, 12).Draw(t, "program")
	c.Wire = rapid.IntRange(0, 3).Draw(t, "wire") == 0
	return c
}

// ---------------------------------------------------------------------------
// snapshots of the things the property talks about

type named struct {
	name string
	v    reflect.Value
}

func snapParts(ident bool, parts ...named) Snap {
	w := &walker{path: map[onPath]bool{}, ident: ident}
	for _, p := range parts {
		w.walk(p.name, p.v, 0)
	}
	return w.out
}

// snapDefaults captures everything package-level an option can reach: the two
// UACP acknowledge globals, fresh results of the three Default* constructors
// (they would expose any hidden shared template), and the policy name table
// read by SecurityPolicy.
func snapDefaults() Snap {
	return snapParts(false,
		named{"uacp.DefaultClientACK", reflect.ValueOf(&uacp.DefaultClientACK).Elem()},
		named{"uacp.DefaultServerACK", reflect.ValueOf(&uacp.DefaultServerACK).Elem()},
		named{"opcua.DefaultClientConfig()", reflect.ValueOf(opcua.DefaultClientConfig())},
		named{"opcua.DefaultSessionConfig()", reflect.ValueOf(opcua.DefaultSessionConfig())},
		named{"opcua.DefaultDialer()", reflect.ValueOf(opcua.DefaultDialer())},
		named{"ua.SecurityPolicyURIs", reflect.ValueOf(ua.SecurityPolicyURIs)},
	)
}

// the configuration of a client: what the caller configured. Runtime state
// (channels of the publish loop, atomics, sync.Once) is not configuration.
func clientParts(c *opcua.Client, withURL bool) []named {
	ps := []named{{"client.cfg", field(c, "cfg")}, {"client.stateCh", field(c, "stateCh")}, {"client.stateFunc", field(c, "stateFunc")}}
	if withURL {
		ps = append(ps, named{"client.endpointURL", field(c, "endpointURL")})
	}
	return ps
}

func configParts(cfg *opcua.Config) []named {
	return []named{{"config", reflect.ValueOf(cfg)}}
}

// ---------------------------------------------------------------------------
// pristine state, captured in TestMain before any option exists

var (
	pristineDefaults  Snap
	pristineClient    Snap // no-option NewClient, without endpoint URL
	pristineConfig    Snap // no-option ApplyConfig
	pristineClientACK uacp.Acknowledge
	pristineServerACK uacp.Acknowledge
	pristineCliPtr    *uacp.Acknowledge
	pristineSrvPtr    *uacp.Acknowledge
	pristineHello     *[5]uint32  // nil: the wire check is unavailable
	dirty             atomic.Bool // a case of this process failed: its state can no longer be trusted
)

func initPristine() {
	pristineCliPtr, pristineSrvPtr = uacp.DefaultClientACK, uacp.DefaultServerACK
	pristineClientACK, pristineServerACK = *uacp.DefaultClientACK, *uacp.DefaultServerACK
	pristineDefaults = snapDefaults()
	c, err := opcua.NewClient("opc.tcp://localhost:4840")
	if err != nil {
		panic(fmt.Sprintf("c23: NewClient without options failed: %v", err))
	}
	pristineClient = snapParts(false, clientParts(c, false)...)
	cfg, err := opcua.ApplyConfig()
	if err != nil {
		panic(fmt.Sprintf("c23: ApplyConfig without options failed: %v", err))
	}
	pristineConfig = snapParts(false, configParts(cfg)...)
	if h, err := helloOfDefaultClient(); err == nil {
		pristineHello = &h
	}
}

// ---------------------------------------------------------------------------
// wire confirmation: the Hello of a default client

var (
	lnOnce sync.Once
	lnAddr string
	lnErr  error
	lnCh   chan [5]uint32
	lnMu   sync.Mutex
)

func startListener() {
	l, err := net.Listen("tcp", "127.0.0.1:0")
	if err != nil {
		lnErr = err
		return
	}
	lnAddr = l.Addr().String()
	lnCh = make(chan [5]uint32, 1)
	go func() {
		for {
			c, err := l.Accept()
			if err != nil {
				return
			}
			var out [5]uint32
			ok := false
			_ = c.SetDeadline(time.Now().Add(5 * time.Second))
			hdr := make([]byte, 8)
			if _, err := io.ReadFull(c, hdr); err == nil && string(hdr[:4]) == "HELF" {
				n := binary.LittleEndian.Uint32(hdr[4:])
				if n >= 8+20 && n < 1<<16 {
					body := make([]byte, n-8)
					if _, err := io.ReadFull(c, body); err == nil {
						// Part 6, 7.1.2.3: Version, ReceiveBufferSize, SendBufferSize, MaxMessageSize, MaxChunkCount, EndpointUrl
						for i := range out {
							out[i] = binary.LittleEndian.Uint32(body[4*i:])
						}
						ok = true
					}
				}
			}
			if tc, isTCP := c.(*net.TCPConn); isTCP {
				_ = tc.SetLinger(0) // reset instead of TIME_WAIT: thousands of cases per process
			}
			c.Close()
			if ok {
				select {
				case lnCh <- out:
				default:
				}
			}
		}
	}()
}

// helloOfDefaultClient builds a client without options, lets it dial the local
// listener (which reads the Hello and resets the connection) and returns
// {Version, ReceiveBufSize, SendBufSize, MaxMessageSize, MaxChunkCount}.
// Any error is an infrastructure problem, never a verdict.
func helloOfDefaultClient() ([5]uint32, error) {
	lnMu.Lock()
	defer lnMu.Unlock()
	lnOnce.Do(startListener)
	if lnErr != nil {
		return [5]uint32{}, lnErr
	}
	select { // drop a stale result
	case <-lnCh:
	default:
	}
	c, err := opcua.NewClient("opc.tcp://" + lnAddr)
	if err != nil {
		return [5]uint32{}, err
	}
	ctx, cancel := context.WithTimeout(context.Background(), 5*time.Second)
	defer cancel()
	_ = c.Dial(ctx) // fails by construction: the listener never acknowledges
	select {
	case h := <-lnCh:
		return h, nil
	case <-time.After(5 * time.Second):
		return [5]uint32{}, fmt.Errorf("no Hello seen")
	}
}

// ---------------------------------------------------------------------------
// running a program

type entity struct {
	step  int
	what  string
	parts []named
	snap  Snap
}

type result struct {
	msg        string // "" = property held
	infra      string // problem of the harness / an invalid case: never a violation
	nontrivial bool
	classes    []string
	optCount   map[string]int
}

func describe(s stepT) string {
	var names []string
	for _, o := range s.Opts {
		names = append(names, o.Name)
	}
	return s.Ctor + "(" + strings.Join(names, ", ") + ")"
}

func runProgram(c caseT) (res result) {
	res.optCount = map[string]int{}
	// In a process in which no case has failed yet the state at program start
	// must be the pristine state. In a dirty process (only while rapid shrinks,
	// see judge) the state at program start is the baseline and a failure is
	// only a candidate that a fresh process has to confirm.
	baseDefaults := snapDefaults()
	baseClient, baseConfig := pristineClient, pristineConfig
	if !dirty.Load() {
		if d := diff(pristineDefaults, baseDefaults); d != "" {
			res.infra = "defaults differ from process start before the program ran, although no earlier case failed: " + d
			return
		}
	} else {
		if c0, err := opcua.NewClient(""); err == nil {
			baseClient = snapParts(false, clientParts(c0, false)...)
		}
		if cfg0, err := opcua.ApplyConfig(); err == nil {
			baseConfig = snapParts(false, configParts(cfg0)...)
		}
	}

	var ents []entity
	optSeen, plainAfterOpt, errCtor, limitOpt, userDialer := false, false, false, false, false
	connected, dialPanics := 0, 0
	for i, st := range c.Steps {
		var opts []opcua.Option
		for _, o := range st.Opts {
			sp := specByName[o.Name]
			if sp == nil {
				res.infra = fmt.Sprintf("step %d: unknown option %q", i, o.Name)
				return
			}
			opt, err := sp.mk(o)
			if err != nil {
				res.infra = fmt.Sprintf("step %d: cannot build argument of %s: %v", i, o.Name, err)
				return
			}
			opts = append(opts, opt)
			res.optCount[o.Name]++
			if needsACK[o.Name] {
				limitOpt = true
			}
			if o.Name == "Dialer" {
				userDialer = true
				res.optCount["Dialer/"+o.Dialer.Kind]++
			}
		}
		var parts []named
		var plainBase Snap
		var plainParts []named
		var cerr error
		var dial func() // Connect steps: dials the listener once, after the construction itself was judged
		panicked := func() (p any) {
			defer func() { p = recover() }()
			switch st.Ctor {
			case "NewClient":
				var cl *opcua.Client
				endpoint := st.Endpoint
				var ln *uacp.Listener
				if st.Connect != nil {
					a := *st.Connect
					l, err := uacp.Listen(context.Background(), "opc.tcp://127.0.0.1:0", &uacp.Acknowledge{ReceiveBufSize: a[0], SendBufSize: a[1], MaxChunkCount: a[2], MaxMessageSize: a[3]})
					if err == nil {
						ln = l
						endpoint = "opc.tcp://" + l.Addr().String()
						go func() {
							actx, cancel := context.WithTimeout(context.Background(), 5*time.Second)
							defer cancel()
							if sc, err := l.Accept(actx); err == nil {
								sc.Close()
							}
						}()
					}
				}
				cl, cerr = opcua.NewClient(endpoint, opts...)
				if ln != nil {
					// uacp allocates the whole receive buffer for every frame it
					// reads: a step that asks for a huge buffer is not dialled
					hugeBuf := false
					for _, o := range st.Opts {
						if o.Name == "ReceiveBufferSize" && (o.N > 4<<20 || o.N < 8192) {
							hugeBuf = true // below the protocol minimum: uacp.Receive panics (outside C23, see DESIGN 10.4)
						}
						if o.Name == "Dialer" && o.Dialer != nil && (o.Dialer.Kind == "fresh" || o.Dialer.Kind == "no-netdialer") && (o.Dialer.ACK[0] > 4<<20 || o.Dialer.ACK[0] < 8192) {
							hugeBuf = true
						}
					}
					dial = func() {
						defer ln.Close()
						if cl == nil || cerr != nil || hugeBuf {
							return
						}
						connected++
						defer func() {
							if r := recover(); r != nil {
								dialPanics++ // not what C23 is about (C21/C25)
								if os.Getenv("VERIF_C23_DEBUG") != "" {
									fmt.Printf("dial panic: %v\n%s\n", r, debug.Stack())
								}
							}
						}()
						dctx, cancel := context.WithTimeout(context.Background(), 3*time.Second)
						defer cancel()
						_ = cl.Dial(dctx)
					}
				}
				if cl != nil {
					parts = clientParts(cl, true)
					plainParts, plainBase = clientParts(cl, false), baseClient
				}
			case "ApplyConfig":
				var cfg *opcua.Config
				cfg, cerr = opcua.ApplyConfig(opts...)
				if cfg != nil {
					parts = configParts(cfg)
					plainParts, plainBase = parts, baseConfig
				}
			default:
				panic("c23: unknown constructor " + st.Ctor)
			}
			return nil
		}()
		if panicked != nil {
			// a crash of a construction is not what C23 is about; the generator
			// avoids the known nil dereferences, so this is a harness problem
			res.infra = fmt.Sprintf("step %d %s panicked: %v", i, describe(st), panicked)
			return
		}
		if cerr != nil {
			errCtor = true
		}
		where := fmt.Sprintf("after step %d %s", i, describe(st))

		// (a) the defaults kept their content
		if d := diff(baseDefaults, snapDefaults()); d != "" {
			res.msg = fmt.Sprintf("%s the package defaults changed: %s", where, d)
			return
		}
		// (b) every earlier client / config kept its content
		for _, e := range ents {
			if d := diff(e.snap, snapParts(true, e.parts...)); d != "" {
				res.msg = fmt.Sprintf("%s the configuration built in step %d %s changed: %s", where, e.step, e.what, d)
				return
			}
		}
		// (c) a construction without options has the pristine content
		if len(st.Opts) == 0 {
			if cerr != nil || plainParts == nil {
				res.msg = fmt.Sprintf("%s: a construction without options failed: %v", where, cerr)
				return
			}
			if d := diff(plainBase, snapParts(false, plainParts...)); d != "" {
				res.msg = fmt.Sprintf("%s a construction without options differs from the pristine one: %s", where, d)
				return
			}
			if optSeen {
				plainAfterOpt = true
			}
		} else {
			optSeen = true
		}
		if dial != nil {
			// What dialling does to the client's OWN configuration is not C23's
			// business (its snapshot is taken afterwards); what it does to the
			// defaults and to the other clients is.
			dial()
			where := fmt.Sprintf("after the client of step %d %s dialled a listener with Acknowledge %v", i, describe(st), *st.Connect)
			if d := diff(baseDefaults, snapDefaults()); d != "" {
				res.msg = fmt.Sprintf("%s the package defaults changed: %s", where, d)
				return
			}
			for _, e := range ents {
				if d := diff(e.snap, snapParts(true, e.parts...)); d != "" {
					res.msg = fmt.Sprintf("%s the configuration built in step %d %s changed: %s", where, e.step, e.what, d)
					return
				}
			}
		}
		if parts != nil {
			ents = append(ents, entity{step: i, what: describe(st), parts: parts, snap: snapParts(true, parts...)})
		}
	}

	if c.Wire && pristineHello != nil && !dirty.Load() {
		h, err := helloOfDefaultClient()
		switch {
		case err != nil:
			res.classes = append(res.classes, "wire-check-skipped(infrastructure)")
		case h != *pristineHello:
			res.msg = fmt.Sprintf("after the program a client without options sent Hello{Version,ReceiveBufSize,SendBufSize,MaxMessageSize,MaxChunkCount}=%v, the pristine default client sent %v", h, *pristineHello)
			return
		default:
			res.classes = append(res.classes, "wire-check-done")
		}
		// dialling must not have disturbed anything either
		if d := diff(baseDefaults, snapDefaults()); d != "" {
			res.msg = fmt.Sprintf("after a default client dialled, the package defaults changed: %s", d)
			return
		}
	}

	res.nontrivial = plainAfterOpt
	switch n := len(c.Steps); {
	case n <= 4:
		res.classes = append(res.classes, "program-len:2-4")
	case n <= 8:
		res.classes = append(res.classes, "program-len:5-8")
	default:
		res.classes = append(res.classes, "program-len:9-12")
	}
	if plainAfterOpt {
		res.classes = append(res.classes, "plain-construction-after-configured-one")
	}
	if errCtor {
		res.classes = append(res.classes, "has-construction-returning-error")
	}
	if limitOpt {
		res.classes = append(res.classes, "has-limit/buffer-option")
	}
	if userDialer {
		res.classes = append(res.classes, "has-user-dialer")
	}
	if connected > 0 {
		res.classes = append(res.classes, "has-client-that-dialled-a-listener")
	}
	if dialPanics > 0 {
		res.classes = append(res.classes, "dial-panicked(ignored)")
	}
	return
}

// ---------------------------------------------------------------------------
// judging a case

const childMarker = "C23-CHILD-RESULT "

type childResult struct {
	Msg   string `json:"msg"`
	Infra string `json:"infra"`
}

// judge runs the program in this process. After the first failure of the
// process (i.e. while rapid shrinks) the package state may be altered in ways
// that cannot be undone from outside (a leak through an unexported variable):
// then the exported globals are put back, the program is judged against the
// state at its own start, and a failure only counts if a fresh child process,
// started exactly like ./check --replay, fails on the same program. So every
// replay file written holds a program that fails from a clean start; an
// in-process pass that a clean process would not confirm can only make the
// shrunk program less small, never wrong.
func judge(c caseT) result {
	if !dirty.Load() {
		return runProgram(c)
	}
	uacp.DefaultClientACK, uacp.DefaultServerACK = pristineCliPtr, pristineSrvPtr
	*uacp.DefaultClientACK, *uacp.DefaultServerACK = pristineClientACK, pristineServerACK
	res := runProgram(c)
	if res.infra != "" || res.msg == "" {
		return res
	}
	return runInChild(c)
}

func runInChild(c caseT) (res result) {
	res.optCount = map[string]int{}
	exe, err := os.Executable()
	if err != nil {
		res.infra = "child: " + err.Error()
		return
	}
	fileMu.Lock()
	dir := fileDir
	fileMu.Unlock()
	b, _ := json.Marshal(c)
	rp, _ := json.Marshal(ev.Replay{Property: "C23", Test: "TestIsolation", Case: b})
	path := filepath.Join(dir, "child-case.json")
	if err := os.WriteFile(path, rp, 0o600); err != nil {
		res.infra = "child: " + err.Error()
		return
	}
	ctx, cancel := context.WithTimeout(context.Background(), 2*time.Minute)
	defer cancel()
	cmd := exec.CommandContext(ctx, exe, "-test.run", "^TestReplay$", "-test.count=1", "-test.v")
	for _, e := range os.Environ() {
		// the child is a judge only: no evidence parts, replay files or journals of its own
		if strings.HasPrefix(e, "VERIF_PART_DIR=") || strings.HasPrefix(e, "VERIF_REPLAY_DIR=") || strings.HasPrefix(e, "VERIF_JOURNAL_DIR=") || strings.HasPrefix(e, "VERIF_REPLAY=") {
			continue
		}
		cmd.Env = append(cmd.Env, e)
	}
	cmd.Env = append(cmd.Env, "VERIF_REPLAY="+path, "VERIF_REPLAY_DIR="+dir)
	out, _ := cmd.CombinedOutput()
	for _, line := range strings.Split(string(out), "\n") {
		if i := strings.Index(line, childMarker); i >= 0 {
			var cr childResult
			if err := json.Unmarshal([]byte(line[i+len(childMarker):]), &cr); err != nil {
				res.infra = "child: bad result line: " + err.Error()
				return
			}
			res.msg, res.infra = cr.Msg, cr.Infra
			res.classes = []string{"judged-in-child-process(shrinking)"}
			return
		}
	}
	res.infra = "child: no result line in output: " + clip(string(out))
	return
}

// ---------------------------------------------------------------------------

func TestIsolation(t *testing.T) {
	useTempDir(t)
	rec.Assume("oracle = reflective content snapshot of defaults and configurations (unexported fields read through unsafe, never written); chan by nil-ness+capacity, func by nil-ness (+address when an object is compared with its own past), sync/atomic state and time.Location skipped")
	rec.Assume("no field of a no-option client is random: RequestIDSeed is only set by the RandomRequestID option and nonces only exist after Connect, which is never called")
	rec.Assume("caller-owned arguments are fresh per construction (dialers, byte slices, channels, closures); fixture *rsa.PrivateKey objects are shared between clients, which the property allows")
	rec.Assume("options that would dereference the nil part of a user dialer with defaulted parts (DialTimeout after Dialer{Dialer:nil}, limit options after Dialer{ClientACK:nil}) are not generated: that crash is not C23's subject")
	if pristineHello == nil {
		rec.Assume("wire confirmation unavailable in this process (no loopback listener)")
	}
	rapid.Check(t, func(rt *rapid.T) {
		c := genCase(rt)
		res := judge(c)
		if res.infra != "" {
			rt.Fatalf("harness problem (not a verdict on C23): %s", res.infra)
		}
		b, _ := json.Marshal(c)
		nt := res.nontrivial && res.msg == ""
		rec.Case(nt, ev.Hash(b), res.classes...)
		names := make([]string, 0, len(res.optCount))
		for k := range res.optCount {
			names = append(names, k)
		}
		sort.Strings(names)
		for _, k := range names {
			rec.ClassN("opt:"+k, int64(res.optCount[k]))
		}
		for _, s := range c.Steps {
			if len(s.Opts) == 0 {
				rec.Class("ctor:" + s.Ctor + "/no-options")
			} else {
				rec.Class("ctor:" + s.Ctor + "/with-options")
			}
		}
		if nt && len(b) < 1900 && rec.WantSample() {
			rec.Sample(c)
		}
		if res.msg != "" {
			dirty.Store(true)
			rec.Fail(rt, "TestIsolation", c, "%s", res.msg)
		}
	})
}

// TestOptionTable checks that the table above names exactly the Option
// constructors of config.go in the tree being compiled, so that an option added
// later is not silently left out. A mismatch is a problem of the check.
func TestOptionTable(t *testing.T) {
	repo := os.Getenv("VERIF_REPO")
	if repo == "" {
		repo = "/repo"
	}
	fset := token.NewFileSet()
	pkgs, err := parser.ParseDir(fset, repo, func(fi os.FileInfo) bool { return !strings.HasSuffix(fi.Name(), "_test.go") }, 0)
	if err != nil || pkgs["opcua"] == nil {
		t.Skipf("cannot parse %s: %v", repo, err)
	}
	inSource := map[string]bool{}
	for _, f := range pkgs["opcua"].Files {
		for _, d := range f.Decls {
			fd, ok := d.(*ast.FuncDecl)
			if !ok || fd.Recv != nil || !fd.Name.IsExported() || fd.Type.Results == nil || len(fd.Type.Results.List) != 1 {
				continue
			}
			if id, ok := fd.Type.Results.List[0].Type.(*ast.Ident); ok && id.Name == "Option" {
				inSource[fd.Name.Name] = true
			}
		}
	}
	var missing, stale []string
	for n := range inSource {
		if specByName[n] == nil {
			missing = append(missing, n)
		}
	}
	for n := range specByName {
		if !inSource[n] {
			stale = append(stale, n)
		}
	}
	sort.Strings(missing)
	sort.Strings(stale)
	rec.Extra("option_constructors_in_source", float64(len(inSource)))
	rec.Extra("option_constructors_in_table", float64(len(specs)))
	if len(missing)+len(stale) > 0 {
		t.Fatalf("option table out of date (harness problem, not a verdict): not covered %v, no longer in source %v", missing, stale)
	}
}

// TestReplay re-runs a saved program without rapid.
func TestReplay(t *testing.T) {
	rp, err := ev.LoadReplay()
	if err != nil {
		t.Fatal(err)
	}
	if rp == nil {
		t.Skip("no VERIF_REPLAY")
	}
	useTempDir(t)
	var c caseT
	if err := json.Unmarshal(rp.Case, &c); err != nil {
		t.Fatal(err)
	}
	fmt.Println("REPLAYED structured")
	res := runProgram(c)
	cr, _ := json.Marshal(childResult{Msg: res.msg, Infra: res.infra})
	fmt.Println(childMarker + string(cr))
	if res.infra != "" {
		t.Fatalf("harness problem (not a verdict on C23): %s", res.infra)
	}
	if res.msg != "" {
		t.Fatalf("property C23 violated: %s", res.msg)
	}
}
