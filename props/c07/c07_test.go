// Package c07 decides property C07: secure channel chunking round-trips every
// message under every policy and mode.
//
// Fixture: pkg/chanpair connects a gopcua client secure channel to a gopcua
// server secure channel over loopback TCP (public API only, real
// OpenSecureChannel exchange with RSA fixtures of every size the policy
// allows); a frame-aware tap between them records every chunk.
//
// Per case: one channel pair (policy x mode x client key size x server key size x
// Hello/Acknowledge buffer sizes) carries a short list of exchanges. An exchange
// is (1) a sized request, client SendRequest -> server Receive (sent without a
// response handler, so that SendRequest returns when the last chunk is written),
// (2) a minimal ReadRequest with a response handler, and (3) a sized response to
// it, server SendResponseWithContext -> the client's response handler. A sized
// message is a service message with one ByteString-like payload chosen so that
// the encoded message body hits a size class relative to the maximum body size
// of the sending channel (read through the hook VerifActiveMaxBodySize, used for
// aiming only): the smallest body, max-1, max, max+1, 2*max-1 .. 2*max+1,
// k*max-1 .. k*max+1 (k = 3..6), or a drawn size up to six chunks.
//
// Oracle (only what the property states):
//   - the peer's Receive yields the message exactly once and it is equal
//     (verif/pkg/eq) to the original;
//   - on the wire, the chunks of the message are all MSG chunks of this channel
//     and token, each no longer than the negotiated chunk size of its direction,
//     each with a MessageSize field equal to its length (see "framing" below),
//     all but the last marked 'C', the last 'F'; in None and Sign mode (where the
//     sequence header is readable) the request id is the same in all of them.
//
// Negotiated chunk size. Part 6 7.1.2: client->server chunks are bounded by
// min(Hello.SendBufferSize, Acknowledge.ReceiveBufferSize), server->client chunks
// by min(Acknowledge.SendBufferSize, Hello.ReceiveBufferSize). How gopcua maps
// the exchanged values to the two directions is the subject of property C06,
// not of this check, so the generated configurations keep the two readings
// apart: either all four buffer sizes are equal (N), or the server's send buffer
// N is the smallest of the four (gopcua derives the chunk size of both ends from
// the server's Acknowledge.SendBufSize, which then respects both bounds).
//
// Framing. The tap cuts the TCP stream into frames by the MessageSize field, so
// "MessageSize == frame length" alone would be vacuous. A wrong MessageSize
// makes the following bytes appear as a frame header: every frame is therefore
// required to carry a well-formed MSG header with the right channel and token
// id, and every case ends with a minimal sentinel exchange that must arrive
// intact after all earlier chunks.
package c07

import (
	"context"
	"encoding/binary"
	"encoding/json"
	"errors"
	"fmt"
	"os"
	"strings"
	"testing"
	"time"

	"github.com/gopcua/opcua/ua"
	"github.com/gopcua/opcua/uacp"
	"github.com/gopcua/opcua/uasc"
	"pgregory.net/rapid"

	"verif/pkg/chanpair"
	"verif/pkg/eq"
	"verif/pkg/ev"
	"verif/pkg/keys"
	"verif/pkg/netx"
)

func TestMain(m *testing.M) { ev.Main(m) }

const uriPrefix = "http://opcfoundation.org/UA/SecurityPolicy#"

// policy table written here (independent of uapolicy): URI fragment, symmetric
// signature length (HMAC-SHA1 = 20, HMAC-SHA256 = 32)
type polT struct {
	Frag string
	Sig  int
}

var table = []polT{
	{"None", 0},
	{"Basic128Rsa15", 20},
	{"Basic256", 20},
	{"Basic256Sha256", 32},
	{"Aes128_Sha256_RsaOaep", 32},
	{"Aes256_Sha256_RsaPss", 32},
}

func polByFrag(f string) *polT {
	for i := range table {
		if table[i].Frag == f {
			return &table[i]
		}
	}
	return nil
}

const (
	modeNone    = 1
	modeSign    = 2
	modeEncrypt = 3
)

func modeName(m int) string { return [...]string{"?", "None", "Sign", "SignAndEncrypt"}[m] }

// ---------------------------------------------------------------------------
// Case

type bufT struct {
	CRecv uint32 `json:"client_recv"`
	CSend uint32 `json:"client_send"`
	SRecv uint32 `json:"server_recv"`
	SSend uint32 `json:"server_send"`
}

// sizeT aims the encoded body length of a message relative to the maximum
// body size mb of the sending channel: "min" = smallest message of the service
// (+D), "kmax" = K*mb+D, "frac" = a Frac/1e6 share of the way from the smallest
// message to 6*mb.
type sizeT struct {
	Kind string `json:"kind"`
	K    int    `json:"k,omitempty"`
	D    int    `json:"d,omitempty"`
	Frac int    `json:"frac_ppm,omitempty"`
}

func (s sizeT) String() string {
	switch s.Kind {
	case "min":
		return fmt.Sprintf("min%+d", s.D)
	case "kmax":
		k := fmt.Sprintf("%d", s.K)
		if s.K > 2 {
			k = "k"
		}
		return fmt.Sprintf("%s*max%+d", k, s.D)
	}
	return "frac"
}

type msgT struct {
	Service string `json:"service"`
	Size    sizeT  `json:"size"`
	Fill    int    `json:"fill"`
}

type exchT struct {
	Req  msgT `json:"request"`
	Resp msgT `json:"response"`
}

type caseT struct {
	Policy     string  `json:"policy"` // URI fragment
	Mode       int     `json:"mode"`   // 1 None, 2 Sign, 3 SignAndEncrypt
	ClientBits int     `json:"client_key_bits"`
	ServerBits int     `json:"server_key_bits"`
	Buf        bufT    `json:"buffers"`
	Exchanges  []exchT `json:"exchanges"`
}

// ---------------------------------------------------------------------------
// Messages

// payload is position dependent with a long period, so chunks that are lost,
// duplicated or swapped change the reassembled value.
func payload(n int, fill byte) []byte {
	b := make([]byte, n)
	for i := range b {
		b[i] = byte((uint32(i)*2654435761)>>24) ^ fill
	}
	return b
}

var reqServices = []string{"WriteRequest", "ReadRequest", "CallRequest"}
var respServices = []string{"ReadResponse", "PublishResponse", "BrowseResponse"}

var fixedTime = time.Date(2024, 5, 17, 10, 11, 12, 131415100, time.UTC)

func buildReq(service string, p []byte) ua.Request {
	switch service {
	case "WriteRequest":
		return &ua.WriteRequest{NodesToWrite: []*ua.WriteValue{{
			NodeID: ua.NewNumericNodeID(2, 1001), AttributeID: ua.AttributeIDValue, IndexRange: "1:2",
			Value: &ua.DataValue{EncodingMask: ua.DataValueValue, Value: ua.MustVariant(p)},
		}}}
	case "ReadRequest":
		return &ua.ReadRequest{MaxAge: 2.5, TimestampsToReturn: ua.TimestampsToReturnBoth, NodesToRead: []*ua.ReadValueID{
			{NodeID: ua.NewNumericNodeID(0, 2258), AttributeID: ua.AttributeIDValue, DataEncoding: &ua.QualifiedName{}},
			{NodeID: ua.NewByteStringNodeID(3, p), AttributeID: ua.AttributeIDBrowseName, DataEncoding: &ua.QualifiedName{NamespaceIndex: 1, Name: "x"}},
		}}
	case "CallRequest":
		return &ua.CallRequest{MethodsToCall: []*ua.CallMethodRequest{{
			ObjectID: ua.NewNumericNodeID(0, 85), MethodID: ua.NewStringNodeID(4, "method"),
			InputArguments: []*ua.Variant{ua.MustVariant(uint32(7)), ua.MustVariant(p), ua.MustVariant("tail")},
		}}}
	}
	return nil
}

func respHeader(handle uint32) *ua.ResponseHeader {
	return &ua.ResponseHeader{Timestamp: fixedTime, RequestHandle: handle, ServiceResult: ua.StatusOK,
		ServiceDiagnostics: &ua.DiagnosticInfo{}, StringTable: []string{}, AdditionalHeader: ua.NewExtensionObject(nil)}
}

func buildResp(service string, p []byte, handle uint32) ua.Response {
	switch service {
	case "ReadResponse":
		return &ua.ReadResponse{ResponseHeader: respHeader(handle), Results: []*ua.DataValue{
			{EncodingMask: ua.DataValueValue, Value: ua.MustVariant(int32(-5))},
			{EncodingMask: ua.DataValueValue, Value: ua.MustVariant(p)},
		}, DiagnosticInfos: []*ua.DiagnosticInfo{}}
	case "PublishResponse":
		return &ua.PublishResponse{ResponseHeader: respHeader(handle), SubscriptionID: 9, AvailableSequenceNumbers: []uint32{3, 4},
			NotificationMessage: &ua.NotificationMessage{SequenceNumber: 4, PublishTime: fixedTime, NotificationData: []*ua.ExtensionObject{
				ua.NewExtensionObject(&ua.DataChangeNotification{MonitoredItems: []*ua.MonitoredItemNotification{
					{ClientHandle: 11, Value: &ua.DataValue{EncodingMask: ua.DataValueValue, Value: ua.MustVariant(p)}},
				}, DiagnosticInfos: []*ua.DiagnosticInfo{}}),
			}},
			Results: []ua.StatusCode{ua.StatusOK}, DiagnosticInfos: []*ua.DiagnosticInfo{}}
	case "BrowseResponse":
		return &ua.BrowseResponse{ResponseHeader: respHeader(handle), Results: []*ua.BrowseResult{
			{StatusCode: ua.StatusOK, ContinuationPoint: p, References: []*ua.ReferenceDescription{}},
		}, DiagnosticInfos: []*ua.DiagnosticInfo{}}
	}
	return nil
}

// bodyLen is the length of the encoded message body (type id + service), the
// quantity EncodeChunks splits.
func bodyLen(svc any) (int, error) {
	id := ua.ServiceTypeID(svc)
	if id == 0 {
		return 0, fmt.Errorf("unregistered service %T", svc)
	}
	a, err := ua.Encode(ua.NewFourByteExpandedNodeID(0, id))
	if err != nil {
		return 0, err
	}
	b, err := ua.Encode(svc)
	if err != nil {
		return 0, err
	}
	return len(a) + len(b), nil
}

// dummy request header of the shape SendRequest installs (auth token two-byte
// node id, no audit entry, nil additional header): same encoded length
func dummyReqHeader() *ua.RequestHeader {
	return &ua.RequestHeader{AuthenticationToken: ua.NewTwoByteNodeID(0), Timestamp: fixedTime, RequestHandle: 1, TimeoutHint: 1000}
}

// target resolves a size aim to an encoded body length.
func target(s sizeT, base, mb int) int {
	var t int
	switch s.Kind {
	case "min":
		t = base + s.D
	case "kmax":
		t = s.K*mb + s.D
	default:
		t = base + int(int64(6*mb-base)*int64(s.Frac)/1000000)
	}
	if t < base {
		t = base
	}
	return t
}

// ---------------------------------------------------------------------------
// Running a case

type failure struct {
	msg     string
	timeout bool // the failure is "nothing arrived in time": confirmed by re-execution
	infra   bool // harness problem, not a verdict
}

type msgStat struct {
	dir      string
	service  string
	size     string
	bodyLen  int
	maxBody  int
	chunks   int
	sentinel bool
}

func negotiated(b bufT) (c2s, s2c int) {
	c2s, s2c = int(b.CSend), int(b.SSend)
	if int(b.SRecv) < c2s {
		c2s = int(b.SRecv)
	}
	if int(b.CRecv) < s2c {
		s2c = int(b.CRecv)
	}
	return
}

func ackOf(recv, send, maxMsg, maxChunks uint32) *uacp.Acknowledge {
	return &uacp.Acknowledge{ReceiveBufSize: recv, SendBufSize: send, MaxMessageSize: maxMsg, MaxChunkCount: maxChunks}
}

// checkFrames judges the chunks of one message as seen on the wire.
func checkFrames(fs []netx.Frame, dir netx.Dir, limit int, mode int, chanID, tokenID uint32) (n int, msg string) {
	var mine []netx.Frame
	for _, f := range fs {
		if f.Dir == dir {
			mine = append(mine, f)
		}
	}
	if len(mine) == 0 {
		return 0, "no chunk was seen on the wire for a delivered message"
	}
	var reqID uint32
	for i, f := range mine {
		d := f.Data
		where := fmt.Sprintf("%s chunk %d of %d", dir, i+1, len(mine))
		if len(d) < 24 {
			return len(mine), fmt.Sprintf("%s: frame of %d bytes is too short for a MSG chunk", where, len(d))
		}
		if string(d[:3]) != "MSG" {
			return len(mine), fmt.Sprintf("%s: frame type %q where a MSG chunk was expected (a preceding MessageSize field did not match the chunk length, or a foreign message)", where, string(d[:4]))
		}
		if sz := binary.LittleEndian.Uint32(d[4:]); int(sz) != len(d) {
			return len(mine), fmt.Sprintf("%s: MessageSize %d != frame length %d", where, sz, len(d))
		}
		if id := binary.LittleEndian.Uint32(d[8:]); id != chanID {
			return len(mine), fmt.Sprintf("%s: secure channel id %d, want %d (framing lost: a preceding MessageSize field did not match the chunk length)", where, id, chanID)
		}
		if id := binary.LittleEndian.Uint32(d[12:]); id != tokenID {
			return len(mine), fmt.Sprintf("%s: token id %d, want %d (framing lost: a preceding MessageSize field did not match the chunk length)", where, id, tokenID)
		}
		if len(d) > limit {
			return len(mine), fmt.Sprintf("%s: %d bytes > negotiated chunk size %d", where, len(d), limit)
		}
		want := byte('C')
		if i == len(mine)-1 {
			want = 'F'
		}
		if d[3] != want {
			return len(mine), fmt.Sprintf("%s: chunk type %q, want %q", where, d[3], want)
		}
		if mode != modeEncrypt {
			id := binary.LittleEndian.Uint32(d[20:])
			if i == 0 {
				reqID = id
			} else if id != reqID {
				return len(mine), fmt.Sprintf("%s: request id %d, first chunk has %d", where, id, reqID)
			}
		}
	}
	return len(mine), ""
}

type sendResult struct {
	err   error
	calls int
	got   ua.Response
	panic any
}

// Timing. Verdicts must not depend on how busy the machine is, so a failure is
// deterministic wherever possible: after a sender has returned, a marker frame
// written behind its chunks and recognised (and swallowed) by the tap proves
// that every chunk has been recorded; malformed chunk streams (e.g. a missing
// final chunk) are then judged from the record, not from a timeout. Only "the
// sender has not returned" and "well-formed chunks were not delivered" remain
// time-based; they use a long bound and count only if they repeat (judge).
const (
	longWait   = 90 * time.Second
	markerWait = 30 * time.Second
)

var marker = []byte{'V', 'R', 'F', 'F', 8, 0, 0, 0}

type quiesce struct{ seen [2]chan struct{} }

func newQuiesce() *quiesce {
	return &quiesce{seen: [2]chan struct{}{make(chan struct{}, 16), make(chan struct{}, 16)}}
}

func (q *quiesce) hook(dir netx.Dir, conn int, frame []byte) [][]byte {
	if len(frame) == 8 && string(frame[:4]) == "VRFF" {
		select {
		case q.seen[dir] <- struct{}{}:
		default:
		}
		return nil
	}
	return [][]byte{frame}
}

// settle writes the marker behind everything the (now idle) sender wrote and
// waits for the tap to see it.
func (q *quiesce) settle(dir netx.Dir, w interface{ Write([]byte) (int, error) }) bool {
	for len(q.seen[dir]) > 0 {
		<-q.seen[dir]
	}
	if _, err := w.Write(marker); err != nil {
		return false
	}
	select {
	case <-q.seen[dir]:
		return true
	case <-time.After(markerWait):
		return false
	}
}

type runner struct {
	c      caseT
	p      *chanpair.Pair
	q      *quiesce
	o      chanpair.Options
	limC2S int
	limS2C int
	stats  []msgStat
}

// sendReq sends req from the client in a goroutine (with a response handler if
// withHandler) and returns the channel the result arrives on.
func (r *runner) sendReq(req ua.Request, withHandler bool) chan sendResult {
	done := make(chan sendResult, 1)
	go func() {
		var res sendResult
		defer func() {
			if v := recover(); v != nil {
				res.panic = v
			}
			done <- res
		}()
		var h func(ua.Response) error
		if withHandler {
			h = func(resp ua.Response) error {
				res.calls++
				res.got = resp
				return nil
			}
		}
		res.err = r.p.Client.SendRequest(context.Background(), req, nil, h)
	}()
	return done
}

func (r *runner) frames(n0 int, dir netx.Dir) (int, string) {
	lim := r.limC2S
	if dir == netx.S2C {
		lim = r.limS2C
	}
	return checkFrames(r.p.Tap.Frames()[n0:], dir, lim, r.c.Mode, r.o.ChannelID, r.o.TokenID)
}

// request sends one sized request client -> server without a response handler
// (SendRequest then returns as soon as the last chunk is written) and checks
// wire and delivery.
func (r *runner) request(where string, x msgT, sentinel bool) *failure {
	p := r.p
	mb := int(p.Client.VerifActiveMaxBodySize())
	if mb <= 0 {
		return &failure{msg: "client channel has no active instance", infra: true}
	}
	probe := buildReq(x.Service, nil)
	if probe == nil {
		return &failure{msg: "unknown request service " + x.Service, infra: true}
	}
	probe.SetHeader(dummyReqHeader())
	base, err := bodyLen(probe)
	if err != nil {
		return &failure{msg: err.Error(), infra: true}
	}
	want := target(x.Size, base, mb)
	req := buildReq(x.Service, payload(want-base, byte(x.Fill)))
	what := fmt.Sprintf("%s: %s (body %d bytes, maxBody %d)", where, x.Service, want, mb)

	n0 := len(p.Tap.Frames())
	// the server must be reading while the client sends: several MiB do not fit
	// the socket buffers, and the marker below travels behind them
	recv := make(chan *uasc.MessageBody, 1)
	go func() { recv <- p.ServerReceive(longWait) }()
	var res sendResult
	select {
	case res = <-r.sendReq(req, false):
	case <-time.After(longWait):
		return &failure{timeout: true, msg: fmt.Sprintf("%s: SendRequest did not return within %s", what, longWait)}
	}
	if res.panic != nil {
		return &failure{msg: fmt.Sprintf("%s: SendRequest panicked: %v", what, res.panic)}
	}
	if res.err != nil {
		return &failure{msg: fmt.Sprintf("%s: SendRequest failed: %v%s", what, res.err, drain(p))}
	}
	if l, err := bodyLen(req); err != nil || l != want {
		return &failure{msg: fmt.Sprintf("request sizing: got %d want %d (%v)", l, want, err), infra: true}
	}
	// the sender is done: once the marker has passed, the record is complete
	settled := r.q.settle(netx.C2S, p.ClientConn)
	if !settled {
		rec.Class("marker-not-seen:c2s")
	}
	nch := 0
	if settled {
		var fmsg string
		if nch, fmsg = r.frames(n0, netx.C2S); fmsg != "" {
			return &failure{msg: fmt.Sprintf("%s: %s", what, fmsg)}
		}
	}
	m := <-recv
	if m == nil || errors.Is(m.Err, context.DeadlineExceeded) {
		_, fmsg := r.frames(n0, netx.C2S)
		return &failure{timeout: true, msg: fmt.Sprintf("%s: the server's Receive did not deliver it within %s; chunks on the wire: %s%s", what, longWait, orOK(fmsg), drain(p))}
	}
	if m.Err != nil || m.Request() == nil {
		return &failure{msg: fmt.Sprintf("%s: the server's Receive yields %s instead%s", what, descr(m), drain(p))}
	}
	if !settled { // delivery implies that all chunks have passed the tap
		var fmsg string
		if nch, fmsg = r.frames(n0, netx.C2S); fmsg != "" {
			return &failure{msg: fmt.Sprintf("%s: %s", what, fmsg)}
		}
	}
	if d := eq.Diff(req, m.Request()); d != "" {
		return &failure{msg: fmt.Sprintf("%s, %d chunks: the request delivered by the server's Receive differs from the one sent: %s", what, nch, d)}
	}
	r.stats = append(r.stats, msgStat{dir: "c2s", service: x.Service, size: x.Size.String(), bodyLen: want, maxBody: mb, chunks: nch, sentinel: sentinel})
	return nil
}

// response lets the client send a minimal carrier request with a response
// handler, then sends one sized response server -> client and checks wire and
// delivery to the handler.
func (r *runner) response(where string, x msgT, handle uint32, sentinel bool) *failure {
	p := r.p
	carrier := buildReq("ReadRequest", nil)
	done := r.sendReq(carrier, true)
	m := p.ServerReceive(longWait)
	if m == nil || errors.Is(m.Err, context.DeadlineExceeded) {
		select {
		case res := <-done:
			if res.panic != nil {
				return &failure{msg: fmt.Sprintf("%s: SendRequest(minimal ReadRequest) panicked: %v", where, res.panic)}
			}
			if res.err != ua.StatusBadTimeout {
				return &failure{msg: fmt.Sprintf("%s: SendRequest(minimal ReadRequest) failed: %v%s", where, res.err, drain(p))}
			}
		default:
		}
		return &failure{timeout: true, msg: fmt.Sprintf("%s: the server's Receive did not deliver a minimal ReadRequest within %s%s", where, longWait, drain(p))}
	}
	if m.Err != nil || m.Request() == nil {
		return &failure{msg: fmt.Sprintf("%s: the server's Receive yields %s instead of a minimal ReadRequest%s", where, descr(m), drain(p))}
	}

	mb := int(p.Server.VerifActiveMaxBodySize())
	if mb <= 0 {
		return &failure{msg: "server channel has no active instance", infra: true}
	}
	probe := buildResp(x.Service, nil, handle)
	if probe == nil {
		return &failure{msg: "unknown response service " + x.Service, infra: true}
	}
	base, err := bodyLen(probe)
	if err != nil {
		return &failure{msg: err.Error(), infra: true}
	}
	want := target(x.Size, base, mb)
	resp := buildResp(x.Service, payload(want-base, byte(x.Fill)), handle)
	if l, err := bodyLen(resp); err != nil || l != want {
		return &failure{msg: fmt.Sprintf("response sizing: got %d want %d (%v)", l, want, err), infra: true}
	}
	what := fmt.Sprintf("%s: %s (body %d bytes, maxBody %d)", where, x.Service, want, mb)

	n0 := len(p.Tap.Frames())
	type sr struct {
		err   error
		panic any
	}
	sent := make(chan sr, 1)
	go func() {
		var s sr
		defer func() {
			if v := recover(); v != nil {
				s.panic = v
			}
			sent <- s
		}()
		s.err = p.Server.SendResponseWithContext(context.Background(), m.RequestID, resp)
	}()
	var s sr
	select {
	case s = <-sent:
	case <-time.After(longWait):
		return &failure{timeout: true, msg: fmt.Sprintf("%s: SendResponseWithContext did not return within %s", what, longWait)}
	}
	if s.panic != nil {
		return &failure{msg: fmt.Sprintf("%s: SendResponseWithContext panicked: %v", what, s.panic)}
	}
	if s.err != nil {
		return &failure{msg: fmt.Sprintf("%s: SendResponseWithContext failed: %v%s", what, s.err, drain(p))}
	}
	settled := r.q.settle(netx.S2C, p.ServerConn)
	if !settled {
		rec.Class("marker-not-seen:s2c")
	}
	nch := 0
	if settled {
		var fmsg string
		if nch, fmsg = r.frames(n0, netx.S2C); fmsg != "" {
			return &failure{msg: fmt.Sprintf("%s: %s", what, fmsg)}
		}
	}
	var res sendResult
	select {
	case res = <-done:
	case <-time.After(longWait):
		_, fmsg := r.frames(n0, netx.S2C)
		return &failure{timeout: true, msg: fmt.Sprintf("%s: the client did not deliver it to the response handler within %s; chunks on the wire: %s%s", what, longWait, orOK(fmsg), drain(p))}
	}
	if res.panic != nil {
		return &failure{msg: fmt.Sprintf("%s: the client's SendRequest panicked: %v", what, res.panic)}
	}
	if res.err != nil {
		_, fmsg := r.frames(n0, netx.S2C)
		return &failure{timeout: res.err == ua.StatusBadTimeout, msg: fmt.Sprintf("%s: the client did not deliver it: SendRequest returns %v; chunks on the wire: %s%s", what, res.err, orOK(fmsg), drain(p))}
	}
	if res.calls != 1 {
		return &failure{msg: fmt.Sprintf("%s: response handler called %d times", what, res.calls)}
	}
	if !settled {
		var fmsg string
		if nch, fmsg = r.frames(n0, netx.S2C); fmsg != "" {
			return &failure{msg: fmt.Sprintf("%s: %s", what, fmsg)}
		}
	}
	if d := eq.Diff(resp, res.got); d != "" {
		return &failure{msg: fmt.Sprintf("%s, %d chunks: the response delivered to the client's handler differs from the one sent: %s", what, nch, d)}
	}
	if d := eq.Diff(carrier, m.Request()); d != "" {
		return &failure{msg: fmt.Sprintf("%s: the minimal ReadRequest delivered by the server's Receive differs from the one sent: %s", where, d)}
	}
	r.stats = append(r.stats, msgStat{dir: "s2c", service: x.Service, size: x.Size.String(), bodyLen: want, maxBody: mb, chunks: nch, sentinel: sentinel})
	return nil
}

// runCase executes the case on a fresh channel pair.
func runCase(c caseT) (stats []msgStat, fl *failure) {
	pol := polByFrag(c.Policy)
	if pol == nil || c.Mode < modeNone || c.Mode > modeEncrypt || (pol.Frag == "None") != (c.Mode == modeNone) {
		return nil, &failure{msg: "malformed case", infra: true}
	}
	r := &runner{c: c, q: newQuiesce()}
	r.limC2S, r.limS2C = negotiated(c.Buf)
	const maxMsg, maxChunks = 1 << 27, 1 << 14 // far above anything generated: the limits are not this property's subject
	r.o = chanpair.Options{
		Policy: uriPrefix + pol.Frag, Mode: ua.MessageSecurityMode(c.Mode), Tap: true, Hook: r.q.hook,
		RequestTimeout: longWait + 30*time.Second, ChannelID: 4711, TokenID: 815,
	}
	r.o.ClientACK = ackOf(c.Buf.CRecv, c.Buf.CSend, maxMsg, maxChunks)
	r.o.ServerACK = ackOf(c.Buf.SRecv, c.Buf.SSend, maxMsg, maxChunks)
	if c.Mode != modeNone {
		r.o.ClientKey = keys.Get("a", c.ClientBits)
		r.o.ServerKey = keys.Get("b", c.ServerBits)
	}
	p, err := chanpair.New(r.o)
	for try := 0; err != nil && try < 2; try++ {
		p, err = chanpair.New(r.o)
	}
	if err != nil {
		// The OpenSecureChannel exchange is chunk traffic too: if this
		// configuration cannot open a channel three times in a row while a
		// control configuration (same policy and mode, equal smallest keys,
		// default buffers) opens at once, the OPN chunks do not round-trip.
		ctl := chanpair.Options{Policy: r.o.Policy, Mode: r.o.Mode, RequestTimeout: r.o.RequestTimeout}
		if c.Mode != modeNone {
			ks := chanpair.KeySizes(r.o.Policy)
			ctl.ClientKey, ctl.ServerKey = keys.Get("a", ks[0]), keys.Get("b", ks[0])
		}
		if cp, cerr := chanpair.New(ctl); cerr == nil {
			cp.Close()
			return nil, &failure{msg: fmt.Sprintf("no channel can be opened in this configuration (3 attempts: %v) although the same policy and mode with equal %s-bit keys and default buffers opens at once: the OpenSecureChannel chunks are not accepted by the peer", err, "smallest")}
		}
		return nil, &failure{msg: "chanpair: " + err.Error(), infra: true}
	}
	defer p.Close()
	r.p = p

	exchanges := append(append([]exchT(nil), c.Exchanges...), exchT{
		Req:  msgT{Service: "ReadRequest", Size: sizeT{Kind: "min"}},
		Resp: msgT{Service: "ReadResponse", Size: sizeT{Kind: "min"}},
	})
	for xi, x := range exchanges {
		sentinel := xi == len(exchanges)-1
		where := fmt.Sprintf("exchange %d", xi+1)
		if sentinel {
			where = "sentinel exchange"
		}
		if fl := r.request(where, x.Req, sentinel); fl != nil {
			return r.stats, fl
		}
		if fl := r.response(where, x.Resp, uint32(1000+xi), sentinel); fl != nil {
			return r.stats, fl
		}
	}
	return r.stats, nil
}

func orOK(s string) string {
	if s == "" {
		return "well-formed"
	}
	return s
}

func descr(m any) string {
	switch v := m.(type) {
	case nil:
		return "nothing"
	case interface{ Request() ua.Request }:
		return fmt.Sprintf("%+v", v)
	}
	return fmt.Sprintf("%+v", m)
}

// drain lists errors the channel dispatchers reported (diagnostics only).
func drain(p *chanpair.Pair) string {
	var es []string
	for {
		select {
		case e := <-p.ClientErr:
			es = append(es, "client: "+e.Error())
		case e := <-p.ServerErr:
			es = append(es, "server: "+e.Error())
		default:
			if len(es) == 0 {
				return ""
			}
			return " [channel errors: " + strings.Join(es, "; ") + "]"
		}
	}
}

// ---------------------------------------------------------------------------
// Evidence

var rec = ev.For("C07", "rapid-generated channel pairs: 6 policies x valid modes x client/server RSA key sizes allowed by the policy (drawn independently) x Hello/Acknowledge buffer sizes {8192, 8193..8207, 16384, 65535, 65536, 2^17+-1, 2^20, drawn} (all four equal, or the server's send buffer the smallest); per pair 1-4 request/response exchanges (WriteRequest/ReadRequest/CallRequest, ReadResponse/PublishResponse/BrowseResponse) whose encoded body is min, min+1, k*maxBody-1..+1 (k=1..6) or a drawn size up to 6 chunks; one evaluation = one message in one direction; non-trivial = secured mode and (>= 2 chunks or body within 1 of a multiple of maxBody); distinct by (policy, mode, key sizes, buffers, direction, service, body length)")

func chunkClass(n int) string {
	switch {
	case n == 8192:
		return "8192"
	case n < 8208:
		return "8193..8207"
	case n <= 1<<14:
		return "<=2^14"
	case n <= 1<<16:
		return "<=2^16"
	case n <= 1<<17+1:
		return "<=2^17+1"
	default:
		return "<=2^20"
	}
}

func record(c caseT, stats []msgStat) {
	_, s2c := negotiated(c.Buf)
	equal := c.Buf.CRecv == c.Buf.CSend && c.Buf.CSend == c.Buf.SRecv && c.Buf.SRecv == c.Buf.SSend
	bufClass := "buf:server-send-smallest"
	if equal {
		bufClass = "buf:all-equal"
	}
	pm := c.Policy + "/" + modeName(c.Mode)
	for _, s := range stats {
		if s.sentinel {
			rec.Class("sentinel-messages")
			continue
		}
		near := false
		if s.maxBody > 0 {
			r := s.bodyLen % s.maxBody
			near = s.bodyLen >= s.maxBody-1 && (r <= 1 || r == s.maxBody-1)
		}
		nt := c.Mode != modeNone && (s.chunks >= 2 || near)
		nch := fmt.Sprintf("%d", s.chunks)
		if s.chunks > 3 {
			nch = "4+"
		}
		rec.Case(nt, ev.Hash(c.Policy, c.Mode, c.ClientBits, c.ServerBits, fmt.Sprint(c.Buf), s.dir, s.service, s.bodyLen),
			"pm:"+pm, s.dir+":size:"+s.size, s.dir+":chunks:"+nch, "svc:"+s.service,
			"chunksize:"+chunkClass(s2c), bufClass, "mode:"+modeName(c.Mode)+":size:"+s.size)
	}
	if c.Mode != modeNone {
		rec.Class(fmt.Sprintf("keys:%s:client%d/server%d", c.Policy, c.ClientBits, c.ServerBits))
	}
	rec.Class("pairs")
}

// ---------------------------------------------------------------------------
// Generator

// uni draws an (almost) uniformly distributed value in [0,n). rapid's integer
// generators deliberately favour small values and the range bounds, which
// would skew categorical choices; two draws are mixed to flatten that.
func uni(t *rapid.T, label string, n int) int {
	a := rapid.Uint64().Draw(t, label)
	b := rapid.Uint64().Draw(t, label+"'")
	x := a*0x9E3779B97F4A7C15 ^ (b+0xBF58476D1CE4E5B9)*0x94D049BB133111EB
	x ^= x >> 30
	x *= 0xBF58476D1CE4E5B9
	x ^= x >> 27
	x *= 0x94D049BB133111EB
	x ^= x >> 31
	return int(x % uint64(n))
}

func genSize(t *rapid.T, label string) sizeT {
	switch k := uni(t, label+"Kind", 20); {
	case k < 2:
		return sizeT{Kind: "min", D: uni(t, label+"D", 2)}
	case k < 8:
		return sizeT{Kind: "kmax", K: 1, D: uni(t, label+"D", 3) - 1}
	case k < 13:
		return sizeT{Kind: "kmax", K: 2, D: uni(t, label+"D", 3) - 1}
	case k < 17:
		return sizeT{Kind: "kmax", K: 3 + uni(t, label+"K", 4), D: uni(t, label+"D", 3) - 1}
	default:
		return sizeT{Kind: "frac", Frac: uni(t, label+"Frac", 1000000)}
	}
}

func genChunkSize(t *rapid.T) uint32 {
	switch k := uni(t, "sizeClass", 100); {
	case k < 18:
		return 8192
	case k < 40:
		return uint32(8193 + uni(t, "size", 15))
	case k < 50:
		return 16384
	case k < 63:
		return 65535
	case k < 73:
		return 65536
	case k < 79:
		return 1<<17 - 1
	case k < 85:
		return 1<<17 + 1
	case k < 85+ev.Pick(2, 5):
		return 1 << 20
	default:
		// magnitude first; the large ones are rare (a 6-chunk message is 6 MiB there)
		bits := 13 + uni(t, "bits", 4)
		if uni(t, "big", 100) < ev.Pick(8, 20) {
			bits = 17 + uni(t, "bits", 3)
		}
		n := 1<<bits + uni(t, "size", 1<<bits)
		if n > 1<<20 {
			n = 1 << 20
		}
		return uint32(n)
	}
}

func genCase(t *rapid.T) caseT {
	var c caseT
	// None carries no crypto: 1 in 10; the five secured policies share the rest
	if uni(t, "none", 10) == 0 {
		c.Policy, c.Mode = "None", modeNone
	} else {
		c.Policy = table[1+uni(t, "policy", 5)].Frag
		c.Mode = modeSign
		if uni(t, "encrypt", 5) < 3 {
			c.Mode = modeEncrypt
		}
	}
	ks := chanpair.KeySizes(uriPrefix + c.Policy)
	c.ClientBits = ks[uni(t, "clientKey", len(ks))]
	c.ServerBits = ks[uni(t, "serverKey", len(ks))]
	n := genChunkSize(t)
	c.Buf = bufT{n, n, n, n}
	if uni(t, "asym", 4) == 0 {
		extra := []uint32{0, 1, 15, 16, 4096, 1 << 16}
		c.Buf.CRecv = n + extra[uni(t, "xcr", len(extra))]
		c.Buf.CSend = n + extra[uni(t, "xcs", len(extra))]
		c.Buf.SRecv = n + extra[uni(t, "xsr", len(extra))]
	}
	nx := rapid.IntRange(1, 4).Draw(t, "exchanges")
	for i := 0; i < nx; i++ {
		var x exchT
		x.Req = msgT{Service: reqServices[uni(t, "reqSvc", len(reqServices))], Size: genSize(t, "req"), Fill: rapid.IntRange(0, 255).Draw(t, "reqFill")}
		x.Resp = msgT{Service: respServices[uni(t, "respSvc", len(respServices))], Size: genSize(t, "resp"), Fill: rapid.IntRange(0, 255).Draw(t, "respFill")}
		c.Exchanges = append(c.Exchanges, x)
	}
	return c
}

// ---------------------------------------------------------------------------
// Tests

// judge runs a case; a "nothing arrived in time" failure only counts when it
// repeats in two further executions (DESIGN 3.4).
func judge(c caseT) (stats []msgStat, fl *failure, inconclusive bool) {
	stats, fl = runCase(c)
	if fl == nil || !fl.timeout {
		return stats, fl, false
	}
	for i := 0; i < 2; i++ {
		if _, f2 := runCase(c); f2 == nil || f2.infra {
			return stats, nil, true
		}
	}
	return stats, fl, false
}

var infraCount, pairCount int

func TestChunking(t *testing.T) {
	rec.Assume("both ends are gopcua (a symmetric layout error is the subject of C08); message equality is verif/pkg/eq (nil and empty slices equal, times at 100 ns); the maximum body size read through VerifActiveMaxBodySize is used to aim body sizes and to label classes, never in the verdict; MaxMessageSize / MaxChunkCount are set far above the generated sizes; buffer configurations are restricted to those where Part 6 and gopcua agree on the chunk size of each direction (C06 covers the rest)")
	rapid.Check(t, func(t *rapid.T) {
		c := genCase(t)
		rec.Journal("TestChunking", c)
		t0 := time.Now()
		stats, fl, inconcl := judge(c)
		rec.JournalDone("TestChunking")
		if d := time.Since(t0); d > 10*time.Second {
			rec.Class("slow-case:>10s")
			if os.Getenv("VERIF_DEBUG") != "" {
				b, _ := json.Marshal(c)
				fmt.Printf("SLOW %s %s\n", d, b)
			}
		}
		pairCount++
		if inconcl {
			rec.Inconclusive()
			return
		}
		if fl != nil && fl.infra {
			infraCount++
			rec.Class("infra:" + trunc(fl.msg, 60))
			if infraCount > 5 && infraCount*20 > pairCount {
				t.Fatalf("INFRA: %d of %d channel pairs could not be set up, last: %s", infraCount, pairCount, fl.msg)
			}
			return
		}
		record(c, stats)
		if rec.WantSample() && len(stats) > 2 && c.Mode != modeNone {
			rec.Sample(map[string]any{"case": c, "messages": describe(stats)})
		}
		if fl != nil {
			rec.Fail(t, "TestChunking", c, "%s", fl.msg)
		}
	})
}

func trunc(s string, n int) string {
	if len(s) > n {
		return s[:n]
	}
	return s
}

func describe(stats []msgStat) []string {
	var out []string
	for _, s := range stats {
		if !s.sentinel {
			out = append(out, fmt.Sprintf("%s %s body=%d maxBody=%d chunks=%d", s.dir, s.service, s.bodyLen, s.maxBody, s.chunks))
		}
	}
	return out
}

// TestMessages is a self-test of the harness (not of gopcua's chunking): every
// message shape used here survives the codec and its length is linear in the
// payload. A failure is an infrastructure problem, not a violation.
func TestMessages(t *testing.T) {
	for _, n := range []int{0, 1, 300} {
		for _, s := range reqServices {
			r := buildReq(s, payload(n, 3))
			r.SetHeader(dummyReqHeader())
			r0 := buildReq(s, nil)
			r0.SetHeader(dummyReqHeader())
			l, err := bodyLen(r)
			l0, _ := bodyLen(r0)
			if err != nil || l != l0+n {
				t.Fatalf("INFRA: %s: len %d base %d payload %d (%v)", s, l, l0, n, err)
			}
			b, _ := ua.Encode(r)
			id, _ := ua.Encode(ua.NewFourByteExpandedNodeID(0, ua.ServiceTypeID(r)))
			_, v, err := ua.DecodeService(append(id, b...))
			if err != nil {
				t.Fatalf("INFRA: %s: %v", s, err)
			}
			if d := eq.Diff(r, v); d != "" {
				t.Fatalf("INFRA: %s does not survive the codec: %s", s, d)
			}
		}
		for _, s := range respServices {
			r := buildResp(s, payload(n, 3), 5)
			l, err := bodyLen(r)
			l0, _ := bodyLen(buildResp(s, nil, 5))
			if err != nil || l != l0+n {
				t.Fatalf("INFRA: %s: len %d base %d payload %d (%v)", s, l, l0, n, err)
			}
			b, _ := ua.Encode(r)
			id, _ := ua.Encode(ua.NewFourByteExpandedNodeID(0, ua.ServiceTypeID(r)))
			_, v, err := ua.DecodeService(append(id, b...))
			if err != nil {
				t.Fatalf("INFRA: %s: %v", s, err)
			}
			if d := eq.Diff(r, v); d != "" {
				t.Fatalf("INFRA: %s does not survive the codec: %s", s, d)
			}
		}
	}
}

// TestReplay re-runs a saved case without rapid.
func TestReplay(t *testing.T) {
	rp, err := ev.LoadReplay()
	if err != nil {
		t.Fatal(err)
	}
	if rp == nil {
		t.Skip("no VERIF_REPLAY")
	}
	var c caseT
	if err := json.Unmarshal(rp.Case, &c); err != nil {
		t.Fatal(err)
	}
	fmt.Println("REPLAYED structured")
	_, fl, inconcl := judge(c)
	if inconcl {
		t.Skip("inconclusive: a timeout did not repeat")
	}
	if fl != nil && fl.infra {
		t.Skipf("INFRA: %s", fl.msg)
	}
	if fl != nil {
		t.Fatalf("property C07 violated: %s", fl.msg)
	}
}
