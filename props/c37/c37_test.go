// Package c37 decides property C37: client and server interoperate under every
// supported security configuration.
//
// Domain (finite, enumerated): the 11 valid (policy, mode) pairs x client key
// size x server key size over the sizes each policy allows (chanpair.KeySizes;
// fixtures "a" = client, "b" = server) x user token {anonymous, username}.
// quick: per policy one rapid-drawn (client, server) key-size pair for all modes
// and tokens plus the largest/largest, smallest/largest and largest/smallest
// corners; thorough: the full product.
// The value written in every case is rapid-generated (scalar types of a
// variable node, byte strings of all lengths up to 4 KiB so that every padding
// alignment of the encrypted chunks occurs).
//
// Flow per case, as an application would write it:
// opcua.GetEndpoints -> opcua.SelectEndpoint(policy, mode) ->
// opcua.NewClient(SecurityFromEndpoint(ep, tokenType), PrivateKey, Certificate
// [, AuthUsername]) -> Connect -> Write(v) -> Read == v -> Close.
// Oracle: every step succeeds and the value read equals the value written.
//
// The gopcua server accepts any user name / password (session_service.go does
// not look at the identity token), so the username token needs no external
// credentials; certificate and issued tokens do and are not part of the domain.
package c37

import (
	"context"
	"encoding/json"
	"fmt"
	"math"
	"sort"
	"strings"
	"sync"
	"testing"
	"time"

	"github.com/gopcua/opcua"
	"github.com/gopcua/opcua/ua"
	"pgregory.net/rapid"

	"verif/pkg/chanpair"
	"verif/pkg/eq"
	"verif/pkg/ev"
	"verif/pkg/keys"
	"verif/pkg/stack"
)

func TestMain(m *testing.M) { ev.Main(m) }

const prefix = "http://opcfoundation.org/UA/SecurityPolicy#"

var rec = ev.For("C37", "enumerated configurations (policy, mode) x client key size x server key size (sizes each policy allows) x user token {anonymous, username}, each run as GetEndpoints -> SelectEndpoint -> SecurityFromEndpoint/PrivateKey/Certificate[/AuthUsername] -> Connect -> Write(rapid-generated value) -> Read -> Close against a real server whose certificate has the server key size and which enables every pair that key size supports; quick: one drawn key-size pair per policy plus the largest/largest, smallest/largest and largest/smallest corners, thorough: the full product; non-trivial = cryptography is involved (policy != None, or a username token whose password is encrypted); distinct by hash of (configuration, value)")

// ---------------------------------------------------------------------------
// values

type valueT struct {
	Kind  string `json:"kind"`
	Bits  uint64 `json:"bits,omitempty"`  // integers (two's complement), float bits, bool, time in unix ns
	Str   string `json:"str,omitempty"`   // string
	Bytes []byte `json:"bytes,omitempty"` // bytestring
}

var kinds = []string{"bool", "sbyte", "byte", "int16", "uint16", "int32", "uint32", "int64", "uint64", "float", "double", "string", "datetime", "bytestring"}

func (v valueT) native() any {
	switch v.Kind {
	case "bool":
		return v.Bits != 0
	case "sbyte":
		return int8(v.Bits)
	case "byte":
		return uint8(v.Bits)
	case "int16":
		return int16(v.Bits)
	case "uint16":
		return uint16(v.Bits)
	case "int32":
		return int32(v.Bits)
	case "uint32":
		return uint32(v.Bits)
	case "int64":
		return int64(v.Bits)
	case "uint64":
		return v.Bits
	case "float":
		return math.Float32frombits(uint32(v.Bits))
	case "double":
		return math.Float64frombits(v.Bits)
	case "string":
		return v.Str
	case "datetime":
		return time.Unix(0, int64(v.Bits)).UTC()
	case "bytestring":
		return v.Bytes
	}
	return nil
}

// initial is the value the variable of this kind is created with.
func initial(kind string) any { return valueT{Kind: kind, Str: "init", Bytes: []byte{0}}.native() }

// genValue draws a value of the given kind.
func genValue(t *rapid.T, kind string) valueT {
	v := valueT{Kind: kind}
	switch v.Kind {
	case "bool":
		v.Bits = uint64(rapid.IntRange(0, 1).Draw(t, "bool"))
	case "sbyte", "byte":
		v.Bits = uint64(rapid.Uint8().Draw(t, "u8"))
	case "int16", "uint16":
		v.Bits = uint64(rapid.Uint16().Draw(t, "u16"))
	case "int32", "uint32":
		v.Bits = uint64(rapid.Uint32().Draw(t, "u32"))
	case "int64", "uint64":
		v.Bits = rapid.Uint64().Draw(t, "u64")
	case "float":
		// finite values only: the codec's treatment of NaN payloads is C01's business
		f := float32(rapid.Float64Range(-1e30, 1e30).Draw(t, "f32"))
		v.Bits = uint64(math.Float32bits(f))
	case "double":
		v.Bits = math.Float64bits(rapid.Float64Range(-1e300, 1e300).Draw(t, "f64"))
	case "string":
		v.Str = rapid.StringN(1, 300, -1).Draw(t, "str") // valid UTF-8
	case "datetime":
		// 1970..2100, whole multiples of 100 ns (the wire resolution)
		v.Bits = uint64(rapid.Int64Range(0, 4102444800_0000000).Draw(t, "ticks") * 100)
	case "bytestring":
		n := rapid.IntRange(1, 4096).Draw(t, "blen")
		seed := rapid.Uint32().Draw(t, "bseed")
		b := make([]byte, n)
		x := seed | 1
		for i := range b {
			x ^= x << 13
			x ^= x >> 17
			x ^= x << 5
			b[i] = byte(x)
		}
		v.Bytes = b
	}
	return v
}

// ---------------------------------------------------------------------------
// configurations

type caseT struct {
	Policy     string `json:"policy"` // URI fragment
	Mode       int    `json:"mode"`
	ClientBits int    `json:"client_key_bits"`
	ServerBits int    `json:"server_key_bits"`
	Token      string `json:"token"` // anonymous | username
	User       string `json:"user,omitempty"`
	Pass       string `json:"pass,omitempty"`
	AuthFirst  bool   `json:"auth_option_first"` // AuthUsername before (true) or after SecurityFromEndpoint
	Value      valueT `json:"value"`
}

func (c caseT) config() string {
	return fmt.Sprintf("%s/%d c%d s%d %s", c.Policy, c.Mode, c.ClientBits, c.ServerBits, c.Token)
}

var policyFragments = []string{"None", "Basic128Rsa15", "Basic256", "Basic256Sha256", "Aes128_Sha256_RsaOaep", "Aes256_Sha256_RsaPss"}

var serverSizes = []int{1024, 1536, 2048, 3072, 4096}

func sizesOf(frag string) []int { return chanpair.KeySizes(prefix + frag) }

func supports(frag string, bits int) bool {
	if frag == "None" {
		return true
	}
	for _, s := range sizesOf(frag) {
		if s == bits {
			return true
		}
	}
	return false
}

func modesOf(frag string) []int {
	if frag == "None" {
		return []int{1}
	}
	return []int{2, 3}
}

// serverSec is what a server with this key size enables: None/None plus every
// pair of every policy that allows the key size, in the order of stack.AllSec.
func serverSec(bits int) []stack.Sec {
	var out []stack.Sec
	for _, s := range stack.AllSec {
		if supports(s.Policy, bits) {
			out = append(out, s)
		}
	}
	return out
}

// fullProduct lists every configuration (without value and credentials).
func fullProduct() []caseT {
	var out []caseT
	for _, p := range policyFragments {
		for _, m := range modesOf(p) {
			for _, ck := range sizesOf(p) {
				for _, sk := range sizesOf(p) {
					for _, tok := range []string{"anonymous", "username"} {
						out = append(out, caseT{Policy: p, Mode: m, ClientBits: ck, ServerBits: sk, Token: tok})
					}
				}
			}
		}
	}
	return out
}

// quickPlan: per policy one drawn key-size pair for all modes and tokens, plus
// the largest/largest corner (SignAndEncrypt+username and Sign+anonymous) and the
// smallest/largest and largest/smallest corners.
func quickPlan(t *rapid.T) []caseT {
	var out []caseT
	seen := map[string]bool{}
	add := func(c caseT) {
		if !seen[c.config()] {
			seen[c.config()] = true
			out = append(out, c)
		}
	}
	for _, p := range policyFragments {
		sz := sizesOf(p)
		ck := rapid.SampledFrom(sz).Draw(t, "clientbits:"+p)
		sk := rapid.SampledFrom(sz).Draw(t, "serverbits:"+p)
		for _, m := range modesOf(p) {
			for _, tok := range []string{"anonymous", "username"} {
				add(caseT{Policy: p, Mode: m, ClientBits: ck, ServerBits: sk, Token: tok})
			}
		}
		if p != "None" {
			mn, mx := sz[0], sz[len(sz)-1]
			add(caseT{Policy: p, Mode: 3, ClientBits: mx, ServerBits: mx, Token: "username"})
			add(caseT{Policy: p, Mode: 2, ClientBits: mx, ServerBits: mx, Token: "anonymous"})
			// the two most unequal pairs: whatever confuses the local with the remote key size shows here
			add(caseT{Policy: p, Mode: 3, ClientBits: mn, ServerBits: mx, Token: "anonymous"})
			add(caseT{Policy: p, Mode: 2, ClientBits: mx, ServerBits: mn, Token: "username"})
		}
	}
	return out
}

// ---------------------------------------------------------------------------
// servers (one per server key size, reused by all cases of this process)

var (
	srvMu   sync.Mutex
	servers = map[int]*stack.Server{}
)

func serverFor(bits int) (*stack.Server, error) {
	srvMu.Lock()
	defer srvMu.Unlock()
	if s, ok := servers[bits]; ok {
		return s, nil
	}
	s, err := stack.StartServer(stack.ServerOpts{
		Sec:  serverSec(bits),
		Auth: []ua.UserTokenType{ua.UserTokenTypeAnonymous, ua.UserTokenTypeUserName},
		Key:  keys.Get("b", bits),
	})
	if err != nil {
		return nil, err
	}
	for _, k := range kinds {
		s.AddVariable("v_"+k, initial(k))
	}
	servers[bits] = s
	return s, nil
}

func closeServers() {
	srvMu.Lock()
	defer srvMu.Unlock()
	for k, s := range servers {
		s.Close()
		delete(servers, k)
	}
}

// ---------------------------------------------------------------------------
// one case

type result struct {
	step    string // the step that failed ("" = all fine)
	msg     string
	timeout bool // the failure is (or may be) a timeout
	infra   string
}

func isTimeout(err error) bool {
	if err == nil {
		return false
	}
	s := err.Error()
	return strings.Contains(s, "deadline exceeded") || strings.Contains(s, "StatusBadTimeout") || strings.Contains(s, "i/o timeout")
}

func runCase(c caseT) (r result) {
	defer func() {
		if p := recover(); p != nil {
			r = result{step: "panic", msg: fmt.Sprintf("panic: %v", p)}
		}
	}()
	srv, err := serverFor(c.ServerBits)
	if err != nil {
		return result{infra: "cannot start server: " + err.Error()}
	}
	fail := func(step string, err error) result {
		return result{step: step, msg: fmt.Sprintf("%s failed: %v", step, err), timeout: isTimeout(err)}
	}
	ctx, cancel := context.WithTimeout(context.Background(), 90*time.Second)
	defer cancel()

	eps, err := opcua.GetEndpoints(ctx, srv.URL)
	if err != nil {
		return fail("GetEndpoints", err)
	}
	uri := prefix + c.Policy
	mode := ua.MessageSecurityMode(c.Mode)
	ep, err := opcua.SelectEndpoint(eps, uri, mode)
	if err != nil {
		return fail("SelectEndpoint (the server enables this pair)", err)
	}
	if ep.SecurityPolicyURI != uri || ep.SecurityMode != mode {
		return result{step: "SelectEndpoint", msg: fmt.Sprintf("SelectEndpoint(%s, %s) returned endpoint %s/%s", uri, mode, ep.SecurityPolicyURI, ep.SecurityMode)}
	}
	tokType := ua.UserTokenTypeAnonymous
	if c.Token == "username" {
		tokType = ua.UserTokenTypeUserName
	}
	advertised := false
	for _, t := range ep.UserIdentityTokens {
		if t != nil && t.TokenType == tokType {
			advertised = true
		}
	}
	if !advertised {
		return result{step: "endpoint", msg: fmt.Sprintf("the %s/%s endpoint does not advertise the %s token type the server enabled", c.Policy, mode, c.Token)}
	}

	ck := keys.Get("a", c.ClientBits)
	opts := []opcua.Option{opcua.PrivateKey(ck.Key), opcua.Certificate(ck.Cert), opcua.RequestTimeout(30 * time.Second), opcua.AutoReconnect(false)}
	sec := opcua.SecurityFromEndpoint(ep, tokType)
	if c.Token == "username" {
		if c.AuthFirst {
			opts = append(opts, opcua.AuthUsername(c.User, c.Pass), sec)
		} else {
			opts = append(opts, sec, opcua.AuthUsername(c.User, c.Pass))
		}
	} else {
		opts = append(opts, sec)
	}
	cl, err := opcua.NewClient(srv.URL, opts...)
	if err != nil {
		return fail("NewClient", err)
	}
	cctx, ccancel := context.WithTimeout(ctx, 60*time.Second)
	err = cl.Connect(cctx)
	ccancel()
	if err != nil {
		return fail("Connect", err)
	}
	closed := false
	defer func() {
		if !closed {
			cl.Close(context.Background())
		}
	}()
	node := srv.NodeID("v_" + c.Value.Kind)
	want := c.Value.native()
	st, err := stack.WriteValue(ctx, cl, node, want)
	if err != nil {
		return fail("Write", err)
	}
	if st != ua.StatusOK {
		return result{step: "Write", msg: fmt.Sprintf("Write returned status %v", st)}
	}
	dv, err := stack.ReadValue(ctx, cl, node)
	if err != nil {
		return fail("Read", err)
	}
	if dv == nil || dv.Status != ua.StatusOK || dv.Value == nil {
		return result{step: "Read", msg: fmt.Sprintf("Read returned %+v", dv)}
	}
	if d := eq.Diff(dv.Value.Value(), want); d != "" {
		return result{step: "Read", msg: fmt.Sprintf("value read differs from the value written (%s): %s", c.Value.Kind, d)}
	}
	closed = true
	if err := cl.Close(ctx); err != nil {
		return fail("Close", err)
	}
	return result{}
}

// judge runs a case with the timing rule of DESIGN 3.4: a failure is confirmed
// by re-execution; only 3 failures out of 3 are a violation.
func judge(c caseT) (msg string, inconclusive bool, infra string) {
	var first result
	for i := 0; i < 3; i++ {
		r := runCase(c)
		if r.infra != "" {
			return "", false, r.infra
		}
		if r.step == "" {
			if i > 0 {
				return "", true, ""
			}
			return "", false, ""
		}
		if i == 0 {
			first = r
		}
	}
	return first.msg, false, ""
}

func record(c caseT, inconclusive bool) {
	b, _ := json.Marshal(c)
	nontrivial := c.Policy != "None" || c.Token == "username"
	classes := []string{
		fmt.Sprintf("pair:%s/%s", c.Policy, ua.MessageSecurityMode(c.Mode)),
		fmt.Sprintf("keys:%s:client%d/server%d", c.Policy, c.ClientBits, c.ServerBits),
		"token:" + c.Token,
		"value:" + c.Value.Kind,
	}
	if c.Token == "username" {
		classes = append(classes, "username-on:"+c.Policy)
	}
	rec.Case(nontrivial, ev.Hash(b), classes...)
	if inconclusive {
		rec.Inconclusive()
		rec.Class("inconclusive:failed-then-passed")
	}
	if nontrivial && rec.WantSample() {
		rec.Sample(c)
	}
}

// ---------------------------------------------------------------------------
// tests

// TestInterop: one rapid check = one sweep over the tier's configurations that
// belong to this shard (partition by server key size), with drawn values.
func TestInterop(t *testing.T) {
	defer closeServers()
	rec.Assume("the server of a case has a certificate of the server key size and enables None/None plus every pair of every policy that allows this key size; both user token types are enabled; servers are reused between cases")
	rec.Assume("user name and password are arbitrary: the gopcua server does not look at the identity token (server/session_service.go), so success says the token was built and accepted, not that the credentials were recovered")
	rec.Assume("a failing case is re-executed; only 3 failures of 3 executions are a violation (failed-then-passed is counted as inconclusive)")
	sh, n := ev.Shard()
	// thorough: partition by server key size (each server is built once);
	// quick: partition by policy (the key sizes of a policy are drawn by the
	// shard that owns the policy, so the union over the shards is one plan)
	mine := func(c caseT) bool {
		if ev.Thorough() {
			for i, s := range serverSizes {
				if s == c.ServerBits {
					return i%n == sh
				}
			}
			return false
		}
		for i, p := range policyFragments {
			if p == c.Policy {
				return i%n == sh
			}
		}
		return false
	}
	sweeps := 0
	rapid.Check(t, func(t *rapid.T) {
		var plan []caseT
		if ev.Thorough() {
			plan = fullProduct()
		} else {
			plan = quickPlan(t)
		}
		// group by server so that each server is built once
		sort.SliceStable(plan, func(i, j int) bool { return plan[i].ServerBits < plan[j].ServerBits })
		// the kinds rotate from a drawn offset, so a sweep covers every scalar type
		kindOffset := rapid.IntRange(0, len(kinds)-1).Draw(t, "kindoffset")
		k := 0
		for _, c := range plan {
			if !mine(c) {
				continue
			}
			c.Value = genValue(t, kinds[(kindOffset+k)%len(kinds)])
			k++
			if c.Token == "username" {
				c.User = rapid.StringMatching(`[a-z][a-z0-9_.]{0,11}`).Draw(t, "user")
				c.Pass = rapid.StringMatching(`[ -~]{1,40}`).Draw(t, "pass")
				c.AuthFirst = rapid.Bool().Draw(t, "authfirst")
			}
			rec.Journal("TestInterop", c)
			msg, inconclusive, infra := judge(c)
			rec.JournalDone("TestInterop")
			if infra != "" {
				t.Fatalf("infrastructure: %s", infra)
			}
			record(c, inconclusive)
			if msg != "" {
				rec.Fail(t, "TestInterop", c, "configuration %s: %s", c.config(), msg)
			}
		}
		sweeps++
	})
	if ev.Thorough() && sweeps > 0 {
		// this shard enumerated its whole part of the product (summed over the shards by the driver)
		nmine := 0
		for _, c := range fullProduct() {
			if mine(c) {
				nmine++
			}
		}
		rec.Exhaustive()
		rec.Extra("configurations_in_full_product", float64(nmine))
	}
}

// TestReplay re-runs a saved case without rapid.
func TestReplay(t *testing.T) {
	defer closeServers()
	rp, err := ev.LoadReplay()
	if err != nil {
		t.Fatal(err)
	}
	if rp == nil {
		t.Skip("no VERIF_REPLAY")
	}
	var c caseT
	if err := json.Unmarshal(rp.Case, &c); err != nil {
		t.Fatal(err)
	}
	ok := false
	for _, p := range policyFragments {
		if p == c.Policy {
			ok = true
		}
	}
	if !ok || !supports(c.Policy, c.ServerBits) || c.Value.native() == nil {
		t.Fatalf("malformed case %+v", c)
	}
	fmt.Println("REPLAYED structured")
	msg, inconclusive, infra := judge(c)
	if infra != "" {
		t.Fatalf("infrastructure: %s", infra)
	}
	if inconclusive {
		fmt.Println("inconclusive: failed, then passed on re-execution")
	}
	if msg != "" {
		t.Fatalf("property C37 violated: configuration %s: %s", c.config(), msg)
	}
}
