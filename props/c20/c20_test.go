// Package c20 decides property C20: messages delivered to the application
// never change afterwards.
//
// 1-4 gopcua client/server channel pairs (policy None and encrypted policies)
// exchange 3-30 request/response pairs each, back to back and in parallel,
// single- and multi-chunk, mostly of the same sizes with different contents.
// Every request delivered by the server channel's Receive and every response
// delivered to a client SendRequest handler is snapshotted at delivery
// (re-encoded bytes + an independent deep copy) and compared with its snapshot
// after all traffic on all channels has ended.
package c20

import (
	"bytes"
	"context"
	"encoding/hex"
	"encoding/json"
	"fmt"
	"reflect"
	"strings"
	"sync"
	"testing"
	"time"

	"github.com/gopcua/opcua/ua"
	"github.com/gopcua/opcua/uacp"
	"pgregory.net/rapid"

	"verif/pkg/chanpair"
	"verif/pkg/eq"
	"verif/pkg/ev"
	"verif/pkg/gen"
	"verif/pkg/keys"
)

func TestMain(m *testing.M) { ev.Main(m) }

var rec = ev.For("C20", "1-4 gopcua channel pairs (None / Sign / SignAndEncrypt, buffer 8192 or 65535) x 3-30 request/response exchanges each, windowed back to back, 1-3 payload size classes per channel (tiny: whole message below 256 bytes; single and multi-chunk) with per-message contents: ByteStrings, string arrays, nested Variant arrays, optional generated Variant; every delivered request (server kind) and response (client kind) is snapshotted at delivery and compared after all traffic; non-trivial = some observed message carries a ByteString >= 64 B (or is a tiny message) and >= 2 later messages of the same size class followed on its channel; distinct by hash of the case")

type msgT struct {
	Class int    `json:"class"` // index into the channel's size classes (request)
	RClas int    `json:"rclass"`
	Seed  int    `json:"seed"`
	Extra string `json:"extra,omitempty"` // hex of an encoded Variant added to request and response
}

type chanT struct {
	Policy  string `json:"policy"` // "" = None
	Encrypt bool   `json:"encrypt"`
	Buf     uint32 `json:"buf"`
	Sizes   []int  `json:"sizes"`  // payload size classes (bytes of the main ByteString)
	Window  int    `json:"window"` // requests in flight
	Msgs    []msgT `json:"msgs"`
}

type caseT struct {
	Chans []chanT `json:"chans"`
}

// ---------------------------------------------------------------------------
// Messages

func pattern(n, seed int) []byte {
	b := make([]byte, n)
	x := uint32(seed)*2654435761 + 12345
	for i := range b {
		x = x*1664525 + 1013904223
		b[i] = byte(x >> 24)
	}
	return b
}

func words(n, seed int) []string {
	p := pattern(n*12, seed+1)
	out := make([]string, n)
	for i := range out {
		s := p[i*12 : i*12+12]
		for j := range s {
			s[j] = 'a' + s[j]%26
		}
		out[i] = string(s)
	}
	return out
}

func ints(n, seed int) []int32 {
	p := pattern(n*4, seed+2)
	out := make([]int32, n)
	for i := range out {
		out[i] = int32(p[i*4]) | int32(p[i*4+1])<<8 | int32(p[i*4+2])<<16 | int32(p[i*4+3])<<24
	}
	return out
}

func extraVariant(h string) (*ua.Variant, error) {
	if h == "" {
		return nil, nil
	}
	b, err := hex.DecodeString(h)
	if err != nil {
		return nil, err
	}
	v := new(ua.Variant)
	if _, err := v.Decode(b); err != nil {
		return nil, err
	}
	return v, nil
}

// values: the payload of a message of the given size class; the lengths depend
// only on size (and extra), the contents on seed.
func values(size, seed int, extra *ua.Variant) []*ua.Variant {
	if size < 0 {
		// tiny class: the whole message (all headers included) stays below 256
		// bytes - one ByteString of -size bytes and nothing else
		return []*ua.Variant{ua.MustVariant(pattern(-size, seed))}
	}
	nested := []*ua.Variant{ua.MustVariant(pattern(80, seed+3)), ua.MustVariant(ints(6, seed)), ua.MustVariant(string(words(1, seed + 4)[0])),
		ua.MustVariant([]*ua.Variant{ua.MustVariant(pattern(70, seed+5)), ua.MustVariant(words(2, seed+6))})}
	vs := []*ua.Variant{ua.MustVariant(pattern(size, seed)), ua.MustVariant(words(5, seed)), ua.MustVariant(nested), ua.MustVariant([][]byte{pattern(64, seed+7), pattern(65, seed+8)})}
	if extra != nil {
		vs = append(vs, extra)
	}
	return vs
}

func request(idx, size, seed int, extra *ua.Variant) *ua.WriteRequest {
	r := &ua.WriteRequest{NodesToWrite: []*ua.WriteValue{}}
	for i, v := range values(size, seed, extra) {
		id := ua.NewStringNodeID(2, words(1, seed+10+i)[0])
		if i == 0 {
			id = ua.NewNumericNodeID(1, uint32(idx)) // carries the exchange index
		}
		r.NodesToWrite = append(r.NodesToWrite, &ua.WriteValue{NodeID: id, AttributeID: ua.AttributeIDValue, IndexRange: words(1, seed+20+i)[0][:3],
			Value: &ua.DataValue{EncodingMask: ua.DataValueValue, Value: v}})
	}
	return r
}

func response(handle uint32, size, seed int, extra *ua.Variant) *ua.ReadResponse {
	r := &ua.ReadResponse{ResponseHeader: &ua.ResponseHeader{Timestamp: time.Unix(1_700_000_000, int64(seed)).UTC(), RequestHandle: handle,
		ServiceDiagnostics: &ua.DiagnosticInfo{EncodingMask: ua.DiagnosticInfoAdditionalInfo, AdditionalInfo: words(1, seed+30)[0]},
		StringTable:        words(3, seed+31), AdditionalHeader: ua.NewExtensionObject(nil)},
		Results: []*ua.DataValue{}, DiagnosticInfos: []*ua.DiagnosticInfo{}}
	if size < 0 {
		r.ResponseHeader.ServiceDiagnostics = &ua.DiagnosticInfo{}
		r.ResponseHeader.StringTable = []string{}
	}
	for _, v := range values(size, seed+1000, extra) {
		r.Results = append(r.Results, &ua.DataValue{EncodingMask: ua.DataValueValue | ua.DataValueSourceTimestamp, Value: v, SourceTimestamp: time.Unix(1_600_000_000, 0).UTC()})
	}
	return r
}

// ---------------------------------------------------------------------------
// Snapshots

// clone returns a deep copy that shares no memory with v (strings included).
func clone(v any) any {
	src := reflect.ValueOf(v)
	dst := reflect.New(src.Type()).Elem()
	dst.Set(src)
	deepen(dst, 0)
	return dst.Interface()
}

var timeType = reflect.TypeOf(time.Time{})

func deepen(v reflect.Value, depth int) {
	if depth > 100 {
		return
	}
	v = eq.Unlock(v)
	if !v.CanSet() {
		return
	}
	switch v.Kind() {
	case reflect.Ptr:
		if v.IsNil() {
			return
		}
		n := reflect.New(v.Type().Elem())
		n.Elem().Set(eq.Unlock(v.Elem()))
		deepen(n.Elem(), depth+1)
		v.Set(n)
	case reflect.Slice:
		if v.IsNil() {
			return
		}
		n := reflect.MakeSlice(v.Type(), v.Len(), v.Len())
		reflect.Copy(n, v)
		if k := v.Type().Elem().Kind(); k == reflect.Ptr || k == reflect.Slice || k == reflect.String || k == reflect.Interface || k == reflect.Struct || k == reflect.Array || k == reflect.Map {
			for i := 0; i < n.Len(); i++ {
				deepen(n.Index(i), depth+1)
			}
		}
		v.Set(n)
	case reflect.String:
		v.SetString(strings.Clone(v.String()))
	case reflect.Interface:
		if v.IsNil() {
			return
		}
		e := v.Elem()
		n := reflect.New(e.Type()).Elem()
		n.Set(e)
		deepen(n, depth+1)
		v.Set(n)
	case reflect.Struct:
		if v.Type() == timeType {
			return
		}
		for i := 0; i < v.NumField(); i++ {
			deepen(v.Field(i), depth+1)
		}
	case reflect.Array:
		for i := 0; i < v.Len(); i++ {
			deepen(v.Index(i), depth+1)
		}
	case reflect.Map:
		if v.IsNil() {
			return
		}
		n := reflect.MakeMapWithSize(v.Type(), v.Len())
		it := v.MapRange()
		for it.Next() {
			k := reflect.New(v.Type().Key()).Elem()
			k.Set(it.Key())
			deepen(k, depth+1)
			x := reflect.New(v.Type().Elem()).Elem()
			x.Set(it.Value())
			deepen(x, depth+1)
			n.SetMapIndex(k, x)
		}
		v.Set(n)
	}
}

type snapT struct {
	ch, idx   int
	kind      string // "request" (server kind) | "response" (client kind)
	class     int
	delivered any
	copy      any
	enc       []byte
	bigBytes  bool // carries a ByteString >= 64 B
	order     int  // delivery order on its channel and kind
}

func snapshot(ch, idx int, kind string, class int, v any) (*snapT, error) {
	enc, err := ua.Encode(v)
	if err != nil {
		return nil, fmt.Errorf("encode delivered %s: %v", kind, err)
	}
	return &snapT{ch: ch, idx: idx, kind: kind, class: class, delivered: v, copy: clone(v), enc: enc}, nil
}

// ---------------------------------------------------------------------------
// Execution

const waitBound = 30 * time.Second

type errTimeout struct{ what string }

func (e errTimeout) Error() string { return e.what }

type chanRun struct {
	p     *chanpair.Pair
	snaps []*snapT
	err   error
}

func runChan(ci int, c chanT) (r chanRun) {
	ack := func() *uacp.Acknowledge {
		return &uacp.Acknowledge{ReceiveBufSize: c.Buf, SendBufSize: c.Buf, MaxChunkCount: 512, MaxMessageSize: 4 << 20}
	}
	p, err := chanpair.New(chanpair.Options{Policy: c.Policy, Mode: chanpair.ModeFor(c.Policy, c.Encrypt), ClientKey: keys.Get("a", 2048), ServerKey: keys.Get("b", 2048),
		ClientACK: ack(), ServerACK: ack(), RequestTimeout: waitBound})
	if err != nil {
		r.err = err
		return
	}
	r.p = p
	ctx, cancel := context.WithTimeout(context.Background(), 2*waitBound)
	defer cancel()
	n := len(c.Msgs)
	extras := make([]*ua.Variant, n)
	for i, m := range c.Msgs {
		if extras[i], err = extraVariant(m.Extra); err != nil {
			r.err = fmt.Errorf("malformed case: extra of message %d: %v", i, err)
			return
		}
	}
	var mu sync.Mutex
	add := func(s *snapT, err error) {
		mu.Lock()
		defer mu.Unlock()
		if err != nil && r.err == nil {
			r.err = err
		}
		if s != nil {
			r.snaps = append(r.snaps, s)
		}
	}
	// server: deliver requests, answer each
	srvDone := make(chan struct{})
	go func() {
		defer close(srvDone)
		for k := 0; k < n; k++ {
			m := p.ServerReceive(waitBound)
			if m == nil {
				add(nil, errTimeout{fmt.Sprintf("channel %d: server Receive #%d did not return", ci, k)})
				return
			}
			if m.Err != nil {
				add(nil, fmt.Errorf("channel %d: server Receive #%d: %v", ci, k, m.Err))
				return
			}
			req, ok := m.Request().(*ua.WriteRequest)
			if !ok || len(req.NodesToWrite) == 0 {
				add(nil, fmt.Errorf("channel %d: server received %T", ci, m.Request()))
				return
			}
			idx := int(req.NodesToWrite[0].NodeID.IntID())
			if idx < 0 || idx >= n {
				add(nil, fmt.Errorf("channel %d: request index %d", ci, idx))
				return
			}
			s, err := snapshot(ci, idx, "request", c.Msgs[idx].Class, m.Request())
			if s != nil {
				s.order = k
			}
			add(s, err)
			mm := c.Msgs[idx]
			resp := response(req.RequestHeader.RequestHandle, c.Sizes[mm.RClas], mm.Seed, extras[idx])
			if err := p.Server.SendResponseWithContext(ctx, m.RequestID, resp); err != nil {
				add(nil, fmt.Errorf("channel %d: SendResponse %d: %v", ci, idx, err))
				return
			}
		}
	}()
	// client: requests back to back, Window in flight
	sem := make(chan struct{}, c.Window)
	var wg sync.WaitGroup
	order := 0
	for i, m := range c.Msgs {
		sem <- struct{}{}
		wg.Add(1)
		go func(i int, m msgT) {
			defer wg.Done()
			defer func() { <-sem }()
			req := request(i, c.Sizes[m.Class], m.Seed, extras[i])
			err := p.Client.SendRequest(ctx, req, nil, func(v ua.Response) error {
				s, err := snapshot(ci, i, "response", m.RClas, v)
				if s != nil {
					mu.Lock()
					s.order = order
					order++
					mu.Unlock()
				}
				add(s, err)
				return nil
			})
			if err == ua.StatusBadTimeout {
				add(nil, errTimeout{fmt.Sprintf("channel %d: request %d timed out", ci, i)})
			} else if err != nil {
				add(nil, fmt.Errorf("channel %d: SendRequest %d: %v", ci, i, err))
			}
		}(i, m)
	}
	wg.Wait()
	select {
	case <-srvDone:
	case <-time.After(waitBound):
		add(nil, errTimeout{fmt.Sprintf("channel %d: server loop did not finish", ci)})
	}
	return
}

func hasBigByteString(v any) bool {
	found := false
	var walk func(reflect.Value, int)
	walk = func(x reflect.Value, d int) {
		if found || d > 60 || !x.IsValid() {
			return
		}
		x = eq.Unlock(x)
		switch x.Kind() {
		case reflect.Ptr, reflect.Interface:
			if !x.IsNil() {
				walk(x.Elem(), d+1)
			}
		case reflect.Slice:
			if x.Type().Elem().Kind() == reflect.Uint8 {
				if x.Len() >= 64 {
					found = true
				}
				return
			}
			for i := 0; i < x.Len(); i++ {
				walk(x.Index(i), d+1)
			}
		case reflect.Struct:
			if x.Type() == timeType {
				return
			}
			for i := 0; i < x.NumField(); i++ {
				walk(x.Field(i), d+1)
			}
		}
	}
	walk(reflect.ValueOf(v), 0)
	return found
}

type outcome struct {
	msg     string
	nontriv bool
	classes []string
}

func validate(c caseT) error {
	if len(c.Chans) < 1 || len(c.Chans) > 4 {
		return fmt.Errorf("%d channels", len(c.Chans))
	}
	for _, ch := range c.Chans {
		if ch.Buf < 8192 || ch.Buf > 65535 || len(ch.Sizes) == 0 || len(ch.Msgs) < 1 || len(ch.Msgs) > 40 || ch.Window < 1 || ch.Window > 32 {
			return fmt.Errorf("channel parameters out of range")
		}
		for _, s := range ch.Sizes {
			if s < -200 || s > 300000 {
				return fmt.Errorf("size class %d", s)
			}
		}
		for _, m := range ch.Msgs {
			if m.Class < 0 || m.Class >= len(ch.Sizes) || m.RClas < 0 || m.RClas >= len(ch.Sizes) {
				return fmt.Errorf("message class out of range")
			}
		}
	}
	return nil
}

func runCase(c caseT) (o outcome, err error) {
	runs := make([]chanRun, len(c.Chans))
	var wg sync.WaitGroup
	for i := range c.Chans {
		wg.Add(1)
		go func(i int) {
			defer wg.Done()
			runs[i] = runChan(i, c.Chans[i])
		}(i)
	}
	wg.Wait()
	defer func() {
		for _, r := range runs {
			if r.p != nil {
				done := make(chan struct{})
				go func(p *chanpair.Pair) { p.Client.Close(); close(done) }(r.p)
				select {
				case <-done:
				case <-time.After(3 * time.Second):
				}
				r.p.Close()
			}
		}
	}()
	for _, r := range runs {
		if r.err != nil {
			return o, r.err
		}
	}
	// all traffic on all channels has ended: every delivered message must equal its snapshot
	multi, single, tiny := 0, 0, 0
	for ci, r := range runs {
		ch := c.Chans[ci]
		if want := 2 * len(ch.Msgs); len(r.snaps) != want {
			return o, fmt.Errorf("channel %d: %d deliveries, expected %d", ci, len(r.snaps), want)
		}
		for _, s := range r.snaps {
			enc, err := ua.Encode(s.delivered)
			if err != nil {
				o.msg = fmt.Sprintf("channel %d (%s): %s %d can no longer be encoded after later traffic: %v", ci, describe(ch), s.kind, s.idx, err)
				return o, nil
			}
			if d := eq.Diff(s.copy, s.delivered); d != "" {
				o.msg = fmt.Sprintf("channel %d (%s): delivered %s %d changed after delivery: %s", ci, describe(ch), s.kind, s.idx, d)
				return o, nil
			}
			if !bytes.Equal(enc, s.enc) {
				o.msg = fmt.Sprintf("channel %d (%s): delivered %s %d encodes differently after later traffic (first difference at byte %d of %d)", ci, describe(ch), s.kind, s.idx, firstDiff(enc, s.enc), len(s.enc))
				return o, nil
			}
			// non-triviality of this observation
			n := 0
			for _, t := range r.snaps {
				if t.kind == s.kind && t.class == s.class && t.order > s.order {
					n++
				}
			}
			if n >= 2 && (hasBigByteString(s.delivered) || len(s.enc) <= 200) {
				o.nontriv = true
			}
			if len(s.enc) <= 200 {
				tiny++
			}
			if len(s.enc)+64 > int(ch.Buf) {
				multi++
			} else {
				single++
			}
		}
	}
	o.classes = append(o.classes, fmt.Sprintf("channels:%d", len(c.Chans)))
	for _, ch := range c.Chans {
		o.classes = append(o.classes, "channel:"+describe(ch), fmt.Sprintf("window:%s", bucket(ch.Window)), fmt.Sprintf("exchanges:%s", bucket(len(ch.Msgs))))
	}
	rec.ClassN("delivered:whole-message-below-256-bytes", int64(tiny))
	rec.ClassN("delivered:multi-chunk", int64(multi))
	rec.ClassN("delivered:single-chunk", int64(single))
	return o, nil
}

func describe(ch chanT) string {
	if ch.Policy == "" {
		return fmt.Sprintf("None buf=%d", ch.Buf)
	}
	return fmt.Sprintf("%s/%s buf=%d", strings.TrimPrefix(fmt.Sprint(chanpair.ModeFor(ch.Policy, ch.Encrypt)), "MessageSecurityMode"), strings.TrimPrefix(ch.Policy, "http://opcfoundation.org/UA/SecurityPolicy#"), ch.Buf)
}

func bucket(n int) string {
	switch {
	case n <= 1:
		return "1"
	case n <= 4:
		return "2-4"
	case n <= 10:
		return "5-10"
	}
	return ">10"
}

func firstDiff(a, b []byte) int {
	for i := 0; i < len(a) && i < len(b); i++ {
		if a[i] != b[i] {
			return i
		}
	}
	if len(a) < len(b) {
		return len(a)
	}
	return len(b)
}

// check runs a case; timing-only failures are confirmed three times.
func check(c caseT) (o outcome, err error) {
	if err := validate(c); err != nil {
		return o, fmt.Errorf("malformed case: %w", err)
	}
	for attempt := 0; ; attempt++ {
		o, err = runCase(c)
		if to, ok := err.(errTimeout); ok {
			if attempt < 2 {
				continue
			}
			return o, fmt.Errorf("inconclusive (3 timeouts): %s", to.what)
		}
		return o, err
	}
}

// ---------------------------------------------------------------------------
// Generator

func genCase(t *rapid.T) caseT {
	var c caseT
	nch := rapid.SampledFrom([]int{1, 1, 2, 2, 3, 4}).Draw(t, "nchans")
	for i := 0; i < nch; i++ {
		var ch chanT
		switch rapid.IntRange(0, 4).Draw(t, "sec") {
		case 0, 1:
		case 2:
			ch.Policy, ch.Encrypt = ua.SecurityPolicyURIBasic256Sha256, true
		case 3:
			ch.Policy, ch.Encrypt = ua.SecurityPolicyURIBasic256Sha256, false
		default:
			ch.Policy = rapid.SampledFrom([]string{ua.SecurityPolicyURIBasic128Rsa15, ua.SecurityPolicyURIAes256Sha256RsaPss, ua.SecurityPolicyURIAes128Sha256RsaOaep}).Draw(t, "policy")
			ch.Encrypt = rapid.Bool().Draw(t, "encrypt")
		}
		ch.Buf = rapid.SampledFrom([]uint32{8192, 8192, 65535}).Draw(t, "buf")
		ns := rapid.SampledFrom([]int{1, 1, 2, 3}).Draw(t, "nsizes")
		for k := 0; k < ns; k++ {
			ch.Sizes = append(ch.Sizes, rapid.SampledFrom([]int{-1, -16, -100, -150, 64, 100, 1000, 5000, 7000, 9000, 20000, ev.Pick(40000, 120000)}).Draw(t, "size"))
		}
		ch.Window = rapid.SampledFrom([]int{1, 2, 4, 8}).Draw(t, "window")
		n := rapid.IntRange(3, ev.Pick(12, 30)).Draw(t, "nmsgs")
		for k := 0; k < n; k++ {
			m := msgT{Class: rapid.IntRange(0, ns-1).Draw(t, "class"), Seed: rapid.IntRange(0, 1<<20).Draw(t, "seed")}
			m.RClas = m.Class
			if rapid.IntRange(0, 3).Draw(t, "rclassDiffers") == 0 {
				m.RClas = rapid.IntRange(0, ns-1).Draw(t, "rclass")
			}
			if rapid.IntRange(0, 4).Draw(t, "extra") == 0 {
				if h := genExtra(t); h != "" {
					m.Extra = h
				}
			}
			ch.Msgs = append(ch.Msgs, m)
		}
		c.Chans = append(c.Chans, ch)
	}
	return c
}

// genExtra draws a Variant with pkg/gen and returns its encoding, provided the
// codec round-trips it (the codec is C01's subject, not C20's).
func genExtra(t *rapid.T) (h string) {
	defer func() {
		if recover() != nil {
			h = ""
		}
	}()
	v := gen.G{MaxDepth: 2, MaxSlice: 3}.Variant(t, 0)
	b, err := ua.Encode(v)
	if err != nil || len(b) > 4000 {
		return ""
	}
	w := new(ua.Variant)
	if _, err := w.Decode(b); err != nil {
		return ""
	}
	b2, err := ua.Encode(w)
	if err != nil || !bytes.Equal(b, b2) {
		return ""
	}
	return hex.EncodeToString(b)
}

func TestImmutable(t *testing.T) {
	rec.Assume("snapshots: ua.Encode of the delivered value plus a reflective deep copy (unexported fields included, strings cloned) taken inside the delivering call; compared with pkg/eq and byte-wise after all channels have finished; the codec is trusted only to be deterministic")
	rapid.Check(t, func(t *rapid.T) {
		c := genCase(t)
		o, err := check(c)
		if err != nil {
			if strings.HasPrefix(err.Error(), "inconclusive") {
				rec.Inconclusive()
				t.Skip(err.Error())
			}
			t.Fatalf("infrastructure: %v", err)
		}
		b, _ := json.Marshal(c)
		rec.Case(o.nontriv, ev.Hash(b), o.classes...)
		if o.nontriv && rec.WantSample() {
			rec.Sample(c)
		}
		if o.msg != "" {
			rec.Fail(t, "TestImmutable", c, "%s", o.msg)
		}
	})
}

// TestReplay re-runs a saved case without rapid.
func TestReplay(t *testing.T) {
	rp, err := ev.LoadReplay()
	if err != nil {
		t.Fatal(err)
	}
	if rp == nil {
		t.Skip("no VERIF_REPLAY")
	}
	var c caseT
	if err := json.Unmarshal(rp.Case, &c); err != nil {
		t.Fatal(err)
	}
	fmt.Println("REPLAYED structured")
	o, err := check(c)
	if err != nil {
		t.Fatalf("infrastructure: %v", err)
	}
	if o.msg != "" {
		t.Fatalf("property C20 violated: %s", o.msg)
	}
}

// TestCloneIndependent: the deep copy used for the snapshots shares no memory
// with its source (self-test of the oracle's trusted base).
func TestCloneIndependent(t *testing.T) {
	src := response(1, 100, 7, ua.MustVariant([]string{"x", "y"}))
	cp := clone(src).(*ua.ReadResponse)
	if d := eq.Diff(src, cp); d != "" {
		t.Fatalf("clone differs: %s", d)
	}
	// mutate every byte slice of the source in place
	src.Results[0].Value.Value().([]byte)[0] ^= 0xff
	src.ResponseHeader.StringTable[0] = "changed"
	if eq.Diff(src, cp) == "" {
		t.Fatalf("clone shares memory with its source")
	}
	b1, _ := ua.Encode(cp)
	b2, _ := ua.Encode(response(1, 100, 7, ua.MustVariant([]string{"x", "y"})))
	if !bytes.Equal(b1, b2) {
		t.Fatalf("clone does not encode like the original")
	}
}
