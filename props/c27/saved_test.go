package c27

// TestSavedCases runs the hand-minimised cases of testdata/replay/c27 (each one
// reproduced a mode of the repaired signalling defect) in every tier.

import (
	"encoding/json"
	"os"
	"path/filepath"
	"sort"
	"testing"

	"verif/pkg/ev"
)

func TestSavedCases(t *testing.T) {
	root := os.Getenv("VERIF_ROOT")
	if root == "" {
		root = "../.."
	}
	files, _ := filepath.Glob(filepath.Join(root, "testdata", "replay", "c27", "*.json"))
	sort.Strings(files)
	if len(files) == 0 {
		t.Skip("no saved cases")
	}
	for _, f := range files {
		b, err := os.ReadFile(f)
		if err != nil {
			t.Fatalf("infrastructure: %v", err)
		}
		var rp ev.Replay
		if err := json.Unmarshal(b, &rp); err != nil {
			t.Fatalf("infrastructure: %s: %v", f, err)
		}
		name := filepath.Base(f)
		var c Case
		if err := json.Unmarshal(rp.Case, &c); err != nil {
			t.Fatalf("infrastructure: %s: %v", f, err)
		}
		c.Observed = nil
		msg, _, err := decide(&c, func(f string, a ...any) { t.Logf(f, a...) })
		if err != nil {
			t.Logf("%s: no verdict: %v", name, err)
			rec.Inconclusive()
			continue
		}
		rec.Case(true, ev.Hash("saved", name), "saved-case:"+name)
		if msg != "" {
			rec.Fail(t, "TestDeadlock", c, "saved case %s: %s", name, msg)
		}
	}
}
